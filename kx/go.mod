module kx

go 1.23
