// kx — translator from the generated Go kernels of gorgonia.org/tensor/internal/execution
// to a Coq table (KernelTable.v).  Standard library only.
//
//	kx -repo /repo -out <dir>
//
// Every run parses the sources again; output is deterministic (source order, no maps iterated).
package main

import (
	"bytes"
	"flag"
	"fmt"
	"go/ast"
	"go/parser"
	"go/printer"
	"go/token"
	"os"
	"path/filepath"
	"sort"
	"strconv"
	"strings"
)

// ---------------------------------------------------------------------------------------------
// element-type suffixes

type sufInfo struct{ suf, gotype, class string }

// longest first, so that "I16" wins over "I" and "Uintptr" over "U"... (matching is on the END of the name)
var sufs = []sufInfo{
	{"UnsafePointer", "unsafe.Pointer", "COther"},
	{"Uintptr", "uintptr", "COther"},
	{"C128", "complex128", "C128"},
	{"C64", "complex64", "C64"},
	{"F32", "float32", "F32"},
	{"F64", "float64", "F64"},
	{"I16", "int16", "Signed"},
	{"I32", "int32", "Signed"},
	{"I64", "int64", "Signed"},
	{"U16", "uint16", "Unsigned"},
	{"U32", "uint32", "Unsigned"},
	{"U64", "uint64", "Unsigned"},
	{"Str", "string", "CStr"},
	{"I8", "int8", "Signed"},
	{"U8", "uint8", "Unsigned"},
	{"I", "int", "Signed"},
	{"U", "uint", "Unsigned"},
	{"B", "bool", "CBool"},
}

func splitName(name string) (fam string, si *sufInfo) {
	for i := range sufs {
		if strings.HasSuffix(name, sufs[i].suf) && len(name) > len(sufs[i].suf) {
			return name[:len(name)-len(sufs[i].suf)], &sufs[i]
		}
	}
	return name, nil
}

var genericFiles = []string{
	"generic_arith_vv.go", "generic_arith_mixed.go", "generic_arith.go",
	"generic_cmp_vv.go", "generic_cmp_mixed.go", "generic_unary.go",
	"generic_minmax.go", "generic_map.go", "generic_reduce.go",
	"generic_argmethods.go",
}

// files holding dispatch switches (reduction_specialization.go contains only `switch t` tables)
var dispatchFiles = []string{
	"eng_arith.go", "eng_arith_manual.go", "eng_cmp.go", "eng_unary.go",
	"eng_minmaxbetween.go", "eng_map.go", "eng_reduce.go", "eng_argmethods.go",
	"reduction_specialization.go",
}

// ---------------------------------------------------------------------------------------------
// Coq rendering helpers

func q(s string) string { return `"` + strings.ReplaceAll(s, `"`, `""`) + `"` }

func coqList(xs []string) string {
	if len(xs) == 0 {
		return "[]"
	}
	return "[" + strings.Join(xs, "; ") + "]"
}

func par(s string) string {
	if strings.ContainsAny(s, " ") && !(strings.HasPrefix(s, "[") && strings.HasSuffix(s, "]") && balanced(s)) && !(strings.HasPrefix(s, `"`) && strings.Count(s, `"`) == 2) {
		return "(" + s + ")"
	}
	return s
}

// balanced reports whether the leading '[' closes at the very end (so the text is ONE list)
func balanced(s string) bool {
	depth := 0
	inStr := false
	for i := 0; i < len(s); i++ {
		c := s[i]
		if c == '"' {
			inStr = !inStr
			continue
		}
		if inStr {
			continue
		}
		if c == '[' {
			depth++
		} else if c == ']' {
			depth--
			if depth == 0 && i != len(s)-1 {
				return false
			}
		}
	}
	return depth == 0
}

func app(head string, args ...string) string {
	var b strings.Builder
	b.WriteString(head)
	for _, a := range args {
		b.WriteByte(' ')
		b.WriteString(par(a))
	}
	return b.String()
}

// ---------------------------------------------------------------------------------------------
// translation context

type ctx struct {
	fset    *token.FileSet
	elem    string // Go spelling of the element type ("" when unknown)
	suf     string
	kernels map[string]bool
	opaque  int
}

func (c *ctx) text(n ast.Node) string {
	var buf bytes.Buffer
	printer.Fprint(&buf, c.fset, n)
	return strings.Join(strings.Fields(buf.String()), " ")
}

func typeName(e ast.Expr) string {
	switch t := e.(type) {
	case *ast.Ident:
		return t.Name
	case *ast.SelectorExpr:
		if x, ok := t.X.(*ast.Ident); ok {
			return x.Name + "." + t.Sel.Name
		}
	}
	return ""
}

var builtinTypes = map[string]bool{
	"int": true, "int8": true, "int16": true, "int32": true, "int64": true,
	"uint": true, "uint8": true, "uint16": true, "uint32": true, "uint64": true, "uintptr": true,
	"float32": true, "float64": true, "complex64": true, "complex128": true, "bool": true, "string": true,
	"unsafe.Pointer": true,
}

func (c *ctx) namedTy(n string) string {
	if n == c.elem && n != "" {
		return "TT"
	}
	switch n {
	case "int":
		return "TInt"
	case "bool":
		return "TBool"
	case "float64":
		return "TFloat64"
	case "complex128":
		return "TComplex128"
	case "string":
		return "TString"
	}
	return app("TNamed", q(n))
}

func (c *ctx) ty(e ast.Expr) string {
	switch t := e.(type) {
	case *ast.Ident, *ast.SelectorExpr:
		if n := typeName(t); n != "" {
			return c.namedTy(n)
		}
	case *ast.ArrayType:
		if t.Len == nil {
			return app("TSlice", c.ty(t.Elt))
		}
	case *ast.Ellipsis:
		return app("TVariadic", c.ty(t.Elt))
	case *ast.StarExpr:
		return app("TNamed", q("*"+c.text(t.X)))
	case *ast.InterfaceType:
		if t.Methods == nil || len(t.Methods.List) == 0 {
			return app("TNamed", q("interface{}"))
		}
	case *ast.FuncType:
		var as, rs []string
		for _, f := range fieldTypes(t.Params) {
			as = append(as, c.ty(f))
		}
		for _, f := range fieldTypes(t.Results) {
			rs = append(rs, c.ty(f))
		}
		return app("TFunc", coqList(as), coqList(rs))
	}
	c.opaque++
	return app("TNamed", q("?"+c.text(e)))
}

// one type expression per declared name (or one per anonymous field)
func fieldTypes(fl *ast.FieldList) []ast.Expr {
	var out []ast.Expr
	if fl == nil {
		return out
	}
	for _, f := range fl.List {
		n := len(f.Names)
		if n == 0 {
			n = 1
		}
		for i := 0; i < n; i++ {
			out = append(out, f.Type)
		}
	}
	return out
}

func (c *ctx) fields(fl *ast.FieldList) string {
	var out []string
	if fl == nil {
		return "[]"
	}
	for _, f := range fl.List {
		if len(f.Names) == 0 {
			out = append(out, "("+q("")+", "+c.ty(f.Type)+")")
			continue
		}
		for _, n := range f.Names {
			out = append(out, "("+q(n.Name)+", "+c.ty(f.Type)+")")
		}
	}
	return coqList(out)
}

// erase the type suffix inside a referenced kernel name: ReduceI8 (inside an I8 kernel) -> ReduceT
func (c *ctx) ident(name string) string {
	if c.kernels[name] && c.suf != "" {
		if fam, si := splitName(name); si != nil && si.suf == c.suf {
			return fam + "T"
		}
	}
	return name
}

var binops = map[token.Token]string{
	token.ADD: "OAdd", token.SUB: "OSub", token.MUL: "OMul", token.QUO: "ODiv", token.REM: "OMod",
	token.EQL: "OEq", token.NEQ: "ONe", token.LSS: "OLt", token.LEQ: "OLe", token.GTR: "OGt", token.GEQ: "OGe",
	token.LAND: "OAnd", token.LOR: "OOr",
}

var assignOps = map[token.Token]string{
	token.ADD_ASSIGN: "OAdd", token.SUB_ASSIGN: "OSub", token.MUL_ASSIGN: "OMul",
	token.QUO_ASSIGN: "ODiv", token.REM_ASSIGN: "OMod",
}

func (c *ctx) opaqueE(e ast.Node) string {
	c.opaque++
	return app("OpaqueE", q(c.text(e)))
}

func (c *ctx) exprs(es []ast.Expr) string {
	var out []string
	for _, e := range es {
		out = append(out, c.expr(e))
	}
	return coqList(out)
}

func (c *ctx) expr(e ast.Expr) string {
	switch t := e.(type) {
	case nil:
		return "ENone"
	case *ast.Ident:
		return app("Var", q(c.ident(t.Name)))
	case *ast.BasicLit:
		switch t.Kind {
		case token.INT, token.FLOAT:
			return app("Lit", q(t.Value))
		case token.STRING:
			if s, err := strconv.Unquote(t.Value); err == nil {
				return app("StrLit", q(s))
			}
		}
	case *ast.ParenExpr:
		return c.expr(t.X)
	case *ast.IndexExpr:
		return app("Idx", c.expr(t.X), c.expr(t.Index))
	case *ast.UnaryExpr:
		switch t.Op {
		case token.SUB:
			return app("Un", "UNeg", c.expr(t.X))
		case token.NOT:
			return app("Un", "UNot", c.expr(t.X))
		}
	case *ast.BinaryExpr:
		if op, ok := binops[t.Op]; ok {
			return app("Bin", op, c.expr(t.X), c.expr(t.Y))
		}
	case *ast.SliceExpr:
		if !t.Slice3 {
			return app("Slice", c.expr(t.X), c.expr(t.Low), c.expr(t.High))
		}
	case *ast.SelectorExpr:
		if n := typeName(t); n != "" {
			return app("Var", q(n))
		}
	case *ast.CallExpr:
		args := make([]string, len(t.Args))
		for i, a := range t.Args {
			args[i] = c.expr(a)
		}
		if t.Ellipsis.IsValid() && len(args) > 0 {
			args[len(args)-1] = app("Spread", args[len(args)-1])
		}
		fn := t.Fun
		if p, ok := fn.(*ast.ParenExpr); ok {
			fn = p.X
		}
		n := typeName(fn)
		if n == "" {
			break
		}
		if id, ok := fn.(*ast.Ident); ok {
			if id.Name == "len" && len(args) == 1 {
				return app("Len", args[0])
			}
		}
		if builtinTypes[n] && len(args) == 1 {
			return app("Conv", c.namedTy(n), args[0])
		}
		if _, ok := fn.(*ast.Ident); ok {
			n = c.ident(n)
		}
		return app("Call", q(n), coqList(args))
	}
	return c.opaqueE(e)
}

func (c *ctx) opaqueS(s ast.Node) []string {
	c.opaque++
	return []string{app("Opaque", q(c.text(s)))}
}

func (c *ctx) block(b *ast.BlockStmt) string {
	if b == nil {
		return "[]"
	}
	var out []string
	for _, s := range b.List {
		out = append(out, c.stmt(s)...)
	}
	return coqList(out)
}

// a statement in a position where exactly one is required (for/if init, post)
func (c *ctx) stmt1(s ast.Stmt) string {
	if s == nil {
		return "Skip"
	}
	r := c.stmt(s)
	if len(r) == 1 {
		return r[0]
	}
	return c.opaqueS(s)[0]
}

func identName(e ast.Expr) (string, bool) {
	if e == nil {
		return "", true
	}
	if id, ok := e.(*ast.Ident); ok {
		return id.Name, true
	}
	return "", false
}

func (c *ctx) stmt(s ast.Stmt) []string {
	switch t := s.(type) {
	case *ast.EmptyStmt:
		return nil
	case *ast.ExprStmt:
		return []string{app("ExprS", c.expr(t.X))}
	case *ast.IncDecStmt:
		return []string{app("IncDec", map[bool]string{true: "true", false: "false"}[t.Tok == token.INC], c.expr(t.X))}
	case *ast.BranchStmt:
		if t.Label == nil {
			switch t.Tok {
			case token.CONTINUE:
				return []string{"Continue"}
			case token.BREAK:
				return []string{"Break"}
			}
		}
	case *ast.ReturnStmt:
		return []string{app("Return", c.exprs(t.Results))}
	case *ast.AssignStmt:
		switch {
		case t.Tok == token.ASSIGN && len(t.Lhs) == 1 && len(t.Rhs) == 1:
			// errs = append(errs, x)
			if l, ok := t.Lhs[0].(*ast.Ident); ok && l.Name == "errs" {
				if call, ok := t.Rhs[0].(*ast.CallExpr); ok && len(call.Args) == 2 && !call.Ellipsis.IsValid() {
					f, _ := identName(call.Fun)
					a0, _ := identName(call.Args[0])
					if f == "append" && a0 == "errs" {
						return []string{app("AppendErrs", c.expr(call.Args[1]))}
					}
				}
			}
			return []string{app("Assign", c.expr(t.Lhs[0]), c.expr(t.Rhs[0]))}
		case t.Tok == token.ASSIGN && len(t.Lhs) > 1 && len(t.Rhs) == 1:
			return []string{app("AssignN", c.exprs(t.Lhs), c.expr(t.Rhs[0]))}
		case t.Tok == token.DEFINE && len(t.Rhs) == 1:
			var names []string
			for _, l := range t.Lhs {
				n, ok := identName(l)
				if !ok {
					return c.opaqueS(s)
				}
				names = append(names, q(n))
			}
			return []string{app("Define", coqList(names), c.expr(t.Rhs[0]))}
		default:
			if op, ok := assignOps[t.Tok]; ok && len(t.Lhs) == 1 && len(t.Rhs) == 1 {
				return []string{app("OpAssign", op, c.expr(t.Lhs[0]), c.expr(t.Rhs[0]))}
			}
		}
	case *ast.DeclStmt:
		gd, ok := t.Decl.(*ast.GenDecl)
		if !ok || gd.Tok != token.VAR {
			break
		}
		var out []string
		for _, sp := range gd.Specs {
			vs, ok := sp.(*ast.ValueSpec)
			if !ok || vs.Type == nil {
				return c.opaqueS(s)
			}
			var names []string
			for _, n := range vs.Names {
				names = append(names, q(n.Name))
			}
			out = append(out, app("VarDecl", coqList(names), c.ty(vs.Type), c.exprs(vs.Values)))
		}
		return out
	case *ast.IfStmt:
		var el string
		switch e := t.Else.(type) {
		case nil:
			el = "[]"
		case *ast.BlockStmt:
			el = c.block(e)
		default:
			el = coqList(c.stmt(e))
		}
		return []string{app("If", c.stmt1(t.Init), c.expr(t.Cond), c.block(t.Body), el)}
	case *ast.ForStmt:
		if t.Init == nil && t.Cond == nil && t.Post == nil {
			return []string{app("Loop", c.block(t.Body))}
		}
		return []string{app("ForC", c.stmt1(t.Init), c.expr(t.Cond), c.stmt1(t.Post), c.block(t.Body))}
	case *ast.RangeStmt:
		k, ok1 := identName(t.Key)
		v, ok2 := identName(t.Value)
		if ok1 && ok2 && (t.Tok == token.DEFINE || t.Key == nil) {
			return []string{app("Range", q(k), q(v), c.expr(t.X), c.block(t.Body))}
		}
	}
	return c.opaqueS(s)
}

// ---------------------------------------------------------------------------------------------
// output with sharing: identical parameter lists / bodies are emitted once (exact text is the key)

type pool struct {
	prefix string
	idx    map[string]int
	defs   []string
}

func newPool(p string) *pool { return &pool{prefix: p, idx: map[string]int{}} }

func (p *pool) get(text string) string {
	if i, ok := p.idx[text]; ok {
		return p.prefix + strconv.Itoa(i)
	}
	i := len(p.defs) + 1
	p.idx[text] = i
	p.defs = append(p.defs, text)
	return p.prefix + strconv.Itoa(i)
}

type fileStat struct {
	name                       string
	funcs, classified, opaqueF int
	opaqueN                    int
}

// ---------------------------------------------------------------------------------------------
// dispatch extraction

type drow struct {
	method, tcase, sel, kernel, use string
	args                           []string
}

type dctx struct {
	fset    *token.FileSet
	kernels map[string]bool
	env     map[string]string // local := accessor()  resolutions
	rows    *[]drow
	method  string
	tcase   string
	elem    string // Go spelling of the type belonging to the type case
}

func compact(s string) string { return strings.Join(strings.Fields(s), "") }

func (d *dctx) text(n ast.Node) string {
	var buf bytes.Buffer
	printer.Fprint(&buf, d.fset, n)
	return strings.Join(strings.Fields(buf.String()), " ")
}

// render an argument, resolving locals bound to zero-argument accessor calls (at := a.Ints())
func (d *dctx) arg(e ast.Expr) string {
	switch t := e.(type) {
	case *ast.Ident:
		if r, ok := d.env[t.Name]; ok {
			return r
		}
		return t.Name
	case *ast.IndexExpr:
		return d.arg(t.X) + "[" + d.arg(t.Index) + "]"
	case *ast.ParenExpr:
		return d.arg(t.X)
	}
	return d.text(e)
}

func (d *dctx) bind(s ast.Stmt) {
	as, ok := s.(*ast.AssignStmt)
	if !ok || as.Tok != token.DEFINE || len(as.Lhs) != 1 || len(as.Rhs) != 1 {
		return
	}
	id, ok := as.Lhs[0].(*ast.Ident)
	if !ok {
		return
	}
	call, ok := as.Rhs[0].(*ast.CallExpr)
	if !ok || len(call.Args) != 0 {
		return
	}
	if sel, ok := call.Fun.(*ast.SelectorExpr); ok {
		if x, ok := sel.X.(*ast.Ident); ok {
			d.env[id.Name] = x.Name + "." + sel.Sel.Name + "()"
		}
	}
}

// the type of a type-switch case, with the element type of the current type case erased to T
func (d *dctx) eraseType(e ast.Expr) string {
	switch t := e.(type) {
	case *ast.Ident, *ast.SelectorExpr:
		n := typeName(t)
		if n == d.elem {
			return "T"
		}
		return n
	case *ast.ArrayType:
		if t.Len == nil {
			return "[]" + d.eraseType(t.Elt)
		}
	case *ast.FuncType:
		var as, rs []string
		for _, f := range fieldTypes(t.Params) {
			as = append(as, d.eraseType(f))
		}
		for _, f := range fieldTypes(t.Results) {
			rs = append(rs, d.eraseType(f))
		}
		s := "func(" + strings.Join(as, ",") + ")"
		if len(rs) == 1 {
			s += rs[0]
		} else if len(rs) > 1 {
			s += "(" + strings.Join(rs, ",") + ")"
		}
		return s
	}
	return compact(d.text(e))
}

func (d *dctx) scanExpr(n ast.Node, sel, use string) {
	if n == nil {
		return
	}
	ast.Inspect(n, func(x ast.Node) bool {
		switch t := x.(type) {
		case *ast.CallExpr:
			if id, ok := t.Fun.(*ast.Ident); ok && d.kernels[id.Name] {
				var args []string
				for i, a := range t.Args {
					s := d.arg(a)
					if t.Ellipsis.IsValid() && i == len(t.Args)-1 {
						s += "..."
					}
					args = append(args, s)
				}
				*d.rows = append(*d.rows, drow{d.method, d.tcase, sel, id.Name, use, args})
				// still look into the arguments (kernel names passed as values)
				for _, a := range t.Args {
					d.scanExpr(a, sel, "value")
				}
				return false
			}
		case *ast.Ident:
			if d.kernels[t.Name] {
				*d.rows = append(*d.rows, drow{d.method, d.tcase, sel, t.Name, use, nil})
			}
		}
		return true
	})
}

func (d *dctx) walk(stmts []ast.Stmt, sel string) {
	for _, s := range stmts {
		d.bind(s)
		switch t := s.(type) {
		case *ast.ExprStmt:
			d.scanExpr(t.X, sel, "expr")
		case *ast.AssignStmt:
			use := "other"
			if len(t.Lhs) == 1 {
				if id, ok := t.Lhs[0].(*ast.Ident); ok {
					if t.Tok == token.DEFINE {
						use = id.Name + ":="
					} else if t.Tok == token.ASSIGN {
						use = id.Name + "="
					}
				}
			}
			for _, r := range t.Rhs {
				d.scanExpr(r, sel, use)
			}
		case *ast.ReturnStmt:
			if len(t.Results) > 1 {
				for i, r := range t.Results {
					d.scanExpr(r, sel, "return"+strconv.Itoa(i))
				}
			} else {
				for _, r := range t.Results {
					d.scanExpr(r, sel, "return")
				}
			}
		case *ast.IfStmt:
			if t.Init != nil {
				d.walk([]ast.Stmt{t.Init}, sel)
			}
			d.scanExpr(t.Cond, sel, "cond")
			d.walk(t.Body.List, sel)
			if t.Else != nil {
				d.walk([]ast.Stmt{t.Else}, sel)
			}
		case *ast.BlockStmt:
			d.walk(t.List, sel)
		case *ast.ForStmt:
			d.walk(t.Body.List, sel)
		case *ast.RangeStmt:
			d.walk(t.Body.List, sel)
		case *ast.SwitchStmt:
			for _, cc := range t.Body.List {
				cl := cc.(*ast.CaseClause)
				s2 := "default"
				if cl.List != nil {
					var parts []string
					for _, e := range cl.List {
						parts = append(parts, compact(d.text(e)))
					}
					s2 = strings.Join(parts, ",")
				}
				if t.Tag != nil {
					s2 = compact(d.text(t.Tag)) + ":" + s2
				}
				if sel != "none" {
					s2 = sel + "/" + s2
				}
				d.walk(cl.Body, s2)
			}
		case *ast.TypeSwitchStmt:
			for _, cc := range t.Body.List {
				cl := cc.(*ast.CaseClause)
				s2 := "default"
				if cl.List != nil {
					var parts []string
					for _, e := range cl.List {
						parts = append(parts, d.eraseType(e))
					}
					s2 = strings.Join(parts, ",")
				}
				s2 = "type:" + s2
				if sel != "none" {
					s2 = sel + "/" + s2
				}
				d.walk(cl.Body, s2)
			}
		case *ast.DeclStmt:
			// var declarations carry no kernel references in these files
		}
	}
}

// Go spelling of the element type named by a reflect.Type variable of package execution (Int8 -> int8)
func tcaseElem(tc string) string {
	if tc == "UnsafePointer" {
		return "unsafe.Pointer"
	}
	if tc == "String" {
		return "string"
	}
	return strings.ToLower(tc)
}

func extractDispatch(fset *token.FileSet, fd *ast.FuncDecl, kernels map[string]bool, rows *[]drow) (found bool) {
	if fd.Body == nil {
		return false
	}
	d := &dctx{fset: fset, kernels: kernels, rows: rows, method: fd.Name.Name}
	fenv := map[string]string{}
	d.env = fenv
	for _, s := range fd.Body.List {
		d.bind(s)
		sw, ok := s.(*ast.SwitchStmt)
		if !ok {
			continue
		}
		if tag, ok := sw.Tag.(*ast.Ident); !ok || tag.Name != "t" {
			continue
		}
		found = true
		for _, cc := range sw.Body.List {
			cl := cc.(*ast.CaseClause)
			if cl.List == nil {
				d.tcase = "default"
			} else {
				var parts []string
				for _, e := range cl.List {
					parts = append(parts, compact(d.text(e)))
				}
				d.tcase = strings.Join(parts, ",")
			}
			d.elem = tcaseElem(d.tcase)
			d.env = map[string]string{}
			for k, v := range fenv {
				d.env[k] = v
			}
			d.walk(cl.Body, "none")
		}
		d.env = fenv
	}
	return found
}

// ---------------------------------------------------------------------------------------------

func main() {
	repo := flag.String("repo", "/repo", "root of the gorgonia.org/tensor checkout")
	out := flag.String("out", ".", "output directory for KernelTable.v")
	only := flag.String("only", "", "comma separated subset of generic files (debugging)")
	summary := flag.String("summary", "", "optional: write a family -> suffix:class:params,rets,body summary to this file")
	flag.Parse()

	dir := filepath.Join(*repo, "internal", "execution")
	fset := token.NewFileSet()

	gfiles := genericFiles
	if *only != "" {
		gfiles = strings.Split(*only, ",")
	}

	parse := func(name string) *ast.File {
		f, err := parser.ParseFile(fset, filepath.Join(dir, name), nil, parser.SkipObjectResolution)
		if err != nil {
			fmt.Fprintf(os.Stderr, "kx: parse error: %v\n", err)
			os.Exit(1)
		}
		return f
	}

	type gfile struct {
		name string
		f    *ast.File
	}
	var gs []gfile
	kernels := map[string]bool{}
	for _, n := range gfiles {
		f := parse(n)
		gs = append(gs, gfile{n, f})
		for _, d := range f.Decls {
			if fd, ok := d.(*ast.FuncDecl); ok && fd.Recv == nil {
				kernels[fd.Name.Name] = true
			}
		}
	}

	params := newPool("p_")
	bodies := newPool("b_")
	var kdefs []string
	var stats []fileStat
	var opaqueKernels []string
	totalOpaque := 0
	famIdx := map[string]int{}
	var famOrder []string
	var famRows [][]string

	for _, g := range gs {
		st := fileStat{name: g.name}
		for _, d := range g.f.Decls {
			fd, ok := d.(*ast.FuncDecl)
			if !ok || fd.Recv != nil {
				continue
			}
			st.funcs++
			name := fd.Name.Name
			fam, si := splitName(name)
			c := &ctx{fset: fset, kernels: kernels}
			class, suf := "COther", ""
			if si != nil {
				c.elem, c.suf = si.gotype, si.suf
				class, suf = si.class, si.suf
				st.classified++
			}
			ps := params.get(c.fields(fd.Type.Params))
			rs := params.get(c.fields(fd.Type.Results))
			body := bodies.get(c.block(fd.Body))
			if c.opaque > 0 {
				st.opaqueF++
				st.opaqueN += c.opaque
				opaqueKernels = append(opaqueKernels, name)
			}
			totalOpaque += c.opaque
			kdefs = append(kdefs, app("mkK", q(name), q(fam), q(suf), class, q(c.elem), ps, rs, body))
			if _, ok := famIdx[fam]; !ok {
				famIdx[fam] = len(famOrder)
				famOrder = append(famOrder, fam)
				famRows = append(famRows, nil)
			}
			famRows[famIdx[fam]] = append(famRows[famIdx[fam]], suf+":"+class+":"+ps+","+rs+","+body)
		}
		stats = append(stats, st)
	}

	// dispatch
	var rows []drow
	var dstats []string
	nDispatchFuncs := 0
	for _, n := range dispatchFiles {
		f := parse(n)
		before := len(rows)
		nf := 0
		for _, d := range f.Decls {
			fd, ok := d.(*ast.FuncDecl)
			if !ok {
				continue
			}
			if extractDispatch(fset, fd, kernels, &rows) {
				nf++
			}
		}
		nDispatchFuncs += nf
		dstats = append(dstats, fmt.Sprintf("%-32s dispatch functions %3d  rows %5d", n, nf, len(rows)-before))
	}

	// ------------------------------------------------------------------ emit
	var b strings.Builder
	b.WriteString("(* KernelTable.v — GENERATED by kx from gorgonia.org/tensor/internal/execution. DO NOT EDIT. *)\n")
	b.WriteString("From Coq Require Import String.\nFrom TV Require Import Base Kernel.\nOpen Scope string_scope.\n\n")
	for i, p := range params.defs {
		fmt.Fprintf(&b, "Definition p_%d : list (string * kty) := %s.\n", i+1, p)
	}
	b.WriteString("\n")
	for i, p := range bodies.defs {
		fmt.Fprintf(&b, "Definition b_%d : list kstmt := %s.\n", i+1, p)
	}
	b.WriteString("\n")
	var knames []string
	for i, k := range kdefs {
		fmt.Fprintf(&b, "Definition k_%d := %s.\n", i+1, k)
		knames = append(knames, "k_"+strconv.Itoa(i+1))
	}
	b.WriteString("\nDefinition kernels : list kernel :=\n  " + wrapList(knames) + ".\n\n")

	args := newPool("a_")
	var dnames []string
	var dbuf strings.Builder
	for i, r := range rows {
		var as []string
		for _, a := range r.args {
			as = append(as, q(a))
		}
		an := args.get(coqList(as))
		fmt.Fprintf(&dbuf, "Definition d_%d := %s.\n", i+1, app("mkD", q(r.method), q(r.tcase), q(r.sel), q(r.kernel), an, q(r.use)))
		dnames = append(dnames, "d_"+strconv.Itoa(i+1))
	}
	for i, a := range args.defs {
		fmt.Fprintf(&b, "Definition a_%d : list string := %s.\n", i+1, a)
	}
	b.WriteString("\n")
	b.WriteString(dbuf.String())
	b.WriteString("\nDefinition dispatch : list dispatch_row :=\n  " + wrapList(dnames) + ".\n")

	if err := os.MkdirAll(*out, 0o755); err != nil {
		fmt.Fprintln(os.Stderr, "kx:", err)
		os.Exit(1)
	}
	if err := os.WriteFile(filepath.Join(*out, "KernelTable.v"), []byte(b.String()), 0o644); err != nil {
		fmt.Fprintln(os.Stderr, "kx:", err)
		os.Exit(1)
	}

	// ------------------------------------------------------------------ statistics
	tf, tc, tof, ton := 0, 0, 0, 0
	for _, s := range stats {
		fmt.Printf("%-32s functions %4d  classified %4d  with-opaque %3d  opaque-nodes %3d\n", s.name, s.funcs, s.classified, s.opaqueF, s.opaqueN)
		tf += s.funcs
		tc += s.classified
		tof += s.opaqueF
		ton += s.opaqueN
	}
	fmt.Printf("%-32s functions %4d  classified %4d  with-opaque %3d  opaque-nodes %3d\n", "TOTAL", tf, tc, tof, ton)
	fmt.Printf("distinct parameter lists %d, distinct bodies %d\n", len(params.defs), len(bodies.defs))
	for _, s := range dstats {
		fmt.Println(s)
	}
	fmt.Printf("dispatch functions %d, rows %d, distinct argument lists %d\n", nDispatchFuncs, len(rows), len(args.defs))
	sort.Strings(opaqueKernels)
	if len(opaqueKernels) > 0 {
		fmt.Println("kernels with opaque nodes:", strings.Join(opaqueKernels, " "))
	}
	_ = totalOpaque
	if *summary != "" {
		var sb strings.Builder
		for i, f := range famOrder {
			sb.WriteString(f + " " + strings.Join(famRows[i], " ") + "\n")
		}
		if err := os.WriteFile(*summary, []byte(sb.String()), 0o644); err != nil {
			fmt.Fprintln(os.Stderr, "kx:", err)
			os.Exit(1)
		}
	}
}

func wrapList(xs []string) string {
	var b strings.Builder
	b.WriteString("[")
	for i, x := range xs {
		if i > 0 {
			b.WriteString("; ")
			if i%12 == 0 {
				b.WriteString("\n   ")
			}
		}
		b.WriteString(x)
	}
	b.WriteString("]")
	return b.String()
}
