package main

import (
	"fmt"
)

func init() { gens["C10"] = genC10 }

func genC10(tier string, r *rng, emit func(string)) {
	genXKinds("C10", emit)
	recycleMotifs(emit) // results built on recycled structs (Repeat, Stack, Concat among the follow-ups)
	thorough := tier == "thorough"
	n := 9000
	if thorough {
		n = 120000
	}
	lay := append(append([]string{}, ewLayouts...), "rm", "rm")
	for i := 0; i < n; i++ {
		sh := randShape(r, 1, 4, 3)
		if prod(sh) > 30 {
			continue
		}
		kind := []string{"stack", "concat", "repeat"}[r.intn(3)]
		dt := []string{"f64", "i", "u8", "c128", "str", "i16"}[i%6]
		var p pb
		pre, ia := source(r, lay[r.intn(len(lay))], sh, 1)
		a := p.add(pre, ia)
		switch kind {
		case "stack", "concat":
			nops := r.rangeInt(0, 3)
			var others []int
			axis := r.rangeInt(0, len(sh)-1)
			if kind == "stack" {
				axis = r.rangeInt(0, len(sh))
			}
			form := ""
			if kind == "concat" {
				// the horizontal / vertical shorthands and the package-level function
				switch r.intn(4) {
				case 0:
					if len(sh) >= 1 {
						form = ":h"
						axis = 1
						if len(sh) == 1 {
							axis = 0
						}
					}
				case 1:
					if len(sh) >= 2 {
						form = ":v"
						axis = 0
					}
				case 2:
					form = ":api"
				}
			}
			for k := 0; k < nops; k++ {
				shb := append([]int{}, sh...)
				if kind == "concat" && r.intn(2) == 0 {
					shb[axis] = r.rangeInt(1, 3)
				}
				if r.intn(20) == 0 { // a misfit
					shb[r.intn(len(shb))] += 1
				}
				preB, ib := source(r, lay[r.intn(len(lay))], shb, 30+10*k)
				others = append(others, p.add(preB, ib))
			}
			if r.intn(25) == 0 && (form == "" || form == ":api") {
				axis = len(sh) + 1 // invalid axis
			}
			if form == ":h" || form == ":v" {
				// slicing may have dropped axes: the shorthands are emitted only when every operand
				// really has the rank they demand (their own rank refusals are not modelled)
				need := 1
				if form == ":v" {
					need = 2
				}
				for _, id := range append([]int{a}, others...) {
					if s, ok := shapeAfter("f64", p.prog(), id); !ok || len(s) < need || len(s) != len(sh) {
						form = ""
					}
				}
			}
			p.ops = append(p.ops, fmt.Sprintf("%s:%d:%d:%s%s", kind, a, axis, fints(others), form))
		default:
			axis := r.rangeInt(-1, len(sh)-1)
			if r.intn(25) == 0 {
				axis = len(sh)
			}
			var reps []int
			ext := 1
			if axis >= 0 && axis < len(sh) {
				ext = sh[axis]
			} else if axis == -1 {
				ext = prod(sh)
			}
			if r.intn(2) == 0 {
				reps = []int{r.rangeInt(0, 3)}
			} else {
				for k := 0; k < ext; k++ {
					reps = append(reps, r.rangeInt(0, 2))
				}
				if r.intn(15) == 0 {
					reps = append(reps, 1) // wrong count
				}
			}
			p.ops = append(p.ops, fmt.Sprintf("repeat:%d:%d:%s", a, axis, fints(reps)))
		}
		emit(fmt.Sprintf("prog %s %s", pickDt(dt, p.prog()), p.prog()))
	}
}
