package main

// elementwise operations of the program language

import (
	"fmt"
	"strings"

	"gorgonia.org/tensor"
)

func (w *world) opts(mode string, same bool) []tensor.FuncOpt {
	var o []tensor.FuncOpt
	f := strings.Split(mode, ".")
	switch f[0] {
	case "unsafe":
		o = append(o, tensor.UseUnsafe())
	case "reuse":
		o = append(o, tensor.WithReuse(w.ts[atoi(f[1])]))
	case "incr":
		o = append(o, tensor.WithIncr(w.ts[atoi(f[1])]))
	case "ur": // ur.<reuse>: UseUnsafe together with WithReuse - the destination takes precedence
		o = append(o, tensor.UseUnsafe(), tensor.WithReuse(w.ts[atoi(f[1])]))
	case "both": // both.<reuse>.<incr>
		o = append(o, tensor.WithReuse(w.ts[atoi(f[1])]), tensor.WithIncr(w.ts[atoi(f[2])]))
	}
	if same {
		o = append(o, tensor.AsSameType())
	}
	return o
}

func (w *world) ret(r tensor.Tensor, err error) string {
	if err != nil {
		return "err"
	}
	d, ok := r.(*tensor.Dense)
	if !ok || d == nil {
		// no error and no result: not a refusal
		return "nilresult"
	}
	return w.newOrSame(d)
}

type binF func(a, b interface{}, opts ...tensor.FuncOpt) (tensor.Tensor, error)

var binFuncs = map[string]binF{
	"add": tensor.Add, "sub": tensor.Sub, "mul": tensor.Mul, "div": tensor.Div, "mod": tensor.Mod, "pow": tensor.Pow,
	"min": tensor.MinBetween, "max": tensor.MaxBetween,
	"gt": tensor.Gt, "gte": tensor.Gte, "lt": tensor.Lt, "lte": tensor.Lte, "eq": tensor.ElEq, "ne": tensor.ElNe,
}

func denseBin(op string, a, b *tensor.Dense, o []tensor.FuncOpt) (*tensor.Dense, error) {
	switch op {
	case "add":
		return a.Add(b, o...)
	case "sub":
		return a.Sub(b, o...)
	case "mul":
		return a.Mul(b, o...)
	case "div":
		return a.Div(b, o...)
	case "mod":
		return a.Mod(b, o...)
	case "pow":
		return a.Pow(b, o...)
	case "gt":
		return a.Gt(b, o...)
	case "gte":
		return a.Gte(b, o...)
	case "lt":
		return a.Lt(b, o...)
	case "lte":
		return a.Lte(b, o...)
	case "eq":
		return a.ElEq(b, o...)
	case "ne":
		return a.ElNe(b, o...)
	}
	return nil, fmt.Errorf("no method form")
}

func denseBinS(op string, a *tensor.Dense, s interface{}, left bool, o []tensor.FuncOpt) (*tensor.Dense, error) {
	switch op {
	case "add":
		return a.AddScalar(s, left, o...)
	case "sub":
		return a.SubScalar(s, left, o...)
	case "mul":
		return a.MulScalar(s, left, o...)
	case "div":
		return a.DivScalar(s, left, o...)
	case "mod":
		return a.ModScalar(s, left, o...)
	case "pow":
		return a.PowScalar(s, left, o...)
	case "gt":
		return a.GtScalar(s, left, o...)
	case "gte":
		return a.GteScalar(s, left, o...)
	case "lt":
		return a.LtScalar(s, left, o...)
	case "lte":
		return a.LteScalar(s, left, o...)
	case "eq":
		return a.ElEqScalar(s, left, o...)
	case "ne":
		return a.ElNeScalar(s, left, o...)
	}
	return nil, fmt.Errorf("no method form")
}

func hasMethodForm(op string) bool { return op != "min" && op != "max" }

type unF func(a tensor.Tensor, opts ...tensor.FuncOpt) (tensor.Tensor, error)

var unFuncs = map[string]unF{
	"neg": tensor.Neg, "square": tensor.Square, "cube": tensor.Cube, "abs": tensor.Abs, "sign": tensor.Sign, "sqrt": tensor.Sqrt,
}

func init() {
	// bin:<op>:<a>:<b>:<mode>[:method]
	progOps["bin"] = func(w *world, f []string) string {
		a, b := w.ts[atoi(f[2])], w.ts[atoi(f[3])]
		o := w.opts(f[4], false)
		if (len(f) > 5 && f[5] == "method") != w.alt && hasMethodForm(f[1]) {
			if r, err := denseBin(f[1], a, b, o); err != nil || r != nil {
				if err != nil {
					return "err"
				}
				return w.newOrSame(r)
			}
		}
		return w.ret(binFuncs[f[1]](a, b, o...))
	}
	// bins:<op>:<t>:<scalar>:<left|right>:<mode>[:method]
	progOps["bins"] = func(w *world, f []string) string {
		t := w.ts[atoi(f[2])]
		s := tokVal(w.dt, atoi(f[3]))
		o := w.opts(f[5], false)
		left := f[4] == "left"
		if (len(f) > 6 && f[6] == "method") != w.alt && hasMethodForm(f[1]) {
			r, err := denseBinS(f[1], t, s, left, o)
			if err != nil {
				return "err"
			}
			return w.newOrSame(r)
		}
		if left {
			return w.ret(binFuncs[f[1]](t, s, o...))
		}
		return w.ret(binFuncs[f[1]](s, t, o...))
	}
	// cmp:<op>:<a>:<b>:<bool|same>:<mode>[:method]
	progOps["cmp"] = func(w *world, f []string) string {
		a, b := w.ts[atoi(f[2])], w.ts[atoi(f[3])]
		o := w.opts(f[5], f[4] == "same")
		if (len(f) > 6 && f[6] == "method") != w.alt {
			r, err := denseBin(f[1], a, b, o)
			if err != nil {
				return "err"
			}
			return w.newOrSame(r)
		}
		return w.ret(binFuncs[f[1]](a, b, o...))
	}
	// cmps:<op>:<t>:<scalar>:<left|right>:<bool|same>:<mode>[:method]
	progOps["cmps"] = func(w *world, f []string) string {
		t := w.ts[atoi(f[2])]
		s := tokVal(w.dt, atoi(f[3]))
		o := w.opts(f[6], f[5] == "same")
		left := f[4] == "left"
		if (len(f) > 7 && f[7] == "method") != w.alt {
			r, err := denseBinS(f[1], t, s, left, o)
			if err != nil {
				return "err"
			}
			return w.newOrSame(r)
		}
		if left {
			return w.ret(binFuncs[f[1]](t, s, o...))
		}
		return w.ret(binFuncs[f[1]](s, t, o...))
	}
	// reduce:<sum|min|max>:<a>:<axes>   (axes "_" = none given = all); reports the axes slice afterwards
	progOps["reduce"] = func(w *world, f []string) string {
		a := w.ts[atoi(f[2])]
		axes := ints(f[3])
		var r tensor.Tensor
		var err error
		switch f[1] {
		case "sum":
			if w.alt {
				r, err = a.Sum(axes...)
			} else {
				r, err = tensor.Sum(a, axes...)
			}
		case "min":
			r, err = a.Min(axes...)
		case "max":
			r, err = a.Max(axes...)
		}
		st := w.ret(r, err)
		return st + ";ax=" + fints(axes)
	}
	// arg:<max|min>:<a>:<axis>
	// reducefn:sum:<t>:<axis> : Dense.Reduce with a user function (a+b) and default value 0
	progOps["reducefn"] = func(w *world, f []string) string {
		t := w.ts[atoi(f[2])]
		var fn, def interface{}
		// the user function: a+b, or the smaller / the bigger of the two; the default value is 0
		switch w.dt + ":" + f[1] {
		case "f64:sum":
			fn, def = func(a, b float64) float64 { return a + b }, float64(0)
		case "f64:min":
			fn, def = func(a, b float64) float64 {
				if b < a {
					return b
				}
				return a
			}, float64(0)
		case "f64:max":
			fn, def = func(a, b float64) float64 {
				if b > a {
					return b
				}
				return a
			}, float64(0)
		case "f32:sum":
			fn, def = func(a, b float32) float32 { return a + b }, float32(0)
		case "i:sum":
			fn, def = func(a, b int) int { return a + b }, int(0)
		case "i:min":
			fn, def = func(a, b int) int {
				if b < a {
					return b
				}
				return a
			}, int(0)
		case "i:max":
			fn, def = func(a, b int) int {
				if b > a {
					return b
				}
				return a
			}, int(0)
		case "i64:sum":
			fn, def = func(a, b int64) int64 { return a + b }, int64(0)
		case "i32:sum":
			fn, def = func(a, b int32) int32 { return a + b }, int32(0)
		default:
			panic("reducefn dtype/function")
		}
		r, err := t.Reduce(fn, atoi(f[3]), def)
		if err != nil {
			return "err"
		}
		return w.newOrSame(r)
	}
	progOps["arg"] = func(w *world, f []string) string {
		a := w.ts[atoi(f[2])]
		var r tensor.Tensor
		var err error
		switch {
		case f[1] == "max" && !w.alt:
			r, err = tensor.Argmax(a, atoi(f[3]))
		case f[1] == "max":
			r, err = a.Argmax(atoi(f[3]))
		case !w.alt:
			r, err = tensor.Argmin(a, atoi(f[3]))
		default:
			r, err = a.Argmin(atoi(f[3]))
		}
		return w.ret(r, err)
	}
	// lin:<matmul|matvec|outer>:<a>:<b>:<safe|reuse.r|incr.r>   inner:<a>:<b>   trace:<a>
	progOps["lin"] = func(w *world, f []string) string {
		a, b := w.ts[atoi(f[2])], w.ts[atoi(f[3])]
		o := w.opts(f[4], false)
		var r *tensor.Dense
		var err error
		if w.alt {
			var rt tensor.Tensor
			switch f[1] {
			case "matmul":
				rt, err = tensor.MatMul(a, b, o...)
			case "matvec":
				rt, err = tensor.MatVecMul(a, b, o...)
			case "outer":
				rt, err = tensor.Outer(a, b, o...)
			}
			return w.ret(rt, err)
		}
		switch f[1] {
		case "matmul":
			r, err = a.MatMul(b, o...)
		case "matvec":
			r, err = a.MatVecMul(b, o...)
		case "outer":
			r, err = a.Outer(b, o...)
		}
		if err != nil {
			return "err"
		}
		return w.newOrSame(r)
	}
	// tmul:<a>:<b>:<axesA>:<axesB> : Dense.TensorMul (general contraction); the axes slices are copies
	progOps["tmul"] = func(w *world, f []string) string {
		if w.alt {
			return w.ret(tensor.Contract(w.ts[atoi(f[1])], w.ts[atoi(f[2])], ints(f[3]), ints(f[4])))
		}
		r, err := w.ts[atoi(f[1])].TensorMul(w.ts[atoi(f[2])], ints(f[3]), ints(f[4]))
		if err != nil {
			return "err"
		}
		return w.newOrSame(r)
	}
	progOps["inner"] = func(w *world, f []string) string {
		var v interface{}
		var err error
		if w.alt {
			v, err = tensor.Inner(w.ts[atoi(f[1])], w.ts[atoi(f[2])])
		} else {
			v, err = w.ts[atoi(f[1])].Inner(w.ts[atoi(f[2])])
		}
		if err != nil {
			return "err"
		}
		return fmt.Sprintf("val:%d", valTok(v))
	}
	progOps["trace"] = func(w *world, f []string) string {
		v, err := w.ts[atoi(f[1])].Trace()
		if err != nil {
			return "err"
		}
		return fmt.Sprintf("val:%d", valTok(v))
	}
	// stack:<t>:<axis>:<others>  concat:<t>:<axis>:<others>  repeat:<t>:<axis>:<reps>
	progOps["stack"] = func(w *world, f []string) string {
		var os []tensor.Tensor
		for _, i := range ints(f[3]) {
			os = append(os, w.ts[i])
		}
		r, err := tensor.Stack(atoi(f[2]), w.ts[atoi(f[1])], os...)
		if len(os) == 0 && err == nil { // tensor.Stack returns the operand itself; use the method
			var d *tensor.Dense
			d, err = w.ts[atoi(f[1])].Stack(atoi(f[2]))
			r = d
		}
		return w.ret(r, err)
	}
	progOps["concat"] = func(w *world, f []string) string {
		var os []*tensor.Dense
		for _, i := range ints(f[3]) {
			os = append(os, w.ts[i])
		}
		form := ""
		if len(f) > 4 {
			form = f[4]
		}
		var r *tensor.Dense
		var err error
		switch form {
		case "h":
			r, err = w.ts[atoi(f[1])].Hstack(os...)
		case "v":
			r, err = w.ts[atoi(f[1])].Vstack(os...)
		case "api":
			if len(os) == 0 { // tensor.Concat hands back the single operand itself; use the method
				r, err = w.ts[atoi(f[1])].Concat(atoi(f[2]))
				break
			}
			var ots []tensor.Tensor
			for _, o := range os {
				ots = append(ots, o)
			}
			var rt tensor.Tensor
			rt, err = tensor.Concat(atoi(f[2]), w.ts[atoi(f[1])], ots...)
			if err == nil {
				r = rt.(*tensor.Dense)
			}
		default:
			r, err = w.ts[atoi(f[1])].Concat(atoi(f[2]), os...)
		}
		if err != nil {
			return "err"
		}
		return w.newOrSame(r)
	}
	progOps["repeat"] = func(w *world, f []string) string {
		if w.alt {
			return w.ret(w.ts[atoi(f[1])].Repeat(atoi(f[2]), ints(f[3])...))
		}
		r, err := tensor.Repeat(w.ts[atoi(f[1])], atoi(f[2]), ints(f[3])...)
		return w.ret(r, err)
	}
	// un:<op>:<a>:<mode>     op = neg | square | cube | abs | sign | clamp.<lo>.<hi>
	progOps["un"] = func(w *world, f []string) string {
		a := w.ts[atoi(f[2])]
		if strings.HasPrefix(f[1], "clamp.") {
			p := strings.Split(f[1], ".")
			return w.ret(tensor.Clamp(a, tokVal(w.dt, atoi(p[1])), tokVal(w.dt, atoi(p[2])), w.opts(f[3], false)...))
		}
		return w.ret(unFuncs[f[1]](a, w.opts(f[3], false)...))
	}
	// apply:<op>:<a>:<mode>  Dense.Apply with a Go function of the element type computing <op>
	progOps["apply"] = func(w *world, f []string) string {
		a := w.ts[atoi(f[2])]
		fn := applyFn(w.dt, f[1])
		if w.alt && !strings.HasPrefix(f[3], "incr") {
			// (with WithIncr the two forms differ inside the known zone F81: the model transcribes the plain form)
			fn = errForm(fn) // the other form of the function argument: func(T) (T, error)
		}
		return w.ret(a.Apply(fn, w.opts(f[3], false)...))
	}
}

func errForm(fn interface{}) interface{} {
	switch f := fn.(type) {
	case func(float64) float64:
		return func(x float64) (float64, error) { return f(x), nil }
	case func(float32) float32:
		return func(x float32) (float32, error) { return f(x), nil }
	case func(int) int:
		return func(x int) (int, error) { return f(x), nil }
	case func(int64) int64:
		return func(x int64) (int64, error) { return f(x), nil }
	case func(int32) int32:
		return func(x int32) (int32, error) { return f(x), nil }
	}
	return fn
}

// applyFn: a user function of the dtype for Dense.Apply (neg | square | abs)
func applyFn(dt, op string) interface{} {
	switch dt {
	case "f64":
		return map[string]func(float64) float64{"neg": func(x float64) float64 { return -x }, "square": func(x float64) float64 { return x * x },
			"abs": func(x float64) float64 {
				if x < 0 {
					return -x
				}
				return x
			}}[op]
	case "f32":
		return map[string]func(float32) float32{"neg": func(x float32) float32 { return -x }, "square": func(x float32) float32 { return x * x },
			"abs": func(x float32) float32 {
				if x < 0 {
					return -x
				}
				return x
			}}[op]
	case "i":
		return map[string]func(int) int{"neg": func(x int) int { return -x }, "square": func(x int) int { return x * x },
			"abs": func(x int) int {
				if x < 0 {
					return -x
				}
				return x
			}}[op]
	case "i64":
		return map[string]func(int64) int64{"neg": func(x int64) int64 { return -x }, "square": func(x int64) int64 { return x * x },
			"abs": func(x int64) int64 {
				if x < 0 {
					return -x
				}
				return x
			}}[op]
	case "i32":
		return map[string]func(int32) int32{"neg": func(x int32) int32 { return -x }, "square": func(x int32) int32 { return x * x },
			"abs": func(x int32) int32 {
				if x < 0 {
					return -x
				}
				return x
			}}[op]
	}
	panic("applyFn dtype " + dt)
}
