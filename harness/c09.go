package main

import (
	"fmt"
	"strings"

	"gorgonia.org/tensor"
)

func init() { gens["C09"] = genC09 }

func genC09(tier string, r *rng, emit func(string)) {
	thorough := tier == "thorough"
	genCLin(emit)
	// general tensor contraction: every valid pair of axis lists of small rank-2..4 operands
	// (one and two contracted axes), plus misfits and the all-axes contraction
	for _, dt := range []string{"f64", "f32"} {
		type tm struct{ sa, sb, aa, ab string }
		for _, c := range []tm{
			{"2,3", "3,2", "1", "0"}, {"2,3", "2,3", "0", "0"}, {"2,3", "2,3", "1", "1"}, {"2,3", "3,4", "1", "0"},
			{"2,3,4", "4,2", "2", "0"}, {"2,3,4", "3,2", "1", "0"}, {"2,3,4", "2,5", "0", "0"}, {"2,3,4", "4,3", "2,1", "0,1"},
			{"2,3,4", "3,4,2", "1,2", "0,1"}, {"2,3,2,2", "2,2", "3", "0"}, {"2,3,2,2", "3,2", "1", "0"}, {"2,3,4,5", "6,2", "0", "1"},
			{"2,3", "2,3", "0,1", "0,1"}, {"3", "3", "0", "0"}, {"3", "3,2", "0", "0"}, {"2,3", "3", "1", "0"},
			{"2,3", "4,2", "1", "0"}, {"2,3", "3,2", "1", "1"}, {"2,3", "3,2", "1,0", "0"},
		} {
			emit(fmt.Sprintf("prog %s new:rm:%s:1;new:rm:%s:2;tmul:0:1:%s:%s", dt, c.sa, c.sb, c.aa, c.ab))
			if dt == "f64" && len(strings.Split(c.sa, ",")) >= 2 {
				emit(fmt.Sprintf("prog %s new:rm:%s:1;new:rm:%s:2;T:0:_;tmul:1:1:%s:%s", dt, c.sa, c.sb, c.ab, c.ab))
			}
		}
	}
	// systematic contraction sweep: every pair of shapes of rank 1..3 over extents {1,2,3} and every
	// pair of single axes of equal extent, the outer product (no axes) and two-axis contractions of
	// rank-3 operands; quick keeps a deterministic 1-in-9 sample
	{
		var shapes [][]int
		var rec func(pre []int, rank int)
		rec = func(pre []int, rank int) {
			if len(pre) == rank {
				shapes = append(shapes, append([]int{}, pre...))
				return
			}
			for d := 1; d <= 3; d++ {
				rec(append(pre, d), rank)
			}
		}
		for rank := 1; rank <= 3; rank++ {
			rec(nil, rank)
		}
		cnt := 0
		one := func(sa, sb []int, aa, ab string) {
			cnt++
			if !thorough && cnt%9 != 0 {
				return
			}
			emit(fmt.Sprintf("prog f64 new:rm:%s:1;new:rm:%s:2;tmul:0:1:%s:%s", fints(sa), fints(sb), aa, ab))
		}
		for _, sa := range shapes {
			for _, sb := range shapes {
				if prod(sa)*prod(sb) > 144 {
					continue
				}
				for i, x := range sa {
					for j, y := range sb {
						if x == y {
							one(sa, sb, fmt.Sprint(i), fmt.Sprint(j))
						}
					}
				}
				if len(sa) == 3 && len(sb) == 3 {
					for i := 0; i < 3; i++ {
						for j := 0; j < 3; j++ {
							i2, j2 := (i+1)%3, (j+2)%3
							if sa[i] == sb[j] && sa[i2] == sb[j2] {
								one(sa, sb, fmt.Sprintf("%d,%d", i, i2), fmt.Sprintf("%d,%d", j, j2))
							}
						}
					}
				}
			}
		}
	}
	refusedProducts(emit)
	// negative contraction axes: refused (the index check comes first) - and the caller's axes lists
	// are never written to
	for _, c := range []string{"new:rm:2,3,4:1;new:rm:4,3,2:2;tmul:0:1:-1,1:-3,1", "new:rm:2,3:1;new:rm:3,2:2;tmul:0:1:-1:0", "new:rm:2,3:1;new:rm:3,2:2;tmul:0:1:1:-2"} {
		emit("prog f64 " + c)
	}
	// Dot of two vectors: plain, lazily transposed (n,1)/(1,n) forms, and strided views (refused:
	// their storage is longer than their size)
	for _, dt := range []string{"f64", "f32"} {
		for _, c := range []string{"new:rm:3:1;new:rm:3:5;dot:0:1:safe", "new:rm:3:1;new:rm:4:5;dot:0:1:safe",
			"new:rm:3,4:0;slice:0:_/1.2.0;new:rm:3:1;dot:2:1:safe", "new:rm:3,4:0;slice:0:_/1.2.0;new:rm:3:1;dot:1:2:safe",
			"new:rm:6:0;slice:0:0.6.2;new:rm:3:1;dot:2:1:safe", "new:rm:3,4:0;slice:0:1.2.0/0.3.1;new:rm:3:1;dot:2:1:safe"} {
			emit(fmt.Sprintf("prog %s %s", dt, c))
		}
	}
	dotNdCases(emit)
	// inner dimensions and lengths around the block sizes of unrolled / vectorised loops
	for _, dt := range []string{"f64", "f32"} {
		for _, k := range []int{1, 2, 3, 4, 5, 7, 8, 9, 15, 16, 17, 31, 32, 33} {
			emit(fmt.Sprintf("prog %s new:rm:%d:-3;new:rm:%d:1;inner:0:1", dt, k, k))
			emit(fmt.Sprintf("prog %s new:rm:2,%d:-3;new:rm:%d:1;lin:matvec:0:1:safe", dt, k, k))
			emit(fmt.Sprintf("prog %s new:rm:2,%d:-3;new:rm:%d,3:1;lin:matmul:0:1:safe", dt, k, k))
			emit(fmt.Sprintf("prog %s new:rm:%d:-3;new:rm:3:1;lin:outer:0:1:safe", dt, k))
			if k <= 9 {
				emit(fmt.Sprintf("prog %s new:rm:%d,%d:-3;trace:0", dt, k, k))
				emit(fmt.Sprintf("prog %s new:rm:%d,2:-3;T:0:1,0;new:rm:%d,2:1;lin:matmul:0:1:safe", dt, k, k))
			}
		}
	}
	// the dispatching Dot (matrix.vector, vector.matrix, matrix.matrix) and products given BOTH a reuse
	// and an incr tensor, on contiguous and lazily transposed operands
	for _, dt := range []string{"f64", "f32"} {
		for _, ta := range []string{"", ";T:0:1,0"} {
			sa := "2,3"
			if ta != "" {
				sa = "3,2"
			}
			for _, mode := range []string{"safe", "reuse", "incr", "both"} {
				m := func(resShape string, next int) (string, string) {
					switch mode {
					case "reuse":
						return fmt.Sprintf(";new:rm:%s:50", resShape), fmt.Sprintf("reuse.%d", next)
					case "incr":
						return fmt.Sprintf(";new:rm:%s:50", resShape), fmt.Sprintf("incr.%d", next)
					case "both":
						return fmt.Sprintf(";new:rm:%s:50;new:rm:%s:70", resShape, resShape), fmt.Sprintf("both.%d.%d", next, next+1)
					}
					return "", "safe"
				}
				// matrix . matrix
				extra, ms := m("2,2", 2)
				emit(fmt.Sprintf("prog %s new:rm:%s:1;new:rm:3,2:2%s%s;dot:0:1:%s", dt, sa, ta, extra, ms))
				emit(fmt.Sprintf("prog %s new:rm:%s:1;new:rm:3,2:2%s%s;lin:matmul:0:1:%s", dt, sa, ta, extra, ms))
				// matrix . vector
				extra, ms = m("2", 2)
				emit(fmt.Sprintf("prog %s new:rm:%s:1;new:rm:3:2%s%s;dot:0:1:%s", dt, sa, ta, extra, ms))
				emit(fmt.Sprintf("prog %s new:rm:%s:1;new:rm:3:2%s%s;lin:matvec:0:1:%s", dt, sa, ta, extra, ms))
				// vector . matrix (tensor 0 is the matrix (2,3) logically; the vector has 2 entries)
				extra, ms = m("3", 2)
				emit(fmt.Sprintf("prog %s new:rm:%s:1;new:rm:2:2%s%s;dot:1:0:%s", dt, sa, ta, extra, ms))
			}
		}
	}
	n := 7000
	if thorough {
		n = 100000
	}
	lay := []string{"rm", "rm", "T", "cm", "cmb", "slice", "stepslice", "mat"}
	vecShape := func(k int) []int {
		switch r.intn(3) {
		case 0:
			return []int{k}
		case 1:
			return []int{k, 1}
		default:
			return []int{1, k}
		}
	}
	for i := 0; i < n; i++ {
		m, k, nn := r.rangeInt(1, 4), r.rangeInt(1, 4), r.rangeInt(1, 4)
		kind := []string{"matmul", "matmul", "matvec", "outer", "inner", "trace"}[r.intn(6)]
		var sa, sb, se []int
		switch kind {
		case "matmul":
			sa, sb, se = []int{m, k}, []int{k, nn}, []int{m, nn}
			if r.intn(20) == 0 {
				sb = []int{k + 1, nn}
			}
		case "matvec":
			sa, sb, se = []int{m, k}, vecShape(k), []int{m}
			if r.intn(20) == 0 {
				sb = vecShape(k + 1)
			}
		case "outer":
			sa, sb, se = vecShape(m), vecShape(nn), []int{m, nn}
		case "inner":
			sa, sb = vecShape(m), vecShape(m)
			if r.intn(15) == 0 {
				sb = vecShape(m + 1)
			}
		default:
			sa = []int{m, nn}
		}
		var p pb
		preA, ia := source(r, lay[r.intn(len(lay))], sa, 1)
		a := p.add(preA, ia)
		dt := []string{"f64", "f32", "c128r", "c64r"}[i%4]
		if kind == "trace" {
			p.ops = append(p.ops, fmt.Sprintf("trace:%d", a))
			emit(fmt.Sprintf("prog %s %s", dt, p.prog()))
			continue
		}
		preB, ib := source(r, lay[r.intn(len(lay))], sb, 2)
		b := p.add(preB, ib)
		if kind == "inner" {
			p.ops = append(p.ops, fmt.Sprintf("inner:%d:%d", a, b))
			emit(fmt.Sprintf("prog %s %s", dt, p.prog()))
			continue
		}
		mode := "safe"
		switch r.intn(4) {
		case 0:
			ord := []string{"rm", "rm", "cm"}[r.intn(3)]
			dsh := se
			if r.intn(4) == 0 {
				dsh = []int{prod(se)}
			}
			p.ops = append(p.ops, fmt.Sprintf("new:%s:%s:50", ord, fints(dsh)))
			mode = fmt.Sprintf("%s.%d", []string{"reuse", "incr"}[r.intn(2)], p.ntens)
			p.ntens++
		}
		p.ops = append(p.ops, fmt.Sprintf("lin:%s:%d:%d:%s", kind, a, b, mode))
		emit(fmt.Sprintf("prog %s %s", dt, p.prog()))
	}
}

// clin <dt> <prog> : complex products on Gaussian-integer values (token k = k - k*i), so that a
// conjugated product differs from the plain one.  The last operation (lin:<op>:<a>:<b>:safe or
// inner:<a>:<b>) is observed exactly: val:<re>_<im> or ok:[shape|re_im,...]
func cfmt(v interface{}) string {
	switch x := v.(type) {
	case complex64:
		return fmt.Sprintf("%d_%d", int(real(x)), int(imag(x)))
	case complex128:
		return fmt.Sprintf("%d_%d", int(real(x)), int(imag(x)))
	}
	return "?"
}

func init() {
	execs["clin"] = func(a []string) string {
		w := &world{dt: a[0]}
		ops := strings.Split(a[1], ";")
		for _, op := range ops[:len(ops)-1] {
			if st := w.step(op); st == "panic" {
				return "progpanic"
			}
		}
		f := strings.Split(ops[len(ops)-1], ":")
		if f[0] == "inner" {
			v, err := w.ts[atoi(f[1])].Inner(w.ts[atoi(f[2])])
			if err != nil {
				return "err"
			}
			return "val:" + cfmt(v)
		}
		x, y := w.ts[atoi(f[2])], w.ts[atoi(f[3])]
		var r *tensor.Dense
		var err error
		switch f[1] {
		case "matmul":
			r, err = x.MatMul(y)
		case "matvec":
			r, err = x.MatVecMul(y)
		default:
			r, err = x.Outer(y)
		}
		if err != nil {
			return "err"
		}
		var cells []string
		for _, c := range boxCoords([]int(r.Shape())) {
			v, e := r.At(c...)
			if e != nil {
				cells = append(cells, "E")
			} else {
				cells = append(cells, cfmt(v))
			}
		}
		return fmt.Sprintf("ok:[%s|%s]", fints(r.Shape()), strings.Join(cells, ","))
	}
}

func genCLin(emit func(string)) {
	for _, dt := range []string{"c64", "c128"} {
		// plain and lazily transposed operands (the layouts of the C09 theorems)
		emit(fmt.Sprintf("clin %s new:rm:3:1;new:rm:3:2;inner:0:1", dt))
		emit(fmt.Sprintf("clin %s new:rm:3,1:1;new:rm:1,3:2;inner:0:1", dt))
		for _, ta := range []string{"", ";T:0:1,0"} {
			for _, tb := range []string{"", ";T:1:1,0"} {
				sa, sb := "2,3", "3,2"
				if ta != "" {
					sa = "3,2"
				}
				if tb != "" {
					sb = "2,3"
				}
				emit(fmt.Sprintf("clin %s new:rm:%s:1;new:rm:%s:2%s%s;lin:matmul:0:1:safe", dt, sa, sb, ta, tb))
			}
			sa := "2,3"
			if ta != "" {
				sa = "3,2"
			}
			emit(fmt.Sprintf("clin %s new:rm:%s:1;new:rm:3:2%s;lin:matvec:0:1:safe", dt, sa, ta))
		}
		emit(fmt.Sprintf("clin %s new:rm:3:1;new:rm:2:4;lin:outer:0:1:safe", dt))
	}
}

// refusedProducts: products that must be refused (misfitting extents, wrong destinations) leave
// every operand as it was - the dispatching Dot undoes its temporary transposition of the matrix
// also when MatVecMul refuses; the operands are read again afterwards.  Shared by C09 and C19.
func refusedProducts(emit func(string)) {
	for _, dt := range []string{"f64", "f32"} {
		for _, c := range []string{
			"new:rm:2,3:1;new:rm:3:2;dot:1:0:safe", "new:rm:2,3:1;new:rm:4:2;dot:1:0:safe", "new:rm:2,3:1;new:rm:2:2;dot:0:1:safe",
			"new:rm:2,3:1;new:rm:2,3:2;dot:0:1:safe",
			"new:rm:2,3:1;new:rm:3:2;new:rm:5:50;dot:1:0:reuse.2", "new:rm:2,3:1;new:rm:3:2;new:rm:3:50;dot:1:0:incr.2",
			"new:rm:3,2:1;T:0:1,0;new:rm:3:2;dot:1:0:safe", "new:rm:2,3:1;new:rm:3:2;dot:1:0:safe;lin:matvec:0:1:safe",
			"new:rm:2,3:1;new:rm:2:2;new:rm:2:50;dot:1:0:reuse.2;dot:1:0:safe",
			// a destination that is too BIG is refused as well, and left as it was
			"new:rm:2,3:1;new:rm:2:2;new:rm:5:50;dot:1:0:reuse.2", "new:rm:2,2:1;new:rm:2,2:2;new:rm:3,3:50;lin:matmul:0:1:reuse.2",
			"new:rm:2,3:1;new:rm:3:2;new:rm:4:50;lin:matvec:0:1:reuse.2", "new:rm:2:1;new:rm:3:2;new:rm:3,3:50;lin:outer:0:1:reuse.2",
			"new:rm:2,2:1;new:rm:2,2:2;new:rm:3,3:50;lin:matmul:0:1:incr.2", "new:rm:2,2:1;new:rm:2,2:2;new:rm:3:50;lin:matmul:0:1:reuse.2",
		} {
			emit(fmt.Sprintf("prog %s %s", dt, c))
			emit(fmt.Sprintf("prog %s %s;at:0:1,1;clone:0;T:0:_;at:0:1,1", dt, c))
		}
	}
}

// dotNdCases: see genC09 (shared with C19: products handed to the pool, destinations, later allocations)
func dotNdCases(emit func(string)) {
	// the general contraction branch of tensor.Dot (an operand of rank >= 3, or a vector/matrix
	// against one): a's last axis against b's second-to-last; fresh result, reuse destinations of the
	// product's shape / another shape of the same size / a view of a bigger tensor / too small / too
	// big, an incr destination (ignored by this branch: a finding), lazily transposed operands,
	// misfitting extents (refused), and the same operands read afterwards
	for _, dt := range []string{"f64", "f32"} {
		for _, pr := range [][3]string{
			{"2,3,4", "4", "2,3"}, {"2,3,4", "4,2", "2,3,2"}, {"2,3,2", "2,2,3", "2,3,2,3"}, {"3", "2,3,2", "2,2"},
			{"2,3", "2,3,2", "2,2,2"}, {"2,1,3", "3,1", "2,1,1"}, {"1,2,3", "1,3,2", "1,2,1,2"}, {"2,2,2,2", "2", "2,2,2"},
			{"2,3,4", "3", ""}, {"2,3,4", "3,2", ""}, {"3", "2,2,2", ""},
		} {
			a, b, rs := pr[0], pr[1], pr[2]
			for _, ta := range []string{"", ";T:0:_", ";T:1:_", ";slice:0:_"} {
				ia, ib, next := 0, 1, 2
				pre := fmt.Sprintf("new:rm:%s:1;new:rm:%s:2", a, b)
				if ta == ";slice:0:_" {
					// operands that are full-range views of their parents
					pre += ";slice:0:_;slice:1:_"
					ia, ib, next = 2, 3, 4
				} else if ta != "" {
					if (ta == ";T:0:_" && len(a) < 3) || (ta == ";T:1:_" && len(b) < 3) || rs == "" {
						continue
					}
					// a lazily transposed operand changes the extents: only square-ish pairs stay well formed,
					// the others exercise the refusal
					pre += ta
				}
				emit(fmt.Sprintf("prog %s %s;dot:%d:%d:safe", dt, pre, ia, ib))
				emit(fmt.Sprintf("prog %s %s;dot:%d:%d:safe;bin:add:%d:%d:safe", dt, pre, ia, ib, ia, ia))
				if rs == "" || ta == ";T:0:_" || ta == ";T:1:_" {
					continue
				}
				n := 1
				for _, d := range strings.Split(rs, ",") {
					n *= atoi(d)
				}
				emit(fmt.Sprintf("prog %s %s;new:rm:%s:50;dot:%d:%d:reuse.%d", dt, pre, rs, ia, ib, next))
				emit(fmt.Sprintf("prog %s %s;new:rm:%d:50;dot:%d:%d:reuse.%d", dt, pre, n, ia, ib, next))
				emit(fmt.Sprintf("prog %s %s;new:rm:%d:50;slice:%d:1.%d.1;dot:%d:%d:reuse.%d", dt, pre, n+2, next, n+1, ia, ib, next+1))
				emit(fmt.Sprintf("prog %s %s;new:rm:%d:50;slice:%d:0.%d.2;dot:%d:%d:reuse.%d", dt, pre, 2*n, next, 2*n, ia, ib, next+1))
				emit(fmt.Sprintf("prog %s %s;new:rm:%d,2:50;slice:%d:_/1.2.0;dot:%d:%d:reuse.%d", dt, pre, n, next, ia, ib, next+1))
				emit(fmt.Sprintf("prog %s %s;new:rm:%d:50;dot:%d:%d:reuse.%d", dt, pre, n+1, ia, ib, next))
				emit(fmt.Sprintf("prog %s %s;new:rm:%d:50;dot:%d:%d:reuse.%d", dt, pre, n-1, ia, ib, next))
				emit(fmt.Sprintf("prog %s %s;new:rm:%s:50;dot:%d:%d:incr.%d", dt, pre, rs, ia, ib, next))
				// both options: the product in the reuse tensor, added into the increment tensor; then
				// allocations that would pick up a struct handed to the pool twice
				emit(fmt.Sprintf("prog %s %s;new:rm:%s:50;new:rm:%s:70;dot:%d:%d:both.%d.%d;new:rm:2:0;slice:%d:0.1.1;new:rm:3:0", dt, pre, rs, rs, ia, ib, next, next+1, next+2))
				if ta == "" {
					// column-major operands and destinations
					cpre := strings.Replace(pre, "new:rm:", "new:cm:", -1)
					emit(fmt.Sprintf("prog %s %s;dot:0:1:safe", dt, cpre))
					emit(fmt.Sprintf("prog %s %s;new:rm:%s:50;dot:0:1:reuse.2", dt, cpre, rs))
					emit(fmt.Sprintf("prog %s %s;new:cm:%s:50;dot:0:1:reuse.2", dt, cpre, rs))
					emit(fmt.Sprintf("prog %s %s;new:cm:%s:50;dot:0:1:reuse.2", dt, pre, rs))
				}
				emit(fmt.Sprintf("prog %s %s;new:rm:%s:50;dot:%d:%d:reuse.%d;dot:%d:%d:reuse.%d;bin:add:%d:%d:safe", dt, pre, rs, ia, ib, next, ia, ib, next, next, next))
			}
		}
	}
}
