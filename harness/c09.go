package main

import (
	"fmt"
)

func init() { gens["C09"] = genC09 }

func genC09(tier string, r *rng, emit func(string)) {
	thorough := tier == "thorough"
	n := 7000
	if thorough {
		n = 100000
	}
	lay := []string{"rm", "rm", "T", "cm", "cmb", "slice", "stepslice", "mat"}
	vecShape := func(k int) []int {
		switch r.intn(3) {
		case 0:
			return []int{k}
		case 1:
			return []int{k, 1}
		default:
			return []int{1, k}
		}
	}
	for i := 0; i < n; i++ {
		m, k, nn := r.rangeInt(1, 4), r.rangeInt(1, 4), r.rangeInt(1, 4)
		kind := []string{"matmul", "matmul", "matvec", "outer", "inner", "trace"}[r.intn(6)]
		var sa, sb, se []int
		switch kind {
		case "matmul":
			sa, sb, se = []int{m, k}, []int{k, nn}, []int{m, nn}
			if r.intn(20) == 0 {
				sb = []int{k + 1, nn}
			}
		case "matvec":
			sa, sb, se = []int{m, k}, vecShape(k), []int{m}
			if r.intn(20) == 0 {
				sb = vecShape(k + 1)
			}
		case "outer":
			sa, sb, se = vecShape(m), vecShape(nn), []int{m, nn}
		case "inner":
			sa, sb = vecShape(m), vecShape(m)
			if r.intn(15) == 0 {
				sb = vecShape(m + 1)
			}
		default:
			sa = []int{m, nn}
		}
		var p pb
		preA, ia := source(r, lay[r.intn(len(lay))], sa, 1)
		a := p.add(preA, ia)
		dt := []string{"f64", "f32", "c128r", "c64r"}[i%4]
		if kind == "trace" {
			p.ops = append(p.ops, fmt.Sprintf("trace:%d", a))
			emit(fmt.Sprintf("prog %s %s", dt, p.prog()))
			continue
		}
		preB, ib := source(r, lay[r.intn(len(lay))], sb, 2)
		b := p.add(preB, ib)
		if kind == "inner" {
			p.ops = append(p.ops, fmt.Sprintf("inner:%d:%d", a, b))
			emit(fmt.Sprintf("prog %s %s", dt, p.prog()))
			continue
		}
		mode := "safe"
		switch r.intn(4) {
		case 0:
			ord := []string{"rm", "rm", "cm"}[r.intn(3)]
			dsh := se
			if r.intn(4) == 0 {
				dsh = []int{prod(se)}
			}
			p.ops = append(p.ops, fmt.Sprintf("new:%s:%s:50", ord, fints(dsh)))
			mode = fmt.Sprintf("%s.%d", []string{"reuse", "incr"}[r.intn(2)], p.ntens)
			p.ntens++
		}
		p.ops = append(p.ops, fmt.Sprintf("lin:%s:%d:%d:%s", kind, a, b, mode))
		emit(fmt.Sprintf("prog %s %s", dt, p.prog()))
	}
}
