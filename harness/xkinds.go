package main

// SPEC-only kinds whose observation is the harness's own comparison of two library results (or of
// a result with the values put in): the SPEC is the fixed word "same".
//
//   xtomat <dt>                 ToMat64 of a matrix of extreme and non-finite values of <dt>: every
//                               entry must be float64(value) (NaN stays NaN)
//   xeng <f64e|f32e> <op> <mode> Add / FMA / FMAScalar of vectors whose sums depend on the order of
//                               the additions, under the engine and under the default engine:
//                               bit-identical results
//   rrepeat <dt> <shape> <axis> <reps> <dstshape>   tensor.RepeatReuse: a destination of the result's
//                               shape receives exactly tensor.Repeat's result; any other is refused
//   slinto <dt> <prog> <t> <slices> <dst|self>      Dense.SliceInto an EXISTING tensor (or the operand
//                               itself): the destination becomes exactly the view Slice returns; a
//                               refused range leaves it as it was
//   xtext <format> <variant> <shape>   a STRING tensor whose elements contain characters that are special
//                               to textual formats (separators, quotes, comment marks, spaces, line
//                               breaks, empty strings, non-ASCII): written, read back into a fresh
//                               tensor: same shape, same elements
import (
	"fmt"
	"math"
	"reflect"
	"strings"

	"gorgonia.org/tensor"
)

func sameF64(a, b float64) bool {
	return math.Float64bits(a) == math.Float64bits(b) || (a != a && b != b)
}

func guard(f func() string) (s string) {
	defer func() {
		if e := recover(); e != nil {
			s = "panic"
		}
	}()
	return f()
}

func denseState(t *tensor.Dense) string {
	return guard(func() string {
		return fmt.Sprintf("%v|%v|%v|%v", t.Shape(), t.Strides(), safeData(t), t.IsView())
	})
}

var xtextSets = map[string][]string{
	"hash":    {"id", "name", "#1", "first", "#2", "second", "#", "x#y"},
	"comma":   {"a,b", "c", "d", "e,f,g", ",", "h", "i,", ",j"},
	"quote":   {"\"q\"", "a", "b\"c", "d", "\"", "e'f", "''", "g"},
	"space":   {" lead", "trail ", "  ", "a b", "c", " ", "d\te", "f"},
	"newline": {"a\nb", "c", "d", "e\n", "\nf", "g", "h", "i"},
	"empty":   {"", "a", "b", "", "c", "", "d", "e"},
	"unicode": {"é", "日本", "𝛼", "a", "ß", "c", "→", "z"},
	"numlike": {"1", "2.5", "-3", "1e9", "NaN", "0x10", "+Inf", "007"},
	"punct":   {"a;b", "c|d", "e:f", "g\\h", "%s", "{}", "[1 2]", "<nil>"},
}

func init() {
	execs["xtext"] = func(a []string) string {
		return guard(func() string {
			sh := ints(a[2])
			n := prod(sh)
			set := xtextSets[a[1]]
			back := make([]string, n)
			for i := range back {
				back[i] = set[i%len(set)]
			}
			t := tensor.New(tensor.WithShape(sh...), tensor.WithBacking(append([]string(nil), back...)))
			b, st := encode(a[0], t)
			if st != "ok" {
				return "werr" // refused when writing: "or is refused"
			}
			d, st := decode(a[0], tensor.String, b)
			if st != "ok" {
				return "unreadable:" + st
			}
			if !d.Shape().Eq(tensor.Shape(sh)) {
				return fmt.Sprintf("shape:%v", d.Shape())
			}
			for i, c := range boxCoords(sh) {
				v, err := d.At(c...)
				if err != nil || v.(string) != back[i] {
					return fmt.Sprintf("elements:%d", i)
				}
			}
			return "same"
		})
	}
	execs["xtomat"] = func(a []string) string {
		return guard(func() string {
			v := reflect.ValueOf(extremeValues(a[0]))
			n := v.Len()
			if n%2 == 1 {
				n--
			}
			if n < 2 {
				return "same"
			}
			back := reflect.MakeSlice(v.Type(), n, n)
			reflect.Copy(back, v)
			t := tensor.New(tensor.WithShape(2, n/2), tensor.WithBacking(back.Interface()))
			for _, opt := range [][]tensor.FuncOpt{nil, {tensor.UseUnsafe()}} {
				m, err := tensor.ToMat64(t, opt...)
				if err != nil {
					return "err"
				}
				for i := 0; i < n; i++ {
					var want float64
					switch x := back.Index(i).Interface().(type) {
					case float64:
						want = x
					case float32:
						want = float64(x)
					default:
						rv := reflect.ValueOf(x)
						if rv.CanInt() {
							want = float64(rv.Int())
						} else if rv.CanUint() {
							want = float64(rv.Uint())
						} else {
							return "same"
						}
					}
					if got := m.At(i/(n/2), i%(n/2)); !sameF64(got, want) {
						return fmt.Sprintf("differs@%d:%v!=%v", i, got, want)
					}
				}
			}
			return "same"
		})
	}
	execs["xeng"] = func(a []string) string {
		return guard(func() string {
			mk := func(e tensor.Engine, vals interface{}) *tensor.Dense {
				rv := reflect.ValueOf(vals)
				c := reflect.MakeSlice(rv.Type(), rv.Len(), rv.Len())
				reflect.Copy(c, rv)
				opts := []tensor.ConsOpt{tensor.WithShape(2, 2), tensor.WithBacking(c.Interface())}
				if e != nil {
					opts = append(opts, tensor.WithEngine(e))
				}
				return tensor.New(opts...)
			}
			var av, bv, yv interface{}
			var eng tensor.Engine
			var s interface{}
			if a[0] == "f64e" {
				av, bv, yv = []float64{-1e16, 1, 0.5, 3}, []float64{1, 1, 0.25, 4}, []float64{1e16, 1e16, 2, 5}
				eng, s = tensor.Float64Engine{}, float64(3)
			} else {
				av, bv, yv = []float32{-1e8, 1, 0.5, 3}, []float32{1, 1, 0.25, 4}, []float32{1e8, 1e8, 2, 5}
				eng, s = tensor.Float32Engine{}, float32(3)
			}
			run := func(e tensor.Engine) string {
				A, B, Y := mk(e, av), mk(e, bv), mk(e, yv)
				var r tensor.Tensor
				var err error
				switch a[1] {
				case "add":
					switch a[2] {
					case "safe":
						r, err = tensor.Add(A, B)
					case "unsafe":
						r, err = tensor.Add(A, B, tensor.UseUnsafe())
					case "reuse":
						r, err = tensor.Add(A, B, tensor.WithReuse(Y))
					default:
						r, err = tensor.Add(A, B, tensor.WithIncr(Y))
					}
				case "fma":
					r, err = tensor.FMA(A, B, Y)
				default:
					r, err = tensor.FMA(A, s, Y)
				}
				if err != nil {
					return "err"
				}
				return fmt.Sprintf("%v|%v|%v|%v", r.Data(), A.Data(), B.Data(), Y.Data())
			}
			d, e := run(nil), run(eng)
			if d == e {
				return "same"
			}
			return "differs:" + strings.ReplaceAll(e, " ", ",") + "!=" + strings.ReplaceAll(d, " ", ",")
		})
	}
	execs["rrepeat"] = func(a []string) string {
		return guard(func() string {
			sh, axis, reps, dsh := ints(a[1]), atoi(a[2]), ints(a[3]), ints(a[4])
			toks := make([]int, prod(sh))
			for i := range toks {
				toks[i] = i + 1
			}
			src := tensor.New(tensor.WithShape(sh...), tensor.WithBacking(backing(a[0], toks)))
			want, werr := tensor.Repeat(src, axis, reps...)
			dst := tensor.New(tensor.WithShape(dsh...), tensor.WithBacking(backing(a[0], make([]int, prod(dsh)))))
			before := denseState(dst)
			got, err := tensor.RepeatReuse(src, dst, axis, reps...)
			fits := werr == nil && want.Shape().Eq(tensor.Shape(dsh))
			switch {
			case fits && err != nil:
				return "refused-a-fitting-destination"
			case fits:
				if got != tensor.Tensor(dst) || !reflect.DeepEqual(got.Data(), want.Data()) || !got.Shape().Eq(want.Shape()) {
					return fmt.Sprintf("differs:%v!=%v", got, want)
				}
				return "same"
			case err == nil:
				return fmt.Sprintf("accepted-a-misfitting-destination:%v", got.Shape())
			case denseState(dst) != before:
				return "refused-but-destination-changed"
			}
			return "same"
		})
	}
	// xcopyov <dt> <n> <copy|copyto> : two views of one matrix that share exactly their first element
	// (column 0 and row 0): copying the row into the column is well defined (the shared cell keeps its
	// value); everything outside the column stays as it was
	execs["xcopyov"] = func(a []string) string {
		return guard(func() string {
			n := atoi(a[1])
			toks := make([]int, n*n)
			for i := range toks {
				toks[i] = i
			}
			T := tensor.New(tensor.WithShape(n, n), tensor.WithBacking(backing(a[0], toks)))
			colV, _ := T.Slice(nil, hsl{0, 1, 0})
			rowV, _ := T.Slice(hsl{0, 1, 0})
			col, row := colV.(*tensor.Dense), rowV.(*tensor.Dense)
			var err error
			if a[2] == "copy" {
				err = tensor.Copy(col, row)
			} else {
				err = row.CopyTo(col)
			}
			if err != nil {
				return "err"
			}
			for i := 0; i < n; i++ {
				for j := 0; j < n; j++ {
					want := i*n + j
					if j == 0 {
						want = i // old T[0,i]
					}
					v, _ := T.At(i, j)
					if valTok(v) != want {
						return fmt.Sprintf("differs@%d,%d:%d!=%d", i, j, valTok(v), want)
					}
				}
			}
			return "same"
		})
	}
	execs["slinto"] = func(a []string) string {
		return guard(func() string {
			w := &world{dt: a[0]}
			for _, op := range strings.Split(a[1], ";") {
				if st := w.step(op); st == "panic" {
					return "progpanic"
				}
			}
			t := w.ts[atoi(a[2])]
			ref, rerr := t.Slice(parseSlices(a[3])...)
			var dst *tensor.Dense
			src := t
			if a[4] == "self" {
				// the operand itself as destination: work on a shallow copy of the struct so that the
				// world's tensor stays available for the comparison
				cp := t.ShallowClone()
				src, dst = cp, cp
			} else {
				dst = w.ts[atoi(a[4])].ShallowClone()
			}
			before := denseState(dst)
			got, err := src.SliceInto(dst, parseSlices(a[3])...)
			switch {
			case (rerr == nil) != (err == nil):
				return fmt.Sprintf("status-differs:slice=%v,sliceinto=%v", rerr, err)
			case rerr != nil:
				if denseState(dst) != before {
					return "refused-but-destination-changed"
				}
				return "same"
			}
			rd, gd := ref.(*tensor.Dense), got.(*tensor.Dense)
			if gd != dst {
				return "result-is-not-the-destination"
			}
			if !rd.Shape().Eq(gd.Shape()) || fmt.Sprint(rd.Strides()) != fmt.Sprint(gd.Strides()) || serObs("", rd) != serObs("", gd) || rd.IsView() != gd.IsView() {
				return fmt.Sprintf("differs:%s!=%s", denseState(gd), denseState(rd))
			}
			return "same"
		})
	}
}

func genXKinds(prop string, emit func(string)) {
	switch prop {
	case "C04copy":
		for _, dt := range []string{"f64", "i", "u8", "str"} {
			for _, n := range []string{"2", "3", "4"} {
				emit(fmt.Sprintf("xcopyov %s %s copy", dt, n))
				emit(fmt.Sprintf("xcopyov %s %s copyto", dt, n))
			}
		}
	case "C04", "C17":
		for _, dt := range []string{"i", "i8", "i16", "i32", "i64", "u", "u8", "u16", "u32", "u64", "f32", "f64"} {
			emit("xtomat " + dt)
		}
	case "C08":
		for _, dt := range []string{"f32", "f64", "i8", "i16", "i32", "i64", "i", "u8", "u16", "u32", "u64", "u"} {
			for _, op := range []string{"sum", "max", "min"} {
				for _, c := range []string{"3 all", "12 all", "2,3 all", "2,3 0", "2,3 1", "4,3 0", "3,4 1", "2,3,2 0", "2,3,2 1", "2,3,2 2", "2,3,2 all", "5 0", "17 all", "2,17 1", "17,2 0"} {
					emit(fmt.Sprintf("xred %s %s %s", dt, op, c))
				}
			}
		}
	case "C08fn", "C17fn":
		for _, dt := range []string{"f32", "f64", "i8", "i16", "i32", "i64", "i", "u8", "u16", "u32", "u64", "u"} {
			for _, op := range []string{"sub", "add", "max"} {
				for _, def := range []string{"0", "10"} {
					for _, c := range []string{"4 0", "2,3 0", "2,3 1", "3,2 1", "2,3,2 0", "2,3,2 1", "2,3,2 2", "1,3,2 2", "2,2,3,2 1", "2,2,3,2 3", "2,1 1", "1,4 1"} {
						emit(fmt.Sprintf("xredfn %s %s %s %s", dt, op, def, c))
					}
				}
			}
		}
	case "C14":
		for _, f := range []string{"csv", "gob", "pb", "fb"} {
			for _, v := range []string{"hash", "comma", "quote", "space", "newline", "empty", "unicode", "numlike", "punct"} {
				for _, sh := range []string{"3,2", "4,1", "1,4", "2,4"} {
					if f != "csv" && sh != "3,2" {
						continue
					}
					emit(fmt.Sprintf("xtext %s %s %s", f, v, sh))
				}
			}
		}
	case "C20":
		for _, e := range []string{"f64e", "f32e"} {
			for _, o := range []string{"add safe", "add unsafe", "add reuse", "add incr", "fma -", "fmas -"} {
				emit(fmt.Sprintf("xeng %s %s", e, o))
			}
		}
	case "C10":
		for _, dt := range []string{"f64", "i16", "str"} {
			for _, c := range []string{"2,3 0 2 4,3", "2,3 0 2 3,4", "2,3 1 2 2,6", "2,3 1 2 6,2", "2,3 0 2 12", "3,2 0 2,0,1 3,2", "3,2 0 2,0,1 2,3", "4 0 3 12", "4 0 3 3,4", "2,3 0 2 5,3", "2,3 0 2 4,4"} {
				emit(fmt.Sprintf("rrepeat %s %s", dt, c))
			}
		}
	case "C02":
		for _, dt := range []string{"f64", "i"} {
			prog := "new:rm:5,4:0;slice:0:1.5.1;slice:0:_/1.3.1;new:rm:2,2:50;new:rm:7:60;T:4:_"
			for _, sl := range []string{"1.3.1/1.4.1", "0.2.1", "_/0.1.0", "7.9.1", "1.3.1/9.10.1", "0.4.2/_", "2.3.0/1.2.0"} {
				for _, d := range []string{"self", "2", "3", "4", "1"} {
					for _, t := range []string{"0", "1"} {
						emit(fmt.Sprintf("slinto %s %s %s %s %s", dt, prog, t, sl, d))
					}
				}
			}
		}
	}
}

// xred <dt> <sum|max|min> <shape> <axis|all> : reductions on values where the element type's own
// arithmetic matters (float32/float64 rounding of big and small addends, integer sums that wrap):
// the result must be the fold, IN THE ELEMENT TYPE, of the logical elements along the axis.
type xnum interface {
	~int8 | ~int16 | ~int32 | ~int64 | ~int | ~uint8 | ~uint16 | ~uint32 | ~uint64 | ~uint | ~float32 | ~float64
}

func xredRun[T xnum](vals []T, op string, sh []int, axis string) string {
	n := prod(sh)
	back := make([]T, n)
	for i := range back {
		back[i] = vals[i%len(vals)]
	}
	t := tensor.New(tensor.WithShape(sh...), tensor.WithBacking(append([]T(nil), back...)))
	fold := func(a, b T) T {
		switch op {
		case "sum":
			return a + b
		case "max":
			if b > a {
				return b
			}
			return a
		default:
			if b < a {
				return b
			}
			return a
		}
	}
	var axes []int
	if axis != "all" {
		axes = []int{atoi(axis)}
	}
	var r tensor.Tensor
	var err error
	switch op {
	case "sum":
		r, err = tensor.Sum(t, axes...)
	case "max":
		r, err = t.Max(axes...)
	default:
		r, err = t.Min(axes...)
	}
	if err != nil {
		return "err"
	}
	// oracle: group the logical elements by the coordinates of the axes that stay
	var want []T
	if axis == "all" {
		acc := back[0]
		for _, v := range back[1:] {
			acc = fold(acc, v)
		}
		want = []T{acc}
	} else {
		ax := atoi(axis)
		st := tensor.Shape(sh).CalcStrides()
		var rest []int
		for i := range sh {
			if i != ax {
				rest = append(rest, sh[i])
			}
		}
		for _, c := range boxCoords(rest) {
			full := make([]int, len(sh))
			k := 0
			for i := range sh {
				if i != ax {
					full[i] = c[k]
					k++
				}
			}
			off := 0
			for i := range sh {
				off += full[i] * st[i]
			}
			acc := back[off]
			for j := 1; j < sh[ax]; j++ {
				acc = fold(acc, back[off+j*st[ax]])
			}
			want = append(want, acc)
		}
	}
	rd := r.(*tensor.Dense)
	var got []T
	if rd.IsScalar() {
		got = []T{rd.ScalarValue().(T)}
	} else {
		got = rd.Data().([]T)
	}
	if len(got) != len(want) {
		return fmt.Sprintf("diff:len%d", len(got))
	}
	for i := range want {
		if got[i] != want[i] {
			return fmt.Sprintf("diff:%d:%v:%v", i, got[i], want[i])
		}
	}
	// the operand is unchanged
	for i, v := range t.Data().([]T) {
		if v != back[i] {
			return "operand-changed"
		}
	}
	return "same"
}

func init() {
	execs["xred"] = func(a []string) string {
		return guard(func() string {
			sh := ints(a[2])
			switch a[0] {
			case "f32":
				return xredRun([]float32{1e8, 1, -1e8, 3, 0.5, 1e-3, 16777216, 1, 1, -16777216, 7, 0.25}, a[1], sh, a[3])
			case "f64":
				return xredRun([]float64{1e16, 1, -1e16, 3, 0.5, 1e-9, 9007199254740992, 1, 1, -9007199254740992, 7, 0.25}, a[1], sh, a[3])
			case "i8":
				return xredRun([]int8{127, 1, -128, 100, 100, -100, 5, 127, 127, -1, 7, 1}, a[1], sh, a[3])
			case "i16":
				return xredRun([]int16{32767, 1, -32768, 30000, 30000, -100, 5, 32767, 32767, -1, 7, 1}, a[1], sh, a[3])
			case "i32":
				return xredRun([]int32{2147483647, 1, -2147483648, 2000000000, 2000000000, -100, 5, 2147483647, 2147483647, -1, 7, 1}, a[1], sh, a[3])
			case "i64":
				return xredRun([]int64{9223372036854775807, 1, -9223372036854775808, 9000000000000000000, 9000000000000000000, -100, 5, 9223372036854775807, 9223372036854775807, -1, 7, 1}, a[1], sh, a[3])
			case "i":
				return xredRun([]int{9223372036854775807, 1, -9223372036854775808, 9000000000000000000, 9000000000000000000, -100, 5, 9223372036854775807, 9223372036854775807, -1, 7, 1}, a[1], sh, a[3])
			case "u8":
				return xredRun([]uint8{255, 1, 200, 100, 100, 0, 5, 255, 255, 1, 7, 1}, a[1], sh, a[3])
			case "u16":
				return xredRun([]uint16{65535, 1, 60000, 30000, 30000, 0, 5, 65535, 65535, 1, 7, 1}, a[1], sh, a[3])
			case "u32":
				return xredRun([]uint32{4294967295, 1, 4000000000, 3000000000, 3000000000, 0, 5, 4294967295, 4294967295, 1, 7, 1}, a[1], sh, a[3])
			case "u64":
				return xredRun([]uint64{18446744073709551615, 1, 18000000000000000000, 9000000000000000000, 9000000000000000000, 0, 5, 18446744073709551615, 18446744073709551615, 1, 7, 1}, a[1], sh, a[3])
			case "u":
				return xredRun([]uint{18446744073709551615, 1, 18000000000000000000, 9000000000000000000, 9000000000000000000, 0, 5, 18446744073709551615, 18446744073709551615, 1, 7, 1}, a[1], sh, a[3])
			}
			return "unsupported"
		})
	}
}

// xredfn <dt> <sub|add|max> <default> <shape> <axis> : the generic Dense.Reduce(fn, axis, default)
// with a function that is NOT commutative (sub) and a default value that is not neutral, on every
// numeric element type: the result is the LEFT fold of the lane in index order - seeded with the
// default value along the last axis when that is not also the first (the library's behaviour
// recorded as F91), unseeded along the other axes.
func xredfnRun[T xnum](op string, def int, sh []int, axis int) string {
	n := prod(sh)
	back := make([]T, n)
	for i := range back {
		back[i] = T((i*7)%5 + 1 + i%3)
	}
	t := tensor.New(tensor.WithShape(sh...), tensor.WithBacking(append([]T(nil), back...)))
	fn := func(a, b T) T {
		switch op {
		case "sub":
			return a - b
		case "add":
			return a + b
		default:
			if b > a {
				return b
			}
			return a
		}
	}
	r, err := t.Reduce(fn, axis, T(def))
	if err != nil {
		return "err"
	}
	st := tensor.Shape(sh).CalcStrides()
	var rest []int
	for i := range sh {
		if i != axis {
			rest = append(rest, sh[i])
		}
	}
	seeded := axis == len(sh)-1 && axis != 0
	var want []T
	for _, c := range boxCoords(rest) {
		off, k := 0, 0
		for i := range sh {
			if i != axis {
				off += c[k] * st[i]
				k++
			}
		}
		var acc T
		j0 := 0
		if seeded {
			acc = T(def)
		} else {
			acc = back[off]
			j0 = 1
		}
		for j := j0; j < sh[axis]; j++ {
			acc = fn(acc, back[off+j*st[axis]])
		}
		want = append(want, acc)
	}
	rd := r
	var got []T
	if rd.IsScalar() {
		got = []T{rd.ScalarValue().(T)}
	} else {
		got = rd.Data().([]T)
	}
	if len(got) != len(want) {
		return fmt.Sprintf("diff:len%d", len(got))
	}
	for i := range want {
		if got[i] != want[i] {
			return fmt.Sprintf("diff:%d:%v:%v", i, got[i], want[i])
		}
	}
	for i, v := range t.Data().([]T) {
		if v != back[i] {
			return "operand-changed"
		}
	}
	return "same"
}

func init() {
	execs["xredfn"] = func(a []string) string {
		return guard(func() string {
			sh := ints(a[3])
			def, ax := atoi(a[2]), atoi(a[4])
			switch a[0] {
			case "f32":
				return xredfnRun[float32](a[1], def, sh, ax)
			case "f64":
				return xredfnRun[float64](a[1], def, sh, ax)
			case "i8":
				return xredfnRun[int8](a[1], def, sh, ax)
			case "i16":
				return xredfnRun[int16](a[1], def, sh, ax)
			case "i32":
				return xredfnRun[int32](a[1], def, sh, ax)
			case "i64":
				return xredfnRun[int64](a[1], def, sh, ax)
			case "i":
				return xredfnRun[int](a[1], def, sh, ax)
			case "u8":
				return xredfnRun[uint8](a[1], def, sh, ax)
			case "u16":
				return xredfnRun[uint16](a[1], def, sh, ax)
			case "u32":
				return xredfnRun[uint32](a[1], def, sh, ax)
			case "u64":
				return xredfnRun[uint64](a[1], def, sh, ax)
			case "u":
				return xredfnRun[uint](a[1], def, sh, ax)
			}
			return "unsupported"
		})
	}
}
