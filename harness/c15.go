package main

// C15 — masks are set, counted, iterated and respected consistently.
//
// kind:  mk <dt> <t> <prog> <mops>
//   runs the tensor-building program <prog> (prog.go), takes tensor <t> as the CURRENT tensor and
//   executes the mask operations <mops> (separated by ';', fields by ':') on it.  Every step
//   reports  <status>[=<value>][ <tensor>]  and the steps are joined by " # "; the observation is
//   <worst status>: <steps>.
//     <tensor> = [shape|L:logical elements (At)|K:logical mask bits (MaskAt)|W:raw Mask();IsMasked]
//   the |W:...] part is about storage and is not compared with the SPEC (vlib.project_prog).
//   A panic in a state-changing step ends the case; read-only queries go on after a panic.
//
//   state-changing:  setmask:<bits|_>  mfs:<bits>  mfd:<bits>  soft  hard  reset:<-|0|1>
//                    eq:x ne:x gt:x ge:x lt:x le:x in:x:y out:x:y val:x:rtol[:atol]
//                    T:<axes|_>  transpose  ut  slice:<spec>  clone  mat  filli:<v|->
//   read-only:       cnt[:ax] ncnt[:ax] any[:ax] all[:ax]   (MaskedCount/NonMaskedCount/MaskedAny/MaskedAll)
//                    nmc mc clu clm    (FlatNotMaskedContiguous, FlatMaskedContiguous, ClumpUnmasked, ClumpMasked)
//                    nme me            (FlatNotMaskedEdges, FlatMaskedEdges)
//                    iter              (IteratorFromDense + NextValidity: element token and validity)
//                    fill:<v|->        (Filled: the returned tensor, then the source)
//                    bin:<op>:<bits|->:<base>[:unsafe|reuse|incr]   (a.Op(b, opt), b a fresh row-major tensor of the same shape
//                                                holding base, base+1, ... with raw mask <bits>; the reuse/incr
//                                                destination is a fresh row-major tensor holding 40, 41, ...)
//
// kind:  mkcat <dt> <axis> <shapeA> <bitsA|-> <shapeB> <bitsB|->   (masked Concat, SPEC only)

import (
	"fmt"
	"strconv"
	"strings"

	"gorgonia.org/tensor"
)

type kworld struct {
	dt string
	t  *tensor.Dense
	// the tensor the current one was sliced from (nil when it is no view): a data-writing step on
	// the view must leave every cell of the parent that is not an element of the view as it was
	parent *tensor.Dense
	// the tensor the current one was cloned from: nothing done to the clone may change the source's
	// mask or data
	src     *tensor.Dense
	srcSnap string
}

func kSnap(t *tensor.Dense) (s string) {
	defer func() {
		if e := recover(); e != nil {
			s = "P"
		}
	}()
	return kBits(t.Mask()) + "|" + fmt.Sprint(t.Data())
}

// outsideCells: the raw data of the parent at the storage positions the view does not address
func (w *kworld) outsideCells() (out []int, ok bool) {
	defer func() {
		if e := recover(); e != nil {
			ok = false
		}
	}()
	if w.parent == nil || w.t == nil {
		return nil, false
	}
	p, v := w.parent, w.t
	n := p.DataSize()
	if n == 0 {
		return nil, false
	}
	isz := int(p.Dtype().Size())
	off := (int(v.Uintptr()) - int(p.Uintptr())) / isz
	inView := make(map[int]bool)
	it := tensor.FlatIteratorFromDense(v)
	for i, err := it.Next(); err == nil; i, err = it.Next() {
		inView[off+i] = true
	}
	for i := 0; i < n; i++ {
		if !inView[i] {
			out = append(out, valTok(p.Get(i)))
		}
	}
	return out, true
}

func kBits(m []bool) string {
	if len(m) == 0 {
		return "_"
	}
	var sb strings.Builder
	for _, b := range m {
		if b {
			sb.WriteByte('1')
		} else {
			sb.WriteByte('0')
		}
	}
	return sb.String()
}

func kParseBits(s string) []bool {
	if s == "_" || s == "-" {
		return nil
	}
	return bits(s)
}

func kMaskAt(t *tensor.Dense, c []int) (s string) {
	defer func() {
		if e := recover(); e != nil {
			s = "P"
		}
	}()
	m, err := t.MaskAt(c...)
	switch {
	case err != nil:
		return "E"
	case m:
		return "1"
	}
	return "0"
}

func kObs(t *tensor.Dense) (s string) {
	defer func() {
		if e := recover(); e != nil {
			s = "[P]"
		}
	}()
	sh := []int(t.Shape())
	var ls []string
	var ks strings.Builder
	for _, c := range boxCoords(sh) {
		ls = append(ls, safeAt(t, c))
		ks.WriteString(kMaskAt(t, c))
	}
	l, k := "_", "_"
	if len(ls) > 0 {
		l = strings.Join(ls, ",")
		k = ks.String()
	}
	im := 0
	if t.IsMasked() {
		im = 1
	}
	return fmt.Sprintf("[%s|L:%s|K:%s|W:%s;%d]", fints(sh), l, k, kBits(t.Mask()), im)
}

func kRed(v interface{}) string {
	switch x := v.(type) {
	case int:
		return strconv.Itoa(x)
	case bool:
		if x {
			return "true"
		}
		return "false"
	case *tensor.Dense:
		sh := []int(x.Shape())
		var vs []string
		for _, c := range boxCoords(sh) {
			e, err := x.At(c...)
			if err != nil {
				vs = append(vs, "E")
				continue
			}
			switch y := e.(type) {
			case int:
				vs = append(vs, strconv.Itoa(y))
			case bool:
				if y {
					vs = append(vs, "1")
				} else {
					vs = append(vs, "0")
				}
			default:
				vs = append(vs, "?")
			}
		}
		return "(" + fints(sh) + ")" + strings.Join(vs, ",")
	}
	return fmt.Sprintf("?%T", v)
}

func kRuns(sl []tensor.Slice) string {
	if len(sl) == 0 {
		return "_"
	}
	out := make([]string, len(sl))
	for i, s := range sl {
		out[i] = fmt.Sprintf("%d-%d", s.Start(), s.End())
	}
	return strings.Join(out, ",")
}

func kAxis(f []string) []int {
	if len(f) > 1 {
		return []int{atoi(f[1])}
	}
	return nil
}

var kReadOnly = map[string]bool{"cnt": true, "ncnt": true, "any": true, "all": true, "nmc": true, "mc": true,
	"clu": true, "clm": true, "nme": true, "me": true, "iter": true, "fill": true, "bin": true}

// mstep executes one mask operation: (observation, stop); a data-writing step on a view is followed
// by a look at the parent's other cells (mark at the end of the observation)
func (w *kworld) mstep(op string) (out string, stop bool) {
	f0 := strings.SplitN(op, ":", 2)[0]
	writes := f0 == "filli" || (f0 == "bin" && strings.HasSuffix(op, ":unsafe"))
	var before []int
	var okb bool
	if writes {
		before, okb = w.outsideCells()
	}
	out, stop = w.mstep1(op)
	if w.src != nil && f0 != "clone" && kSnap(w.src) != w.srcSnap {
		out += " !source-changed"
		w.srcSnap = kSnap(w.src)
	}
	if writes && okb {
		after, oka := w.outsideCells()
		if oka && fmt.Sprint(before) != fmt.Sprint(after) {
			out += " !parent-changed"
		}
	}
	return out, stop
}

func (w *kworld) mstep1(op string) (out string, stop bool) {
	f := strings.Split(op, ":")
	defer func() {
		if e := recover(); e != nil {
			out = "panic"
			stop = !kReadOnly[f[0]]
		}
	}()
	t := w.t
	tv := func(i int) interface{} { return tokVal(w.dt, atoi(f[i])) }
	st := func(err error) string {
		if err != nil {
			return "err " + kObs(w.t)
		}
		return "ok " + kObs(w.t)
	}
	switch f[0] {
	case "setmask":
		t.SetMask(kParseBits(f[1]))
		return st(nil), false
	case "mfs":
		t.MaskFromSlice(kParseBits(f[1]))
		return st(nil), false
	case "mfd":
		// MaskFromDense(b), b a fresh row-major tensor of the same shape with raw mask <bits>
		sh := []int(t.Shape())
		b := tensor.New(tensor.WithShape(sh...), tensor.WithBacking(backing(w.dt, iota(prod(sh)))))
		b.SetMask(kParseBits(f[1]))
		t.MaskFromDense(b)
		return st(nil), false
	case "soft":
		t.SoftenMask()
		return "ok", false
	case "hard":
		t.HardenMask()
		return "ok", false
	case "reset":
		var err error
		if f[1] == "-" {
			err = t.ResetMask()
		} else {
			err = t.ResetMask(f[1] == "1")
		}
		return st(err), false
	case "eq":
		return st(t.MaskedEqual(tv(1))), false
	case "ne":
		return st(t.MaskedNotEqual(tv(1))), false
	case "gt":
		return st(t.MaskedGreater(tv(1))), false
	case "ge":
		return st(t.MaskedGreaterEqual(tv(1))), false
	case "lt":
		return st(t.MaskedLess(tv(1))), false
	case "le":
		return st(t.MaskedLessEqual(tv(1))), false
	case "in":
		return st(t.MaskedInside(tv(1), tv(2))), false
	case "out":
		return st(t.MaskedOutside(tv(1), tv(2))), false
	case "val":
		if len(f) > 3 {
			return st(t.MaskedValues(tv(1), tv(2), tv(3))), false
		}
		return st(t.MaskedValues(tv(1), tv(2))), false
	case "T":
		return st(t.T(ints(f[1])...)), false
	case "ut":
		t.UT()
		return st(nil), false
	case "safet": // safet:<axes>[:api] — Dense.SafeT / tensor.T
		var r *tensor.Dense
		var err error
		if len(f) > 2 && f[2] == "api" {
			var rt tensor.Tensor
			if rt, err = tensor.T(t, ints(f[1])...); err == nil {
				r = rt.(*tensor.Dense)
			}
		} else {
			r, err = t.SafeT(ints(f[1])...)
		}
		if err != nil {
			return st(err), false
		}
		w.t = r
		return st(nil), false
	case "apitr": // apitr:<axes> — tensor.Transpose
		rt, err := tensor.Transpose(t, ints(f[1])...)
		if err != nil {
			return st(err), false
		}
		w.t = rt.(*tensor.Dense)
		return st(nil), false
	case "transpose":
		return st(t.Transpose()), false
	case "slice":
		v, err := t.Slice(parseSlices(f[1])...)
		if err != nil {
			return "err " + kObs(w.t), false
		}
		if w.parent == nil {
			w.parent = t
		}
		w.t = v.(*tensor.Dense)
		return st(nil), false
	case "slinto": // the other spelling: SliceInto a fresh *Dense
		v, err := t.SliceInto(new(tensor.Dense), parseSlices(f[1])...)
		if err != nil {
			return "err " + kObs(w.t), false
		}
		w.t = v.(*tensor.Dense)
		return st(nil), false
	case "clone":
		w.t = t.Clone().(*tensor.Dense)
		w.parent = nil
		w.src, w.srcSnap = t, kSnap(t)
		return st(nil), false
	case "mat":
		w.t = t.Materialize().(*tensor.Dense)
		return st(nil), false
	case "filli":
		var err error
		if f[1] == "-" {
			_, err = t.FilledInplace()
		} else {
			_, err = t.FilledInplace(tv(1))
		}
		return st(err), false
	case "fill":
		var r interface{}
		var err error
		if f[1] == "-" {
			r, err = t.Filled()
		} else {
			r, err = t.Filled(tv(1))
		}
		if err != nil {
			return "err", false
		}
		return "ok R" + kObs(r.(*tensor.Dense)) + " S" + kObs(t), false
	case "cnt":
		return "ok=" + kRed(t.MaskedCount(kAxis(f)...)), false
	case "ncnt":
		return "ok=" + kRed(t.NonMaskedCount(kAxis(f)...)), false
	case "any":
		return "ok=" + kRed(t.MaskedAny(kAxis(f)...)), false
	case "all":
		return "ok=" + kRed(t.MaskedAll(kAxis(f)...)), false
	case "nmc":
		return "ok=" + kRuns(t.FlatNotMaskedContiguous()), false
	case "mc":
		return "ok=" + kRuns(t.FlatMaskedContiguous()), false
	case "clu":
		return "ok=" + kRuns(t.ClumpUnmasked()), false
	case "clm":
		return "ok=" + kRuns(t.ClumpMasked()), false
	case "nme":
		a, b := t.FlatNotMaskedEdges()
		return fmt.Sprintf("ok=%d,%d", a, b), false
	case "me":
		a, b := t.FlatMaskedEdges()
		return fmt.Sprintf("ok=%d,%d", a, b), false
	case "iter":
		it := tensor.IteratorFromDense(t)
		var parts []string
		for n := 0; n < 4096; n++ {
			i, valid, err := it.NextValidity()
			if err != nil {
				break
			}
			c := "-"
			if valid {
				c = "+"
			}
			parts = append(parts, strconv.Itoa(valTok(t.Get(i)))+c)
		}
		if len(parts) == 0 {
			return "ok=_", false
		}
		return "ok=" + strings.Join(parts, ","), false
	case "bin":
		sh := []int(t.Shape())
		n := prod(sh)
		toks := make([]int, n)
		for i := range toks {
			toks[i] = atoi(f[3]) + i
		}
		b := tensor.New(tensor.WithShape(sh...), tensor.WithBacking(backing(w.dt, toks)))
		if f[2] != "-" {
			b.SetMask(kParseBits(f[2]))
		}
		var o []tensor.FuncOpt
		if len(f) > 4 {
			switch f[4] {
			case "unsafe":
				o = append(o, tensor.UseUnsafe())
			case "reuse", "incr":
				dt := make([]int, n)
				for i := range dt {
					dt[i] = 40 + i
				}
				d := tensor.New(tensor.WithShape(sh...), tensor.WithBacking(backing(w.dt, dt)))
				if f[4] == "reuse" {
					o = append(o, tensor.WithReuse(d))
				} else {
					o = append(o, tensor.WithIncr(d))
				}
			}
		}
		r, err := denseBin(f[1], t, b, o)
		if err != nil {
			return "err", false
		}
		return "ok R" + kObs(r) + " S" + kObs(t), false
	}
	panic("unknown mask op " + op)
}

// kOverall: the status of the whole case = the worst status of its steps (the observation
// starts with it so that the evidence can count the cases the library accepted)
func kOverall(steps []string) string {
	st := "ok"
	for _, s := range steps {
		switch {
		case strings.HasPrefix(s, "panic"):
			return "panic"
		case strings.HasPrefix(s, "err"):
			st = "err"
		}
	}
	return st
}

func init() {
	execs["mk"] = func(a []string) string {
		dt, ti, prog, mops := a[0], atoi(a[1]), a[2], a[3]
		pw := &world{dt: dt}
		for _, op := range strings.Split(prog, ";") {
			if st := pw.step(op); st == "panic" {
				return "progpanic"
			}
		}
		w := &kworld{dt: dt, t: pw.ts[ti]}
		var out []string
		for _, op := range strings.Split(mops, ";") {
			o, stop := w.mstep(op)
			out = append(out, o)
			if stop {
				break
			}
		}
		return kOverall(out) + ": " + strings.Join(out, " # ")
	}
	execs["mkcat"] = func(a []string) string {
		dt, axis := a[0], atoi(a[1])
		mkT := func(shs, bs string, base int) *tensor.Dense {
			sh := ints(shs)
			toks := make([]int, prod(sh))
			for i := range toks {
				toks[i] = base + i
			}
			t := tensor.New(tensor.WithShape(sh...), tensor.WithBacking(backing(dt, toks)))
			if bs != "-" {
				t.SetMask(kParseBits(bs))
			}
			return t
		}
		x := mkT(a[2], a[3], 0)
		y := mkT(a[4], a[5], 50)
		r, err := x.Concat(axis, y)
		if err != nil {
			return "err: A" + kObs(x) + " B" + kObs(y)
		}
		return "ok: R" + kObs(r) + " A" + kObs(x) + " B" + kObs(y)
	}
	gens["C15"] = genC15
}

// ---------------------------------------------------------------- generator

var kPreds = []string{"eq", "ne", "gt", "ge", "lt", "le", "in", "out", "val", "val3"}

// one predicate op with comparands around the token range [lo, hi] of the tensor
func kPredOp(r *rng, p string, lo, hi int) string {
	x := r.rangeInt(lo, hi)
	switch p {
	case "in", "out":
		y := r.rangeInt(x, hi+1)
		return fmt.Sprintf("%s:%d:%d", p, x, y)
	case "val":
		return fmt.Sprintf("val:%d:%d", x, r.intn(2))
	case "val3":
		return fmt.Sprintf("val:%d:%d:%d", x, r.intn(2), r.intn(3))
	}
	return fmt.Sprintf("%s:%d", p, x)
}

func kRandBits(r *rng, n int) string {
	if n == 0 {
		return "_"
	}
	var sb strings.Builder
	for i := 0; i < n; i++ {
		if r.intn(2) == 0 {
			sb.WriteByte('1')
		} else {
			sb.WriteByte('0')
		}
	}
	return sb.String()
}

func kAllBits(n int) []string {
	out := make([]string, 0, 1<<uint(n))
	for m := 0; m < 1<<uint(n); m++ {
		var sb strings.Builder
		for i := 0; i < n; i++ {
			if m>>uint(i)&1 == 1 {
				sb.WriteByte('1')
			} else {
				sb.WriteByte('0')
			}
		}
		out = append(out, sb.String())
	}
	return out
}

// window length of tensor idx after the program (generators only)
func kWindow(dt, prog string, idx int) (n int, sh []int, ok bool) {
	defer func() {
		if e := recover(); e != nil {
			ok = false
		}
	}()
	w := &world{dt: dt}
	for _, op := range strings.Split(prog, ";") {
		if st := w.step(op); st == "panic" {
			return 0, nil, false
		}
	}
	if idx >= len(w.ts) {
		return 0, nil, false
	}
	t := w.ts[idx]
	if t.IsScalar() {
		return 1, []int{}, true
	}
	return t.DataSize(), append([]int{}, []int(t.Shape())...), true
}

// shapes of exactly n elements: vector, row/column vectors, matrices, rank 3
func kShapes(n int, full bool) [][]int {
	out := [][]int{{n}}
	if n == 1 {
		return [][]int{{1}, {}, {1, 1}}
	}
	if full || n <= 4 {
		out = append(out, []int{1, n}, []int{n, 1})
	}
	for a := 2; a < n; a++ {
		if n%a == 0 {
			out = append(out, []int{a, n / a})
		}
	}
	// rank 3
	for a := 1; a <= n; a++ {
		for b := 1; a*b <= n; b++ {
			if n%(a*b) != 0 {
				continue
			}
			c := n / (a * b)
			ones := 0
			for _, d := range []int{a, b, c} {
				if d == 1 {
					ones++
				}
			}
			if ones >= 2 && !(full && n <= 4) {
				continue
			}
			if !full && ones == 1 && !(a == 1 && n == 6 || b == 1 && n == 4 || c == 1 && n == 6 && a == 2) {
				continue
			}
			out = append(out, []int{a, b, c})
		}
	}
	return out
}

var kCoreDts = []string{"i", "i8", "u8", "f32", "f64"}
var kMoreDts = []string{"i16", "i32", "i64", "u", "u16", "u32", "u64", "str", "b", "c128"}

// maskPredSweep: every masking predicate on every element type with the SAME systematically chosen
// comparands (negative reference values with relative and absolute tolerances included): the
// per-type instances of the generated predicates must all compute the one template (C15, C17)
func maskPredSweep(emit func(string)) {
	for _, dt := range append(append([]string{}, kCoreDts...), kMoreDts...) {
		if dt == "b" || dt == "c128" || dt == "c64" || dt == "str" {
			continue
		}
		signed := !strings.HasPrefix(dt, "u")
		for _, base := range []int{-5, 0} {
			if base < 0 && !signed {
				continue
			}
			var ops []string
			for _, x := range []int{base + 1, base + 3, base + 6} {
				for _, p := range []string{"eq", "ne", "gt", "ge", "lt", "le"} {
					ops = append(ops, fmt.Sprintf("%s:%d", p, x))
				}
				for _, rtol := range []int{0, 1} {
					for _, atol := range []int{0, 1, 2} {
						ops = append(ops, fmt.Sprintf("val:%d:%d:%d", x, rtol, atol))
					}
					ops = append(ops, fmt.Sprintf("val:%d:%d", x, rtol))
				}
				ops = append(ops, fmt.Sprintf("in:%d:%d", x, x+2), fmt.Sprintf("out:%d:%d", x, x+2), fmt.Sprintf("in:%d:%d", x+2, x), fmt.Sprintf("out:%d:%d", x+2, x))
			}
			for _, o := range ops {
				emit(fmt.Sprintf("mk %s 0 new:rm:8:%d hard;%s", dt, base, o))
			}
		}
	}
}

func genC15(tier string, r *rng, emit func(string)) {
	thorough := tier == "thorough"
	mk := func(dt string, idx int, prog, mops string) {
		emit(fmt.Sprintf("mk %s %d %s %s", dt, idx, prog, mops))
	}

	// ---- A. masking predicates: predicate x dtype x soft/hard x prior mask x layout ----
	type src struct {
		layout string
		sh     []int
	}
	srcs := []src{{"rm", []int{5}}, {"rm", []int{2, 3}}, {"rm", []int{}}, {"cm", []int{2, 3}}, {"T", []int{3, 2}},
		{"slice", []int{2, 2}}, {"rm", []int{1, 4}}, {"rm", []int{2, 1, 2}}}
	negCtr := 0
	predRound := func(dts []string, srcs []src, reps int) {
		for _, dt := range dts {
			preds := kPreds
			if dt == "b" || dt == "c128" {
				preds = []string{"eq", "ne", "val"}
			}
			for _, p := range preds {
				for _, s := range srcs {
					for rep := 0; rep < reps; rep++ {
						base := r.intn(4)
						negCtr++
						if negCtr%2 == 1 && (dt == "i" || dt == "i8" || dt == "i16" || dt == "i32" || dt == "i64" || dt == "f32" || dt == "f64") {
							base = -r.rangeInt(1, 6) // negative elements and comparands (tolerances use |value|)
						}
						prog, idx := source(r, s.layout, s.sh, base)
						n, _, ok := kWindow(dt, prog, idx)
						if !ok {
							continue
						}
						lo, hi := base, base+prod(s.sh)
						if dt == "b" {
							lo, hi = 0, 1
						}
						for _, soft := range []string{"soft", "hard"} {
							for prior := 0; prior < 3; prior++ {
								var pre string
								switch prior {
								case 0:
									pre = soft
								case 1:
									pre = "reset:0;" + soft
								case 2:
									pre = "setmask:" + kRandBits(r, n) + ";" + soft
								}
								mk(dt, idx, prog, pre+";"+kPredOp(r, p, lo, hi))
							}
						}
					}
				}
			}
		}
	}
	reps := 1
	if thorough {
		reps = 4
	}
	maskPredSweep(emit)
	predRound(kCoreDts, srcs, reps)
	predRound(kMoreDts, srcs[:3], reps)
	// two predicates in a row (hard accumulates, soft replaces), reset, MaskFromSlice
	for i := 0; i < 120*reps; i++ {
		dt := kCoreDts[i%len(kCoreDts)]
		s := srcs[r.intn(2)]
		prog, idx := source(r, s.layout, s.sh, 0)
		n := prod(s.sh)
		p1 := kPredOp(r, kPreds[r.intn(8)], 0, n)
		p2 := kPredOp(r, kPreds[r.intn(8)], 0, n)
		switch i % 4 {
		case 0:
			mk(dt, idx, prog, "hard;"+p1+";"+p2)
		case 1:
			mk(dt, idx, prog, "soft;"+p1+";"+p2)
		case 2:
			mk(dt, idx, prog, "soft;"+p1+";hard;"+p2+";reset:"+[]string{"-", "0", "1"}[r.intn(3)])
		case 3:
			mk(dt, idx, prog, "mfs:"+kRandBits(r, r.rangeInt(1, n+1))+";"+[]string{"soft", "hard"}[r.intn(2)]+";"+p1)
		}
	}

	// ---- B. inspection functions: EVERY mask over <= N elements, one query per case ----
	maxN := 6
	if thorough {
		maxN = 10
	}
	flatQ := []string{"cnt", "ncnt", "any", "all", "nmc", "mc", "nme", "me", "iter"}
	axisQ := []string{"cnt", "ncnt", "any", "all"}
	for n := 1; n <= maxN; n++ {
		shapes := kShapes(n, thorough && n <= 8)
		for _, sh := range shapes {
			prog := fmt.Sprintf("new:rm:%s:0", fints(sh))
			for _, bs := range kAllBits(n) {
				pre := "setmask:" + bs + ";"
				for _, q := range flatQ {
					mk("f64", 0, prog, pre+q)
				}
				isVec := len(sh) == 1 || (len(sh) == 2 && (sh[0] == 1 || sh[1] == 1))
				for ax := 0; ax < len(sh); ax++ {
					qs := axisQ
					if isVec {
						qs = axisQ[:1]
					}
					for _, q := range qs {
						mk("f64", 0, prog, fmt.Sprintf("%s%s:%d", pre, q, ax))
					}
				}
			}
			// no mask at all, aliases, axis out of range
			for _, q := range append(append([]string{}, flatQ...), "clu", "clm", "cnt:0", "any:0", fmt.Sprintf("cnt:%d", len(sh)), fmt.Sprintf("all:%d", len(sh)+1), "ncnt:-1") {
				mk("f64", 0, prog, q)
			}
			bs := kRandBits(r, n)
			for _, q := range []string{"clu", "clm", fmt.Sprintf("cnt:%d", len(sh)), fmt.Sprintf("any:%d", len(sh)+1), "ncnt:-1"} {
				mk("f64", 0, prog, "setmask:"+bs+";"+q)
			}
		}
	}

	// rank 3 without unit axes (the only shapes on which the per-axis reductions answer): a sample
	// of the 256 masks of (2,2,2) in the quick tier (the thorough tier sweeps them all above)
	if !thorough {
		for k := 0; k < 24; k++ {
			bs := kRandBits(r, 8)
			for ax := 0; ax < 3; ax++ {
				for _, q := range axisQ {
					mk("f64", 0, "new:rm:2,2,2:0", fmt.Sprintf("setmask:%s;%s:%d", bs, q, ax))
				}
			}
		}
	}

	// ---- C. masks through T, Transpose, Slice, Clone, Materialize; queries on such tensors ----
	type tcase struct {
		sh   []int
		axes []string
		sls  []string
	}
	tcs := []tcase{
		{[]int{2, 3}, []string{"_", "1,0"}, []string{"0.1.0/_", "_/1.3.1", "1.2.0/0.2.1", "_/0.3.2", "0.2.1/1.2.0"}},
		// non-square matrices whose transposition permutes in longer cycles, and a rank-3 tensor
		{[]int{3, 4}, []string{"_"}, []string{"_/1.2.0", "_/0.3.2", "1.3.1/1.3.1"}},
		{[]int{4, 3}, []string{"1,0"}, []string{"_/2.3.0", "1.3.1/_"}},
		{[]int{2, 5}, []string{"_"}, []string{"_/1.4.1"}},
		{[]int{3, 3}, []string{"_"}, []string{"_/1.2.0", "1.3.1/0.3.2"}},
		{[]int{2, 3, 4}, []string{"_", "1,0,2", "2,0,1"}, []string{"_/_/1.2.0", "_/1.2.0/_", "0.2.1/0.2.1/0.3.2"}},
		{[]int{4}, nil, []string{"1.3.1", "0.4.2", "2.3.0"}},
		{[]int{1, 4}, []string{"_"}, []string{"_/1.3.1"}},
		{[]int{3, 1}, []string{"1,0"}, []string{"1.3.1/_"}},
		{[]int{2, 2, 2}, []string{"_", "1,0,2", "0,2,1", "1,2,0", "2,0,1"}, []string{"1.2.0/_/_", "_/0.1.0/_", "_/_/1.2.0", "0.2.1/1.2.0/0.2.1"}},
		{[]int{2, 1, 3}, []string{"_", "2,0,1"}, []string{"_/_/0.3.2", "1.2.0/_/_"}},
	}
	after := []string{"cnt", "ncnt", "any", "all", "nmc", "mc", "nme", "me", "iter", "fill:77", "filli:77", "clone", "mat", "eq:1",
		"cnt:0", "ncnt:1", "any:0", "all:1", "cnt:2", "gt:2"}
	nmask := 6
	if thorough {
		nmask = 24
	}
	dtsC := []string{"f64", "i", "str", "u8"}
	for ci, tc := range tcs {
		n := prod(tc.sh)
		for _, order := range []string{"rm", "cm"} {
			if order == "cm" && len(tc.sh) == 2 && (tc.sh[0] == 1 || tc.sh[1] == 1) {
				continue // column-major vectors carry one stride: F38
			}
			prog := fmt.Sprintf("new:%s:%s:0", order, fints(tc.sh))
			for k := 0; k < nmask; k++ {
				bs := kRandBits(r, n)
				dt := dtsC[(k+ci)%len(dtsC)]
				for _, ax := range tc.axes {
					mk(dt, 0, prog, fmt.Sprintf("setmask:%s;T:%s", bs, ax))
					q := after[r.intn(len(after))]
					mk(dt, 0, prog, fmt.Sprintf("setmask:%s;T:%s;%s", bs, ax, q))
					// (a physical Transpose of a column-major tensor is F37, a second T on a pending
					// one is F36: both outside this property)
					if k%3 == 0 { // the copying spellings: the mask goes with the copy
						mk(dt, 0, prog, fmt.Sprintf("setmask:%s;safet:%s;%s", bs, ax, after[r.intn(len(after))]))
						mk(dt, 0, prog, fmt.Sprintf("setmask:%s;safet:%s:api", bs, ax))
						if order == "rm" {
							mk(dt, 0, prog, fmt.Sprintf("setmask:%s;apitr:%s;%s", bs, ax, after[r.intn(len(after))]))
						}
					}
					if order == "rm" {
						mk(dt, 0, prog, fmt.Sprintf("setmask:%s;T:%s;transpose", bs, ax))
						q = after[r.intn(len(after))]
						mk(dt, 0, prog, fmt.Sprintf("setmask:%s;T:%s;transpose;%s", bs, ax, q))
					}
				}
				for _, sl := range tc.sls {
					mk(dt, 0, prog, fmt.Sprintf("setmask:%s;slice:%s", bs, sl))
					if k%3 == 1 {
						mk(dt, 0, prog, fmt.Sprintf("setmask:%s;slinto:%s;%s", bs, sl, after[r.intn(len(after))]))
					}
					q := after[r.intn(len(after))]
					mk(dt, 0, prog, fmt.Sprintf("setmask:%s;slice:%s;%s", bs, sl, q))
					if k%2 == 0 {
						// writing through a masked view: only the view's own masked elements change
						mk(dt, 0, prog, fmt.Sprintf("setmask:%s;slice:%s;filli:77", bs, sl))
					}
					if len(tc.axes) > 0 {
						ax := tc.axes[r.intn(len(tc.axes))]
						mk(dt, 0, prog, fmt.Sprintf("setmask:%s;T:%s;slice:%s", bs, ax, sl))
					}
				}
				mk(dt, 0, prog, fmt.Sprintf("setmask:%s;mfd:%s", bs, kRandBits(r, n)))
				mk(dt, 0, prog, fmt.Sprintf("mfd:%s", bs))
				if len(tc.axes) > 0 {
					mk(dt, 0, prog, fmt.Sprintf("setmask:%s;T:%s;mfd:%s", bs, tc.axes[r.intn(len(tc.axes))], kRandBits(r, n)))
				}
				mk(dt, 0, prog, fmt.Sprintf("setmask:%s;clone", bs))
				mk(dt, 0, prog, fmt.Sprintf("soft;setmask:%s;clone;eq:1", bs))
			}
		}
	}

	// ---- D. Filled / FilledInplace: every mask over the small shapes, explicit and default value ----
	fillShapes := [][]int{{}, {1}, {3}, {4}, {1, 3}, {3, 1}, {1, 4}, {2, 2}, {2, 3}, {1, 2, 2}, {2, 1, 2}}
	for _, sh := range fillShapes {
		n := prod(sh)
		prog := fmt.Sprintf("new:rm:%s:0", fints(sh))
		for _, bs := range kAllBits(n) {
			mk("f64", 0, prog, "setmask:"+bs+";fill:77")
			mk("i", 0, prog, "setmask:"+bs+";filli:77")
		}
		// the default fill value is chosen per element type: every type, Filled and FilledInplace
		for _, dt := range dtypeNames {
			mk(dt, 0, prog, "setmask:"+kRandBits(r, n)+";fill:-")
			if n > 0 && n <= 4 {
				mk(dt, 0, prog, "setmask:"+strings.Repeat("1", n)+";filli:-")
				mk(dt, 0, prog, "setmask:"+strings.Repeat("1", n)+";fill:-")
			}
		}
		mk("f32", 0, prog, "mfd:"+kRandBits(r, n))
		mk("f32", 0, prog, "mfd:"+strings.Repeat("1", n))
		mk("f32", 0, prog, "fill:5")
		mk("f32", 0, prog, "filli:5")
	}

	// ---- E. elementwise operations on masked operands ----
	nE := 450
	if thorough {
		nE = 2000
	}
	binOps := []string{"add", "sub", "mul"}
	layE := []string{"rm", "rm", "cm", "T", "slice", "stepslice"}
	for i := 0; i < nE; i++ {
		sh := [][]int{{4}, {2, 3}, {3, 2}, {2, 2, 2}, {1, 3}, {1}, {2, 1}}[r.intn(7)]
		n := prod(sh)
		lay := layE[r.intn(len(layE))]
		prog, idx := source(r, lay, sh, 1)
		dt := []string{"f64", "i", "f32", "i8", "u8", "c128"}[r.intn(6)]
		wn, _, ok := kWindow(dt, prog, idx)
		if !ok {
			continue
		}
		ma, mb := "-", "-"
		pre := ""
		switch r.intn(4) {
		case 0:
			ma = kRandBits(r, wn)
		case 1:
			mb = kRandBits(r, n)
		default:
			ma, mb = kRandBits(r, wn), kRandBits(r, n)
		}
		if ma != "-" {
			pre = "setmask:" + ma + ";"
		}
		op := binOps[r.intn(len(binOps))]
		if (dt == "u8" && op == "sub") || ((dt == "c128" || dt == "i8" || dt == "u8") && op == "mul") {
			op = "add" // tokens stay representable: no unsigned wrap, no complex cross terms
		}
		mode := []string{"", "", ":unsafe", ":reuse", ":incr"}[r.intn(5)]
		if n == 1 && mode != "" && mode != ":unsafe" {
			mode = "" // one-element destinations: the length-one dispatch of the kernels is F52
		}
		mk(dt, idx, prog, fmt.Sprintf("%sbin:%s:%s:%d%s", pre, op, mb, 2, mode))
	}

	// ---- F. masked Concat (SPEC only) ----
	for _, c := range [][]string{
		{"0", "2,3", "2,3"}, {"1", "2,2", "2,3"}, {"0", "3", "2"}, {"0", "1,3", "2,3"}, {"2", "2,2,1", "2,2,2"},
	} {
		na, nb := prod(ints(c[1])), prod(ints(c[2]))
		for k := 0; k < 4; k++ {
			ma, mb := "-", "-"
			if k&1 == 1 {
				ma = kRandBits(r, na)
			}
			if k&2 == 2 {
				mb = kRandBits(r, nb)
			}
			emit(fmt.Sprintf("mkcat f64 %s %s %s %s %s", c[0], c[1], ma, c[2], mb))
		}
	}
}
