package main

import (
	"fmt"
	"strings"

	"gorgonia.org/tensor"
)

func init() {
	// shapes sh slices : Shape.S
	execs["shapes"] = func(a []string) string {
		s, err := tensor.Shape(ints(a[0])).S(parseSlices(a[1])...)
		if err != nil {
			return "err"
		}
		return "ok:" + fints(s)
	}
	// aps sh order slices : shape of AP.S on a tensor with default strides of that order
	execs["aps"] = func(a []string) string {
		sh := ints(a[0])
		var ap tensor.AP
		if a[1] == "cm" {
			ap = tensor.MakeAP(tensor.Shape(sh), tensor.Shape(sh).CalcStridesColMajor(), tensor.ColMajor, 0)
		} else {
			ap = tensor.MakeAP(tensor.Shape(sh), tensor.Shape(sh).CalcStrides(), 0, 0)
		}
		nap, s, e, err := ap.S(prod(sh), parseSlices(a[2])...)
		if err != nil {
			return "err"
		}
		return fmt.Sprintf("ok:%s/%s/%d/%d/%d", fints(nap.Shape()), fints(nap.Strides()), s, e, int(nap.DataOrder()))
	}
	// apt sh strides axes : AP.T
	execs["apt"] = func(a []string) string {
		ap := tensor.MakeAP(tensor.Shape(ints(a[0])), ints(a[1]), 0, 0)
		nap, ax, err := ap.T(ints(a[2])...)
		if err != nil {
			if _, ok := err.(tensor.NoOpError); ok {
				return "noop"
			}
			return "err"
		}
		return fmt.Sprintf("ok:%s/%s/%s", fints(nap.Shape()), fints(nap.Strides()), fints(ax))
	}
	// proginv dt prog : run a program, then report the metadata invariant of every live tensor
	execs["proginv"] = func(a []string) string {
		w := &world{dt: a[0]}
		for _, op := range strings.Split(a[1], ";") {
			if st := w.step(op); st == "panic" {
				return "panic"
			}
		}
		var out []string
		for i, t := range w.ts {
			out = append(out, invOf(i, t))
		}
		return strings.Join(out, " ")
	}
	// shapec shape axis others(;-separated) : Shape.Concat vs Dense.Concat on row-major tensors
	execs["shapec"] = func(a []string) string {
		sh := ints(a[0])
		var oss []tensor.Shape
		var ots []*tensor.Dense
		mk := func(s []int) *tensor.Dense {
			return tensor.New(tensor.WithShape(s...), tensor.WithBacking(make([]float64, prod(s))))
		}
		if a[2] != "-" {
			for _, o := range strings.Split(a[2], ";") {
				oss = append(oss, tensor.Shape(ints(o)))
				ots = append(ots, mk(ints(o)))
			}
		}
		calc := func() (s string) {
			defer func() {
				if e := recover(); e != nil {
					s = "panic"
				}
			}()
			r, err := tensor.Shape(sh).Concat(atoi(a[1]), oss...)
			if err != nil {
				return "err"
			}
			return "ok:" + fints(r)
		}()
		exec := func() (s string) {
			defer func() {
				if e := recover(); e != nil {
					s = "panic"
				}
			}()
			r, err := mk(sh).Concat(atoi(a[1]), ots...)
			if err != nil {
				return "err"
			}
			return "ok:" + fints(r.Shape())
		}()
		return calcExecObs(calc, exec)
	}
	// shaper shape axis reps : Shape.Repeat vs tensor.Repeat
	execs["shaper"] = func(a []string) string {
		sh := ints(a[0])
		calc := func() (s string) {
			defer func() {
				if e := recover(); e != nil {
					s = "panic"
				}
			}()
			r, _, _, err := tensor.Shape(sh).Repeat(atoi(a[1]), ints(a[2])...)
			if err != nil {
				return "err"
			}
			return "ok:" + fints(r)
		}()
		exec := func() (s string) {
			defer func() {
				if e := recover(); e != nil {
					s = "panic"
				}
			}()
			t := tensor.New(tensor.WithShape(sh...), tensor.WithBacking(make([]float64, prod(sh))))
			r, err := tensor.Repeat(t, atoi(a[1]), ints(a[2])...)
			if err != nil {
				return "err"
			}
			return "ok:" + fints(r.Shape())
		}()
		return calcExecObs(calc, exec)
	}
	gens["C13"] = genC13
}

func invOf(i int, t *tensor.Dense) (s string) {
	defer func() {
		if e := recover(); e != nil {
			s = fmt.Sprintf("T%d:P", i)
		}
	}()
	sh := []int(t.Shape())
	st := t.Strides()
	n := len(dataToks(t.Data()))
	distinct, inb := 1, 1
	seen := map[int]bool{}
	for _, c := range boxCoords(sh) {
		o, err := tensor.Ltoi(tensor.Shape(sh), st, c...)
		if err != nil {
			o = -1
		}
		if seen[o] {
			distinct = 0
		}
		seen[o] = true
		if o < 0 || o >= n {
			inb = 0
		}
	}
	return fmt.Sprintf("T%d:%d:%d:%d:%d", i, t.Size(), prod(sh), distinct, inb)
}

func factorisations(n int, maxRank int) [][]int {
	var out [][]int
	var rec func(rem int, cur []int)
	rec = func(rem int, cur []int) {
		if len(cur) > 0 && rem == 1 {
			out = append(out, append([]int{}, cur...))
		}
		if len(cur) >= maxRank {
			return
		}
		for d := 1; d <= rem; d++ {
			if rem%d == 0 && !(d == 1 && len(cur) > 1) {
				rec(rem/d, append(cur, d))
			}
		}
	}
	rec(n, nil)
	return out
}

func genC13(tier string, r *rng, emit func(string)) {
	intPoolMotifs(emit)
	// a Reshape that is refused (non-contiguous view) must not have moved anything first, also
	// when the view carries a pending lazy transpose
	for _, c := range []string{"new:rm:3,4:0;slice:0:_/1.3.1;T:1:1,0;reshape:1:6", "new:rm:3,4:0;slice:0:_/0.2.1;T:1:1,0;reshape:1:2,3",
		"new:rm:3,4:0;slice:0:_/1.3.1;reshape:1:6", "new:rm:2,3,4:0;slice:0:_/_/1.3.1;T:1:2,0,1;reshape:1:12", "new:rm:4,4:0;slice:0:0.4.2/_;T:1:1,0;reshape:1:8"} {
		emit("prog f64 " + c)
		emit("prog i " + c + ";at:0:1,1")
	}
	// a CONTIGUOUS view (a run of leading rows, a single leading index) with a pending lazy
	// transpose is reshaped after its data were moved into the transposed order; the reshaped view,
	// its parent, a second reshape back and an undo afterwards
	for _, c := range []string{"new:rm:4,3:0;slice:0:1.3.1;T:1:_;reshape:1:6", "new:rm:4,3:0;slice:0:1.3.1;T:1:_;reshape:1:6;reshape:1:2,3;UT:1",
		"new:rm:4,3:0;slice:0:1.3.1;T:1:_;reshape:1:3,2;at:1:2,1;at:0:1,1", "new:rm:3,2,3:0;slice:0:1.2.0;T:1:_;reshape:1:6;at:1:4",
		"new:rm:3,2,3:0;slice:0:1.3.1;T:1:1,0,2;reshape:1:4,3", "new:rm:3,2,3:0;slice:0:0.2.1;T:1:2,1,0;reshape:1:12;reshape:1:3,4;T:1:_",
		"new:rm:4,3:0;slice:0:1.3.1;T:1:_;T:1:_;reshape:1:6", "new:rm:4,3:0;slice:0:1.3.1;reshape:1:6;T:1:_", "new:rm:6:0;slice:0:1.5.1;reshape:1:2,2;T:1:_;reshape:1:4"} {
		emit("prog f64 " + c)
		emit("prog i " + c)
	}
	// found by the proof of history_refines (RefineProofs.v), not by the generators: Reshape of a
	// slice along the leading axis of a lazily transposed tensor (its contiguity flag is unsound: F5)
	for _, p := range []string{"new:rm:2,3:1;T:0:_;slice:0:0.2.1;reshape:1:4", "new:rm:3,3:1;T:0:1,0;slice:0:0.2.1;reshape:1:6",
		"new:rm:2,3,2:1;T:0:2,1,0;slice:0:0.2.1;reshape:1:12", "new:rm:3,4:1;T:0:1,0;slice:0:1.3.1;reshape:1:2,3"} {
		emit("prog f64 " + p)
		emit("prog i " + p)
	}
	thorough := tier == "thorough"
	// (0) the Concat / Repeat shape calculators against the executed operations: every axis in
	//     [-1, rank+1], fitting and misfitting partners, uniform / per-element / wrong-length counts
	// Narrow (package-level and method form) against the slicing calculator: the same programs as C02
	for _, sh := range [][]int{{4}, {3, 4}, {2, 3, 2}} {
		for dim := range sh {
			for st := 0; st <= sh[dim]; st++ {
				for ln := 0; st+ln <= sh[dim]+1; ln++ {
					for _, form := range []string{"api", "method"} {
						emit(fmt.Sprintf("prog f64 new:rm:%s:0;narrow:0:%d:%d:%d:%s", fints(sh), dim, st, ln, form))
					}
				}
			}
		}
	}
	for _, sh := range [][]int{{3}, {2, 3}, {3, 1}, {1, 3}, {2, 3, 2}, {2, 1, 2, 3}} {
		for axis := -1; axis <= len(sh)+1; axis++ {
			emit(fmt.Sprintf("shapec %s %d -", fints(sh), axis))
			same := fints(sh)
			emit(fmt.Sprintf("shapec %s %d %s", fints(sh), axis, same))
			emit(fmt.Sprintf("shapec %s %d %s;%s", fints(sh), axis, same, same))
			if axis >= 0 && axis < len(sh) {
				o := append([]int{}, sh...)
				o[axis] += 2
				emit(fmt.Sprintf("shapec %s %d %s", fints(sh), axis, fints(o)))
				p := append([]int{}, sh...)
				p[(axis+1)%len(sh)] += 1
				emit(fmt.Sprintf("shapec %s %d %s", fints(sh), axis, fints(p))) // misfit off the axis (or on it for rank 1)
			}
			emit(fmt.Sprintf("shapec %s %d %s", fints(sh), axis, fints(append(append([]int{}, sh...), 2)))) // rank misfit
			for _, reps := range []string{"2", "0", "1,2", "1,0,2", "2,1,1,2"} {
				emit(fmt.Sprintf("shaper %s %d %s", fints(sh), axis, reps))
			}
		}
	}
	// (1) Shape.S vs AP.S over the complete per-axis argument sets (rank 1-2 full, rank 3-4 random)
	maxD := 4
	if thorough {
		maxD = 5
	}
	for d := 1; d <= 5; d++ {
		crossSpecs([]int{d}, []int{0, 1, 2, 3}, func(sl string) {
			emit(fmt.Sprintf("shapes %d %s", d, sl))
			emit(fmt.Sprintf("aps %d rm %s", d, sl))
			emit(fmt.Sprintf("aps %d cm %s", d, sl))
		})
		for _, b := range badSpecs(d) {
			emit(fmt.Sprintf("shapes %d %s", d, b))
			emit(fmt.Sprintf("aps %d rm %s", d, b))
		}
	}
	for a := 1; a <= maxD; a++ {
		for b := 1; b <= maxD; b++ {
			crossSpecs([]int{a, b}, []int{0, 1, 2}, func(sl string) {
				if !thorough && r.intn(3) != 0 {
					return
				}
				emit(fmt.Sprintf("shapes %d,%d %s", a, b, sl))
				emit(fmt.Sprintf("aps %d,%d rm %s", a, b, sl))
				if r.intn(2) == 0 {
					emit(fmt.Sprintf("aps %d,%d cm %s", a, b, sl))
				}
			})
		}
	}
	n := 5000
	if thorough {
		n = 80000
	}
	for i := 0; i < n; i++ {
		sh := randShape(r, 0, 4, 5)
		sl := randSlices(r, sh)
		emit(fmt.Sprintf("shapes %s %s", fints(sh), sl))
		emit(fmt.Sprintf("aps %s %s %s", fints(sh), []string{"rm", "cm"}[r.intn(2)], sl))
	}
	// (2) AP.T over all permutations, arbitrary strides
	for _, sh := range allShapes(4, 3) {
		nn := len(sh)
		for _, p := range append([][]int{{}}, permsOf(nn)...) {
			st := make([]int, nn)
			for k := range st {
				st[k] = r.rangeInt(0, 9)
			}
			emit(fmt.Sprintf("apt %s %s %s", fints(sh), fints(st), fints(p)))
			emit(fmt.Sprintf("apt %s %s %s", fints(sh), fints(tensor.Shape(sh).CalcStrides()), fints(p)))
		}
		if nn > 0 {
			bad := r.perm(nn)
			bad[r.intn(nn)] = r.rangeInt(-1, nn)
			emit(fmt.Sprintf("apt %s %s %s", fints(sh), fints(tensor.Shape(sh).CalcStrides()), fints(bad)))
		}
	}
	// (3) reshape to every factorisation of the size, after slicing / transposing, both orders
	m := 2500
	if thorough {
		m = 30000
	}
	for i := 0; i < m; i++ {
		sh := randShape(r, 1, 4, 4)
		if prod(sh) > 48 {
			continue
		}
		layout := []string{"rm", "cm", "cmb", "T", "slice", "stepslice", "mat"}[r.intn(7)]
		pre, cur := source(r, layout, sh, 0)
		fs := factorisations(prod(sh), 4)
		target := fs[r.intn(len(fs))]
		if r.intn(8) == 0 {
			target = randShape(r, 1, 3, 4) // mostly a size mismatch
		}
		emit(fmt.Sprintf("prog f64 %s;reshape:%d:%s", pre, cur, fints(target)))
	}
	// (4) the metadata invariant on every tensor produced by random programs of the other checks
	k := 3000
	if thorough {
		k = 40000
	}
	for i := 0; i < k; i++ {
		sh := randShape(r, 0, 4, 4)
		if prod(sh) > 60 {
			continue
		}
		layout := layouts[r.intn(len(layouts))]
		pre, cur := source(r, layout, sh, 0)
		prog := pre
		ntens := cur + 1
		for s := 0; s < r.rangeInt(1, 3); s++ {
			var op string
			isNew := false
			cs, ok := shapeAfter("f64", prog, cur)
			if !ok {
				break
			}
			switch r.intn(4) {
			case 0:
				op, isNew = randTOp(r, cur, len(cs))
			case 1:
				op, isNew = fmt.Sprintf("slice:%d:%s", cur, randSlices(r, cs)), true
			case 2:
				fs := factorisations(prod(cs), 4)
				if len(fs) == 0 {
					continue
				}
				op = fmt.Sprintf("reshape:%d:%s", cur, fints(fs[r.intn(len(fs))]))
			default:
				op, isNew = fmt.Sprintf("clone:%d", cur), true
			}
			prog += ";" + op
			if isNew {
				if _, ok := shapeAfter("f64", prog, ntens); ok {
					cur = ntens
					ntens++
				}
			}
		}
		emit(fmt.Sprintf("proginv f64 %s", prog))
	}
}

// calc=<ok:shape|fail> exec=<ok:shape|fail> rawcalc=<..> rawexec=<..> : the property speaks about
// "fails exactly when the operation fails"; the raw tokens keep err and panic apart for the model
func calcExecObs(calc, exec string) string {
	n := func(s string) string {
		if strings.HasPrefix(s, "ok:") {
			return s
		}
		return "fail"
	}
	return fmt.Sprintf("calc=%s exec=%s rawcalc=%s rawexec=%s", n(calc), n(exec), calc, exec)
}
