package main

// conversions out of a tensor: package native (Vector*/Matrix*/Tensor3*/Select*, generated per
// element type) and ToMat64.  Observation: rows:<len of every nesting level>|<row>;<row>;... | err

import (
	"fmt"
	"reflect"
	"strings"

	"gorgonia.org/tensor"
	"gorgonia.org/tensor/native"
)

// [Vector, Matrix, Tensor3, Select] per element type
var nativeFns = map[string][4]interface{}{
	"b":    {native.VectorB, native.MatrixB, native.Tensor3B, native.SelectB},
	"i":    {native.VectorI, native.MatrixI, native.Tensor3I, native.SelectI},
	"i8":   {native.VectorI8, native.MatrixI8, native.Tensor3I8, native.SelectI8},
	"i16":  {native.VectorI16, native.MatrixI16, native.Tensor3I16, native.SelectI16},
	"i32":  {native.VectorI32, native.MatrixI32, native.Tensor3I32, native.SelectI32},
	"i64":  {native.VectorI64, native.MatrixI64, native.Tensor3I64, native.SelectI64},
	"u":    {native.VectorU, native.MatrixU, native.Tensor3U, native.SelectU},
	"u8":   {native.VectorU8, native.MatrixU8, native.Tensor3U8, native.SelectU8},
	"u16":  {native.VectorU16, native.MatrixU16, native.Tensor3U16, native.SelectU16},
	"u32":  {native.VectorU32, native.MatrixU32, native.Tensor3U32, native.SelectU32},
	"u64":  {native.VectorU64, native.MatrixU64, native.Tensor3U64, native.SelectU64},
	"f32":  {native.VectorF32, native.MatrixF32, native.Tensor3F32, native.SelectF32},
	"f64":  {native.VectorF64, native.MatrixF64, native.Tensor3F64, native.SelectF64},
	"c64":  {native.VectorC64, native.MatrixC64, native.Tensor3C64, native.SelectC64},
	"c128": {native.VectorC128, native.MatrixC128, native.Tensor3C128, native.SelectC128},
	"str":  {native.VectorStr, native.MatrixStr, native.Tensor3Str, native.SelectStr},
}

// rowsOf flattens a nested slice: the length of every nesting level (taken from the first element
// of each level) and the innermost slices in order.
func rowsOf(v reflect.Value) (dims []int, rows []string) {
	var walk func(v reflect.Value, depth int)
	walk = func(v reflect.Value, depth int) {
		if len(dims) <= depth {
			dims = append(dims, v.Len())
		}
		if v.Len() > 0 && v.Index(0).Kind() == reflect.Slice {
			for i := 0; i < v.Len(); i++ {
				walk(v.Index(i), depth+1)
			}
			return
		}
		if v.Type().Elem().Kind() == reflect.Slice { // an empty outer level
			return
		}
		toks := make([]int, v.Len())
		for i := range toks {
			toks[i] = valTok(v.Index(i).Interface())
		}
		rows = append(rows, fints(toks))
	}
	walk(v, 0)
	return
}

func showRows(dims []int, rows []string) string {
	ds := make([]string, len(dims))
	for i, d := range dims {
		ds[i] = fmt.Sprint(d)
	}
	return "rows:" + strings.Join(ds, ".") + "|" + strings.Join(rows, ";")
}

func init() {
	call := func(fn interface{}, args ...interface{}) string {
		in := make([]reflect.Value, len(args))
		for i, a := range args {
			in[i] = reflect.ValueOf(a)
		}
		out := reflect.ValueOf(fn).Call(in)
		if !out[1].IsNil() {
			return "err"
		}
		return showRows(rowsOf(out[0]))
	}
	// native:<t> : Vector (rank <= 1), Matrix (2), Tensor3 (>= 3) of the tensor's element type
	progOps["native"] = func(w *world, f []string) string {
		t := w.ts[atoi(f[1])]
		fns, ok := nativeFns[map[string]string{"c64r": "c64", "c128r": "c128"}[w.dt]+map[bool]string{true: "", false: w.dt}[w.dt == "c64r" || w.dt == "c128r"]]
		if !ok {
			panic("native dtype " + w.dt)
		}
		k := t.Dims() - 1
		if k < 0 {
			k = 0
		}
		if k > 2 {
			k = 2
		}
		return call(fns[k], t)
	}
	// select:<t>:<axis>
	progOps["select"] = func(w *world, f []string) string {
		fns, ok := nativeFns[map[string]string{"c64r": "c64", "c128r": "c128"}[w.dt]+map[bool]string{true: "", false: w.dt}[w.dt == "c64r" || w.dt == "c128r"]]
		if !ok {
			panic("native dtype " + w.dt)
		}
		return call(fns[3], w.ts[atoi(f[1])], atoi(f[2]))
	}
	// tomat:<t>[:unsafe] : ToMat64 (any numeric element type; values converted to float64)
	progOps["tomat"] = func(w *world, f []string) string {
		var o []tensor.FuncOpt
		if len(f) > 2 && f[2] == "unsafe" {
			o = append(o, tensor.UseUnsafe())
		}
		m, err := tensor.ToMat64(w.ts[atoi(f[1])], o...)
		if err != nil {
			return "err"
		}
		r, c := m.Dims()
		toks := make([]int, 0, r*c)
		for i := 0; i < r; i++ {
			for j := 0; j < c; j++ {
				toks = append(toks, valTok(m.At(i, j)))
			}
		}
		return showRows([]int{r, c}, []string{fints(toks)})
	}
}
