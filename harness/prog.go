package main

// The operation-program interpreter (Appendix B of DESIGN.md): executes a program against the
// real library and renders, after every step, the observables of every live tensor.

import (
	"fmt"
	"reflect"
	"strconv"
	"strings"
	"unsafe"

	"gorgonia.org/tensor"
)

// hsl is the harness's own Slice implementation: any (start, end, step) triple.
type hsl struct{ s, e, p int }

func (x hsl) Start() int { return x.s }
func (x hsl) End() int   { return x.e }
func (x hsl) Step() int  { return x.p }

// slice lists handed to the library in the current step (whole backing array, with two spare
// cells) and their contents at that moment: the library must not write to them
var (
	handedSl     [][]tensor.Slice
	handedSlCopy [][]tensor.Slice
)

func sliceListMutated() bool {
	bad := false
	for i, h := range handedSl {
		for j, v := range handedSlCopy[i] {
			if h[j] != v {
				bad = true
			}
		}
	}
	handedSl, handedSlCopy = handedSl[:0], handedSlCopy[:0]
	return bad
}

func parseSlices(s string) []tensor.Slice {
	if s == "" || s == "-" {
		return nil
	}
	parts := strings.Split(s, "/")
	full := make([]tensor.Slice, len(parts)+2)
	full[len(parts)], full[len(parts)+1] = hsl{-7, -7, -7}, hsl{-7, -7, -7}
	out := full[:len(parts)]
	defer func() {
		if trackSpares {
			handedSl = append(handedSl, full)
			handedSlCopy = append(handedSlCopy, append([]tensor.Slice{}, full...))
		}
	}()
	for i, p := range parts {
		if p == "_" {
			out[i] = nil
			continue
		}
		f := strings.Split(p, ".")
		a, _ := strconv.Atoi(f[0])
		b, _ := strconv.Atoi(f[1])
		c, _ := strconv.Atoi(f[2])
		out[i] = hsl{a, b, c}
	}
	return out
}

type alloc struct {
	base uintptr
	size uintptr
}

type world struct {
	dt     string
	ts     []*tensor.Dense
	allocs []alloc
	dead   map[int]bool  // tensors handed back with ReturnTensor: never touched or observed again
	eng    tensor.Engine // proge: engine given to every tensor created by new (nil = default)
	keep   bool    // progk: retain the axes slices passed to T and report them after every step
	alt    bool    // dtype suffix @alt: every operation that has a second API spelling uses it (SliceInto, tensor.Narrow, tensor.Materialize, package-level products, method forms of elementwise operations, ...)
	kept   [][]int
	held   [][2][]int // C18 churn: metadata lists the caller kept from tensors it let go of, with copies
}

func (w *world) dataPtr(t *tensor.Dense) (p uintptr, n uintptr, ok bool) {
	defer func() {
		if e := recover(); e != nil {
			ok = false
		}
	}()
	if t.IsScalar() {
		// Data() returns a bare value for scalars; take the pointer through the Memory interface
		return t.Uintptr(), t.MemSize(), true
	}
	v := reflect.ValueOf(t.Data())
	if v.Kind() != reflect.Slice || v.Cap() == 0 {
		return 0, 0, false
	}
	es := v.Type().Elem().Size()
	return v.Pointer(), uintptr(v.Cap()) * es, true
}

// bufOf names the allocation a tensor's data lives in (ids in order of first appearance) and
// the element offset of the tensor's window inside it.
func (w *world) bufOf(t *tensor.Dense) string {
	p, n, ok := w.dataPtr(t)
	if !ok {
		return "?"
	}
	es := t.Dtype().Size()
	for i, a := range w.allocs {
		if p >= a.base && p < a.base+a.size {
			return fmt.Sprintf("%d+%d", i, (p-a.base)/es)
		}
	}
	w.allocs = append(w.allocs, alloc{p, n})
	return fmt.Sprintf("%d+0", len(w.allocs)-1)
}

func boxCoords(sh []int) [][]int {
	out := [][]int{{}}
	for _, d := range sh {
		var cur [][]int
		for _, p := range out {
			for x := 0; x < d; x++ {
				cur = append(cur, append(append([]int{}, p...), x))
			}
		}
		out = cur
	}
	return out
}

func safeAt(t *tensor.Dense, c []int) (s string) {
	defer func() {
		if e := recover(); e != nil {
			s = "P"
		}
	}()
	v, err := t.At(c...)
	if err != nil {
		return "E"
	}
	return strconv.Itoa(valTok(v))
}

func safeData(t *tensor.Dense) (s string) {
	defer func() {
		if e := recover(); e != nil {
			s = "P"
		}
	}()
	return fints(dataToks(t.Data()))
}

func (w *world) obsTensor(i int, t *tensor.Dense) string {
	sh := []int(t.Shape())
	var ls []string
	if prod(sh) <= 4096 {
		for _, c := range boxCoords(sh) {
			ls = append(ls, safeAt(t, c))
		}
	}
	l := "_"
	if len(ls) > 0 {
		l = strings.Join(ls, ",")
	}
	return fmt.Sprintf("T%d[%s|L:%s|W:%s|M:%s;%d;%s]", i, fints(sh), l, safeData(t), fints(t.Strides()), int(t.DataOrder()), w.bufOf(t))
}

func (w *world) obsAll() string {
	var sb strings.Builder
	for i, t := range w.ts {
		sb.WriteString(" ")
		if w.dead[i] {
			sb.WriteString(fmt.Sprintf("T%d[_|dead]", i))
			continue
		}
		sb.WriteString(w.obsTensor(i, t))
	}
	for i, s := range w.kept {
		sb.WriteString(fmt.Sprintf(" S%d=%s", i, fints(s)))
	}
	return sb.String()
}

func atoi(s string) int {
	v, err := strconv.Atoi(s)
	if err != nil {
		panic("bad int " + s)
	}
	return v
}

// step executes one operation; status is ok | val:<v> | new:<t> | err | panic
func (w *world) step(op string) (status string) {
	defer func() {
		if e := recover(); e != nil {
			status = "panic"
		}
	}()
	f := strings.Split(op, ":")
	T := func(i int) *tensor.Dense { return w.ts[atoi(f[i])] }
	switch f[0] {
	case "new":
		sh := ints(f[2])
		base := atoi(f[3])
		n := prod(sh)
		toks := make([]int, n)
		for i := range toks {
			toks[i] = base + i
		}
		b := backing(w.dt, toks)
		var t *tensor.Dense
		var co []tensor.ConsOpt
		if w.eng != nil {
			co = append(co, tensor.WithEngine(w.eng))
		}
		switch f[1] {
		case "rm":
			if w.alt && len(sh) > 0 {
				// the other constructor: NewDense(dtype, shape, options) takes its shape list another way
				t = tensor.NewDense(dtypeOf(w.dt), tensor.Shape(append([]int(nil), sh...)), append(co, tensor.WithBacking(b))...)
			} else {
				t = tensor.New(append(co, tensor.WithShape(sh...), tensor.WithBacking(b))...)
			}
		case "cm":
			t = tensor.New(append(co, tensor.WithShape(sh...), tensor.WithBacking(b), tensor.AsFortran(nil))...)
		case "cmb":
			t = tensor.New(append(co, tensor.WithShape(sh...), tensor.AsFortran(b))...)
		default:
			panic("order")
		}
		w.ts = append(w.ts, t)
		return fmt.Sprintf("new:%d", len(w.ts)-1)
	case "slice":
		var v tensor.View
		var err error
		if w.alt {
			v, err = T(1).SliceInto(new(tensor.Dense), parseSlices(f[2])...)
		} else {
			v, err = T(1).Slice(parseSlices(f[2])...)
		}
		if err != nil {
			return "err"
		}
		w.ts = append(w.ts, v.(*tensor.Dense))
		return fmt.Sprintf("new:%d", len(w.ts)-1)
	case "ret":
		// ret:<t> : tensor.ReturnTensor — the tensor is dead afterwards
		tensor.ReturnTensor(T(1))
		if w.dead == nil {
			w.dead = map[int]bool{}
		}
		w.dead[atoi(f[1])] = true
		return "ok"
	case "narrow":
		// narrow:<t>:<dim>:<start>:<len>:<api|method> — tensor.Narrow / Dense.Narrow
		var v tensor.View
		var err error
		if (f[5] == "api") != w.alt {
			v, err = tensor.Narrow(T(1), atoi(f[2]), atoi(f[3]), atoi(f[4]))
		} else {
			v, err = T(1).Narrow(atoi(f[2]), atoi(f[3]), atoi(f[4]))
		}
		if err != nil {
			return "err"
		}
		w.ts = append(w.ts, v.(*tensor.Dense))
		return fmt.Sprintf("new:%d", len(w.ts)-1)
	case "T":
		axes := ints(f[2])
		if w.keep && len(axes) > 0 {
			w.kept = append(w.kept, axes)
		}
		if err := T(1).T(axes...); err != nil {
			return "err"
		}
		return "ok"
	case "UT":
		T(1).UT()
		return "ok"
	case "transpose":
		if err := T(1).Transpose(); err != nil {
			return "err"
		}
		return "ok"
	case "at":
		v, err := T(1).At(ints(f[2])...)
		if err != nil {
			return "err"
		}
		return fmt.Sprintf("val:%d", valTok(v))
	case "setat":
		if err := T(1).SetAt(tokVal(w.dt, atoi(f[3])), ints(f[2])...); err != nil {
			return "err"
		}
		return "ok"
	case "memset":
		if err := T(1).Memset(tokVal(w.dt, atoi(f[2]))); err != nil {
			return "err"
		}
		return "ok"
	case "zero":
		T(1).Zero()
		return "ok"
	case "clone":
		c := T(1).Clone().(*tensor.Dense)
		w.ts = append(w.ts, c)
		return fmt.Sprintf("new:%d", len(w.ts)-1)
	case "mat":
		src := T(1)
		var m *tensor.Dense
		if w.alt {
			m = tensor.Materialize(src).(*tensor.Dense)
		} else {
			m = src.Materialize().(*tensor.Dense)
		}
		for i, t := range w.ts {
			if t == m && !w.dead[i] {
				return fmt.Sprintf("new:%d", i)
			}
		}
		w.ts = append(w.ts, m)
		return fmt.Sprintf("new:%d", len(w.ts)-1)
	case "copy":
		if err := tensor.Copy(T(1), T(2)); err != nil {
			return "err"
		}
		return "ok"
	case "copyto":
		// copyto:<src>:<dst> : src.CopyTo(dst)
		if err := T(1).CopyTo(T(2)); err != nil {
			return "err"
		}
		return "ok"
	case "safeT":
		// the package-level tensor.T is SafeT
		var r *tensor.Dense
		var err error
		if (len(f) > 3 && f[3] == "api") != w.alt {
			var rt tensor.Tensor
			rt, err = tensor.T(T(1), ints(f[2])...)
			if err == nil {
				r = rt.(*tensor.Dense)
			}
		} else {
			axes := ints(f[2])
			if w.keep && len(axes) > 0 {
				w.kept = append(w.kept, axes)
			}
			r, err = T(1).SafeT(axes...)
		}
		if err != nil {
			return "err"
		}
		return w.newOrSame(r)
	case "rollaxis":
		r, err := T(1).RollAxis(atoi(f[2]), atoi(f[3]), f[4] == "1")
		if err != nil {
			return "err"
		}
		return w.newOrSame(r)
	case "reshape":
		if err := T(1).Reshape(ints(f[2])...); err != nil {
			return "err"
		}
		return "ok"
	case "apitranspose":
		rt, err := tensor.Transpose(T(1), ints(f[2])...)
		if err != nil {
			return "err"
		}
		return w.newOrSame(rt.(*tensor.Dense))
	}
	if h, ok := progOps[f[0]]; ok {
		return h(w, f)
	}
	panic("unknown op " + op)
}

func (w *world) newOrSame(r *tensor.Dense) string {
	for i, t := range w.ts {
		if t == r && !w.dead[i] { // a recycled struct may reappear at the address of a dead tensor
			return fmt.Sprintf("new:%d", i)
		}
	}
	w.ts = append(w.ts, r)
	return fmt.Sprintf("new:%d", len(w.ts)-1)
}

// progOps lets other files add operations to the program language.
var progOps = map[string]func(w *world, f []string) string{}

func runProg(dt string, prog string) string { return runProgK(dt, prog, false) }

func runProgK(dt string, prog string, keep bool) string {
	w := &world{dt: dt, keep: keep}
	if strings.HasSuffix(dt, "@alt") {
		w.dt, w.alt = strings.TrimSuffix(dt, "@alt"), true
	}
	var out []string
	for _, op := range strings.Split(prog, ";") {
		trackSpares = true
		st := w.step(op)
		trackSpares = false
		// marks go at the END of the step's observation (the status is parsed by the driver for its
		// hints); the model never prints them, so any mark is a difference
		marks := ""
		if spareClobbered() {
			marks += " !wrote-beyond-callers-slice"
		}
		if !keep && callerSliceMutated() {
			marks += " !mutated-callers-slice"
		}
		if sliceListMutated() {
			marks += " !mutated-callers-slice-list"
		}
		if !keep {
			scribble() // (progk reports the retained axes lists themselves, so it keeps them intact)
		} else {
			handed, handedCopy = handed[:0], handedCopy[:0]
		}
		if st == "panic" {
			out = append(out, "panic"+marks)
			break
		}
		out = append(out, st+w.obsAll()+marks)
	}
	return strings.Join(out, " # ")
}

var _ = unsafe.Pointer(nil)

func init() {
	// prog <dtype> <op;op;...>
	execs["prog"] = func(a []string) string { return runProg(a[0], a[1]) }
	execs["progk"] = func(a []string) string { return runProgK(a[0], a[1], true) }
}
