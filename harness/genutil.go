package main

import (
	"fmt"
	"strings"

	"gorgonia.org/tensor"
)

func permsOf(n int) [][]int {
	if n == 0 {
		return [][]int{{}}
	}
	var out [][]int
	var rec func(cur []int, used []bool)
	rec = func(cur []int, used []bool) {
		if len(cur) == n {
			out = append(out, append([]int{}, cur...))
			return
		}
		for i := 0; i < n; i++ {
			if !used[i] {
				used[i] = true
				rec(append(cur, i), used)
				used[i] = false
			}
		}
	}
	rec(nil, make([]bool, n))
	return out
}

// axisSpecs: the complete set of per-axis slice specs for an axis of length dim:
// nil, every single index, every (s,e,step) with 0 <= s <= e <= dim+1 and step in steps.
func axisSpecs(dim int, steps []int) []string {
	out := []string{"_"}
	for k := 0; k < dim; k++ {
		out = append(out, fmt.Sprintf("%d.%d.0", k, k+1))
	}
	for s := 0; s <= dim+1; s++ {
		for e := s; e <= dim+1; e++ {
			for _, p := range steps {
				if p == 0 && e == s+1 {
					continue // same as the single index
				}
				out = append(out, fmt.Sprintf("%d.%d.%d", s, e, p))
			}
		}
	}
	return out
}

// malformed specs: reversed, negative, past the axis
func badSpecs(dim int) []string {
	return []string{
		fmt.Sprintf("%d.%d.1", 2, 1), "-1.1.1", fmt.Sprintf("%d.%d.1", dim, dim+1),
		fmt.Sprintf("%d.%d.1", dim+1, dim+2), "0.3.0", "-2.-1.1", "1.0.0",
		// single indices outside the axis: negative, one past the end
		"-1.0.0", "-2.-1.0", fmt.Sprintf("%d.%d.0", dim, dim+1), fmt.Sprintf("-%d.-%d.0", dim, dim-1),
		// ranges with a negative end or a negative step
		"0.-1.1", fmt.Sprintf("0.%d.-1", dim), fmt.Sprintf("%d.0.-1", dim),
	}
}

func randSpec(r *rng, dim int) string {
	if dim < 1 {
		dim = 1
	}
	switch r.intn(10) {
	case 0:
		return "_"
	case 1, 2:
		k := r.intn(dim)
		return fmt.Sprintf("%d.%d.0", k, k+1)
	case 3:
		b := badSpecs(dim)
		return b[r.intn(len(b))]
	default:
		s := r.intn(dim)
		e := s + r.intn(dim-s+2)
		p := r.intn(4)
		if e-s > 1 && p == 0 {
			p = 1
		}
		return fmt.Sprintf("%d.%d.%d", s, e, p)
	}
}

func randSlices(r *rng, sh []int) string {
	n := len(sh)
	if n == 0 {
		return "-"
	}
	k := n
	switch r.intn(6) {
	case 0:
		k = r.rangeInt(1, n) // fewer slices than axes
	case 1:
		k = n + 1 // too many
	}
	parts := make([]string, k)
	for i := 0; i < k; i++ {
		d := 1
		if i < n {
			d = sh[i]
		}
		parts[i] = randSpec(r, d)
	}
	return strings.Join(parts, "/")
}

func randShape(r *rng, minRank, maxRank, maxDim int) []int {
	n := r.rangeInt(minRank, maxRank)
	sh := make([]int, n)
	for i := range sh {
		if r.intn(4) == 0 {
			sh[i] = 1
		} else {
			sh[i] = r.rangeInt(1, maxDim)
		}
	}
	return sh
}

// shapeAfter runs a program prefix on the real library to learn the shape of tensor idx
// (generators use it only to pick follow-up arguments; nothing is asserted from it).
func shapeAfter(dt, prog string, idx int) (sh []int, ok bool) {
	defer func() {
		if e := recover(); e != nil {
			ok = false
		}
	}()
	w := &world{dt: dt}
	for _, op := range strings.Split(prog, ";") {
		if st := w.step(op); st == "panic" {
			return nil, false
		}
	}
	if idx >= len(w.ts) {
		return nil, false
	}
	return append([]int{}, []int(w.ts[idx].Shape())...), true
}

// source builds a program prefix producing a source tensor of one of the layouts of the
// properties' quantifiers; returns the prefix and the index of the source tensor.
var layouts = []string{"rm", "cm", "cmb", "T", "slice", "stepslice", "mat", "cmslice"}

// cloneview: a Clone() of a strided view (keeps the strides and the whole window, is not a view)

func source(r *rng, layout string, sh []int, base int) (string, int) {
	s := fints(sh)
	switch layout {
	case "rm", "cm", "cmb":
		return fmt.Sprintf("new:%s:%s:%d", layout, s, base), 0
	case "Trev": // lazily transposed with the axes reversed (never the identity for rank >= 2)
		n := len(sh)
		if n < 2 {
			return fmt.Sprintf("new:rm:%s:%d", s, base), 0
		}
		q := make([]int, n)
		for i := range sh {
			q[n-1-i] = sh[i]
		}
		return fmt.Sprintf("new:rm:%s:%d;T:0:_", fints(q), base), 0
	case "T": // lazily transposed so that the transposed shape is sh
		n := len(sh)
		if n < 2 {
			return fmt.Sprintf("new:rm:%s:%d", s, base), 0
		}
		p := r.perm(n)
		// source shape q with q[p[i]] = sh[i]
		q := make([]int, n)
		for i, a := range p {
			q[a] = sh[i]
		}
		return fmt.Sprintf("new:rm:%s:%d;T:0:%s", fints(q), base, fints(p)), 0
	case "slice": // contiguous-ish slice: parent has extra rows/cols
		if len(sh) == 0 {
			return fmt.Sprintf("new:rm:%s:%d", s, base), 0
		}
		big := make([]int, len(sh))
		parts := make([]string, len(sh))
		for i, d := range sh {
			lo := r.intn(2)
			hi := r.intn(2)
			big[i] = d + lo + hi
			parts[i] = fmt.Sprintf("%d.%d.1", lo, lo+d)
		}
		return fmt.Sprintf("new:rm:%s:%d;slice:0:%s", fints(big), base, strings.Join(parts, "/")), 1
	case "stepslice":
		if len(sh) == 0 {
			return fmt.Sprintf("new:rm:%s:%d", s, base), 0
		}
		big := make([]int, len(sh))
		parts := make([]string, len(sh))
		for i, d := range sh {
			if i > 0 && r.intn(2) == 0 && d > 1 {
				big[i] = 2*d - 1
				parts[i] = fmt.Sprintf("0.%d.2", big[i])
			} else {
				big[i] = d + 1
				parts[i] = fmt.Sprintf("1.%d.1", d+1)
			}
		}
		return fmt.Sprintf("new:rm:%s:%d;slice:0:%s", fints(big), base, strings.Join(parts, "/")), 1
	case "cmslice": // a column-major parent sliced with FEWER slice arguments than axes
		if len(sh) < 2 {
			return fmt.Sprintf("new:cm:%s:%d", s, base), 0
		}
		big := append([]int{}, sh...)
		k := 1 + r.intn(len(sh)-1) // number of slice arguments, 1..rank-1
		parts := make([]string, k)
		for i := 0; i < k; i++ {
			if sh[i] < 2 {
				parts[i] = "_" // a range over one element would drop the axis
				continue
			}
			lo := r.intn(2)
			big[i] = sh[i] + lo + r.intn(2)
			parts[i] = fmt.Sprintf("%d.%d.1", lo, lo+sh[i])
		}
		return fmt.Sprintf("new:cm:%s:%d;slice:0:%s", fints(big), base, strings.Join(parts, "/")), 1
	case "cloneview":
		p, i := source(r, "stepslice", sh, base)
		return p + fmt.Sprintf(";clone:%d", i), i + 1
	case "mat": // materialised from a transposed tensor
		p, i := source(r, "Trev", sh, base)
		q := p + fmt.Sprintf(";mat:%d", i)
		if _, ok := shapeAfter("f64", q, i+1); !ok {
			// the transpose was a no-op, Materialize returns the tensor itself
			return p, i
		}
		return q, i + 1
	}
	panic("layout " + layout)
}

var _ = tensor.Int

// safeDt keeps tokens representable: small element types only for programs whose tensors hold
// fewer than 100 elements (tokens start at the given bases).
func safeDt(dt, prog string) string {
	for _, op := range strings.Split(prog, ";") {
		f := strings.Split(op, ":")
		if f[0] == "new" {
			if prod(ints(f[2]))+atoi(f[3]) > 100 {
				if dt == "i" || dt == "f64" || dt == "i64" || dt == "i32" || dt == "u32" || dt == "u64" || dt == "u" || dt == "f32" || dt == "c64" || dt == "c128" || dt == "i16" || dt == "u16" {
					return dt
				}
				return "f64"
			}
		}
	}
	return dt
}

func splitOps(p string) []string { return strings.Split(p, ";") }
func fieldsOf(op string) []string { return strings.Split(op, ":") }
