package main

import (
	"fmt"
	"strings"
)

func init() { gens["C04"] = genC04 }

// a view-producing step on tensor cur with shape sh
var sliceOnly bool

func randView(r *rng, cur int, sh []int) string {
	if len(sh) >= 2 && r.intn(3) == 0 && !sliceOnly {
		return fmt.Sprintf("T:%d:%s", cur, fints(r.perm(len(sh))))
	}
	// valid slices only (views are the subject here, rejection is C02's)
	parts := ""
	for i, d := range sh {
		if i > 0 {
			parts += "/"
		}
		switch r.intn(5) {
		case 0:
			parts += "_"
		case 1:
			k := r.intn(d)
			parts += fmt.Sprintf("%d.%d.0", k, k+1)
		default:
			s := r.intn(d)
			e := s + 1 + r.intn(d-s)
			p := 1
			if r.intn(3) == 0 {
				p = r.rangeInt(1, 3)
			}
			parts += fmt.Sprintf("%d.%d.%d", s, e, p)
		}
	}
	if parts == "" {
		parts = "-"
	}
	return fmt.Sprintf("slice:%d:%s", cur, parts)
}

func genC04(tier string, r *rng, emit func(string)) {
	genXKinds("C04", emit)
	genXKinds("C04copy", emit)
	thorough := tier == "thorough"
	n := 12000
	if thorough {
		n = 200000
	}
	// every element type x every whole-tensor write / copy through a sliced, a stepped and a lazily
	// transposed view (Memset, Zero, SetAt, Copy and the copies are generated per element type)
	for _, dt := range dtypeNames {
		for _, view := range []string{"new:rm:3,4:10;slice:0:_/1.3.1", "new:rm:3,4:10;slice:0:0.3.2/_", "new:cm:3,4:10;slice:0:1.3.1/_", "new:rm:3,4:10;T:0:1,0;slice:0:1.3.1/_", "new:rm:2,3,2:10;slice:0:_/1.3.1/_"} {
			v, sh := 1, "3,2"
			switch {
			case strings.Contains(view, "0.3.2"):
				sh = "2,4"
			case strings.Contains(view, "new:cm"):
				sh = "2,4"
			case strings.Contains(view, "T:0"):
				sh = "2,3"
			case strings.Contains(view, "2,3,2"):
				sh = "2,2,2"
			}
			for _, w := range []string{
				fmt.Sprintf("memset:%d:1", v), fmt.Sprintf("zero:%d", v),
				fmt.Sprintf("setat:%d:%s:2", v, fints(make([]int, len(ints(sh))))),
				fmt.Sprintf("new:rm:%s:100;copy:%d:%d", sh, v, v+1), fmt.Sprintf("new:rm:%s:100;copy:%d:%d", sh, v+1, v),
				fmt.Sprintf("clone:%d;memset:%d:3", v, v+1), fmt.Sprintf("mat:%d;memset:%d:3", v, v+1),
				fmt.Sprintf("safeT:%d:_;zero:%d", v, v+1),
			} {
				emit(fmt.Sprintf("prog %s %s;%s", dt, view, w))
			}
		}
		emit(fmt.Sprintf("prog %s new:rm:3,4:10;T:0:1,0;memset:0:1", dt))
		emit(fmt.Sprintf("prog %s new:rm:3,4:10;T:0:1,0;zero:0", dt))
		emit(fmt.Sprintf("prog %s new:rm:3,4:10;memset:0:1;zero:0", dt))
	}
	// conversions out of a tensor preserve its elements: native.Vector/Matrix/Tensor3/Select of every
	// element type and ToMat64, on every source layout (row-slices of a matrix stay contiguous and
	// are accepted; the other views and column-major tensors are refused)
	for _, dt := range dtypeNames {
		for _, sh := range [][]int{{4}, {2, 3}, {3, 2}, {2, 3, 4}, {3, 2, 2}, {1, 3}, {3, 1}, {1, 1}, {2, 2, 2, 2}, {}} {
			for _, la := range []string{"rm", "cm", "T", "slice", "stepslice", "mat", "rowslice"} {
				var pre string
				var idx int
				if la == "rowslice" {
					if len(sh) < 2 {
						continue
					}
					big := append([]int{sh[0] + 2}, sh[1:]...)
					pre, idx = fmt.Sprintf("new:rm:%s:3;slice:0:1.%d.1", fints(big), sh[0]+1), 1
				} else {
					pre, idx = source(r, la, sh, 3)
				}
				if prod(sh) > 30 && dt != "f64" && dt != "u8" && dt != "str" {
					continue
				}
				emit(fmt.Sprintf("prog %s %s;native:%d", dt, pre, idx))
				for ax := 0; ax <= len(sh) && ax < 4; ax++ {
					if (la == "rm" || la == "rowslice" || ax == 0) && (dt == "f64" || dt == "i16" || dt == "str" || len(sh) == 3) {
						emit(fmt.Sprintf("prog %s %s;select:%d:%d", dt, pre, idx, ax))
					}
				}
				if len(sh) <= 2 && dt != "str" && dt != "b" && dt != "c64" && dt != "c128" {
					emit(fmt.Sprintf("prog %s %s;tomat:%d", dt, pre, idx))
					if dt == "f64" {
						emit(fmt.Sprintf("prog %s %s;tomat:%d:unsafe", dt, pre, idx))
					}
				}
			}
		}
	}
	// Dense.CopyTo: every pair of layouts of source and destination (views are refused as not yet
	// implemented, everything else is a raw copy of the windows), equal and merely equal-sized shapes
	for _, dt := range []string{"f64", "i16", "str", "c128", "b"} {
		for _, ls := range []string{"rm", "cm", "T", "slice", "mat", "cloneview"} {
			for _, ld := range []string{"rm", "cm", "T", "slice"} {
				for _, shs := range [][2][]int{{{2, 3}, {2, 3}}, {{2, 3}, {3, 2}}, {{2, 3}, {6}}, {{4}, {4}}, {{2, 3}, {2, 2}}, {{2, 2, 2}, {2, 2, 2}}} {
					var p pb
					preS, is := source(r, ls, shs[0], 1)
					a := p.add(preS, is)
					preD, id := source(r, ld, shs[1], 50)
					b := p.add(preD, id)
					p.ops = append(p.ops, fmt.Sprintf("copyto:%d:%d", a, b))
					emit(fmt.Sprintf("prog %s %s", dt, p.prog()))
				}
			}
		}
		emit(fmt.Sprintf("prog %s new:rm:2,3:1;copyto:0:0", dt))
	}
	recycleMotifs(emit)
	// column-major parents sliced with FEWER slice arguments than axes (row ranges, single rows),
	// every whole-view write and copy: such a view is strided and must be treated as one
	for _, dt := range []string{"f64", "i"} {
		for _, order := range []string{"cm", "cmb"} {
			for _, sh := range []string{"4,4", "3,4", "2,3,4"} {
				for _, sl := range []string{"1.3.1", "0.2.1", "1.2.0", "1.3.1/_", "0.2.1/1.3.1"} {
					vsh, ok := shapeAfter("f64", fmt.Sprintf("new:%s:%s:10;slice:0:%s", order, sh, sl), 1)
					if !ok || len(vsh) == 0 {
						continue
					}
					pre := fmt.Sprintf("new:%s:%s:10;slice:0:%s", order, sh, sl)
					for _, w := range []string{"memset:1:1", "zero:1", "bins:add:1:2:right:unsafe", "bins:mul:1:2:left:unsafe", "un:neg:1:unsafe",
						fmt.Sprintf("new:rm:%s:100;copy:1:2", fints(vsh)), fmt.Sprintf("new:rm:%s:100;copy:2:1", fints(vsh)),
						fmt.Sprintf("new:rm:%s:100;copyto:1:2", fints(vsh)), "mat:1;memset:2:3", "clone:1;memset:2:3",
						fmt.Sprintf("new:rm:%s:1;bin:add:1:2:unsafe", fints(vsh)), "safeT:1:_;memset:2:3"} {
						emit(fmt.Sprintf("prog %s %s;%s", dt, pre, w))
					}
				}
			}
		}
	}
	dts := []string{"f64", "i", "u8", "str", "f32", "c64", "b", "i8"}
	for i := 0; i < n; i++ {
		sh := randShape(r, 1, 4, 4)
		if prod(sh) > 90 {
			continue
		}
		order := []string{"rm", "rm", "rm", "cm", "cmb"}[r.intn(5)]
		// sentinel-filled parent: tokens 10.. so that writes of 1/2 and zero are visible
		prog := fmt.Sprintf("new:%s:%s:10", order, fints(sh))
		cur, curSh, ntens := 0, sh, 1
		depth := r.rangeInt(1, 2)
		for d := 0; d < depth; d++ {
			v := randView(r, cur, curSh)
			prog += ";" + v
			if v[0] == 'T' {
				nsh, ok := shapeAfter("f64", prog, cur)
				if !ok {
					break
				}
				curSh = nsh
			} else {
				nsh, ok := shapeAfter("f64", prog, ntens)
				if !ok {
					break
				}
				cur, curSh = ntens, nsh
				ntens++
			}
			if len(curSh) == 0 {
				break
			}
		}
		// one whole-tensor write or copy through the view (or through the parent)
		target := cur
		if r.intn(6) == 0 {
			target = 0
		}
		arith := false
		switch r.intn(11) {
		case 9: // in-place arithmetic through the view: tensor-scalar (either side) and unary
			arith = true
			op := []string{"add", "sub", "mul", "div", "mod", "pow"}[r.intn(6)]
			if r.intn(4) == 0 {
				prog += fmt.Sprintf(";un:%s:%d:unsafe", []string{"neg", "square", "cube", "abs"}[r.intn(4)], target)
			} else {
				side := []string{"left", "right"}[r.intn(2)]
				if op == "pow" {
					side = "left" // tensor^2: 2^tensor leaves the exactly representable range
				}
				prog += fmt.Sprintf(";bins:%s:%d:2:%s:unsafe", op, target, side)
			}
		case 10: // in-place tensor-tensor arithmetic, the view as the overwritten operand
			arith = true
			if len(curSh) > 0 {
				prog += fmt.Sprintf(";new:rm:%s:1;bin:%s:%d:%d:unsafe", fints(curSh), []string{"add", "sub", "mul"}[r.intn(3)], cur, ntens)
			}
		case 0:
			prog += fmt.Sprintf(";memset:%d:1", target)
		case 1:
			prog += fmt.Sprintf(";zero:%d", target)
		case 2: // SetAt sweep over the view's box
			for _, c := range boxCoords(curSh) {
				prog += fmt.Sprintf(";setat:%d:%s:2", cur, fints(c))
			}
		case 3: // copy into the view from a fresh tensor of the same shape
			if len(curSh) > 0 {
				prog += fmt.Sprintf(";new:rm:%s:%d;copy:%d:%d", fints(curSh), 100, cur, ntens)
				ntens++
			}
		case 4:
			prog += fmt.Sprintf(";clone:%d;memset:%d:3", target, ntens)
		case 5:
			prog += fmt.Sprintf(";mat:%d;memset:%d:3", target, ntens)
		case 6:
			prog += fmt.Sprintf(";safeT:%d:_;memset:%d:3", target, ntens)
		case 7: // copy out of the view into a fresh tensor
			if len(curSh) > 0 {
				prog += fmt.Sprintf(";new:rm:%s:%d;copy:%d:%d", fints(curSh), 100, ntens, cur)
			}
		case 8: // write through the parent, observe through the view
			prog += fmt.Sprintf(";setat:0:%s:5", fints(make([]int, len(sh))))
		}
		dt := dts[i%len(dts)]
		if arith {
			dt = []string{"f64", "i", "f32", "i32", "i64"}[i%5]
			if dt != "f64" && dt != "f32" { // Pow is for float types; integer division by the model's Z rules only for positives
				for _, o := range []string{"pow", "div", "mod"} {
					prog = strings.Replace(prog, ";bins:"+o+":", ";bins:mul:", 1)
				}
			}
		}
		emit(fmt.Sprintf("prog %s %s", safeDt(dt, "new:rm:200:0"), prog)[:0] + fmt.Sprintf("prog %s %s", pickDt(dt, prog), prog))
	}
}

// pickDt: small element types only when every token stays below 120
func pickDt(dt, prog string) string {
	if dt == "f64" || dt == "i" || dt == "f32" || dt == "c64" {
		return dt
	}
	for _, op := range splitOps(prog) {
		if len(op) > 3 && op[:3] == "new" {
			f := fieldsOf(op)
			if prod(ints(f[2]))+atoi(f[3]) > 120 {
				return "f64"
			}
		}
	}
	return dt
}
