package main

import (
	"fmt"
	"strings"

	"gorgonia.org/tensor"
)

// progm: histories with masks; observation per step: status T<i>[shape|L:values|K:logical mask]
func runProgM(dt, prog string) string {
	w := &world{dt: dt}
	var out []string
	obs := func() string {
		var sb strings.Builder
		for i, t := range w.ts {
			if w.dead[i] {
				sb.WriteString(fmt.Sprintf(" T%d[_|dead]", i))
				continue
			}
			s := serObs("T"+fmt.Sprint(i), t)
			sb.WriteString(" " + s)
		}
		return sb.String()
	}
	for _, op := range strings.Split(prog, ";") {
		f := strings.Split(op, ":")
		st := func() (st string) {
			defer func() {
				if e := recover(); e != nil {
					st = "panic"
				}
			}()
			switch f[0] {
			case "setmask":
				w.ts[atoi(f[1])].SetMask(bits(f[2]))
				return "ok"
			case "resetmask":
				if err := w.ts[atoi(f[1])].ResetMask(f[2] == "1"); err != nil {
					return "err"
				}
				return "ok"
			}
			return w.step(op)
		}()
		if st == "panic" {
			out = append(out, "panic")
			break
		}
		out = append(out, st+obs())
	}
	return strings.Join(out, " # ")
}

func genMaskHistories(tier string, r *rng, emit func(string)) {
	// a masked view goes back to the pool; the tensors built afterwards ask for masks of their own:
	// the base tensor's mask must not change
	for _, base := range []string{"new:rm:2,3:0;setmask:0:011111;slice:0:0.1.0/_;ret:1", "new:rm:2,3:0;setmask:0:010101;slice:0:_/1.3.1;clone:1;ret:1;ret:2",
		"new:rm:4:0;setmask:0:0110;slice:0:1.3.1;ret:1"} {
		p := base
		k := 1 + strings.Count(base, "slice") + strings.Count(base, "clone")
		for j := 0; j < 6; j++ {
			p += fmt.Sprintf(";new:rm:3:50;resetmask:%d:%d", k+j, j%2)
		}
		emit("progm f64 " + p)
	}
	n := 400
	if tier == "thorough" {
		n = 6000
	}
	for i := 0; i < n; i++ {
		var ops []string
		type tinfo struct {
			sh     []int
			base   bool
			sliced bool
		}
		var ts []tinfo
		dead := map[int]bool{}
		add := func(op string, ti tinfo) { ops = append(ops, op); ts = append(ts, ti) }
		// a masked base tensor and views / clones of it; tensors handed back to the pool; fresh
		// tensors that ask for a mask of their own afterwards
		sh := randShape(r, 1, 3, 3)
		add(fmt.Sprintf("new:rm:%s:0", fints(sh)), tinfo{sh: sh, base: true})
		var sb strings.Builder
		for k := 0; k < prod(sh); k++ {
			sb.WriteString([]string{"0", "1"}[r.intn(2)])
		}
		ops = append(ops, fmt.Sprintf("setmask:0:%s", sb.String()))
		steps := r.rangeInt(3, 9)
		for k := 0; k < steps; k++ {
			var live []int
			for j := range ts {
				if !dead[j] {
					live = append(live, j)
				}
			}
			if len(live) == 0 {
				break
			}
			t := live[r.intn(len(live))]
			switch r.intn(7) {
			case 0, 1:
				if len(ts[t].sh) > 0 && prod(ts[t].sh) > 0 {
					sliceOnly = true
					v := randView(r, t, ts[t].sh)
					sliceOnly = false
					p := strings.Join(append(append([]string{}, ops...), v), ";")
					if s, ok := shapeAfter("f64", strings.ReplaceAll(stripMaskOps(p), ";;", ";"), len(ts)); ok {
						ts[t].sliced = true
						add(v, tinfo{sh: s})
					}
				}
			case 2:
				add(fmt.Sprintf("clone:%d", t), tinfo{sh: ts[t].sh})
			case 3:
				if t != 0 && len(live) > 1 {
					ops = append(ops, fmt.Sprintf("ret:%d", t))
					dead[t] = true
				}
			case 4:
				s2 := randShape(r, 1, 2, 3)
				add(fmt.Sprintf("new:rm:%s:50", fints(s2)), tinfo{sh: s2, base: true})
				ops = append(ops, fmt.Sprintf("resetmask:%d:%d", len(ts)-1, r.intn(2)))
			case 5:
				if len(ts[t].sh) >= 2 {
					ops = append(ops, fmt.Sprintf("T:%d:%s", t, fints(r.perm(len(ts[t].sh)))))
					ops = append(ops, fmt.Sprintf("UT:%d", t))
				}
			default:
				ops = append(ops, fmt.Sprintf("resetmask:%d:%d", t, r.intn(2)))
			}
		}
		emit("progm f64 " + strings.Join(ops, ";"))
	}
}

// the structural part of a mask history (for shapeAfter)
func stripMaskOps(p string) string {
	var keep []string
	for _, op := range strings.Split(p, ";") {
		if strings.HasPrefix(op, "setmask:") || strings.HasPrefix(op, "resetmask:") {
			continue
		}
		keep = append(keep, op)
	}
	return strings.Join(keep, ";")
}

func init() {
	execs["progm"] = func(a []string) string { return runProgM(a[0], a[1]) }
	gens["C19"] = genC19
	// poolev dt prog : run a program with the pool-event hook on; report double returns
	execs["poolev"] = func(a []string) string {
		tensor.VerifPoolTrace(true)
		defer tensor.VerifPoolTrace(false)
		w := &world{dt: a[0]}
		for _, op := range strings.Split(a[1], ";") {
			if st := w.step(op); st == "panic" {
				break
			}
		}
		d := 0
		for _, e := range tensor.VerifPoolEvents() {
			if e.Double {
				d++
			}
		}
		return fmt.Sprintf("double=%d", d)
	}
}

// one random step over the live tensors of w (already executed on the real library so that the
// generator knows every shape); returns the op text or "" when nothing fits
func randHistoryOp(r *rng, w *world) string {
	n := len(w.ts)
	if n == 0 {
		return ""
	}
	var live []int
	for i := range w.ts {
		if !w.dead[i] {
			live = append(live, i)
		}
	}
	if len(live) == 0 {
		return fmt.Sprintf("new:rm:%s:%d", fints(randShape(r, 1, 3, 3)), r.rangeInt(0, 40))
	}
	pick := func() int { return live[r.intn(len(live))] }
	t := pick()
	sh := []int(w.ts[t].Shape())
	// a one-element VIEW (scalar-shaped or shape (1,..,1)) over a longer storage window (born from the slicing findings F2/F43): the
	// one-element special cases of the engine write through it in ways the model only approximates
	// (known-finding zone F49/F52); such tensors are not used as operands of elementwise operations
	scalarWide := func(x *tensor.Dense) bool {
		return (x.IsScalar() || x.Shape().TotalSize() == 1) && x.MemSize() > x.Dtype().Size()
	}
	sameShape := func(i int) []int {
		var out []int
		if scalarWide(w.ts[i]) {
			return nil
		}
		for j, x := range w.ts {
			if w.dead[j] || scalarWide(x) {
				continue
			}
			if j != i && fints(x.Shape()) == fints(w.ts[i].Shape()) && x.Dtype() == w.ts[i].Dtype() {
				out = append(out, j)
			}
		}
		return out
	}
	// destinations of the same SIZE but another shape are reshaped by the option handling
	sameSize := func(i int) []int {
		var out []int
		if scalarWide(w.ts[i]) {
			return nil
		}
		for j, x := range w.ts {
			if w.dead[j] || scalarWide(x) || j == i {
				continue
			}
			// plain destinations only: what reshaping a lazily transposed or sliced destination leaves
			// behind (its thunk, its window) is outside what the properties specify
			if x.IsMaterializable() || x.DataOrder().IsColMajor() || x.RequiresIterator() {
				continue
			}
			if x.Shape().TotalSize() == w.ts[i].Shape().TotalSize() && x.Dtype() == w.ts[i].Dtype() && !x.IsScalar() && !w.ts[i].IsScalar() {
				out = append(out, j)
			}
		}
		return out
	}
	_ = sameSize
	mode := func(cands []int) string {
		if r.intn(4) == 0 {
			if ss := sameSize(t); len(ss) > 0 {
				return fmt.Sprintf("%s.%d", []string{"reuse", "incr"}[r.intn(2)], ss[r.intn(len(ss))])
			}
		}
		switch r.intn(6) {
		case 0:
			return "unsafe"
		case 1:
			if len(cands) > 0 {
				return fmt.Sprintf("reuse.%d", cands[r.intn(len(cands))])
			}
		case 2:
			if len(cands) > 0 {
				return fmt.Sprintf("incr.%d", cands[r.intn(len(cands))])
			}
		}
		return "safe"
	}
	if r.intn(12) == 0 && len(live) > 2 {
		// hand a finished tensor back to the pool; its struct (and whatever it still references) is
		// recycled by the following operations
		return fmt.Sprintf("ret:%d", t)
	}
	switch r.intn(24) {
	case 22:
		// (arg-reductions answer Int tensors, which cannot take part in the later steps of a float64
		// history: they are fixed cases below, not history steps)
		return ""
	case 23:
		if len(sh) == 2 {
			return fmt.Sprintf("trace:%d", t)
		}
		// (Reduce(fn) is not a history step: one more source of sums made a long history leave the
		// exactly representable range of float64 - a harness artefact, seen once in 40k histories)
	case 0, 1:
		if len(sh) > 0 {
			// non-empty valid ranges only: tensors born from empty ranges (finding F21) panic in
			// most later operations and are the subject of C02
			sliceOnly = true
			v := randView(r, t, sh)
			sliceOnly = false
			return v
		}
	case 2:
		if len(sh) >= 2 {
			return fmt.Sprintf("T:%d:%s", t, fints(r.perm(len(sh))))
		}
	case 3:
		return fmt.Sprintf("UT:%d", t)
	case 4:
		return fmt.Sprintf("transpose:%d", t)
	case 5:
		return fmt.Sprintf("clone:%d", t)
	case 6:
		return fmt.Sprintf("mat:%d", t)
	case 7:
		if len(sh) > 0 {
			c := make([]int, len(sh))
			for i := range c {
				if sh[i] > 0 {
					c[i] = r.intn(sh[i])
				}
			}
			return fmt.Sprintf("setat:%d:%s:%d", t, fints(c), r.rangeInt(0, 9))
		}
	case 8:
		return fmt.Sprintf("memset:%d:%d", t, r.rangeInt(0, 9))
	case 9:
		return fmt.Sprintf("zero:%d", t)
	case 10:
		if prod(sh) > 0 {
			fs := factorisations(prod(sh), 4)
			if len(fs) > 0 {
				return fmt.Sprintf("reshape:%d:%s", t, fints(fs[r.intn(len(fs))]))
			}
		}
	case 11, 12:
		c := sameShape(t)
		if len(c) > 0 {
			b := c[r.intn(len(c))]
			return fmt.Sprintf("bin:%s:%d:%d:%s", []string{"add", "sub", "mul"}[r.intn(3)], t, b, mode(sameShape(t)))
		}
	case 13:
		if scalarWide(w.ts[t]) {
			return ""
		}
		return fmt.Sprintf("bins:%s:%d:%d:%s:%s", []string{"add", "sub", "mul"}[r.intn(3)], t, r.rangeInt(0, 3), []string{"left", "right"}[r.intn(2)], mode(sameShape(t)))
	case 14:
		c := sameShape(t)
		if len(c) > 0 {
			// same-type results only: the model is untyped, a Bool tensor could not take part in
			// the following steps of a float64 history
			return fmt.Sprintf("cmp:%s:%d:%d:same:safe", cmpOps[r.intn(len(cmpOps))], t, c[r.intn(len(c))])
		}
	case 15:
		if scalarWide(w.ts[t]) {
			return ""
		}
		return fmt.Sprintf("un:%s:%d:%s", []string{"neg", "square", "abs"}[r.intn(3)], t, mode(sameShape(t)))
	case 16:
		if len(sh) > 0 {
			var axes []int
			for j := range sh {
				if r.intn(2) == 0 {
					axes = append(axes, j)
				}
			}
			// the caller's axes in any order (the library must not reorder them)
			if len(axes) > 1 && r.intn(2) == 0 {
				p := r.perm(len(axes))
				q := make([]int, len(axes))
				for i, k := range p {
					q[i] = axes[k]
				}
				axes = q
			}
			return fmt.Sprintf("reduce:%s:%d:%s", []string{"sum", "max", "min"}[r.intn(3)], t, fints(axes))
		}
	case 17:
		c := sameShape(t)
		if len(c) > 0 && len(sh) > 0 {
			return fmt.Sprintf("stack:%d:%d:%d", t, r.rangeInt(0, len(sh)), c[r.intn(len(c))])
		}
	case 18:
		c := sameShape(t)
		if len(c) > 0 && len(sh) > 0 {
			return fmt.Sprintf("concat:%d:%d:%d", t, r.rangeInt(0, len(sh)-1), c[r.intn(len(c))])
		}
	case 19:
		if len(sh) > 0 {
			return fmt.Sprintf("repeat:%d:%d:%d", t, r.rangeInt(0, len(sh)-1), r.rangeInt(1, 2))
		}
	case 20:
		c := sameShape(t)
		if len(c) > 0 {
			return fmt.Sprintf("copy:%d:%d", t, c[r.intn(len(c))])
		}
	default:
		return fmt.Sprintf("new:%s:%s:%d", []string{"rm", "rm", "cm"}[r.intn(3)], fints(randShape(r, 1, 3, 3)), r.rangeInt(0, 40))
	}
	return ""
}

func genHistory(r *rng, length int) string {
	w := &world{dt: "f64"}
	var ops []string
	// a population of 2-4 initial tensors, two of them of equal shape
	sh := randShape(r, 1, 3, 3)
	for k := 0; k < r.rangeInt(2, 4); k++ {
		s := sh
		if k >= 2 {
			s = randShape(r, 1, 3, 3)
		}
		op := fmt.Sprintf("new:rm:%s:%d", fints(s), 10*k)
		w.step(op)
		ops = append(ops, op)
	}
	for len(ops) < length {
		if len(w.ts) > 8 {
			break
		}
		// the generator looks at the LIVE tensors to choose arguments; a library defect that
		// corrupts one of them (a zeroed shape, say) must end the history, not the run: the
		// history generated so far is emitted and the comparison with the model reports it
		op, bad := func() (o string, bad bool) {
			defer func() {
				if e := recover(); e != nil {
					bad = true
				}
			}()
			return randHistoryOp(r, w), false
		}()
		if bad {
			break
		}
		if op == "" {
			continue
		}
		st := w.step(op)
		ops = append(ops, op)
		if st == "panic" {
			break
		}
		// keep tensors small
		big := false
		for i, t := range w.ts {
			if !w.dead[i] && t.Shape().TotalSize() > 64 {
				big = true
			}
		}
		if big {
			break
		}
	}
	return strings.Join(ops, ";")
}

// intPoolMotifs: operations that borrow and return int lists (axes, shapes, strides) on one tensor,
// a NEW tensor built while such a list may sit in the pool (or is still referenced by the first
// tensor), the closing operation on the first tensor, then reads of the new tensor at every
// corner: a list that is returned twice, or kept after it was returned, ends up as the new tensor's
// shape or strides and is zeroed or overwritten under it.  Shared by C01, C03, C13 and C19.
func intPoolMotifs(emit func(string)) {
	firsts := []string{"rollaxis:0:2:0:0", "rollaxis:0:2:0:1", "rollaxis:0:0:2:0", "T:0:1,2,0", "T:0:_", "T:0:1,2,0;UT:0", "T:0:2,0,1;transpose:0",
		"slice:0:1.2.0;ret:1", "reshape:0:6,4;reshape:0:2,3,4", "reduce:sum:0:2,0", "safeT:0:1,2,0;ret:1", "apitranspose:0:2,0,1;ret:1", "T:0:1,2,0;T:0:1,2,0"}
	closes := []string{"UT:0", "ret:0", "T:0:_", "transpose:0", "UT:0;UT:0", "reshape:0:24", "T:0:2,1,0;UT:0"}
	for _, f := range firsts {
		nt := 1 + strings.Count(f, "slice") + strings.Count(f, "safeT") + strings.Count(f, "apitranspose") + strings.Count(f, "reduce")
		if strings.HasSuffix(f, ":1") && strings.HasPrefix(f, "rollaxis") {
			nt++ // the safe RollAxis returns a new tensor
		}
		for _, c := range closes {
			b := nt
			reads := fmt.Sprintf("at:%d:0,0,0;at:%d:1,2,3;at:%d:1,0,2;slice:%d:1.2.0/_/1.3.1;T:%d:2,0,1;at:%d:3,1,2", b, b, b, b, b, b)
			emit(fmt.Sprintf("prog f64 new:rm:2,3,4:0;%s;new:rm:2,3,4:30;%s;%s", f, c, reads))
			emit(fmt.Sprintf("prog f64@alt new:rm:2,3,4:0;%s;new:rm:2,3,4:30;%s;%s", f, c, reads))
			emit(fmt.Sprintf("prog i new:rm:2,3,4:0;%s;new:cm:2,3,4:30;new:rm:4,3:60;%s;at:%d:1,2,3;at:%d:0,1,0;at:%d:3,2;at:%d:0,1", f, c, b, b, b+1, b+1))
		}
	}
}

// recycleMotifs: see genC19 (also part of C04: a recycled struct must not carry a stale transpose
// into a new view)
func recycleMotifs(emit func(string)) {
	// recycled tensor structs: a tensor in some state (lazily transposed, clone of a transposed
	// tensor, view, materialised, reshaped) goes back to the pool; the next tensors built from the
	// recycled structs must behave as fresh ones under every structural operation
	{
		lives := []string{
			"T:0:1,0;clone:0;ret:1", "T:0:1,0;ret:0", "slice:0:_/1.3.1;ret:1", "slice:0:_/1.3.1;T:1:1,0;ret:1",
			"T:0:1,0;slice:0:0.2.1/_;ret:1", "T:0:1,0;mat:0;ret:1", "safeT:0:1,0;ret:1", "T:0:1,0;transpose:0;ret:0",
			"reshape:0:2,6;ret:0", "T:0:1,0;clone:0;T:1:1,0;ret:1", "clone:0;T:1:1,0;clone:1;ret:1;ret:2",
		}
		nexts := []string{"T:%d:1,0;at:%d:0,1", "T:%d:1,0;UT:%d", "T:%d:1,0;transpose:%d", "slice:%d:_/0.1.1", "T:%d:1,0;mat:%d", "T:%d:1,0;clone:%d", "reshape:%d:6", "memset:%d:7", "UT:%d", "transpose:%d"}
		// the recycled struct may also be picked up by a view, a clone or a result of a LIVE tensor
		// (Slice, Clone and the engines borrow structs from the same pool)
		reuse := []string{"slice:%p:0.2.1;T:%d:1,0;at:%d:0,1", "slice:%p:_/1.3.1;T:%d:1,0;UT:%d", "clone:%p;T:%d:1,0;transpose:%d", "slice:%p:0.2.1;T:%d:1,0;mat:%d",
			"bins:add:%p:1:left:safe;T:%d:1,0;UT:%d", "safeT:%p:1,0;UT:%d", "slice:%p:1.3.1;reshape:%d:8", "mat:%p;T:%d:1,0",
			"repeat:%p:0:2", "repeat:%p:1:2;T:%d:1,0", "stack:%p:0:%p", "concat:%p:1:%p", "reduce:sum:%p:0", "un:neg:%p:safe;T:%d:1,0;at:%d:0,1"}
		for _, l := range lives {
			if strings.Contains(l, "ret:0") {
				continue
			}
			nt := 1 + strings.Count(l, "clone") + strings.Count(l, "slice") + strings.Count(l, "mat:") + strings.Count(l, "safeT")
			for _, nx := range reuse {
				// a fresh live parent (tensor nt), then the operation on it whose result (tensor nt+1) reuses the struct
				step := strings.ReplaceAll(strings.ReplaceAll(nx, "%p", fmt.Sprint(nt)), "%d", fmt.Sprint(nt+1))
				emit(fmt.Sprintf("prog f64 new:rm:3,4:1;%s;new:rm:3,4:20;%s", l, step))
				// ... or on a parent that was alive all along: build it BEFORE the first life ends
				pre := strings.Replace(l, ";ret:", ";new:rm:3,4:20;ret:", 1)
				if pre != l {
					step = strings.ReplaceAll(strings.ReplaceAll(nx, "%p", fmt.Sprint(nt)), "%d", fmt.Sprint(nt+1))
					emit(fmt.Sprintf("prog f64 new:rm:3,4:1;%s;%s", pre, step))
				}
			}
		}
		for _, l := range lives {
			nt := 1 + strings.Count(l, "clone") + strings.Count(l, "slice") + strings.Count(l, "mat:") + strings.Count(l, "safeT")
			for _, nx := range nexts {
				for _, nsh := range []string{"3,2", "2,3", "3,4"} {
					k := nt
					step := strings.ReplaceAll(nx, "%d", fmt.Sprint(k))
					emit(fmt.Sprintf("prog f64 new:rm:3,4:1;%s;new:rm:%s:20;%s", l, nsh, step))
					emit(fmt.Sprintf("prog f64 new:rm:3,4:1;%s;new:rm:%s:20;new:cm:%s:40;%s;%s", l, nsh, nsh, step, strings.ReplaceAll(nx, "%d", fmt.Sprint(k+1))))
				}
			}
		}
	}
}

func genC19(tier string, r *rng, emit func(string)) {
	thorough := tier == "thorough"
	n := 1500
	if thorough {
		n = 40000
	}
	for i := 0; i < n; i++ {
		length := r.rangeInt(5, 40)
		if thorough && i%10 == 0 {
			length = r.rangeInt(40, 200)
		}
		h := genHistory(r, length)
		emit("prog f64 " + h)
		if i%5 == 0 {
			emit("poolev f64 " + h)
		}
	}
	genMaskHistories(tier, r, emit)
	// products given BOTH a reuse and an incr tensor, followed by allocations that recycle whatever was
	// handed to the pool: the caller's reuse tensor must stay alive and intact
	for _, op := range []string{"lin:matmul:0:1", "lin:matvec:0:4", "lin:outer:4:4"} {
		res := map[string]string{"lin:matmul:0:1": "2,2", "lin:matvec:0:4": "2", "lin:outer:4:4": "2,2"}[op]
		pre := fmt.Sprintf("new:rm:2,2:1;new:rm:2,2:5;new:rm:%s:0;new:rm:%s:100;new:rm:2:3", res, res)
		emit(fmt.Sprintf("prog f64 %s;%s:both.2.3;new:rm:2,2:9;clone:0;slice:0:0.1.1/_", pre, op))
		emit(fmt.Sprintf("prog f64 %s;%s:reuse.2;new:rm:2,2:9;clone:0", pre, op))
		emit(fmt.Sprintf("prog f64 %s;%s:incr.3;new:rm:2,2:9;clone:0", pre, op))
	}
	recycleMotifs(emit)
	intPoolMotifs(emit)
	refusedProducts(emit)
	// arg-reductions along every axis (the last one needs no transposition) and flat, the operand and
	// fresh tensors observed afterwards
	for _, sh := range []string{"3,4", "2,3,4", "4"} {
		for _, o := range []string{"max", "min"} {
			for ax := -1; ax < len(strings.Split(sh, ",")); ax++ {
				emit(fmt.Sprintf("prog f64 new:rm:%s:3;arg:%s:0:%d;new:rm:6,7:0;new:rm:8,9:0;at:0:0", sh, o, ax))
			}
		}
	}
	dotNdCases(func(c string) {
		if strings.HasPrefix(c, "prog f64 ") {
			emit(c)
		}
	})
	// caller-owned int lists in every order (unsorted, reversed, repeated use of one tensor): axes of
	// reductions through both spellings, transposition axes, repeat counts, reshape dimensions,
	// contraction axes - each followed by allocations that would recycle a pooled list
	for _, dt := range []string{"f64", "f64@alt"} {
		for _, red := range []string{"sum", "max", "min"} {
			for _, ax := range []string{"2,0", "1,0", "2,1,0", "0,2,1", "2,1", "1,2,0"} {
				emit(fmt.Sprintf("prog %s new:rm:2,3,4:1;reduce:%s:0:%s;new:rm:3:0;new:rm:2,2:0", dt, red, ax))
				emit(fmt.Sprintf("prog %s new:rm:2,3,4:1;T:0:1,2,0;reduce:%s:0:%s;reduce:%s:0:%s", dt, red, ax, red, ax))
			}
		}
		for _, c := range []string{"new:rm:2,3,4:1;new:rm:4,3,2:2;tmul:0:1:2,1:0,1;new:rm:2:0;new:rm:2,2:0",
			"new:rm:2,3,4:1;new:rm:3,4,2:2;tmul:0:1:2,1:1,0;new:rm:2:0", "new:rm:2,3,4:1;repeat:0:1:2,1,3;new:rm:3:0",
			"new:rm:2,3,4:1;reshape:0:4,3,2;new:rm:3:0;reshape:0:24;new:rm:1:0"} {
			emit(fmt.Sprintf("prog %s %s", dt, c))
		}
	}
	// a destination of another shape (same size) is reshaped; the operands' own shape and strides
	// lists stay theirs, also after later allocations
	for _, op := range []string{"bin:add:0:1:reuse.2", "bin:mul:0:1:incr.2", "bins:add:0:3:left:reuse.2", "un:neg:0:reuse.2", "cmp:lt:0:1:same:reuse.2"} {
		for _, dsh := range []string{"6", "3,2", "1,6", "2,3"} {
			emit(fmt.Sprintf("prog f64 new:rm:2,3:1;new:rm:2,3:11;new:rm:%s:50;%s;new:rm:4,5:0;new:rm:2,3:70;clone:0;slice:0:0.1.1", dsh, op))
		}
	}
	// products: negative contraction axes (the caller's axes lists stay as passed), column-major
	// column vectors through Outer (operands restored)
	for _, c := range []string{"new:rm:2,3,4:1;new:rm:4,3,2:2;tmul:0:1:-1,1:-3,1", "new:rm:2,3:1;new:rm:3,2:2;tmul:0:1:-1:0",
		"new:cm:3,1:1;new:cm:2,1:2;lin:outer:0:1:safe", "new:cm:3:1;new:cm:2:2;lin:outer:0:1:safe;new:rm:2,2:0"} {
		emit("prog f64 " + c)
	}
	// a refused Reshape (non-contiguous view, pending transpose) changes no tensor - not the view, not
	// its parent
	for _, c := range []string{"new:rm:3,4:0;slice:0:_/1.3.1;T:1:1,0;reshape:1:6;at:0:1,1", "new:rm:3,4:0;slice:0:_/0.2.1;T:1:1,0;reshape:1:2,3;clone:0",
		"new:rm:2,3,4:0;slice:0:_/_/1.3.1;T:1:2,0,1;reshape:1:12;new:rm:2:0"} {
		emit("prog f64 " + c)
	}
	// a rank-0 tensor used as the scalar operand of a safe operation is an operand like any other:
	// it must come out unchanged (and stay usable) whatever the operation and the side
	for _, op := range []string{"add", "sub", "mul", "div", "mod", "pow"} {
		for _, side := range [][2]int{{0, 1}, {1, 0}} {
			emit(fmt.Sprintf("prog f64 new:rm:3:5;new:rm:_:3;bin:%s:%d:%d:safe;new:rm:_:9;bin:add:0:1:safe;at:1:_", op, side[0], side[1]))
			emit(fmt.Sprintf("prog f64 new:rm:2,2:5;new:rm:_:3;bin:%s:%d:%d:safe:method;clone:1;new:rm:_:9", op, side[0], side[1]))
		}
	}
	// caller-owned axes slices: T with explicit axes followed by every way of dropping the thunk
	for _, sh := range allShapes(4, 3) {
		if len(sh) < 2 {
			continue
		}
		for _, p := range permsOf(len(sh)) {
			if !thorough && len(sh) == 4 && r.intn(4) != 0 {
				continue
			}
			base := fmt.Sprintf("new:rm:%s:0;T:0:%s", fints(sh), fints(p))
			emit("progk f64 " + base + ";UT:0")
			emit("progk f64 " + base + ";ret:0;new:rm:2:0")
			emit("progk f64 " + base + ";clone:0;ret:1;UT:0")
			sbase := fmt.Sprintf("new:rm:%s:0;safeT:0:%s", fints(sh), fints(p))
			emit("progk f64 " + sbase + ";UT:1")
			emit("progk f64 " + sbase + ";ret:1;new:rm:2:0")
			emit("progk f64 " + sbase + ";transpose:1;ret:1")
			emit("progk f64 " + base + ";transpose:0;UT:0")
			emit("progk f64 " + base + fmt.Sprintf(";T:0:%s;UT:0", fints(r.perm(len(sh)))))
			emit("progk f64 " + base + ";safeT:0:" + fints(p) + ";UT:1;UT:0")
			emit("poolev f64 " + base + fmt.Sprintf(";rollaxis:0:%d:%d:0;UT:0", r.intn(len(sh)), r.intn(len(sh)+1)))
		}
	}
}
