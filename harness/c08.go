package main

import (
	"fmt"
)

func init() { gens["C08"] = genC08 }

func genC08(tier string, r *rng, emit func(string)) {
	genXKinds("C08", emit)
	genXKinds("C08fn", emit)
	thorough := tier == "thorough"
	// (1) every shape of rank 1-4 (dims <= 3) x every non-empty axis subset, contiguous row-major,
	// Sum/Min/Max; every single axis + all-axes for the arg-reductions; values with ties
	for _, sh := range allShapes(4, 3) {
		n := len(sh)
		if n == 0 || prod(sh) > 54 {
			continue
		}
		for mask := 0; mask < (1 << uint(n)); mask++ {
			var axes []int
			for i := 0; i < n; i++ {
				if mask&(1<<uint(i)) != 0 {
					axes = append(axes, i)
				}
			}
			if !thorough && n >= 4 && r.intn(3) != 0 {
				continue
			}
			kind := []string{"sum", "min", "max"}[r.intn(3)]
			emit(fmt.Sprintf("prog i new:rm:%s:1;reduce:%s:0:%s", fints(sh), kind, fints(axes)))
			if len(axes) > 1 && r.intn(2) == 0 { // unsorted axes: the caller's slice must stay as passed
				rev := make([]int, len(axes))
				for i := range axes {
					rev[i] = axes[len(axes)-1-i]
				}
				emit(fmt.Sprintf("prog f64 new:rm:%s:1;reduce:%s:0:%s", fints(sh), kind, fints(rev)))
			}
		}
		// the generic Reduce(fn, axis, default) entry point: every axis (its own middle-axis
		// bookkeeping), contiguous, lazily transposed and column-major operands
		for ax := 0; ax < n; ax++ {
			emit(fmt.Sprintf("prog %s new:rm:%s:1;reducefn:sum:0:%d", []string{"i", "f64", "i32"}[ax%3], fints(sh), ax))
			// a user function that is not a sum, on positive and on negative runs (found by a proof: the
			// default value takes part along the last axis only)
			for _, fnn := range []string{"min", "max"} {
				emit(fmt.Sprintf("prog %s new:rm:%s:1;reducefn:%s:0:%d", []string{"i", "f64"}[ax%2], fints(sh), fnn, ax))
				emit(fmt.Sprintf("prog %s new:rm:%s:-40;reducefn:%s:0:%d", []string{"f64", "i"}[ax%2], fints(sh), fnn, ax))
			}
			if n >= 2 && r.intn(3) == 0 {
				emit(fmt.Sprintf("prog f64 new:rm:%s:1;T:0:_;reducefn:sum:0:%d", fints(sh), ax))
				emit(fmt.Sprintf("prog f64 new:cm:%s:1;reducefn:sum:0:%d", fints(sh), ax))
			}
		}
		for ax := -1; ax <= n; ax++ {
			emit(fmt.Sprintf("prog i new:rm:%s:1;arg:max:0:%d", fints(sh), ax))
			if r.intn(2) == 0 {
				emit(fmt.Sprintf("prog f64 new:rm:%s:1;arg:min:0:%d", fints(sh), ax))
			}
		}
	}
	// (1b) every ordered element type with negatives and ties: flat and per-axis arg-reductions and
	//      the three folds (the flat arg kernels and the reduction kernels are generated per type)
	for _, dt := range []string{"i", "i8", "i16", "i32", "i64", "f32", "f64", "u8", "u16", "u32", "u64", "u"} {
		// all-negative, mixed and all-positive runs: a fold seeded with the wrong start value (0
		// instead of the first element) shows only on runs of one sign
		bases := []int{-3, -12, 1}
		if dt[0] == 'u' {
			bases = []int{0, 1}
		}
		for _, base := range bases {
			for _, sh := range [][]int{{6}, {2, 3}, {2, 2, 2}} {
				pre := fmt.Sprintf("prog %s new:rm:%s:%d;setat:0:%s:%d", dt, fints(sh), base, fints(make([]int, len(sh))), base+4)
				for ax := -1; ax < len(sh); ax++ {
					emit(fmt.Sprintf("%s;arg:max:0:%d", pre, ax))
					emit(fmt.Sprintf("%s;arg:min:0:%d", pre, ax))
				}
				for _, k := range []string{"sum", "min", "max"} {
					for ax := 0; ax < len(sh); ax++ {
						emit(fmt.Sprintf("%s;reduce:%s:0:%d", pre, k, ax))
					}
					emit(fmt.Sprintf("%s;reduce:%s:0:_", pre, k))
					if len(sh) == 3 {
						emit(fmt.Sprintf("%s;reduce:%s:0:0,2", pre, k))
						emit(fmt.Sprintf("%s;reduce:%s:0:1,2", pre, k))
					}
				}
			}
		}
	}
	// (1c) lengths around the block sizes of unrolled loops, and ranks 5 and 6
	for _, dt := range []string{"f64", "f32", "i"} {
		for _, n := range []int{1, 2, 3, 4, 5, 7, 8, 9, 15, 16, 17, 31, 32, 33, 63, 64, 65} {
			for _, k := range []string{"sum", "max", "min"} {
				emit(fmt.Sprintf("prog %s new:rm:%d:-5;reduce:%s:0:0", dt, n, k))
				if n <= 17 {
					emit(fmt.Sprintf("prog %s new:rm:%d,3:-5;reduce:%s:0:0", dt, n, k))
					emit(fmt.Sprintf("prog %s new:rm:3,%d:-5;reduce:%s:0:1", dt, n, k))
					emit(fmt.Sprintf("prog %s new:rm:2,%d,2:-5;reduce:%s:0:1", dt, n, k))
				}
			}
			emit(fmt.Sprintf("prog %s new:rm:%d:-5;setat:0:%d:90;arg:max:0:0", dt, n, n/2))
			emit(fmt.Sprintf("prog %s new:rm:%d:-5;setat:0:%d:-90;arg:min:0:-1", dt, n, n-1))
		}
		for _, sh := range []string{"2,1,2,1,2", "1,2,2,2,2", "2,2,1,2,1,2"} {
			nd := len(ints(sh))
			for ax := 0; ax < nd; ax++ {
				emit(fmt.Sprintf("prog %s new:rm:%s:-5;reduce:sum:0:%d", dt, sh, ax))
				emit(fmt.Sprintf("prog %s new:rm:%s:-5;reduce:max:0:%d", dt, sh, ax))
				emit(fmt.Sprintf("prog %s new:rm:%s:-5;arg:min:0:%d", dt, sh, ax))
			}
			emit(fmt.Sprintf("prog %s new:rm:%s:-5;reduce:sum:0:0,2,4", dt, sh))
			emit(fmt.Sprintf("prog %s new:rm:%s:-5;reduce:min:0:_", dt, sh))
		}
	}
	// (2) operand layouts as in C06, values with ties (tokens folded modulo 3 through a min with
	// a scalar is not available: ties come from setat), random axis subsets
	m := 6000
	if thorough {
		m = 90000
	}
	for i := 0; i < m; i++ {
		sh := randShape(r, 1, 4, 3)
		if prod(sh) > 40 {
			continue
		}
		la := append(append([]string{}, ewLayouts...), "cloneview")[r.intn(len(ewLayouts)+1)]
		pre, ia := source(r, la, sh, 1)
		prog := pre
		// plant ties / an extreme value
		nsh, ok := shapeAfter("f64", prog, ia)
		if !ok {
			continue
		}
		for k := 0; k < r.intn(3); k++ {
			c := make([]int, len(nsh))
			for j := range c {
				if nsh[j] > 0 {
					c[j] = r.intn(nsh[j])
				}
			}
			prog += fmt.Sprintf(";setat:%d:%s:%d", ia, fints(c), []int{0, 99, 5, 5}[r.intn(4)])
		}
		dt := []string{"i", "f64"}[r.intn(2)]
		if r.intn(3) == 0 {
			ax := r.rangeInt(-1, len(nsh))
			emit(fmt.Sprintf("prog %s %s;arg:%s:%d:%d", dt, prog, []string{"max", "min"}[r.intn(2)], ia, ax))
			continue
		}
		var axes []int
		for j := 0; j < len(nsh); j++ {
			if r.intn(2) == 0 {
				axes = append(axes, j)
			}
		}
		if r.intn(15) == 0 {
			axes = append(axes, len(nsh)) // an axis the tensor does not have
		}
		if len(axes) > 1 && r.intn(3) == 0 {
			axes[0], axes[len(axes)-1] = axes[len(axes)-1], axes[0]
		}
		emit(fmt.Sprintf("prog %s %s;reduce:%s:%d:%s", dt, prog, []string{"sum", "min", "max"}[r.intn(3)], ia, fints(axes)))
	}
}
