module verif/harness

go 1.18

require (
	github.com/chewxy/math32 v1.0.8
	gonum.org/v1/gonum v0.8.2
	gorgonia.org/tensor v0.0.0
)

require (
	github.com/apache/arrow/go/arrow v0.0.0-20201229220542-30ce2eb5d4dc // indirect
	github.com/chewxy/hm v1.0.0 // indirect
	github.com/gogo/protobuf v1.3.2 // indirect
	github.com/golang/protobuf v1.4.3 // indirect
	github.com/google/flatbuffers v1.12.0 // indirect
	github.com/pkg/errors v0.9.1 // indirect
	github.com/xtgo/set v1.0.0 // indirect
	go4.org/unsafe/assume-no-moving-gc v0.0.0-20230525183740-e7c30c78aeb2 // indirect
	golang.org/x/xerrors v0.0.0-20200804184101-5ec99f83aff1 // indirect
	google.golang.org/protobuf v1.25.0 // indirect
	gorgonia.org/vecf32 v0.9.0 // indirect
	gorgonia.org/vecf64 v0.9.0 // indirect
)

replace gorgonia.org/tensor => /repo
