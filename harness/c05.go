package main

import (
	"fmt"
	"strconv"
	"strings"

	"gorgonia.org/tensor"
)

func errStr(err error) string {
	if err != nil {
		return "E"
	}
	return ""
}

// runScript drives an Iterator through a script of single-letter commands.
func runScript(it tensor.Iterator, script string, mult *tensor.MultIterator, nOps int) string {
	var out []string
	for _, ch := range script {
		var s string
		func() {
			defer func() {
				if e := recover(); e != nil {
					s = string(ch) + "=P"
				}
			}()
			switch ch {
			case 'n':
				i, err := it.Next()
				if err != nil {
					s = "n=E"
				} else {
					s = fmt.Sprintf("n=%d", i)
				}
			case 'v':
				i, k, err := it.NextValid()
				s = fmt.Sprintf("v=%d:%d%s", i, k, errStr(err))
			case 'i':
				i, k, err := it.NextInvalid()
				s = fmt.Sprintf("i=%d:%d%s", i, k, errStr(err))
			case 'y':
				i, ok, err := it.NextValidity()
				if err != nil {
					s = "y=E"
				} else {
					b := 0
					if ok {
						b = 1
					}
					s = fmt.Sprintf("y=%d:%d", i, b)
				}
			case 'r':
				it.Reset()
				s = "r"
			case 'R':
				it.SetReverse()
				s = "R"
			case 'F':
				it.SetForward()
				s = "F"
			case 'c':
				s = "c=" + fints(it.Coord())
			case 'd':
				if it.Done() {
					s = "d=1"
				} else {
					s = "d=0"
				}
			case 'l':
				var ls []string
				for j := 0; j < nOps; j++ {
					ls = append(ls, strconv.Itoa(mult.LastIndex(j)))
				}
				s = "l=" + strings.Join(ls, ",")
			}
		}()
		out = append(out, s)
		if strings.HasSuffix(s, "=P") {
			break
		}
	}
	return strings.Join(out, " ")
}

func parseAPs(s string) []*tensor.AP {
	var aps []*tensor.AP
	for _, p := range strings.Split(s, ";") {
		f := strings.Split(p, "/")
		ap := tensor.MakeAP(tensor.Shape(ints(f[0])), ints(f[1]), 0, 0)
		aps = append(aps, &ap)
	}
	return aps
}

func init() {
	// iterap shape strides script
	execs["iterap"] = func(a []string) string {
		ap := tensor.MakeAP(tensor.Shape(ints(a[0])), ints(a[1]), 0, 0)
		it := tensor.NewIterator(&ap)
		return runScript(it, a[2], nil, 0)
	}
	// itert dt prog tidx script   -- iterator of a tensor built by an operation program
	execs["itert"] = func(a []string) string {
		w := &world{dt: a[0]}
		for _, op := range strings.Split(a[1], ";") {
			if st := w.step(op); st == "panic" || st == "err" {
				return "setup-" + st
			}
		}
		t := w.ts[atoi(a[2])]
		return "ap=" + fints(t.Shape()) + "/" + fints(t.Strides()) + " " + runScript(tensor.IteratorFromDense(t), a[3], nil, 0)
	}
	// iterm shape maskbits script  -- masked contiguous tensor
	execs["iterm"] = func(a []string) string {
		sh := ints(a[0])
		mask := make([]bool, len(a[1]))
		for i, c := range a[1] {
			mask[i] = c == '1'
		}
		t := tensor.New(tensor.WithShape(sh...), tensor.WithBacking(backing("f64", iota(prod(sh))), mask))
		return runScript(tensor.IteratorFromDense(t), a[2], nil, 0)
	}
	// mult sh/st;sh/st;... script
	execs["mult"] = func(a []string) string {
		aps := parseAPs(a[0])
		it := tensor.NewMultIterator(aps...)
		return runScript(it, a[1], it, len(aps))
	}
	gens["C05"] = genC05
}

func randScript(r *rng, size int, masked bool) string {
	var sb strings.Builder
	n := r.rangeInt(size, 2*size+3)
	for i := 0; i < n; i++ {
		x := r.intn(40)
		switch {
		case x == 0:
			sb.WriteByte('r')
		case x == 1:
			sb.WriteByte('R')
		case x == 2:
			sb.WriteByte('F')
		case x < 6:
			sb.WriteByte('c')
		case x < 8:
			sb.WriteByte('d')
		case masked && x < 16:
			sb.WriteByte('v')
		case masked && x < 22:
			sb.WriteByte('i')
		case masked && x < 28:
			sb.WriteByte('y')
		case !masked && x == 8:
			sb.WriteByte('v')
		case !masked && x == 9:
			sb.WriteByte('y')
		default:
			sb.WriteByte('n')
		}
	}
	return sb.String()
}

func fullRun(size int) string {
	return strings.Repeat("nc", size) + "dnndc"
}

func genC05(tier string, r *rng, emit func(string)) {
	thorough := tier == "thorough"
	// (1) every access pattern of rank 0-4, dims <= 3, default strides and permuted strides:
	// full forward run, full reverse run, reset in the middle
	maxRank := 3
	if thorough {
		maxRank = 4
	}
	for _, sh := range allShapes(maxRank, 3) {
		size := prod(sh)
		rm := tensor.Shape(sh).CalcStrides()
		if len(sh) == 0 {
			rm = []int{}
		}
		variants := [][]int{rm}
		for _, p := range permsOf(len(sh)) {
			st := make([]int, len(sh))
			for i, a := range p {
				st[i] = rm[a]
			}
			variants = append(variants, st)
		}
		// strided (as step slices have them)
		st2 := make([]int, len(sh))
		for i := range st2 {
			st2[i] = rm[i] * 2
		}
		variants = append(variants, st2)
		// all-ones strides: what AP.T gives a transposed (n,1)/(1,n) vector -> vector-like fast path
		if tensor.Shape(sh).IsVectorLike() && len(sh) > 0 {
			ones := make([]int, len(sh))
			for i := range ones {
				ones[i] = 1
			}
			variants = append(variants, ones)
		}
		for _, st := range variants {
			s, t := fints(sh), fints(st)
			emit(fmt.Sprintf("iterap %s %s %s", s, t, fullRun(size)))
			emit(fmt.Sprintf("iterap %s %s R%s", s, t, fullRun(size)))
			emit(fmt.Sprintf("iterap %s %s %sr%s", s, t, strings.Repeat("n", size/2+1), fullRun(size)))
			emit(fmt.Sprintf("iterap %s %s %sR%sF%s", s, t, strings.Repeat("n", size/2), strings.Repeat("nc", size+1), fullRun(size)))
		}
	}
	// (2) access patterns reachable by slicing / transposing, random scripts
	n := 6000
	if thorough {
		n = 80000
	}
	for i := 0; i < n; i++ {
		sh := randShape(r, 0, 4, 4)
		if prod(sh) > 60 {
			continue
		}
		layout := []string{"rm", "T", "slice", "stepslice", "cm", "cmb"}[r.intn(6)]
		pre, cur := source(r, layout, sh, 0)
		prog := pre
		if r.intn(2) == 0 && len(sh) > 0 {
			prog += fmt.Sprintf(";slice:%d:%s", cur, strings.ReplaceAll(randView(r, cur, sh), fmt.Sprintf("slice:%d:", cur), ""))
			if _, ok := shapeAfter("f64", prog, cur+1); ok {
				cur++
			} else {
				prog = pre
			}
		}
		nsh, ok := shapeAfter("f64", prog, cur)
		if !ok {
			continue
		}
		emit(fmt.Sprintf("itert f64 %s %d %s", prog, cur, randScript(r, prod(nsh), false)))
	}
	// (3) every mask over <= 8 elements on vector / matrix / rank-3 shapes
	maskShapes := [][]int{{1}, {2}, {3}, {4}, {2, 2}, {5}, {2, 3}, {6}, {3, 2}, {7}, {2, 2, 2}, {8}, {2, 4}, {4, 2}, {1, 3}, {3, 1}}
	for _, sh := range maskShapes {
		size := prod(sh)
		for m := 0; m < (1 << uint(size)); m++ {
			if !thorough && size >= 7 && m%3 != 0 {
				continue
			}
			bits := ""
			for b := 0; b < size; b++ {
				if m&(1<<uint(b)) != 0 {
					bits += "1"
				} else {
					bits += "0"
				}
			}
			emit(fmt.Sprintf("iterm %s %s %s", fints(sh), bits, strings.Repeat("v", size+2)))
			emit(fmt.Sprintf("iterm %s %s %s", fints(sh), bits, strings.Repeat("i", size+2)))
			if m%4 == 1 || thorough {
				emit(fmt.Sprintf("iterm %s %s %s", fints(sh), bits, randScript(r, size, true)))
				emit(fmt.Sprintf("iterm %s %s R%s", fints(sh), bits, strings.Repeat("v", size+2)))
				emit(fmt.Sprintf("iterm %s %s %s", fints(sh), bits, strings.Repeat("y", size+1)))
			}
		}
	}
	// (4) multi-iterator over pairs / triples of equally shaped operands with different strides
	k := 3000
	if thorough {
		k = 40000
	}
	for i := 0; i < k; i++ {
		sh := randShape(r, 1, 4, 3)
		size := prod(sh)
		nops := r.rangeInt(2, 3)
		rm := tensor.Shape(sh).CalcStrides()
		var parts []string
		for j := 0; j < nops; j++ {
			st := make([]int, len(sh))
			switch r.intn(4) {
			case 0:
				copy(st, rm)
			case 1: // permuted (transposed operand)
				p := r.perm(len(sh))
				// strides of a tensor whose transposition by p has shape sh
				q := make([]int, len(sh))
				for i2, a := range p {
					q[a] = sh[i2]
				}
				qs := tensor.Shape(q).CalcStrides()
				for i2, a := range p {
					st[i2] = qs[a]
				}
			case 2: // stepped
				for i2 := range st {
					st[i2] = rm[i2] * 2
				}
			default:
				for i2 := range st {
					st[i2] = rm[i2] + r.intn(2)*size
				}
			}
			parts = append(parts, fints(sh)+"/"+fints(st))
		}
		emit(fmt.Sprintf("mult %s %s", strings.Join(parts, ";"), strings.Repeat("nl", size)+"dnlr"+strings.Repeat("nl", size/2+1)))
		// direction switches: a reverse run, back to forward in the middle of it, reverse after exhaustion
		if i%3 == 0 {
			emit(fmt.Sprintf("mult %s %s", strings.Join(parts, ";"), "R"+strings.Repeat("nl", size)+"dnl"+"F"+strings.Repeat("nl", size)+"dnl"))
			emit(fmt.Sprintf("mult %s %s", strings.Join(parts, ";"), "Rnlnl"+"F"+strings.Repeat("nl", size)+"dR"+strings.Repeat("nl", size/2+1)+"Fnlnl"))
		}
	}
}
