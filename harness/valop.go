package main

// valop: per-element-type value sweeps.  Every public elementwise operation is run on vectors of
// edge values of one element type and compared, element by element, with Go's own operator or
// math routine for that type (one type-generic definition per operation) — the property's own
// definition of the expected value (C06, C11, C12, C17).

import (
	"fmt"
	"math"
	"math/cmplx"
	"strings"

	"github.com/chewxy/math32"
	"gorgonia.org/tensor"
)

type integer interface {
	~int | ~int8 | ~int16 | ~int32 | ~int64 | ~uint | ~uint8 | ~uint16 | ~uint32 | ~uint64
}
type float interface{ ~float32 | ~float64 }
type cplx interface{ ~complex64 | ~complex128 }
type realnum interface{ integer | float }
type number interface{ realnum | cplx }

func gAdd[T number](a, b T) T { return a + b }
func gSub[T number](a, b T) T { return a - b }
func gMul[T number](a, b T) T { return a * b }
func gDiv[T number](a, b T) T { return a / b }
func gModI[T integer](a, b T) T { return a % b }
func gLt[T realnum](a, b T) bool  { return a < b }
func gLte[T realnum](a, b T) bool { return a <= b }
func gGt[T realnum](a, b T) bool  { return a > b }
func gGte[T realnum](a, b T) bool { return a >= b }
func gEq[T comparable](a, b T) bool { return a == b }
func gNe[T comparable](a, b T) bool { return a != b }
func gMin[T realnum](a, b T) T {
	if a < b {
		return a
	}
	return b
}
func gMax[T realnum](a, b T) T {
	if a > b {
		return a
	}
	return b
}
func gNeg[T number](a T) T    { return -a }
func gSquare[T number](a T) T { return a * a }
func gCube[T number](a T) T   { return a * a * a }
func gAbsR[T realnum](a T) T {
	if a < 0 {
		return -a
	}
	return a
}
func gSign[T realnum](a T) T {
	if a < 0 {
		var m T
		m--
		return m
	}
	if a > 0 {
		return 1
	}
	return a
}

// edge values per class
func intVals[T integer]() []T {
	var zero T
	minv := zero
	maxv := ^zero
	if maxv < zero { // signed
		var one T = 1
		bits := 0
		for x := one; x > 0; x <<= 1 {
			bits++
		}
		minv = one << uint(bits)
		maxv = ^minv
		return []T{0, 1, maxv - 1 + 1 - 1, 2, 3, 7, minv, maxv, minv + 1, maxv - 1, zero - 1, zero - 7}
	}
	return []T{0, 1, 2, 3, 7, 13, maxv, maxv - 1, maxv / 2, maxv/2 + 1}
}
func floatVals[T float]() []T {
	return []T{0, T(math.Copysign(0, -1)), 1, -1, 2.5, -3.75, 1e30, -1e30, T(math.Inf(1)), T(math.Inf(-1)), T(math.NaN()), 1e-30, 0.5, 9}
}

func fmtSlice[T any](xs []T) string {
	ss := make([]string, len(xs))
	for i, x := range xs {
		ss[i] = fmt.Sprintf("%v", x)
	}
	return strings.Join(ss, ",")
}

// zeroSignMatters: +0 and -0 are kept apart except for min/max, where Go has no operator and
// either zero is a correct answer
var zeroSignMatters = true

func closeF(a, b float64, rel float64) bool {
	if math.IsNaN(a) && math.IsNaN(b) {
		return true
	}
	if a == b {
		return !zeroSignMatters || math.Signbit(a) == math.Signbit(b) || a != 0
	}
	if math.IsInf(a, 0) || math.IsInf(b, 0) {
		return false
	}
	d := math.Abs(a - b)
	return d <= rel*math.Max(math.Abs(a), math.Abs(b)) || d < 1e-300
}

func eqVals[T any](lib, want []T, rel float64) bool {
	if len(lib) != len(want) {
		return false
	}
	for i := range lib {
		switch x := any(lib[i]).(type) {
		case float32:
			if !closeF(float64(x), float64(any(want[i]).(float32)), rel) {
				return false
			}
		case float64:
			if !closeF(x, any(want[i]).(float64), rel) {
				return false
			}
		case complex64:
			y := any(want[i]).(complex64)
			if !closeF(float64(real(x)), float64(real(y)), rel) || !closeF(float64(imag(x)), float64(imag(y)), rel) {
				return false
			}
		case complex128:
			y := any(want[i]).(complex128)
			if !closeF(real(x), real(y), rel) || !closeF(imag(x), imag(y), rel) {
				return false
			}
		default:
			if any(lib[i]) != any(want[i]) {
				return false
			}
		}
	}
	return true
}

type binCase[T any] struct {
	name string
	lib  func(a, b interface{}, opts ...tensor.FuncOpt) (tensor.Tensor, error)
	f    func(a, b T) T
	ok   func(a, b T) bool // pairs the oracle is defined on (nil = all)
	rel  float64
}
type cmpCase[T any] struct {
	name string
	lib  func(a, b interface{}, opts ...tensor.FuncOpt) (tensor.Tensor, error)
	f    func(a, b T) bool
}
type unCase[T any] struct {
	name string
	lib  func(a tensor.Tensor, opts ...tensor.FuncOpt) (tensor.Tensor, error)
	f    func(a T) T
	rel  float64
}

func verdict(ok bool) string {
	if ok {
		return "eq=1"
	}
	return "eq=0"
}

// pairs of values (cross product, filtered)
func pairsOf[T any](vals []T, ok func(a, b T) bool) (as, bs []T) {
	for _, a := range vals {
		for _, b := range vals {
			if ok == nil || ok(a, b) {
				as = append(as, a)
				bs = append(bs, b)
			}
		}
	}
	return
}

func runBin[T any](c binCase[T], form string, vals []T) string {
	zeroSignMatters = !(c.name == "min" || c.name == "max")
	defer func() { zeroSignMatters = true }()
	as, bs := pairsOf(vals, c.ok)
	var libv, want []T
	switch form {
	case "tt":
		want = make([]T, len(as))
		for i := range as {
			want[i] = c.f(as[i], bs[i])
		}
		ta := tensor.New(tensor.WithBacking(append([]T{}, as...)))
		tb := tensor.New(tensor.WithBacking(append([]T{}, bs...)))
		r, err := c.lib(ta, tb)
		if err != nil {
			return "err " + verdict(false)
		}
		libv = r.Data().([]T)
	default: // ts / st: one scalar at a time
		for _, s := range vals {
			var xs []T
			for _, x := range vals {
				if c.ok == nil || (form == "ts" && c.ok(x, s)) || (form == "st" && c.ok(s, x)) {
					xs = append(xs, x)
				}
			}
			if len(xs) < 2 {
				continue
			}
			tx := tensor.New(tensor.WithBacking(append([]T{}, xs...)))
			var r tensor.Tensor
			var err error
			if form == "ts" {
				r, err = c.lib(tx, s)
			} else {
				r, err = c.lib(s, tx)
			}
			if err != nil {
				return "err " + verdict(false)
			}
			libv = append(libv, r.Data().([]T)...)
			for _, x := range xs {
				if form == "ts" {
					want = append(want, c.f(x, s))
				} else {
					want = append(want, c.f(s, x))
				}
			}
		}
	}
	return fmt.Sprintf("n=%d lib=%s go=%s %s", len(want), fmtSlice(libv), fmtSlice(want), verdict(eqVals(libv, want, c.rel)))
}

func runCmp[T any](c cmpCase[T], form string, same bool, vals []T, one, zero T) string {
	as, bs := pairsOf(vals, nil)
	var opts []tensor.FuncOpt
	if same {
		opts = append(opts, tensor.AsSameType())
	}
	collect := func(r tensor.Tensor) ([]bool, bool) {
		if same {
			d, ok := r.Data().([]T)
			if !ok {
				return nil, false
			}
			out := make([]bool, len(d))
			for i, x := range d {
				switch {
				case any(x) == any(one):
					out[i] = true
				case any(x) == any(zero):
					out[i] = false
				default:
					return nil, false
				}
			}
			return out, true
		}
		d, ok := r.Data().([]bool)
		return d, ok
	}
	var libv, want []bool
	switch form {
	case "tt":
		ta := tensor.New(tensor.WithBacking(append([]T{}, as...)))
		tb := tensor.New(tensor.WithBacking(append([]T{}, bs...)))
		r, err := c.lib(ta, tb, opts...)
		if err != nil {
			return "err " + verdict(false)
		}
		var ok bool
		if libv, ok = collect(r); !ok {
			return "badtype " + verdict(false)
		}
		for i := range as {
			want = append(want, c.f(as[i], bs[i]))
		}
	default:
		for _, s := range vals {
			tx := tensor.New(tensor.WithBacking(append([]T{}, vals...)))
			var r tensor.Tensor
			var err error
			if form == "ts" {
				r, err = c.lib(tx, s, opts...)
			} else {
				r, err = c.lib(s, tx, opts...)
			}
			if err != nil {
				return "err " + verdict(false)
			}
			l, ok := collect(r)
			if !ok {
				return "badtype " + verdict(false)
			}
			libv = append(libv, l...)
			for _, x := range vals {
				if form == "ts" {
					want = append(want, c.f(x, s))
				} else {
					want = append(want, c.f(s, x))
				}
			}
		}
	}
	return fmt.Sprintf("n=%d lib=%s go=%s %s", len(want), fmtSlice(libv), fmtSlice(want), verdict(eqVals(libv, want, 0)))
}

func runUn[T any](c unCase[T], vals []T) string {
	tx := tensor.New(tensor.WithBacking(append([]T{}, vals...)))
	r, err := c.lib(tx)
	if err != nil {
		return "err " + verdict(false)
	}
	libv := r.Data().([]T)
	want := make([]T, len(vals))
	for i, x := range vals {
		want[i] = c.f(x)
	}
	// the operand must be unchanged (safe mode)
	same := eqVals(tx.Data().([]T), vals, 0)
	return fmt.Sprintf("n=%d lib=%s go=%s %s", len(want), fmtSlice(libv), fmtSlice(want), verdict(eqVals(libv, want, c.rel) && same))
}

// ---- per class tables ----
func intOps[T integer](op, form string) (string, bool) {
	vals := intVals[T]()
	nz := func(a, b T) bool { return b != 0 }
	bins := []binCase[T]{
		{"add", tensor.Add, gAdd[T], nil, 0}, {"sub", tensor.Sub, gSub[T], nil, 0}, {"mul", tensor.Mul, gMul[T], nil, 0},
		{"div", tensor.Div, gDiv[T], func(a, b T) bool { return nz(a, b) && !(b+1 == 0 && a == a-a-a && a != 0 && -a == a) }, 0},
		{"mod", tensor.Mod, gModI[T], func(a, b T) bool { return nz(a, b) && !(b+1 == 0 && -a == a && a != 0) }, 0},
		{"min", tensor.MinBetween, gMin[T], nil, 0}, {"max", tensor.MaxBetween, gMax[T], nil, 0},
	}
	for _, c := range bins {
		if c.name == op {
			return runBin(c, form, vals), true
		}
	}
	cmps := []cmpCase[T]{{"lt", tensor.Lt, gLt[T]}, {"lte", tensor.Lte, gLte[T]}, {"gt", tensor.Gt, gGt[T]}, {"gte", tensor.Gte, gGte[T]}, {"eq", tensor.ElEq, gEq[T]}, {"ne", tensor.ElNe, gNe[T]}}
	for _, c := range cmps {
		if c.name == op {
			return runCmp(c, form, false, vals, 1, 0), true
		}
		if c.name+"same" == op {
			return runCmp(c, form, true, vals, 1, 0), true
		}
	}
	uns := []unCase[T]{{"neg", tensor.Neg, gNeg[T], 0}, {"square", tensor.Square, gSquare[T], 0}, {"cube", tensor.Cube, gCube[T], 0},
		{"abs", tensor.Abs, gAbsR[T], 0}, {"sign", tensor.Sign, gSign[T], 0}}
	var zero T
	unsigned := ^zero > zero
	for _, c := range uns {
		if c.name == op {
			if unsigned && (op == "abs" || op == "sign") {
				// outside the operation's domain: must be refused
				tx := tensor.New(tensor.WithBacking(append([]T{}, vals...)))
				if _, err := c.lib(tx); err != nil {
					return "refused eq=1", true
				}
				return "accepted eq=0", true
			}
			return runUn(c, vals), true
		}
	}
	return "", false
}

// the maths routine the library documents for the element type: package math for float64,
// github.com/chewxy/math32 for float32
func lift1[T float](f64 func(float64) float64, f32 func(float32) float32) func(T) T {
	return func(a T) T {
		if x, ok := any(a).(float32); ok {
			return any(f32(x)).(T)
		}
		return T(f64(float64(a)))
	}
}
func lift2[T float](f64 func(a, b float64) float64, f32 func(a, b float32) float32) func(a, b T) T {
	return func(a, b T) T {
		if x, ok := any(a).(float32); ok {
			return any(f32(x, any(b).(float32))).(T)
		}
		return T(f64(float64(a), float64(b)))
	}
}

func floatOps[T float](op, form string, rel float64) (string, bool) {
	vals := floatVals[T]()
	bins := []binCase[T]{
		{"add", tensor.Add, gAdd[T], nil, 0}, {"sub", tensor.Sub, gSub[T], nil, 0}, {"mul", tensor.Mul, gMul[T], nil, 0},
		{"div", tensor.Div, gDiv[T], nil, 0},
		{"mod", tensor.Mod, lift2[T](math.Mod, math32.Mod), nil, rel},
		{"pow", tensor.Pow, lift2[T](math.Pow, math32.Pow), nil, rel},
		{"min", tensor.MinBetween, gMin[T], func(a, b T) bool { return a == a && b == b }, 0},
		{"max", tensor.MaxBetween, gMax[T], func(a, b T) bool { return a == a && b == b }, 0},
	}
	for _, c := range bins {
		if c.name == op {
			return runBin(c, form, vals), true
		}
	}
	cmps := []cmpCase[T]{{"lt", tensor.Lt, gLt[T]}, {"lte", tensor.Lte, gLte[T]}, {"gt", tensor.Gt, gGt[T]}, {"gte", tensor.Gte, gGte[T]}, {"eq", tensor.ElEq, gEq[T]}, {"ne", tensor.ElNe, gNe[T]}}
	for _, c := range cmps {
		if c.name == op {
			return runCmp(c, form, false, vals, 1, 0), true
		}
		if c.name+"same" == op {
			return runCmp(c, form, true, vals, 1, 0), true
		}
	}
	uns := []unCase[T]{{"neg", tensor.Neg, gNeg[T], 0}, {"square", tensor.Square, gSquare[T], 0}, {"cube", tensor.Cube, gCube[T], 0},
		{"abs", tensor.Abs, lift1[T](math.Abs, math32.Abs), 0}, {"sign", tensor.Sign, gSign[T], 0},
		{"inv", tensor.Inv, func(a T) T { return 1 / a }, 0},
		{"sqrt", tensor.Sqrt, lift1[T](math.Sqrt, math32.Sqrt), rel}, {"cbrt", tensor.Cbrt, lift1[T](math.Cbrt, math32.Cbrt), rel},
		{"invsqrt", tensor.InvSqrt, lift1[T](func(a float64) float64 { return 1 / math.Sqrt(a) }, func(a float32) float32 { return 1 / math32.Sqrt(a) }), rel},
		{"exp", tensor.Exp, lift1[T](math.Exp, math32.Exp), rel}, {"log", tensor.Log, lift1[T](math.Log, math32.Log), rel},
		{"log2", tensor.Log2, lift1[T](math.Log2, math32.Log2), rel}, {"log10", tensor.Log10, lift1[T](math.Log10, math32.Log10), rel},
		{"tanh", tensor.Tanh, lift1[T](math.Tanh, math32.Tanh), rel}}
	for _, c := range uns {
		if c.name == op {
			return runUn(c, vals), true
		}
	}
	return "", false
}

func cplxOps128(op, form string) (string, bool) {
	vals := []complex128{0, 1, complex(0, 1), complex(1, -2), complex(-3.5, 0.25), complex(2, 2), complex(math.Inf(1), 0), complex(1e20, -1e20)}
	bins := []binCase[complex128]{
		{"add", tensor.Add, gAdd[complex128], nil, 0}, {"sub", tensor.Sub, gSub[complex128], nil, 0}, {"mul", tensor.Mul, gMul[complex128], nil, 0},
		{"div", tensor.Div, gDiv[complex128], nil, 1e-14},
		{"pow", tensor.Pow, func(a, b complex128) complex128 { return cmplx.Pow(a, b) }, func(a, b complex128) bool { return !cmplx.IsInf(a) && !cmplx.IsInf(b) }, 1e-12},
	}
	for _, c := range bins {
		if c.name == op {
			return runBin(c, form, vals), true
		}
	}
	cmps := []cmpCase[complex128]{{"eq", tensor.ElEq, gEq[complex128]}, {"ne", tensor.ElNe, gNe[complex128]}}
	for _, c := range cmps {
		if c.name == op {
			return runCmp(c, form, false, vals, 1, 0), true
		}
		if c.name+"same" == op {
			return runCmp(c, form, true, vals, 1, 0), true
		}
	}
	uns := []unCase[complex128]{{"neg", tensor.Neg, gNeg[complex128], 0}, {"square", tensor.Square, gSquare[complex128], 0}, {"cube", tensor.Cube, gCube[complex128], 0},
		{"inv", tensor.Inv, func(a complex128) complex128 { return 1 / a }, 0},
		{"exp", tensor.Exp, cmplx.Exp, 1e-12}, {"tanh", tensor.Tanh, cmplx.Tanh, 1e-12}, {"log", tensor.Log, cmplx.Log, 1e-12},
		{"log10", tensor.Log10, cmplx.Log10, 1e-12}, {"sqrt", tensor.Sqrt, cmplx.Sqrt, 1e-12}}
	for _, c := range uns {
		if c.name == op {
			return runUn(c, vals), true
		}
	}
	return "", false
}

func cplxOps64(op, form string) (string, bool) {
	vals := []complex64{0, 1, complex(0, 1), complex(1, -2), complex(-3.5, 0.25), complex(2, 2), complex(1e10, -1e10)}
	bins := []binCase[complex64]{
		{"add", tensor.Add, gAdd[complex64], nil, 0}, {"sub", tensor.Sub, gSub[complex64], nil, 0}, {"mul", tensor.Mul, gMul[complex64], nil, 0},
		{"div", tensor.Div, gDiv[complex64], nil, 1e-5},
		{"pow", tensor.Pow, func(a, b complex64) complex64 { return complex64(cmplx.Pow(complex128(a), complex128(b))) }, nil, 1e-5},
	}
	for _, c := range bins {
		if c.name == op {
			return runBin(c, form, vals), true
		}
	}
	cmps := []cmpCase[complex64]{{"eq", tensor.ElEq, gEq[complex64]}, {"ne", tensor.ElNe, gNe[complex64]}}
	for _, c := range cmps {
		if c.name == op {
			return runCmp(c, form, false, vals, 1, 0), true
		}
		if c.name+"same" == op {
			return runCmp(c, form, true, vals, 1, 0), true
		}
	}
	c64 := func(f func(complex128) complex128) func(complex64) complex64 {
		return func(a complex64) complex64 { return complex64(f(complex128(a))) }
	}
	uns := []unCase[complex64]{{"neg", tensor.Neg, gNeg[complex64], 0}, {"square", tensor.Square, gSquare[complex64], 0}, {"cube", tensor.Cube, gCube[complex64], 0},
		{"inv", tensor.Inv, func(a complex64) complex64 { return 1 / a }, 0},
		{"exp", tensor.Exp, c64(cmplx.Exp), 1e-5}, {"tanh", tensor.Tanh, c64(cmplx.Tanh), 1e-5}, {"log", tensor.Log, c64(cmplx.Log), 1e-5},
		{"log10", tensor.Log10, c64(cmplx.Log10), 1e-5}, {"sqrt", tensor.Sqrt, c64(cmplx.Sqrt), 1e-5}}
	for _, c := range uns {
		if c.name == op {
			return runUn(c, vals), true
		}
	}
	return "", false
}

var valopAll = []string{"add", "sub", "mul", "div", "mod", "pow", "min", "max",
	"lt", "lte", "gt", "gte", "eq", "ne", "ltsame", "ltesame", "gtsame", "gtesame", "eqsame", "nesame",
	"neg", "square", "cube", "abs", "sign", "inv", "sqrt", "cbrt", "invsqrt", "exp", "log", "log2", "log10", "tanh"}

func valop(op, dt, form string) (res string, supported bool) {
	switch dt {
	case "i":
		return intOps[int](op, form)
	case "i8":
		return intOps[int8](op, form)
	case "i16":
		return intOps[int16](op, form)
	case "i32":
		return intOps[int32](op, form)
	case "i64":
		return intOps[int64](op, form)
	case "u":
		return intOps[uint](op, form)
	case "u8":
		return intOps[uint8](op, form)
	case "u16":
		return intOps[uint16](op, form)
	case "u32":
		return intOps[uint32](op, form)
	case "u64":
		return intOps[uint64](op, form)
	case "f32":
		return floatOps[float32](op, form, 2e-6)
	case "f64":
		return floatOps[float64](op, form, 1e-14)
	case "c64":
		return cplxOps64(op, form)
	case "c128":
		return cplxOps128(op, form)
	}
	return "", false
}

func init() {
	// valop <op> <dtype> <tt|ts|st|u>
	execs["valop"] = func(a []string) string {
		r, ok := valop(a[0], a[1], a[2])
		if !ok {
			return "unsupported"
		}
		return r
	}
	gens["C17"] = func(tier string, r *rng, emit func(string)) {
		genXKinds("C17", emit)
		genXKinds("C17fn", emit)
		// the typed setters and copies (array_getset.go, memsetIter/zeroIter/copy per element type):
		// C04's whole-view writes for every element type
		nset := 0
		gens["C04"](tier, r, func(c string) {
			if nset < 2500 && strings.HasPrefix(c, "prog ") && (strings.Contains(c, "memset:") || strings.Contains(c, "zero:") || strings.Contains(c, ";copy:") || strings.Contains(c, "setat:")) {
				nset++
				emit(c)
			}
		})
		maskPredSweep(emit)
		for _, dt := range []string{"i", "i8", "i16", "i32", "i64", "u", "u8", "u16", "u32", "u64", "f32", "f64", "c64", "c128"} {
			for _, op := range valopAll {
				forms := []string{"tt", "ts", "st"}
				isUn := false
				for _, u := range []string{"neg", "square", "cube", "abs", "sign", "inv", "sqrt", "cbrt", "invsqrt", "exp", "log", "log2", "log10", "tanh"} {
					if u == op {
						isUn = true
					}
				}
				if isUn {
					forms = []string{"u"}
				}
				for _, f := range forms {
					if _, ok := valop(op, dt, f); ok {
						emit(fmt.Sprintf("valop %s %s %s", op, dt, f))
					}
				}
			}
		}
	}
}
