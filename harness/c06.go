package main

import (
	"fmt"
	"strings"

	"gorgonia.org/tensor"
)

func init() {
	gens["C06"] = func(tier string, r *rng, emit func(string)) { genEW("C06", tier, r, emit) }
	gens["C07"] = func(tier string, r *rng, emit func(string)) { genEW("C07", tier, r, emit) }
	gens["C11"] = func(tier string, r *rng, emit func(string)) { genEW("C11", tier, r, emit) }
	gens["C12"] = func(tier string, r *rng, emit func(string)) { genEW("C12", tier, r, emit) }
}

var ewLayouts = []string{"rm", "rm", "T", "slice", "stepslice", "mat", "cm", "cmb", "cmslice"}
var arithOps = []string{"add", "sub", "mul", "div", "mod", "pow", "min", "max"}
var cmpOps = []string{"gt", "gte", "lt", "lte", "eq", "ne"}
var unOps = []string{"neg", "square", "cube", "abs", "sign"}

// builder of a program with several source tensors
type pb struct {
	ops   []string
	ntens int
}

func (p *pb) add(pre string, idx int) int {
	// re-index tensor references of a source prefix built for an empty program
	off := p.ntens
	for _, op := range strings.Split(pre, ";") {
		f := strings.Split(op, ":")
		switch f[0] {
		case "new":
			p.ntens++
		case "slice", "mat", "clone":
			f[1] = fmt.Sprint(atoi(f[1]) + off)
			p.ntens++
		case "T":
			f[1] = fmt.Sprint(atoi(f[1]) + off)
		}
		p.ops = append(p.ops, strings.Join(f, ":"))
	}
	return idx + off
}

func (p *pb) prog() string { return strings.Join(p.ops, ";") }

// sysEW: a systematic sweep (every operation x element type x operand layout x form) on one
// small shape, so that a defect confined to one generated kernel or one dispatch path is met on
// every run and not only when the random generator happens to draw it.
func sysEW(prop string, r *rng, emit func(string)) {
	sh := []int{2, 3}
	// a rank-0 tensor as one operand (the library treats it as a scalar): every operation, both
	// sides, every mode; the scalar tensor itself is observed after the call like every other tensor
	for _, dt := range []string{"f64", "i", "f32"} {
		var opl []string
		switch prop {
		case "C06", "C07":
			for _, op := range []string{"add", "sub", "mul", "div", "mod", "pow"} {
				if (op == "pow" || op == "div") && dt == "i" {
					continue
				}
				opl = append(opl, "bin:"+op+":%d:%d:%s")
			}
		case "C11":
			for _, op := range cmpOps {
				opl = append(opl, "cmp:"+op+":%d:%d:bool:%s", "cmp:"+op+":%d:%d:same:%s")
			}
		}
		for _, o := range opl {
			for _, side := range [][2]int{{0, 1}, {1, 0}} {
				modes := []string{"safe"}
				if prop != "C06" {
					modes = []string{"safe", "unsafe", "reuse.2", "incr.2"}
				}
				for _, m := range modes {
					if strings.HasPrefix(o, "cmp:") && (strings.HasPrefix(m, "incr") || (strings.Contains(o, ":bool:") && m != "safe")) {
						continue // a Bool result cannot land in a tensor of the operands' type
					}
					for _, tsh := range []string{"4", "2,2"} {
						emit(fmt.Sprintf("prog %s new:rm:%s:4;new:rm:_:2;new:rm:%s:50;%s", dt, tsh, tsh, fmt.Sprintf(o, side[0], side[1], m)))
					}
				}
			}
		}
	}
	lays := []string{"rm", "T", "stepslice", "cm", "cmslice"}
	dts := []string{"i", "i64", "i32", "f64", "f32"}
	for _, dt := range dts {
		for _, la := range lays {
			switch prop {
			case "C06", "C07":
				for _, op := range []string{"add", "sub", "mul", "div", "mod", "min", "max"} {
					if op == "div" && (dt == "f64" || dt == "f32") {
						continue // quotients are not integer valued
					}
					for _, lb := range lays {
						var p pb
						preA, ia := source(r, la, sh, 5)
						a := p.add(preA, ia)
						preB, ib := source(r, lb, sh, 1)
						b := p.add(preB, ib)
						p.ops = append(p.ops, fmt.Sprintf("bin:%s:%d:%d:safe", op, a, b))
						emit(fmt.Sprintf("prog %s %s", dt, p.prog()))
					}
					for _, side := range []string{"left", "right"} {
						var p pb
						preA, ia := source(r, la, sh, 2)
						a := p.add(preA, ia)
						p.ops = append(p.ops, fmt.Sprintf("bins:%s:%d:%d:%s:safe", op, a, 7, side))
						emit(fmt.Sprintf("prog %s %s", dt, p.prog()))
						if prop == "C07" {
							// every option mode of the scalar forms and of the tensor-tensor form, with a
							// row-major destination of the operand's logical shape
							for _, mode := range []string{"unsafe", "reuse", "incr"} {
								var q pb
								preA, ia := source(r, la, sh, 2)
								a := q.add(preA, ia)
								m := mode
								if mode != "unsafe" {
									preR, ir := source(r, "rm", sh, 40)
									m = fmt.Sprintf("%s.%d", mode, q.add(preR, ir))
								}
								q.ops = append(q.ops, fmt.Sprintf("bins:%s:%d:%d:%s:%s", op, a, 7, side, m))
								emit(fmt.Sprintf("prog %s %s", dt, q.prog()))
							}
						}
					}
					if prop == "C07" {
						for _, mode := range []string{"unsafe", "reuse", "incr"} {
							var q pb
							preA, ia := source(r, la, sh, 5)
							a := q.add(preA, ia)
							preB, ib := source(r, lays[(len(op)+len(la))%len(lays)], sh, 1)
							b := q.add(preB, ib)
							m := mode
							if mode != "unsafe" {
								preR, ir := source(r, "rm", sh, 40)
								m = fmt.Sprintf("%s.%d", mode, q.add(preR, ir))
							}
							q.ops = append(q.ops, fmt.Sprintf("bin:%s:%d:%d:%s", op, a, b, m))
							emit(fmt.Sprintf("prog %s %s", dt, q.prog()))
						}
					}
				}
			case "C11":
				if la == "rm" {
					// one-element tensors against an EQUAL scalar (the length-one special cases of the
					// scalar forms call the converse kernel: <= vs <, >= vs > differ only on equality)
					for _, op := range cmpOps {
						for _, same := range []string{"bool", "same"} {
							for _, side := range []string{"left", "right"} {
								for _, one := range []string{"1", "1,1"} {
									emit(fmt.Sprintf("prog %s new:rm:%s:4;cmps:%s:0:4:%s:%s:safe", dt, one, op, side, same))
								}
							}
						}
					}
				}
				for _, op := range cmpOps {
					for _, same := range []string{"bool", "same"} {
						var p pb
						preA, ia := source(r, la, sh, 1)
						a := p.add(preA, ia)
						preB, ib := source(r, lays[(len(op)+len(la))%len(lays)], sh, 3)
						b := p.add(preB, ib)
						p.ops = append(p.ops, fmt.Sprintf("cmp:%s:%d:%d:%s:safe", op, a, b, same))
						emit(fmt.Sprintf("prog %s %s", dt, p.prog()))
						for _, side := range []string{"left", "right"} {
							var q pb
							preA, ia := source(r, la, sh, 1)
							a := q.add(preA, ia)
							q.ops = append(q.ops, fmt.Sprintf("cmps:%s:%d:%d:%s:%s:safe", op, a, 4, side, same))
							emit(fmt.Sprintf("prog %s %s", dt, q.prog()))
						}
					}
				}
			case "C12":
				ops12 := append(append([]string{}, unOps...), "clamp.0.2", "apply.neg", "apply.square", "apply.abs")
				if dt == "f64" || dt == "f32" {
					ops12 = append(ops12, "sqrt") // on perfect squares (the operand is squared in place first)
				}
				for _, op := range ops12 {
					for _, mode := range []string{"safe", "unsafe", "reuse", "incr"} {
						if mode != "safe" && !strings.HasPrefix(op, "clamp") && !strings.HasPrefix(op, "apply") && op != "neg" && op != "sqrt" {
							continue // the option modes of the generated unary operations share one template
						}
						var p pb
						preA, ia := source(r, la, sh, -2)
						a := p.add(preA, ia)
						if op == "sqrt" {
							p.ops = append(p.ops, fmt.Sprintf("un:square:%d:unsafe", a))
						}
						m := mode
						if mode == "reuse" || mode == "incr" {
							preR, ir := source(r, "rm", sh, 40)
							m = fmt.Sprintf("%s.%d", mode, p.add(preR, ir))
						}
						if strings.HasPrefix(op, "apply.") {
							p.ops = append(p.ops, fmt.Sprintf("apply:%s:%d:%s", op[6:], a, m))
						} else {
							p.ops = append(p.ops, fmt.Sprintf("un:%s:%d:%s", op, a, m))
						}
						emit(fmt.Sprintf("prog %s %s", dt, p.prog()))
					}
				}
			}
		}
	}
}

// destEW: reuse and incr DESTINATIONS in every layout (plain, lazily transposed, strided view,
// contiguous view, column-major, column-major view) while the operands are plain or lazily
// transposed - one operation of every form of the property's family; the destination has the
// operands' logical shape, or (rm only) the transposed shape with the same size
func destEW(prop string, r *rng, emit func(string)) {
	sh := []int{2, 3}
	var forms []string // %a %b operands, %m mode
	switch prop {
	case "C06", "C07":
		forms = []string{"bin:add:%a:%b:%m", "bin:sub:%a:%b:%m", "bin:max:%a:%b:%m", "bins:mul:%a:3:left:%m", "bins:sub:%a:3:right:%m", "fma:%a:%b:%d", "fmas:%a:3:%d"}
	case "C11":
		for _, op := range cmpOps {
			forms = append(forms, "cmp:"+op+":%a:%b:same:%m")
		}
		forms = append(forms, "cmps:lt:%a:4:left:same:%m", "cmps:gte:%a:4:right:same:%m")
	case "C12":
		forms = []string{"un:neg:%a:%m", "un:square:%a:%m", "un:abs:%a:%m", "un:clamp.0.2:%a:%m", "un:sign:%a:%m"}
	}
	for _, dt := range []string{"f64", "i"} {
		for _, la := range []string{"rm", "Trev"} {
			for _, ld := range []string{"rm", "Trev", "stepslice", "slice", "cm", "cmslice", "rmT"} {
				for _, form := range forms {
					for _, mode := range []string{"reuse", "incr"} {
						if strings.HasPrefix(form, "fma") && (mode == "incr" || dt != "f64" || ld == "rmT") {
							continue // (FMA's y is an operand too: another shape is a mismatch, not a destination to reshape)
						}
						if strings.HasPrefix(form, "cmp") && mode == "incr" {
							continue
						}
						var p pb
						preA, ia := source(r, la, sh, 1)
						a := p.add(preA, ia)
						// (the second operand holds the same numbers in another arrangement, so that
						// comparisons come out mixed and every cell of the result is distinguishable)
						preB, ib := source(r, "mat", sh, 1)
						b := p.add(preB, ib)
						var d int
						if ld == "rmT" {
							preD, id := source(r, "rm", []int{3, 2}, 40)
							d = p.add(preD, id)
						} else {
							preD, id := source(r, ld, sh, 40)
							d = p.add(preD, id)
						}
						o := strings.NewReplacer("%a", fmt.Sprint(a), "%b", fmt.Sprint(b), "%d", fmt.Sprint(d), "%m", fmt.Sprintf("%s.%d", mode, d)).Replace(form)
						p.ops = append(p.ops, o)
						emit(fmt.Sprintf("prog %s %s", dt, p.prog()))
					}
				}
			}
		}
	}
}

// sizeEW: lengths around the block sizes of unrolled / vectorised loops (remainders of 2, 4, 8, 16,
// 32, 64) and shapes of rank 5 and 6, for one operation of each family per mode.
func sizeEW(prop string, emit func(string)) {
	var ops []string
	switch prop {
	case "C06":
		ops = []string{"bin:add:0:1:safe", "bin:mul:0:1:safe", "bin:sub:0:1:safe", "bins:mul:0:3:left:safe", "bins:sub:0:3:right:safe", "bin:max:0:1:safe"}
	case "C07":
		ops = []string{"bin:add:0:1:unsafe", "bin:sub:0:1:reuse.2", "bin:mul:0:1:incr.2", "bins:add:0:3:left:unsafe", "bins:mul:0:3:right:incr.2", "un:neg:0:reuse.2"}
	case "C11":
		ops = []string{"cmp:lt:0:1:bool:safe", "cmp:gte:0:1:same:safe", "cmps:eq:0:9:left:bool:safe", "cmp:ne:0:1:same:reuse.2"}
	case "C12":
		ops = []string{"un:neg:0:safe", "un:square:0:safe", "un:abs:0:unsafe", "un:cube:0:incr.2", "un:sign:0:reuse.2"}
	}
	for _, dt := range []string{"f64", "f32", "i"} {
		for _, n := range []int{1, 2, 3, 4, 5, 7, 8, 9, 15, 16, 17, 31, 32, 33, 63, 64, 65} {
			for _, o := range ops {
				if dt == "i" && n > 17 {
					continue
				}
				emit(fmt.Sprintf("prog %s new:rm:%d:-3;new:rm:%d:2;new:rm:%d:40;%s", dt, n, n, n, o))
			}
		}
		for _, sh := range []string{"2,1,2,1,2", "1,2,2,2,2", "2,2,1,2,1,2", "3,1,1,1,2"} {
			for _, o := range ops {
				emit(fmt.Sprintf("prog %s new:rm:%s:-3;new:rm:%s:2;new:rm:%s:40;%s", dt, sh, sh, sh, o))
				if dt == "f64" {
					emit(fmt.Sprintf("prog %s new:cm:%s:-3;new:rm:%s:2;T:1:_;T:1:_;new:rm:%s:40;%s", dt, sh, sh, sh, o))
				}
			}
		}
	}
}

// mixdt <op> <dtA> <dtB> <form> : operands of DIFFERENT element types must be refused.
//   form: vv (two tensors of equal shape) | vs / sv (a Go scalar of the other type, right / left) |
//         vt / tv (a rank-0 tensor of the other type, right / left) | reuse (a destination of the other type)
// Observation: err | ok | panic
func init() {
	execs["mixdt"] = func(a []string) (st string) {
		defer func() {
			if e := recover(); e != nil {
				st = "panic"
			}
		}()
		f := binFuncs[a[0]]
		A := tensor.New(tensor.WithShape(2, 2), tensor.WithBacking(backing(a[1], []int{1, 2, 3, 4})))
		var err error
		switch a[3] {
		case "vv":
			B := tensor.New(tensor.WithShape(2, 2), tensor.WithBacking(backing(a[2], []int{1, 2, 3, 4})))
			_, err = f(A, B)
		case "vs":
			_, err = f(A, tokVal(a[2], 2))
		case "sv":
			_, err = f(tokVal(a[2], 2), A)
		case "vt":
			_, err = f(A, tensor.New(tensor.FromScalar(tokVal(a[2], 2))))
		case "tv":
			_, err = f(tensor.New(tensor.FromScalar(tokVal(a[2], 2))), A)
		case "reuse":
			B := tensor.New(tensor.WithShape(2, 2), tensor.WithBacking(backing(a[1], []int{1, 2, 3, 4})))
			R := tensor.New(tensor.WithShape(2, 2), tensor.WithBacking(backing(a[2], []int{0, 0, 0, 0})))
			_, err = f(A, B, tensor.WithReuse(R))
		default:
			panic("form")
		}
		if err != nil {
			return "err"
		}
		return "ok"
	}
}

func genMixDt(prop string, emit func(string)) {
	ops := []string{"add", "sub", "mul", "div", "pow", "mod", "min", "max"}
	if prop == "C11" {
		ops = cmpOps
	}
	pairs := [][2]string{{"f64", "i64"}, {"f64", "f32"}, {"i32", "u32"}, {"i", "i64"}, {"f32", "i32"}, {"u8", "i8"}, {"c128", "f64"}, {"i64", "f64"}}
	for _, op := range ops {
		for _, p := range pairs {
			for _, form := range []string{"vv", "vs", "sv", "vt", "tv", "reuse"} {
				emit(fmt.Sprintf("mixdt %s %s %s %s", op, p[0], p[1], form))
			}
		}
	}
}

func genEW(prop, tier string, r *rng, emit func(string)) {
	thorough := tier == "thorough"
	destEW(prop, r, emit)
	// found by the proof of zhistory_refines (RefineProofs2.v), not by the generators: in-place
	// operations on partly overlapping views; a one-element view compared with itself
	if prop == "C07" {
		for _, dt := range []string{"f64", "i"} {
			for _, c := range []string{"new:rm:5:1;slice:0:1.5.1;slice:0:0.4.1;bin:sub:1:2:unsafe", "new:rm:5:1;slice:0:1.5.1;slice:0:0.4.1;bin:add:2:1:unsafe",
				"new:rm:3,4:1;slice:0:0.2.1/_;slice:0:1.3.1/_;bin:mul:1:2:unsafe", "new:rm:6:1;slice:0:0.4.1;slice:0:2.6.1;cmp:lt:1:2:same:unsafe"} {
				emit(fmt.Sprintf("prog %s %s", dt, c))
			}
		}
	}
	if prop == "C12" {
		// Apply on one-element tensors (the kernels have a special case for them), both forms of the
		// function argument, every mode
		for _, dt := range []string{"f64", "f64@alt", "i", "i@alt", "f32@alt", "i64@alt", "i32@alt"} {
			for _, sh := range []string{"1", "1,1", "_", "1,1,1", "2", "3,2"} {
				for _, fn := range []string{"neg", "square"} {
					emit(fmt.Sprintf("prog %s new:rm:%s:3;apply:%s:0:safe", dt, sh, fn))
					emit(fmt.Sprintf("prog %s new:rm:%s:3;apply:%s:0:unsafe", dt, sh, fn))
					emit(fmt.Sprintf("prog %s new:rm:%s:3;new:rm:%s:40;apply:%s:0:reuse.1", dt, sh, sh, fn))
					emit(fmt.Sprintf("prog %s new:rm:%s:3;new:rm:%s:40;apply:%s:0:incr.1", dt, sh, sh, fn))
				}
			}
			emit(fmt.Sprintf("prog %s new:rm:3,3:1;slice:0:1.2.0/2.3.0;apply:square:1:safe;apply:neg:1:unsafe", dt))
		}
	}
	if prop == "C07" || prop == "C12" {
		// destinations of the wrong size (too small, too big) are refused and left as they were
		for _, dsh := range []string{"3,3", "5", "2", "2,2,2"} {
			for _, o := range []string{"un:neg:0:reuse.1", "un:abs:0:incr.1", "apply:square:0:reuse.1", "bins:add:0:3:left:reuse.1"} {
				if prop == "C12" && strings.HasPrefix(o, "bins") {
					continue
				}
				emit(fmt.Sprintf("prog f64 new:rm:2,3:1;new:rm:%s:50;%s", dsh, o))
			}
		}
	}
	if prop == "C11" {
		emit("prog f64 new:rm:2,1:1;slice:0:0.2.2;cmp:gt:1:1:same:safe")
		emit("prog i new:rm:3:1;slice:0:1.2.1;cmp:lte:1:1:same:safe")
	}
	if prop == "C12" {
		// which element types each unary function accepts and what it computes there: the value
		// sweeps of C17 for the unary family (float, complex and integer instances)
		for _, dt := range []string{"i", "i8", "i16", "i32", "i64", "u", "u8", "u16", "u32", "u64", "f32", "f64", "c64", "c128"} {
			for _, u := range []string{"neg", "square", "cube", "abs", "sign", "inv", "sqrt", "cbrt", "invsqrt", "exp", "log", "log2", "log10", "tanh"} {
				if _, ok := valop(u, dt, "u"); ok {
					emit(fmt.Sprintf("valop %s %s u", u, dt))
				}
			}
		}
	}
	if prop == "C06" || prop == "C11" {
		genMixDt(prop, emit)
	}
	sysEW(prop, r, emit)
	sizeEW(prop, emit)
	n := 7000
	if thorough {
		n = 120000
	}
	for i := 0; i < n; i++ {
		sh := randShape(r, 0, 4, 3)
		if prod(sh) > 36 {
			continue
		}
		kind := "bin"
		_ = kind
		switch prop {
		case "C06":
			kind = []string{"bin", "bin", "bins"}[r.intn(3)]
		case "C07":
			kind = []string{"bin", "bins", "cmp", "un", "cmps"}[r.intn(5)]
		case "C11":
			kind = []string{"cmp", "cmps"}[r.intn(2)]
		case "C12":
			kind = "un"
		}
		var p pb
		la := ewLayouts[r.intn(len(ewLayouts))]
		preA, ia := source(r, la, sh, 1)
		a := p.add(preA, ia)
		dt := []string{"i", "f64"}[r.intn(2)]
		var opstr string
		op := ""
		switch kind {
		case "bin", "bins":
			op = arithOps[r.intn(len(arithOps))]
		case "cmp", "cmps":
			op = cmpOps[r.intn(len(cmpOps))]
		default:
			op = unOps[r.intn(len(unOps))]
		}
		minmax := op == "min" || op == "max"
		if minmax {
			// the scalar forms of MinBetween/MaxBetween are not modelled: keep shapes with at least
			// two elements and layouts that cannot collapse to a rank-0 view
			if prod(sh) < 2 {
				sh = []int{2, 2}[:r.rangeInt(1, 2)]
			}
			la = []string{"rm", "T", "mat", "cm", "cmb", "stepslice"}[r.intn(6)]
			p = pb{}
			preA, ia = source(r, la, sh, 1)
			a = p.add(preA, ia)
		}
		bbase := 3
		if op == "div" || op == "mod" {
			dt = "i"
			if r.intn(4) == 0 {
				bbase = 0 // a zero divisor among the elements
			} else {
				bbase = 1
			}
		}
		powop := op == "pow"
		if powop {
			// keep a^b exactly representable: at most 6 elements, no enlarged parents
			if prod(sh) > 6 {
				sh = []int{2, 3}[:r.rangeInt(1, 2)]
			}
			la = []string{"rm", "T", "mat", "cm", "cmb"}[r.intn(5)]
			p = pb{}
			preA, ia = source(r, la, sh, 1)
			a = p.add(preA, ia)
			bbase = 0
			dt = "f64" // Pow accepts float/complex element types only
		}
		// second operand (equal shape; sometimes a mismatching one)
		b := -1
		if kind == "bin" || kind == "cmp" {
			shb := sh
			if r.intn(25) == 0 {
				shb = randShape(r, 1, 3, 3)
			}
			lb := ewLayouts[r.intn(len(ewLayouts))]
			if powop {
				lb = []string{"rm", "T", "mat", "cm", "cmb"}[r.intn(5)]
			}
			if minmax {
				lb = []string{"rm", "T", "mat", "cm", "cmb", "stepslice"}[r.intn(6)]
				if prod(shb) < 2 {
					shb = sh
				}
			}
			preB, ib := source(r, lb, shb, bbase)
			b = p.add(preB, ib)
		}
		// modes
		modes := []string{"safe"}
		if prop == "C07" || r.intn(4) == 0 {
			modes = []string{"safe", "unsafe", "reuse", "incr", "reuse-alias", "reuse-view"}
		}
		mode := modes[r.intn(len(modes))]
		if kind == "cmp" || kind == "cmps" {
			if mode == "incr" {
				mode = "reuse"
			}
		}
		mstr := mode
		switch mode {
		case "reuse", "incr":
			// destination: contiguous tensor of the same size (sometimes another shape of that size,
			// sometimes column-major)
			ord := []string{"rm", "rm", "rm", "cm"}[r.intn(4)]
			dsh := sh
			if r.intn(5) == 0 && len(sh) > 0 {
				dsh = []int{prod(sh)}
			}
			p.ops = append(p.ops, fmt.Sprintf("new:%s:%s:50", ord, fints(dsh)))
			mstr = fmt.Sprintf("%s.%d", mode, p.ntens)
			p.ntens++
		case "reuse-alias":
			mstr = fmt.Sprintf("reuse.%d", a)
			if b >= 0 && r.intn(2) == 0 {
				mstr = fmt.Sprintf("reuse.%d", b)
			}
		case "reuse-view":
			// destination: a sliced view of a bigger sentinel-filled tensor
			if len(sh) == 0 {
				mstr = "safe"
				break
			}
			pre, idx := source(r, []string{"slice", "stepslice"}[r.intn(2)], sh, 50)
			d := p.add(pre, idx)
			mstr = fmt.Sprintf("%s.%d", []string{"reuse", "incr"}[r.intn(2)], d)
			if kind == "cmp" || kind == "cmps" {
				mstr = fmt.Sprintf("reuse.%d", d)
			}
		}
		form := ""
		if r.intn(2) == 0 {
			form = ":method"
		}
		if op == "min" || op == "max" {
			form = ""
		}
		switch kind {
		case "bin":
			opstr = fmt.Sprintf("bin:%s:%d:%d:%s%s", op, a, b, mstr, form)
		case "bins":
			side := []string{"left", "right"}[r.intn(2)]
			sc := r.rangeInt(0, 4)
			if op == "div" || op == "mod" {
				sc = r.rangeInt(0, 3)
			}
			// (the scalar forms of MinBetween / MaxBetween are modelled since eng_minmax_scalar)
			opstr = fmt.Sprintf("bins:%s:%d:%d:%s:%s%s", op, a, sc, side, mstr, form)
		case "cmp":
			same := []string{"bool", "same"}[r.intn(2)]
			if strings.HasPrefix(mstr, "reuse") {
				same = "same" // a reuse tensor of the operand type
			}
			opstr = fmt.Sprintf("cmp:%s:%d:%d:%s:%s%s", op, a, b, same, mstr, form)
		case "cmps":
			same := []string{"bool", "same"}[r.intn(2)]
			if strings.HasPrefix(mstr, "reuse") {
				same = "same"
			}
			opstr = fmt.Sprintf("cmps:%s:%d:%d:%s:%s:%s%s", op, a, r.rangeInt(0, 6), []string{"left", "right"}[r.intn(2)], same, mstr, form)
		default:
			opstr = fmt.Sprintf("un:%s:%d:%s", op, a, mstr)
		}
		p.ops = append(p.ops, opstr)
		emit(fmt.Sprintf("prog %s %s", dt, p.prog()))
	}
}
