package main

import (
	"fmt"
	"strings"
)

func init() { gens["C03"] = genC03 }

// one random transposition-family operation on tensor `cur` of rank n; returns op text and
// whether a new tensor is created
func randTOp(r *rng, cur, n int) (string, bool) {
	perm := func() string {
		switch r.intn(8) {
		case 0:
			return "_" // default reversal
		case 1: // not a permutation
			if n == 0 {
				return "_"
			}
			p := r.perm(n)
			p[r.intn(n)] = r.rangeInt(-1, n)
			return fints(p)
		case 2: // wrong arity
			return fints(r.perm(n + 1))
		default:
			return fints(r.perm(n))
		}
	}
	switch r.intn(12) {
	case 0, 1, 2, 3:
		return fmt.Sprintf("T:%d:%s", cur, perm()), false
	case 4:
		return fmt.Sprintf("UT:%d", cur), false
	case 5, 6:
		return fmt.Sprintf("transpose:%d", cur), false
	case 7:
		return fmt.Sprintf("mat:%d", cur), true
	case 8:
		return fmt.Sprintf("safeT:%d:%s", cur, perm()), true
	case 9:
		return fmt.Sprintf("safeT:%d:%s:api", cur, perm()), true
	case 10:
		return fmt.Sprintf("rollaxis:%d:%d:%d:%d", cur, r.rangeInt(-1, n), r.rangeInt(-1, n+1), r.intn(2)), true
	default:
		return fmt.Sprintf("apitranspose:%d:%s", cur, perm()), true
	}
}

func genC03(tier string, r *rng, emit func(string)) {
	intPoolMotifs(emit)
	// strided vector-LIKE views of rank 3 and 4 (one long axis, the others of length one, strides
	// from a bigger parent): lazy and physical transposition, the copying spellings
	for _, v := range []string{"new:rm:1,1,4,3:0;slice:0:_/_/_/1.2.0", "new:rm:1,1,8:0;slice:0:_/_/0.8.2", "new:rm:1,4,1,3:0;slice:0:_/_/_/2.3.0",
		"new:rm:4,1,1,2:0;slice:0:_/_/_/1.2.0", "new:rm:1,6,1:0;slice:0:_/0.6.2/_", "new:rm:2,1,4:0;slice:0:1.2.1/_/0.4.2"} {
		for _, perm := range []string{"2,0,1", "1,2,0", "2,1,0", "0,2,1", "1,0,2"} {
			emit(fmt.Sprintf("prog f64 %s;T:1:%s;transpose:1", v, perm))
			emit(fmt.Sprintf("prog i %s;apitranspose:1:%s", v, perm))
			emit(fmt.Sprintf("prog f32 %s;safeT:1:%s;transpose:2", v, perm))
			emit(fmt.Sprintf("prog f64 %s;T:1:%s;mat:1", v, perm))
		}
	}
	// found by the proof of history_refines (RefineProofs.v): RollAxis of a strided vector-shaped
	// view goes through AP.T, which overwrites the strides with ones (F45)
	for _, p := range []string{"new:rm:6,1:1;slice:0:0.6.2;rollaxis:1:1:0:0", "new:rm:6,1:1;slice:0:0.6.2;rollaxis:1:1:0:1",
		"new:rm:1,6:1;slice:0:_/0.6.2;rollaxis:1:1:0:1", "new:rm:6,2:1;slice:0:0.6.2/0.1.1;rollaxis:1:0:2:0"} {
		emit("prog f64 " + p)
	}
	thorough := tier == "thorough"
	dts := []string{"f64", "u8", "i16", "f32", "c128", "str", "c64", "b", "i"} // widths 8,1,2,4,16,string,8,1
	maxRank := 4
	if thorough {
		maxRank = 5
	}
	k := 0
	// (1) every shape (dims <= 3; rank 4+ dims <= 2) x every permutation x single-op programs
	for _, sh := range allShapes(maxRank, 3) {
		if len(sh) >= 4 {
			big := false
			for _, d := range sh {
				if d > 2 {
					big = true
				}
			}
			if big {
				continue
			}
		}
		n := len(sh)
		perms := append([][]int{nil}, permsOf(n)...)
		for _, p := range perms {
			ps := "_"
			if p != nil {
				ps = fints(p)
			}
			for _, order := range []string{"rm", "cm", "cmb"} {
				if order != "rm" && !thorough && r.intn(3) != 0 {
					continue
				}
				dt := dts[k%len(dts)]
				k++
				base := fmt.Sprintf("new:%s:%s:0", order, fints(sh))
				emit(fmt.Sprintf("prog %s %s;T:0:%s;UT:0", dt, base, ps))
				emit(fmt.Sprintf("prog %s %s;T:0:%s;transpose:0", dt, base, ps))
				emit(fmt.Sprintf("prog %s %s;T:0:%s;mat:0", dt, base, ps))
				emit(fmt.Sprintf("prog %s %s;safeT:0:%s;transpose:1", dt, base, ps))
				emit(fmt.Sprintf("prog %s %s;apitranspose:0:%s", dt, base, ps))
			}
			// second transpose: composition
			if n >= 2 && n <= 3 {
				for _, q := range permsOf(n) {
					emit(fmt.Sprintf("prog f64 new:rm:%s:0;T:0:%s;T:0:%s", fints(sh), ps, fints(q)))
					if r.intn(3) == 0 {
						emit(fmt.Sprintf("prog f64 new:rm:%s:0;T:0:%s;transpose:0;T:0:%s;transpose:0", fints(sh), ps, fints(q)))
					}
				}
			}
		}
		// rollaxis: every axis/start
		for ax := 0; ax < n; ax++ {
			for st := 0; st <= n; st++ {
				emit(fmt.Sprintf("prog f64 new:rm:%s:0;rollaxis:0:%d:%d:%d", fints(sh), ax, st, (ax+st)%2))
			}
		}
	}
	// (2) random sequences up to length 4 on contiguous, sliced, column-major sources
	n := 9000
	if thorough {
		n = 120000
	}
	for i := 0; i < n; i++ {
		sh := randShape(r, 0, maxRank, 3)
		if prod(sh) > 100 {
			continue
		}
		layout := []string{"rm", "rm", "cm", "cmb", "slice", "stepslice"}[r.intn(6)]
		pre, cur := source(r, layout, sh, 0)
		prog := pre
		ntens := cur + 1
		steps := r.rangeInt(1, 4)
		for s := 0; s < steps; s++ {
			op, isNew := randTOp(r, cur, len(sh))
			prog += ";" + op
			if isNew {
				// follow the new tensor half of the time
				nsh, ok := shapeAfter("f64", prog, ntens)
				if ok {
					if r.intn(2) == 0 {
						cur = ntens
					}
					ntens++
					_ = nsh
				}
			}
		}
		dt := dts[i%len(dts)]
		emit(fmt.Sprintf("prog %s %s", safeDt(dt, prog), prog))
	}
	_ = strings.Join
}
