package main

// C14 — serialisation round trips.  kind:  ser <dt> <fmt> <t> <mask|-> <prog>
// runs the program, attaches the mask (bit string over the storage window) to tensor <t>,
// encodes it with the format, decodes the bytes into a fresh *Dense and reports
//   E=<ok|err|panic> D=<ok|err|panic|-> dt=<dtype|-> D[shape|L:logical|K:logical mask] S[shape|L|K]
// (S = the source after the round trip: operands must be unchanged).

import (
	"bytes"
	"fmt"
	"math"
	"reflect"
	"strings"
	"unsafe"

	"gorgonia.org/tensor"
)

func maskObs(t *tensor.Dense) (s string) {
	defer func() {
		if e := recover(); e != nil {
			s = "P"
		}
	}()
	if !t.IsMasked() {
		return "-"
	}
	var sb strings.Builder
	for _, c := range boxCoords([]int(t.Shape())) {
		m, err := t.MaskAt(c...)
		switch {
		case err != nil:
			sb.WriteString("E")
		case m:
			sb.WriteString("1")
		default:
			sb.WriteString("0")
		}
	}
	if sb.Len() == 0 {
		return "_"
	}
	return sb.String()
}

func serObs(tag string, t *tensor.Dense) (s string) {
	defer func() {
		if e := recover(); e != nil {
			s = tag + "[P]"
		}
	}()
	sh := []int(t.Shape())
	var ls []string
	for _, c := range boxCoords(sh) {
		ls = append(ls, safeAt(t, c))
	}
	l := "_"
	if len(ls) > 0 {
		l = strings.Join(ls, ",")
	}
	return fmt.Sprintf("%s[%s|L:%s|K:%s]", tag, fints(sh), l, maskObs(t))
}

func dtName(d tensor.Dtype) string {
	for _, n := range dtypeNames {
		if dtypeOf(n) == d {
			return n
		}
	}
	return "?" + d.String()
}

func encode(format string, t *tensor.Dense) (b []byte, st string) {
	defer func() {
		if e := recover(); e != nil {
			st = "panic"
		}
	}()
	var err error
	switch format {
	case "gob":
		b, err = t.GobEncode()
	case "npy":
		var buf bytes.Buffer
		err = t.WriteNpy(&buf)
		b = buf.Bytes()
	case "csv":
		var buf bytes.Buffer
		err = t.WriteCSV(&buf)
		b = buf.Bytes()
	case "pb":
		b, err = t.PBEncode()
	case "fb":
		b, err = t.FBEncode()
	default:
		panic("format")
	}
	if err != nil {
		return nil, "err"
	}
	return b, "ok"
}

func decode(format string, dt tensor.Dtype, b []byte) (t *tensor.Dense, st string) {
	return decodeInto(format, dt, b, new(tensor.Dense))
}

// decodeInto decodes into an existing *Dense (which may hold an earlier decode's state).
func decodeInto(format string, dt tensor.Dtype, b []byte, into *tensor.Dense) (t *tensor.Dense, st string) {
	defer func() {
		if e := recover(); e != nil {
			st = "panic"
		}
	}()
	t = into
	var err error
	switch format {
	case "gob":
		err = t.GobDecode(b)
	case "npy":
		err = t.ReadNpy(bytes.NewReader(b))
	case "csv":
		err = t.ReadCSV(bytes.NewReader(b), tensor.As(dt))
	case "pb":
		err = t.PBDecode(b)
	case "fb":
		err = t.FBDecode(b)
	}
	if err != nil {
		return nil, "err"
	}
	return t, "ok"
}

func bits(s string) []bool {
	out := make([]bool, len(s))
	for i := range s {
		out[i] = s[i] == '1'
	}
	return out
}

func init() {
	execs["ser"] = func(a []string) string {
		dt, format, ti, mask, prog := a[0], a[1], atoi(a[2]), a[3], a[4]
		w := &world{dt: dt}
		for _, op := range strings.Split(prog, ";") {
			if st := w.step(op); st == "panic" {
				return "progpanic"
			}
		}
		src := w.ts[ti]
		if mask != "-" {
			src.SetMask(bits(mask))
		}
		b, est := encode(format, src)
		if est != "ok" {
			return fmt.Sprintf("E=%s D=- dt=- D[-] %s", est, serObs("S", src))
		}
		d, dst := decode(format, src.Dtype(), b)
		if dst != "ok" {
			return fmt.Sprintf("E=ok D=%s dt=- D[-] %s", dst, serObs("S", src))
		}
		first := fmt.Sprintf("E=ok D=ok dt=%s %s %s F=%s", dtName(d.Dtype()), serObs("D", d), serObs("S", src), flagsConsistent(d))
		// the bytes are the caller's: a later encode must not change them, and decoding into a
		// *Dense that already holds another (masked) tensor must give the same result as decoding
		// into a fresh one
		keep := append([]byte{}, b...)
		other := tensor.New(tensor.WithShape(2, 3), tensor.WithBacking(backing(dt, []int{9, 8, 7, 6, 5, 4})))
		if format != "npy" && format != "csv" { // (these two write masked elements as fill values)
			other.SetMask([]bool{false, true, false, false, false, true})
		}
		if ob, ost := encode(format, other); ost == "ok" {
			if !bytes.Equal(keep, b) {
				return first + " !earlier-bytes-changed-by-a-later-encode"
			}
			used := new(tensor.Dense)
			if _, ust := decodeInto(format, other.Dtype(), ob, used); ust == "ok" {
				if d2, st2 := decodeInto(format, src.Dtype(), b, used); st2 == "ok" {
					second := fmt.Sprintf("E=ok D=ok dt=%s %s %s F=%s", dtName(d2.Dtype()), serObs("D", d2), serObs("S", src), flagsConsistent(d2))
					if second != first {
						return first + " !decode-into-used-tensor-differs:" + serObs("D", d2)
					}
				} else {
					return first + " !decode-into-used-tensor:" + st2
				}
			}
		}
		// ... and into tensors the caller built itself: column-major, lazily transposed
		for k, mk := range []func() *tensor.Dense{
			func() *tensor.Dense {
				return tensor.New(tensor.WithShape(3, 2), tensor.AsFortran(backing(dt, []int{10, 20, 30, 40, 50, 60})))
			},
			func() *tensor.Dense {
				t := tensor.New(tensor.WithShape(3, 2), tensor.WithBacking(backing(dt, []int{10, 20, 30, 40, 50, 60})))
				t.T()
				return t
			},
		} {
			var used *tensor.Dense
			func() {
				defer func() { recover() }()
				used = mk()
			}()
			if used == nil {
				continue
			}
			if d3, st3 := decodeInto(format, src.Dtype(), b, used); st3 == "ok" {
				// (type, shape, elements and mask; the flag token of lazily transposed sources is left to F=)
				third := fmt.Sprintf("dt=%s %s", dtName(d3.Dtype()), serObs("D", d3))
				if third != fmt.Sprintf("dt=%s %s", dtName(d.Dtype()), serObs("D", d)) {
					return first + fmt.Sprintf(" !decode-into-built-tensor-%d-differs:", k) + serObs("D", d3)
				}
			} else {
				return first + fmt.Sprintf(" !decode-into-built-tensor-%d:", k) + st3
			}
		}
		return first
	}
	// serx <ptr|uptr> <fmt> <shape> : the two element types outside the token scheme (unsafe.Pointer,
	// uintptr).  Observation: E= D= dt=<decoded type> same=<1 iff type, shape and elements are equal>
	execs["serx"] = func(a []string) string {
		sh := ints(a[2])
		n := prod(sh)
		var src *tensor.Dense
		switch a[0] {
		case "ptr":
			b := make([]unsafe.Pointer, n)
			for i := range b {
				b[i] = unsafe.Pointer(&ptrPool[i%len(ptrPool)])
			}
			src = tensor.New(tensor.WithShape(sh...), tensor.WithBacking(b))
		case "uptr":
			b := make([]uintptr, n)
			for i := range b {
				b[i] = uintptr(1000 + i)
			}
			src = tensor.New(tensor.WithShape(sh...), tensor.WithBacking(b))
		default:
			panic("serx dtype")
		}
		b, est := encode(a[1], src)
		if est != "ok" {
			return fmt.Sprintf("E=%s D=- dt=- same=-", est)
		}
		d, dst := decode(a[1], src.Dtype(), b)
		if dst != "ok" {
			return fmt.Sprintf("E=ok D=%s dt=- same=-", dst)
		}
		same := 0
		func() {
			defer func() { recover() }()
			if d.Dtype() == src.Dtype() && d.Shape().Eq(src.Shape()) && reflect.DeepEqual(d.Data(), src.Data()) {
				same = 1
			}
		}()
		return fmt.Sprintf("E=ok D=ok dt=%s same=%d", d.Dtype().String(), same)
	}
	gens["C14"] = genC14
}

var ptrPool [64]byte

// flagsConsistent: the decoded tensor's data-order / contiguity flags must describe its strides -
// operations that decide on the flags (a safe elementwise operation, Clone + Materialize) must see
// the same elements as At does.  "same" | "differs"
func flagsConsistent(d *tensor.Dense) (s string) {
	defer func() {
		if e := recover(); e != nil {
			s = "differs"
		}
	}()
	want := serObs("", d)
	if c, ok := d.Clone().(*tensor.Dense); !ok || serObs("", c) != want {
		return "differs"
	}
	switch d.Dtype() {
	case tensor.Float64, tensor.Float32, tensor.Int, tensor.Int64, tensor.Int32, tensor.Int16, tensor.Int8, tensor.Uint8, tensor.Uint16, tensor.Uint32, tensor.Uint64, tensor.Uint:
		if d.IsMasked() || d.IsScalar() {
			return "same"
		}
		r, err := tensor.Mul(d, tokVal(dtName(d.Dtype()), 1))
		if err != nil {
			return "same"
		}
		rd := r.(*tensor.Dense)
		a, b := serObs("", rd), want
		// (compare elements only: the result carries no mask)
		if a[:strings.LastIndex(a, "|K:")] != b[:strings.LastIndex(b, "|K:")] {
			return "differs"
		}
		// a matrix handed to gonum: ToMat64 decides from the flags whether the raw data is in order
		if d.Dims() == 2 {
			if m, err := tensor.ToMat64(d); err == nil {
				r, c := m.Dims()
				for i := 0; i < r; i++ {
					for j := 0; j < c; j++ {
						v, _ := d.At(i, j)
						rv := reflect.ValueOf(v)
						var want float64
						switch {
						case rv.CanFloat():
							want = rv.Float()
						case rv.CanInt():
							want = float64(rv.Int())
						case rv.CanUint():
							want = float64(rv.Uint())
						default:
							continue
						}
						if got := m.At(i, j); got != want && !(got != got && want != want) {
							return "differs"
						}
					}
				}
			}
		}
	}
	return "same"
}

var serFormats = []string{"gob", "npy", "csv", "pb", "fb"}

func genC14(tier string, r *rng, emit func(string)) {
	genXKinds("C14", emit)
	n := 900
	if tier == "thorough" {
		n = 6000
	}
	for _, dt := range dtypeNames {
		for _, f := range serFormats {
			emit(fmt.Sprintf("serv %s %s", dt, f))
		}
	}
	for _, dt := range []string{"ptr", "uptr"} {
		for _, f := range serFormats {
			for _, sh := range []string{"2,3", "4", "_"} {
				emit(fmt.Sprintf("serx %s %s %s", dt, f, sh))
			}
		}
	}
	// every element type x every format x the basic layouts, systematically
	for _, dt := range dtypeNames {
		for _, f := range serFormats {
			for _, la := range []string{"rm", "cm", "T", "slice"} {
				p, idx := source(r, la, []int{2, 3}, 1)
				emit(fmt.Sprintf("ser %s %s %d - %s", safeDt(dt, p), f, idx, p))
			}
		}
	}
	lay := []string{"rm", "rm", "cm", "cmb", "T", "slice", "stepslice", "cloneview", "mat"}
	for i := 0; i < n; i++ {
		format := serFormats[i%len(serFormats)]
		dt := dtypeNames[r.intn(len(dtypeNames))]
		var sh []int
		switch {
		case format == "csv" && r.intn(8) > 0:
			sh = randShape(r, 1, 2, 4)
		case r.intn(12) == 0:
			sh = []int{}
		default:
			sh = randShape(r, 1, 4, 3)
		}
		p, idx := source(r, lay[r.intn(len(lay))], sh, r.intn(5))
		dt = safeDt(dt, p)
		mask := "-"
		if r.intn(3) == 0 {
			// a mask over the storage window of the source
			w := &world{dt: dt}
			ok := true
			for _, op := range strings.Split(p, ";") {
				if st := w.step(op); st == "panic" {
					ok = false
					break
				}
			}
			if ok && idx < len(w.ts) {
				l := w.ts[idx].DataSize()
				if l > 0 && l <= 64 {
					var sb strings.Builder
					for k := 0; k < l; k++ {
						if r.intn(3) == 0 {
							sb.WriteString("1")
						} else {
							sb.WriteString("0")
						}
					}
					mask = sb.String()
				}
			}
		}
		emit(fmt.Sprintf("ser %s %s %d %s %s", dt, format, idx, mask, p))
	}
}

// serv <dt> <fmt> : round trip of extreme and non-finite values of the element type through the
// byte channel (the hypothesis "the channels are the identity on fields" of the C14 theorems).
// Observation: E= D= and, per value, whether the decoded bits equal the encoded ones.
func extremeValues(dt string) interface{} {
	inf, nan := math.Inf(1), math.NaN()
	switch dt {
	case "i":
		return []int{0, 1, -1, math.MaxInt64, math.MinInt64, 999999}
	case "i8":
		return []int8{0, 1, -1, math.MaxInt8, math.MinInt8}
	case "i16":
		return []int16{0, 1, -1, math.MaxInt16, math.MinInt16}
	case "i32":
		return []int32{0, 1, -1, math.MaxInt32, math.MinInt32}
	case "i64":
		return []int64{0, 1, -1, math.MaxInt64, math.MinInt64}
	case "u":
		return []uint{0, 1, math.MaxUint64, 1 << 63}
	case "u8":
		return []uint8{0, 1, math.MaxUint8, 128}
	case "u16":
		return []uint16{0, 1, math.MaxUint16, 1 << 15}
	case "u32":
		return []uint32{0, 1, math.MaxUint32, 1 << 31}
	case "u64":
		return []uint64{0, 1, math.MaxUint64, 1 << 63}
	case "f32":
		return []float32{0, float32(math.Copysign(0, -1)), 1.5, -1.5, math.MaxFloat32, math.SmallestNonzeroFloat32, float32(inf), float32(-inf), float32(nan), 0.1}
	case "f64":
		return []float64{0, math.Copysign(0, -1), 1.5, -1.5, math.MaxFloat64, math.SmallestNonzeroFloat64, inf, -inf, nan, 0.1, 1e20, 1.0 / 3.0}
	case "c64":
		return []complex64{0, complex(1.5, -2.5), complex(float32(inf), float32(nan)), complex(math.MaxFloat32, -math.MaxFloat32)}
	case "c128":
		return []complex128{0, complex(1.5, -2.5), complex(inf, nan), complex(math.MaxFloat64, -math.MaxFloat64), complex(0.1, 1.0/3.0)}
	case "b":
		return []bool{true, false, true}
	case "str":
		return []string{"", "a", "a,b", "\"q\"", "line\nbreak", "ünï", " lead"}
	}
	panic("dt")
}

func bitsEq(a, b interface{}) bool {
	switch x := a.(type) {
	case float32:
		return math.Float32bits(x) == math.Float32bits(b.(float32)) || (x != x && b.(float32) != b.(float32))
	case float64:
		return math.Float64bits(x) == math.Float64bits(b.(float64)) || (x != x && b.(float64) != b.(float64))
	case complex64:
		y := b.(complex64)
		return bitsEq(real(x), real(y)) && bitsEq(imag(x), imag(y))
	case complex128:
		y := b.(complex128)
		return bitsEq(real(x), real(y)) && bitsEq(imag(x), imag(y))
	}
	switch reflect.ValueOf(a).Kind() {
	case reflect.Int, reflect.Int64, reflect.Uint, reflect.Uint64:
		// ReadNpy answers the platform int for 8-byte integers: compare the values
		return fmt.Sprint(a) == fmt.Sprint(b)
	}
	return reflect.DeepEqual(a, b)
}

func init() {
	execs["serv"] = func(a []string) string {
		dt, format := a[0], a[1]
		vals := extremeValues(dt)
		n := reflect.ValueOf(vals).Len()
		var src *tensor.Dense
		if format == "csv" {
			src = tensor.New(tensor.WithShape(1, n), tensor.WithBacking(vals))
		} else {
			src = tensor.New(tensor.WithShape(n), tensor.WithBacking(vals))
		}
		b, est := encode(format, src)
		if est != "ok" {
			return "E=" + est
		}
		d, dst := decode(format, src.Dtype(), b)
		if dst != "ok" {
			return "E=ok D=" + dst
		}
		out := make([]string, n)
		for i := 0; i < n; i++ {
			func() {
				defer func() {
					if e := recover(); e != nil {
						out[i] = "P"
					}
				}()
				var x, y interface{}
				var e1, e2 error
				if format == "csv" {
					x, e1 = src.At(0, i)
					y, e2 = d.At(0, i)
				} else {
					x, e1 = src.At(i)
					y, e2 = d.At(i)
				}
				switch {
				case e1 != nil || e2 != nil:
					out[i] = "E"
				case bitsEq(x, y):
					out[i] = "1"
				default:
					out[i] = "0"
				}
			}()
		}
		return fmt.Sprintf("E=ok D=ok dt=%s n=%d eq=%s", dtName(d.Dtype()), n, strings.Join(out, ""))
	}
}
