// Command harness generates correspondence cases for a property, executes them against the real
// gorgonia.org/tensor in /repo (through the module replace), and prints "case => observation"
// lines. The same case strings are interpreted by the extracted Coq model (ocaml/driver).
package main

import (
	"bufio"
	"fmt"
	"os"
	"sort"
	"strconv"
	"strings"
)

// exec functions: kind -> executor over the case's argument fields.
var execs = map[string]func(args []string) string{}

// generators: property id -> generator.
var gens = map[string]func(tier string, r *rng, emit func(string)){}

func runCase(c string) (out string) {
	f := strings.Fields(c)
	if len(f) == 0 {
		return "badcase"
	}
	ex, ok := execs[f[0]]
	if !ok {
		return "badkind"
	}
	defer func() {
		if e := recover(); e != nil {
			out = "panic"
		}
	}()
	return ex(f[1:])
}

func main() {
	if len(os.Args) < 2 {
		fmt.Fprintln(os.Stderr, "usage: harness gen <prop> <tier> <seed> <out> | replay <file> | kinds")
		os.Exit(2)
	}
	switch os.Args[1] {
	case "gen":
		prop, tier := os.Args[2], os.Args[3]
		seed, _ := strconv.ParseUint(os.Args[4], 10, 64)
		g, ok := gens[prop]
		if !ok {
			fmt.Fprintln(os.Stderr, "no generator for", prop)
			os.Exit(2)
		}
		f, err := os.Create(os.Args[5])
		if err != nil {
			panic(err)
		}
		w := bufio.NewWriterSize(f, 1<<20)
		n := 0
		seen := map[string]bool{}
		// the case being executed is kept in a side file, so that the driver of the check can name
		// the input on which the process died (fatal runtime error, out of memory, killed)
		var cur *os.File
		if p := os.Getenv("VERIF_CUR_CASE"); p != "" {
			cur, _ = os.Create(p)
		}
		one := func(c string) {
			if seen[c] {
				return
			}
			seen[c] = true
			if cur != nil {
				cur.WriteAt([]byte(fmt.Sprintf("%08d %s\n", len(c), c)), 0)
			}
			fmt.Fprintf(w, "%s => %s\n", c, runCase(c))
			n++
		}
		g(tier, newRng(seed), func(c string) {
			one(c)
			// every third operation program is run a second time through the OTHER API spelling of
			// each operation that has one (dtype suffix @alt; the model is the same)
			if strings.HasPrefix(c, "prog ") {
				h := uint32(2166136261)
				for i := 0; i < len(c); i++ {
					h = (h ^ uint32(c[i])) * 16777619
				}
				f := strings.SplitN(c, " ", 3)
				if h%3 == 0 && !strings.Contains(f[1], "@alt") {
					one(f[0] + " " + f[1] + "@alt " + f[2])
				}
			}
		})
		w.Flush()
		f.Close()
		fmt.Fprintf(os.Stderr, "generated %d cases\n", n)
	case "replay":
		f, err := os.Open(os.Args[2])
		if err != nil {
			panic(err)
		}
		sc := bufio.NewScanner(f)
		sc.Buffer(make([]byte, 1<<20), 1<<26)
		for sc.Scan() {
			line := sc.Text()
			if strings.HasPrefix(line, "#") || strings.TrimSpace(line) == "" {
				continue
			}
			c := line
			if i := strings.Index(line, " => "); i >= 0 {
				c = line[:i]
			}
			fmt.Printf("%s => %s\n", c, runCase(c))
		}
	case "kinds":
		var ks []string
		for k := range execs {
			ks = append(ks, k)
		}
		sort.Strings(ks)
		fmt.Println(strings.Join(ks, " "))
	}
}
