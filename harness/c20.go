package main

// C20 — alternative engines and build configurations.
//   proge <eng> <dt> <prog> : the program language of prog, with every tensor created by `new`
//                            carrying the engine <eng> (std | f64e | f32e)
//   fma:<a>:<x>:<y>   tensor.FMA(a, x, y)       (y += a*x, x a tensor)
//   fmas:<a>:<s>:<y>  tensor.FMA(a, scalar, y)
// The same case file is executed by harness binaries built with -tags noasm and
// -tags inplacetranspose (tools/prop_C20.py).

import (
	"fmt"
	"strings"

	"gorgonia.org/tensor"
)

func engineOf(name string) tensor.Engine {
	switch name {
	case "f64e":
		return tensor.Float64Engine{}
	case "f32e":
		return tensor.Float32Engine{}
	}
	return nil
}

func init() {
	execs["proge"] = func(a []string) string {
		w := &world{dt: a[1], eng: engineOf(a[0])}
		var out []string
		for _, op := range strings.Split(a[2], ";") {
			st := w.step(op)
			if st == "panic" {
				out = append(out, "panic")
				break
			}
			out = append(out, st+w.obsAll())
		}
		return strings.Join(out, " # ")
	}
	progOps["fma"] = func(w *world, f []string) string {
		return w.ret(tensor.FMA(w.ts[atoi(f[1])], w.ts[atoi(f[2])], w.ts[atoi(f[3])]))
	}
	progOps["fmas"] = func(w *world, f []string) string {
		return w.ret(tensor.FMA(w.ts[atoi(f[1])], tokVal(w.dt, atoi(f[2])), w.ts[atoi(f[3])]))
	}
	gens["C20"] = genC20
}

func genC20(tier string, r *rng, emit func(string)) {
	// engine variants of a prog case: the specialised engines only take their own element type
	withEngines := func(c string) {
		emit(c)
		f := strings.SplitN(c, " ", 3)
		if f[0] != "prog" {
			return
		}
		switch f[1] {
		case "f64":
			emit("proge f64e f64 " + f[2])
		case "f32":
			emit("proge f32e f32 " + f[2])
		}
	}
	// (1) the operation matrices of C03 / C06 / C07 / C09 (sampled in the quick tier) and the
	//     index arithmetic of C01 / C05, all run again under every build configuration
	sample := func(k int, g func(string, *rng, func(string))) {
		i := 0
		g(tier, r, func(c string) {
			i++
			if tier == "thorough" || i%k == 0 {
				withEngines(c)
			}
		})
	}
	sample(3, genC03)
	sample(1, func(t string, r *rng, e func(string)) { genEW("C06", t, r, e) })
	sample(2, func(t string, r *rng, e func(string)) { genEW("C07", t, r, e) })
	sample(1, gens["C09"])
	sampleC01 := 12
	if tier == "thorough" {
		sampleC01 = 200 // the thorough C01 generator alone emits ~11M cases
	}
	i01 := 0
	gens["C01"](tier, r, func(c string) {
		i01++
		if i01%sampleC01 == 0 {
			withEngines(c)
		}
	})
	gens["C01"](tier, r, func(c string) { // all of the inverse index arithmetic (divmod)
		if strings.HasPrefix(c, "itol ") {
			emit(c)
		}
	})
	sample(3, gens["C05"])
	genXKinds("C20", emit)
	// masks through lazy and physical transposition (C15's cases), under every build
	gens["C15"](tier, r, func(c string) {
		// (shapes without length-one axes: those are C15's own known-finding zone in every build)
		if strings.HasPrefix(c, "mk ") && strings.Contains(c, "transpose") && !strings.Contains(c, ":1,") && !strings.Contains(c, ",1:") && !strings.Contains(c, ",1,") {
			emit(c)
		}
	})
	// (2) float programs for the specialised engines: Add in every mode and layout, FMA, FMAScalar,
	//     Inner, MatMul, MatVecMul
	lays := []string{"rm", "T", "stepslice", "cm", "slice", "mat"}
	for _, dt := range []string{"f64", "f32"} {
		eng := dt + "e"
		for _, la := range lays {
			for _, lb := range lays {
				for _, sh := range [][]int{{2, 3}, {4}, {2, 2, 2}} {
					for _, mode := range []string{"safe", "unsafe", "reuse", "incr", "ur"} {
						var p pb
						preA, ia := source(r, la, sh, 5)
						a := p.add(preA, ia)
						preB, ib := source(r, lb, sh, 1)
						b := p.add(preB, ib)
						m := mode
						if mode == "reuse" || mode == "incr" || mode == "ur" {
							preR, ir := source(r, "rm", sh, 50)
							rr := p.add(preR, ir)
							m = fmt.Sprintf("%s.%d", mode, rr)
						}
						p.ops = append(p.ops, fmt.Sprintf("bin:add:%d:%d:%s", a, b, m))
						emit(fmt.Sprintf("proge %s %s %s", eng, dt, p.prog()))
						emit(fmt.Sprintf("prog %s %s", dt, p.prog()))
						// a destination that IS one of the operands
						if mode == "reuse" || mode == "incr" {
							for _, al := range []int{a, b} {
								q := p
								q.ops = append(append([]string{}, p.ops[:len(p.ops)-1]...), fmt.Sprintf("bin:add:%d:%d:%s.%d", a, b, mode, al))
								emit(fmt.Sprintf("proge %s %s %s", eng, dt, q.prog()))
								emit(fmt.Sprintf("prog %s %s", dt, q.prog()))
							}
						}
					}
					// y += a*x and y += a*s on every layout of a and y
					for _, lx := range []string{"rm", "cm", "T", "stepslice"} {
						var p pb
						preA, ia := source(r, la, sh, 2)
						a := p.add(preA, ia)
						preX, ix := source(r, lx, sh, 1)
						x := p.add(preX, ix)
						preY, iy := source(r, lb, sh, 20)
						y := p.add(preY, iy)
						q := p
						p.ops = append(append([]string{}, p.ops...), fmt.Sprintf("fma:%d:%d:%d", a, x, y))
						q.ops = append(append([]string{}, q.ops...), fmt.Sprintf("fmas:%d:%d:%d", a, 3, y))
						for k, pp := range []pb{p, q} {
							if k == 1 && lx != "rm" {
								continue // the scalar form has no x operand
							}
							emit(fmt.Sprintf("proge %s %s %s", eng, dt, pp.prog()))
							emit(fmt.Sprintf("prog %s %s", dt, pp.prog()))
						}
					}
				}
			}
			// Inner on vectors of every layout
			for _, lb := range lays {
				var p pb
				preA, ia := source(r, la, []int{4}, 1)
				a := p.add(preA, ia)
				preB, ib := source(r, lb, []int{4}, 3)
				b := p.add(preB, ib)
				p.ops = append(p.ops, fmt.Sprintf("inner:%d:%d", a, b))
				emit(fmt.Sprintf("proge %s %s %s", eng, dt, p.prog()))
				emit(fmt.Sprintf("prog %s %s", dt, p.prog()))
			}
		}
	}
}
