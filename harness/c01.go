package main

import (
	"fmt"

	"gorgonia.org/tensor"
)

func resInt(v int, err error) string {
	if err != nil {
		return "err"
	}
	return fmt.Sprintf("ok:%d", v)
}

// newTensor builds the tensor the C01 cases talk about.
//   rm  : New(WithShape(sh), WithBacking(iota))
//   cm  : New(WithShape(sh), WithBacking(iota), AsFortran(nil))   -- column-major over the raw backing
//   cmb : New(WithShape(sh), AsFortran(iota))                     -- converts, keeps the row-major meaning
func newTensor(dt, order string, sh []int) *tensor.Dense {
	b := backing(dt, iota(prod(sh)))
	switch order {
	case "rm":
		return tensor.New(tensor.WithShape(sh...), tensor.WithBacking(b))
	case "cm":
		return tensor.New(tensor.WithShape(sh...), tensor.WithBacking(b), tensor.AsFortran(nil))
	case "cmb":
		return tensor.New(tensor.WithShape(sh...), tensor.AsFortran(b))
	case "cmf": // the order option FIRST: the shape is installed on an already column-major tensor
		return tensor.New(tensor.AsFortran(nil), tensor.WithShape(sh...), tensor.WithBacking(b))
	case "cmg": // order, backing, shape
		return tensor.New(tensor.AsFortran(nil), tensor.WithBacking(b), tensor.WithShape(sh...))
	case "cmn": // NewDense with the shape as an argument
		return tensor.NewDense(dtypeOf(dt), tensor.Shape(sh).Clone(), tensor.WithBacking(b), tensor.AsFortran(nil))
	}
	panic("bad order")
}

func init() {
	execs["ltoi"] = func(a []string) string {
		return resInt(tensor.Ltoi(tensor.Shape(ints(a[0])), ints(a[1]), ints(a[2])...))
	}
	// itol i shape strides : the inverse index arithmetic (uses divmod: assembly or pure Go)
	execs["itol"] = func(a []string) string {
		c, err := tensor.Itol(atoi(a[0]), tensor.Shape(ints(a[1])), ints(a[2]))
		if err != nil {
			return "err:" + fints(c)
		}
		return "ok:" + fints(c)
	}
	execs["cstr"] = func(a []string) string {
		return "ok:" + fints(tensor.Shape(ints(a[0])).CalcStrides())
	}
	execs["cstrcm"] = func(a []string) string {
		return "ok:" + fints(tensor.Shape(ints(a[0])).CalcStridesColMajor())
	}
	// at dt order shape coords
	execs["at"] = func(a []string) string {
		t := newTensor(a[0], a[1], ints(a[2]))
		v, err := t.At(ints(a[3])...)
		if err != nil {
			return "err"
		}
		return fmt.Sprintf("ok:%d", valTok(v))
	}
	// setat dt order shape coords  (writes token 77; reports the whole backing afterwards)
	execs["setat"] = func(a []string) (out string) {
		t := newTensor(a[0], a[1], ints(a[2]))
		defer func() {
			if e := recover(); e != nil {
				out = "panic:" + fints(dataToks(t.Data()))
			}
		}()
		err := t.SetAt(tokVal(a[0], 77), ints(a[3])...)
		if err != nil {
			return "err:" + fints(dataToks(t.Data()))
		}
		return "ok:" + fints(dataToks(t.Data()))
	}

	gens["C01"] = genC01
}

// shapes of rank 0..maxRank with every dim in 1..maxDim
func allShapes(maxRank, maxDim int) [][]int {
	out := [][]int{{}}
	prev := [][]int{{}}
	for r := 1; r <= maxRank; r++ {
		var cur [][]int
		for _, p := range prev {
			for d := 1; d <= maxDim; d++ {
				s := append(append([]int{}, p...), d)
				cur = append(cur, s)
			}
		}
		out = append(out, cur...)
		prev = cur
	}
	return out
}

// every coordinate of the box [-2, dim+1]^rank
func nearBox(sh []int) [][]int {
	out := [][]int{{}}
	for _, d := range sh {
		var cur [][]int
		for _, p := range out {
			for x := -2; x <= d+1; x++ {
				cur = append(cur, append(append([]int{}, p...), x))
			}
		}
		out = cur
	}
	return out
}

func genC01(tier string, r *rng, emit func(string)) {
	intPoolMotifs(emit)
	maxRank, maxDim := 3, 3
	dts := []string{"f64", "i", "u8", "str"}
	if tier == "thorough" {
		maxRank, maxDim = 4, 3
		dts = dtypeNames
	}
	shapes := allShapes(maxRank, maxDim)
	for _, sh := range shapes {
		emit("cstr " + fints(sh))
		emit("cstrcm " + fints(sh))
	}
	// the inverse index arithmetic on every rank of shapes with non-power-of-two extents, default
	// and column-major strides, plus out-of-range ranks
	for _, sh := range [][]int{{5}, {2, 3}, {3, 5}, {2, 3, 4}, {3, 1, 5}, {2, 3, 5, 2}, {1, 1}, {7, 1}} {
		for _, st := range [][]int{tensor.Shape(sh).CalcStrides(), tensor.Shape(sh).CalcStridesColMajor()} {
			if len(st) != len(sh) {
				continue
			}
			for i := -1; i <= prod(sh)+1; i++ {
				emit(fmt.Sprintf("itol %d %s %s", i, fints(sh), fints(st)))
			}
			// negative indices: the quotient and remainder truncate towards zero (Go's / and %) in
			// every build, assembly or not
			for _, i := range []int{-2, -3, -7, -8, -9, -15, -16, -17, -1000} {
				emit(fmt.Sprintf("itol %d %s %s", i, fints(sh), fints(st)))
			}
		}
	}
	for si, sh := range shapes {
		rm := tensor.Shape(sh).CalcStrides()
		cm := tensor.Shape(sh).CalcStridesColMajor()
		box := nearBox(sh)
		for _, co := range box {
			emit(fmt.Sprintf("ltoi %s %s %s", fints(sh), fints(rm), fints(co)))
			emit(fmt.Sprintf("ltoi %s %s %s", fints(sh), fints(cm), fints(co)))
		}
		// wrong arities: drop the last coordinate, append one more
		for _, co := range box {
			if len(co) > 0 && r.intn(4) == 0 {
				emit(fmt.Sprintf("ltoi %s %s %s", fints(sh), fints(rm), fints(co[:len(co)-1])))
				emit(fmt.Sprintf("ltoi %s %s %s", fints(sh), fints(rm), fints(append(append([]int{}, co...), 0))))
			}
		}
		// arbitrary (non-default) strides, as views have them
		for k := 0; k < 6; k++ {
			st := make([]int, len(sh))
			for i := range st {
				st[i] = r.rangeInt(0, 7)
			}
			co := box[r.intn(len(box))]
			emit(fmt.Sprintf("ltoi %s %s %s", fints(sh), fints(st), fints(co)))
		}
		// At / SetAt on real tensors, dtype rotated over the shapes (every dtype sees every rank)
		for di, dt := range dts {
			if tier != "thorough" && (si+di)%len(dts) != 0 && len(sh) > 2 {
				continue
			}
			orders := []string{"rm", "cm", "cmb"}
			if di == 0 {
				orders = append(orders, "cmf", "cmg", "cmn") // other ways of declaring the same column-major tensor
			}
			for _, order := range orders {
				for _, co := range box {
					emit(fmt.Sprintf("at %s %s %s %s", dt, order, fints(sh), fints(co)))
					emit(fmt.Sprintf("setat %s %s %s %s", dt, order, fints(sh), fints(co)))
				}
				if len(sh) > 0 {
					co := box[r.intn(len(box))]
					emit(fmt.Sprintf("at %s %s %s %s", dt, order, fints(sh), fints(co[:len(co)-1])))
					emit(fmt.Sprintf("at %s %s %s %s", dt, order, fints(sh), fints(append(append([]int{}, co...), 0))))
					emit(fmt.Sprintf("setat %s %s %s %s", dt, order, fints(sh), fints(co[:len(co)-1])))
				}
			}
		}
	}
}
