package main

import "strings"

// C16: the operation matrices of the other properties restricted to cases with at least one
// column-major operand or destination.
func init() {
	gens["C16"] = func(tier string, r *rng, emit func(string)) {
		for _, p := range []string{"C01", "C02", "C03", "C04", "C06", "C07", "C08", "C09", "C10", "C11", "C12", "C13", "C14"} {
			g := gens[p]
			n := 0
			g(tier, r, func(c string) {
				if strings.Contains(c, ":cm:") || strings.Contains(c, ":cmb:") || strings.Contains(c, " cm ") || strings.Contains(c, " cmb ") {
					if tier != "thorough" && n > 1500 {
						return
					}
					n++
					emit(c)
				}
			})
		}
	}
}
