package main

import (
	"fmt"
	"reflect"
	"strconv"
	"strings"

	"gorgonia.org/tensor"
)

// splitmix64: every random choice of a run derives from one state seeded by VERIF_SEED.
type rng struct{ s uint64 }

func newRng(seed uint64) *rng { return &rng{seed*0x9E3779B97F4A7C15 + 0x1234567} }
func (r *rng) next() uint64 {
	r.s += 0x9E3779B97F4A7C15
	z := r.s
	z = (z ^ (z >> 30)) * 0xBF58476D1CE4E5B9
	z = (z ^ (z >> 27)) * 0x94D049BB133111EB
	return z ^ (z >> 31)
}
func (r *rng) intn(n int) int { return int(r.next() % uint64(n)) }
func (r *rng) rangeInt(lo, hi int) int { return lo + r.intn(hi-lo+1) } // inclusive
func (r *rng) pick(xs []string) string { return xs[r.intn(len(xs))] }
func (r *rng) perm(n int) []int {
	p := make([]int, n)
	for i := range p {
		p[i] = i
	}
	for i := n - 1; i > 0; i-- {
		j := r.intn(i + 1)
		p[i], p[j] = p[j], p[i]
	}
	return p
}

// ---- field syntax: int lists are comma separated, "_" is the empty list ----
func ints(s string) []int {
	if s == "_" || s == "" {
		return []int{}
	}
	parts := strings.Split(s, ",")
	// every int list handed to the library has spare capacity filled with a sentinel: a callee that
	// appends to (or writes beyond) the caller's slice is noticed by spareClobbered
	const spare = 4
	full := make([]int, len(parts)+spare)
	for i := len(parts); i < len(full); i++ {
		full[i] = spareSentinel
	}
	out := full[:len(parts)]
	for i, p := range parts {
		v, err := strconv.Atoi(p)
		if err != nil {
			panic("bad int list " + s)
		}
		out[i] = v
	}
	if trackSpares {
		spares = append(spares, full[len(parts):])
		handed = append(handed, full)
		handedCopy = append(handedCopy, append([]int{}, out...))
	}
	return out
}

// handedCopy: the contents of every list at the moment it was handed out.
var handedCopy [][]int

// callerSliceMutated reports whether the library changed the CONTENTS of a list it was given.
func callerSliceMutated() bool {
	bad := false
	for i, h := range handed {
		if i >= len(handedCopy) {
			break
		}
		for j, v := range handedCopy[i] {
			if h[j] != v {
				bad = true
			}
		}
	}
	handedCopy = handedCopy[:0]
	return bad
}

// handed: every int list given to the library during the current step (whole backing array).
var handed [][]int

// scribble overwrites the lists handed to the library in the step that just ended: a library
// that RETAINED a caller's slice (instead of copying it) shows a changed tensor afterwards.
func scribble() {
	for _, h := range handed {
		for i := range h {
			h[i] = -5555
		}
	}
	handed = handed[:0]
}

const spareSentinel = -777777

var (
	trackSpares bool
	spares      [][]int
)

// spareClobbered reports (and forgets) whether the spare capacity of any int list handed out since
// the last call was written to.
func spareClobbered() bool {
	bad := false
	for _, sp := range spares {
		for _, v := range sp {
			if v != spareSentinel {
				bad = true
			}
		}
	}
	spares = spares[:0]
	return bad
}

func fints(xs []int) string {
	if len(xs) == 0 {
		return "_"
	}
	ss := make([]string, len(xs))
	for i, x := range xs {
		ss[i] = strconv.Itoa(x)
	}
	return strings.Join(ss, ",")
}

func prod(xs []int) int {
	p := 1
	for _, x := range xs {
		p *= x
	}
	return p
}

// ---- element types: token k <-> value of the dtype ----
var dtypeNames = []string{"i", "i8", "i16", "i32", "i64", "u", "u8", "u16", "u32", "u64", "f32", "f64", "c64", "c128", "b", "str"}

func dtypeOf(name string) tensor.Dtype {
	switch name {
	case "i":
		return tensor.Int
	case "i8":
		return tensor.Int8
	case "i16":
		return tensor.Int16
	case "i32":
		return tensor.Int32
	case "i64":
		return tensor.Int64
	case "u":
		return tensor.Uint
	case "u8":
		return tensor.Uint8
	case "u16":
		return tensor.Uint16
	case "u32":
		return tensor.Uint32
	case "u64":
		return tensor.Uint64
	case "f32":
		return tensor.Float32
	case "f64":
		return tensor.Float64
	case "c64":
		return tensor.Complex64
	case "c128", "c128r":
		return tensor.Complex128
	case "c64r":
		return tensor.Complex64
	case "b":
		return tensor.Bool
	case "str":
		return tensor.String
	}
	panic("bad dtype " + name)
}

// tokVal maps token k to a value of the dtype (injective for |k| < 100 except bool: k mod 2).
func tokVal(dt string, k int) interface{} {
	switch dt {
	case "i":
		return int(k)
	case "i8":
		return int8(k)
	case "i16":
		return int16(k)
	case "i32":
		return int32(k)
	case "i64":
		return int64(k)
	case "u":
		return uint(k)
	case "u8":
		return uint8(k)
	case "u16":
		return uint16(k)
	case "u32":
		return uint32(k)
	case "u64":
		return uint64(k)
	case "f32":
		return float32(k)
	case "f64":
		return float64(k)
	case "c64":
		return complex(float32(k), float32(-k))
	case "c128":
		return complex(float64(k), float64(-k))
	case "c64r": // real-valued complex tokens, for products
		return complex(float32(k), float32(0))
	case "c128r":
		return complex(float64(k), float64(0))
	case "b":
		return ((k%2)+2)%2 == 1
	case "str":
		return "s" + strconv.Itoa(k)
	}
	panic("bad dtype " + dt)
}

// valTok is the inverse of tokVal (bool: 0/1).
func valTok(v interface{}) int {
	switch x := v.(type) {
	case int:
		return x
	case int8:
		return int(x)
	case int16:
		return int(x)
	case int32:
		return int(x)
	case int64:
		return int(x)
	case uint:
		return int(x)
	case uint8:
		return int(x)
	case uint16:
		return int(x)
	case uint32:
		return int(x)
	case uint64:
		return int(x)
	case float32:
		if x == float32(1.0e20) {
			return fillTok
		}
		return int(x)
	case float64:
		if x == 1.0e20 {
			return fillTok
		}
		return int(x)
	case complex64:
		if x == complex64(1.0e20+0i) {
			return fillTok
		}
		return int(real(x))
	case complex128:
		if x == complex128(1.0e20+0i) {
			return fillTok
		}
		return int(real(x))
	case bool:
		if x {
			return 1
		}
		return 0
	case string:
		if x == "" {
			return 0 // the zero value of the element type
		}
		n, err := strconv.Atoi(strings.TrimPrefix(x, "s"))
		if err != nil {
			return -999999
		}
		return n
	}
	panic(fmt.Sprintf("valTok: %T", v))
}

// fillTok is the token of the default fill value (1e20) of the float and complex types.
const fillTok = 88888888

// backing builds a []T of the dtype holding tokens toks.
func backing(dt string, toks []int) interface{} {
	d := dtypeOf(dt)
	sl := reflect.MakeSlice(reflect.SliceOf(d.Type), len(toks), len(toks))
	for i, k := range toks {
		sl.Index(i).Set(reflect.ValueOf(tokVal(dt, k)))
	}
	return sl.Interface()
}

func iota(n int) []int {
	xs := make([]int, n)
	for i := range xs {
		xs[i] = i
	}
	return xs
}

// dataToks renders Data() (a slice, or a bare scalar value) as tokens.
func dataToks(d interface{}) []int {
	v := reflect.ValueOf(d)
	if v.Kind() != reflect.Slice {
		return []int{valTok(d)}
	}
	out := make([]int, v.Len())
	for i := range out {
		out[i] = valTok(v.Index(i).Interface())
	}
	return out
}
