package main

// C18 — concurrent use of distinct or read-only tensors.
//   conc <family> <gomaxprocs> <dt> <sharedprog> <g0prog>|<g1prog>|...
// The shared program builds the read-only tensors (indices 0..k-1 of every goroutine's world).
// Each goroutine program is first run ALONE (sequential oracle: the per-step observations of its
// private tensors and of the shared ones), then all are run together, started by one barrier,
// with a scheduler yield after every step.  Observation:
//   races=<new race reports during this case> g0=<same|diff@step> g1=... shared=<same|changed>
// Race reports come from the Go race detector (the binary is built with -race by
// tools/prop_C18.py; GORACE=log_path=... ; this file only counts the new reports).
// Extra operations (only used here): dot:<a>:<b> (tensor.Dot), fmt:<t> (fmt %v formatting).

import (
	"fmt"
	"os"
	"path/filepath"
	"runtime"
	"strings"
	"sync"
	"sync/atomic"
	"time"

	gonumblas "gonum.org/v1/gonum/blas/gonum"
	"gorgonia.org/tensor"
)

func init() {
	progOps["dot"] = func(w *world, f []string) string {
		var o []tensor.FuncOpt
		if len(f) > 3 {
			o = w.opts(f[3], false)
		}
		r, err := tensor.Dot(w.ts[atoi(f[1])], w.ts[atoi(f[2])], o...)
		return w.ret(r, err)
	}
	// keepdrop:<t> : take a row-range view and a clone of tensor t, keep what their Shape() and
	// Strides() return (the caller may hold these after it has let go of the tensors), drop the
	// tensors;  gc : two collection cycles and a pause, so that anything the library hangs on
	// garbage (finalizers) runs.  What was kept must stay as it was (checked after every step).
	progOps["keepdrop"] = func(w *world, f []string) string {
		t := w.ts[atoi(f[1])]
		keep := func(x []int) {
			if len(x) > 0 {
				w.held = append(w.held, [2][]int{x, append([]int(nil), x...)})
			}
		}
		if v, err := t.Slice(parseSlices("0.1.1")...); err == nil {
			keep([]int(v.Shape()))
			keep(v.Strides())
		}
		c := t.Clone().(*tensor.Dense)
		keep([]int(c.Shape()))
		keep(c.Strides())
		return "ok"
	}
	progOps["gc"] = func(w *world, f []string) string {
		runtime.GC()
		runtime.GC()
		time.Sleep(2 * time.Millisecond)
		return "ok"
	}
	progOps["fmt"] = func(w *world, f []string) string {
		s := fmt.Sprintf("%v", w.ts[atoi(f[1])])
		return fmt.Sprintf("val:%d", len(s))
	}
	// useblas : tensor.Use(the gonum implementation) - selecting the BLAS is serialised by a mutex
	progOps["useblas"] = func(w *world, f []string) string {
		tensor.Use(gonumblas.Implementation{})
		return "ok"
	}
	execs["conc"] = runConc
	gens["C18"] = genC18
}

// race reports written so far by the race runtime (GORACE=log_path=<prefix> writes <prefix>.<pid>)
func raceReports() int {
	prefix := os.Getenv("VERIF_RACE_LOG")
	if prefix == "" {
		return 0
	}
	files, _ := filepath.Glob(prefix + ".*")
	n := 0
	for _, f := range files {
		b, err := os.ReadFile(f)
		if err == nil {
			n += strings.Count(string(b), "WARNING: DATA RACE")
		}
	}
	return n
}

// runs one goroutine program over a world that starts with the shared tensors; returns the
// observation after every step
func runShared(dt string, shared []*tensor.Dense, prog string, yield bool) (out []string) {
	w := &world{dt: dt, ts: append([]*tensor.Dense{}, shared...)}
	for _, op := range strings.Split(prog, ";") {
		st := w.step(op)
		if st == "panic" {
			out = append(out, "panic")
			break
		}
		held := ""
		for _, h := range w.held {
			if fmt.Sprint(h[0]) != fmt.Sprint(h[1]) {
				held = " !held-metadata-changed"
				heldChanged.Store(true)
			}
		}
		out = append(out, st+w.obsAll()+probe(w)+held)
		if yield {
			runtime.Gosched()
		}
	}
	return out
}

// probe calls the read-only accessors of every tensor of the world (the shared ones included):
// none of them may write anything, whichever goroutine calls it first
func probe(w *world) string {
	var sb strings.Builder
	for i, t := range w.ts {
		if w.dead[i] {
			continue
		}
		func() {
			defer func() { recover() }()
			sb.WriteString(fmt.Sprintf(" P%d=%d.%d.%d.%v.%v.%v.%v.%v.%v.%v", i, t.Size(), t.DataSize(), t.Dims(), t.IsScalar(), t.IsVector(),
				t.IsMatrix(), t.IsMaterializable(), t.RequiresIterator(), t.IsView(), t.IsMasked()))
			sb.WriteString(fmt.Sprintf(".%v.%d.%v", t.Dtype(), t.MemSize(), t.IsNativelyAccessible()))
		}()
	}
	return sb.String()
}

var heldChanged atomic.Bool

func runConc(a []string) string {
	procs, dt, sprog := atoi(a[1]), a[2], a[3]
	gprogs := strings.Split(a[4], "|")
	old := runtime.GOMAXPROCS(procs)
	defer runtime.GOMAXPROCS(old)
	sw := &world{dt: dt}
	for _, op := range strings.Split(sprog, ";") {
		if st := sw.step(op); st == "panic" {
			return "sharedpanic"
		}
	}
	shared := sw.ts
	// the "before" observation is taken from a TWIN of the shared world: the shared tensors
	// themselves are not even looked at before the goroutines start (a value that the library
	// caches lazily inside an operand on first read would otherwise be filled in here)
	tw := &world{dt: dt}
	for _, op := range strings.Split(sprog, ";") {
		tw.step(op)
	}
	sharedBefore := tw.obsAll()
	// the concurrent run comes FIRST (library-internal state that is initialised lazily — the
	// scalar pools, say — is then touched for the first time by racing goroutines); the sequential
	// oracle (every program alone, on the same shared tensors) is computed afterwards
	r0 := raceReports()
	got := make([][]string, len(gprogs))
	var wg sync.WaitGroup
	start := make(chan struct{})
	for i, p := range gprogs {
		wg.Add(1)
		go func(i int, p string) {
			defer wg.Done()
			<-start
			got[i] = runShared(dt, shared, p, true)
		}(i, p)
	}
	close(start)
	wg.Wait()
	races := raceReports() - r0
	sharedAfter := (&world{dt: dt, ts: shared}).obsAll()
	oracle := make([][]string, len(gprogs))
	for i, p := range gprogs {
		oracle[i] = runShared(dt, shared, p, false)
	}
	var sb strings.Builder
	fmt.Fprintf(&sb, "races=%d", races)
	if heldChanged.Load() {
		// shape/strides lists a caller still held were rewritten (in the concurrent run or in the
		// sequential one): reported whatever the comparison of the two says
		defer func() { heldChanged.Store(false) }()
		sb.WriteString(" held=changed")
	}
	for i := range gprogs {
		res := "same"
		for k := range oracle[i] {
			if k >= len(got[i]) || got[i][k] != oracle[i][k] {
				res = fmt.Sprintf("diff@%d", k)
				break
			}
		}
		if res == "same" && len(got[i]) != len(oracle[i]) {
			res = "diff@len"
		}
		fmt.Fprintf(&sb, " g%d=%s", i, res)
	}
	if sharedAfter == sharedBefore {
		sb.WriteString(" shared=same")
	} else {
		sb.WriteString(" shared=changed")
	}
	return sb.String()
}

// one read-only / private operation of the family; shared indices: 0 = 3x3 matrix, 1 = a lazily
// transposed 3x3, 2 = a 3x4 matrix, 3 = a vector of 3, 4 = a 2x3 view of 2; priv = index of the
// goroutine's private 3x3 tensor
func concOp(r *rng, family string, priv int) string {
	sq := []int{0, 1}[r.intn(2)] // a 3x3 shared operand
	switch family {
	case "access":
		switch r.intn(4) {
		case 0:
			return fmt.Sprintf("at:%d:%d,%d", sq, r.intn(3), r.intn(3))
		case 1:
			return fmt.Sprintf("slice:%d:%d.3.1/_", sq, r.intn(2))
		case 2:
			return fmt.Sprintf("clone:%d", r.intn(5))
		default:
			return fmt.Sprintf("mat:%d", []int{1, 4}[r.intn(2)])
		}
	case "arith":
		switch r.intn(5) {
		case 0:
			return fmt.Sprintf("bin:%s:%d:%d:safe", []string{"add", "sub", "mul"}[r.intn(3)], sq, priv)
		case 1:
			return fmt.Sprintf("bin:add:0:1:safe")
		case 2:
			return fmt.Sprintf("bins:mul:%d:3:%s:safe", sq, []string{"left", "right"}[r.intn(2)])
		case 3:
			return fmt.Sprintf("cmp:%s:0:1:%s:safe", []string{"gt", "eq", "lte"}[r.intn(3)], []string{"bool", "same"}[r.intn(2)])
		default:
			return fmt.Sprintf("bin:add:%d:%d:unsafe", priv, sq) // writes the PRIVATE tensor only
		}
	case "reduce":
		switch r.intn(3) {
		case 0:
			return fmt.Sprintf("reduce:%s:%d:%d", []string{"sum", "max", "min"}[r.intn(3)], []int{0, 1, 4}[r.intn(3)], r.intn(2))
		case 1:
			return fmt.Sprintf("reduce:sum:%d:0,1", sq)
		default:
			return fmt.Sprintf("arg:%s:%d:%d", []string{"max", "min"}[r.intn(2)], sq, r.intn(2))
		}
	case "lin":
		switch r.intn(4) {
		case 0:
			return fmt.Sprintf("lin:matmul:%d:%d:safe", sq, []int{0, 1, priv}[r.intn(3)])
		case 1:
			return fmt.Sprintf("lin:matvec:%d:3:safe", sq)
		case 2:
			return "inner:3:3"
		default:
			return fmt.Sprintf("trace:%d", sq)
		}
	case "dot":
		switch r.intn(3) {
		case 0:
			return "dot:0:3" // matrix . vector
		case 1:
			return "dot:3:3" // vector . vector
		default:
			return "dot:0:1" // matrix . matrix
		}
	case "tmul":
		// general contractions with a SHARED rank-3 operand (index 4 of this family's shared world is
		// a (2,3,3) tensor), through TensorMul and through the dispatching Dot; readers of that operand
		switch r.intn(8) {
		case 0:
			return fmt.Sprintf("tmul:%d:4:1:1", priv)
		case 1:
			return fmt.Sprintf("tmul:4:%d:2:0", priv)
		case 2:
			return "tmul:4:0:2:0"
		case 3:
			return "dot:4:3"
		case 4:
			return "dot:0:4"
		case 5:
			return fmt.Sprintf("at:4:%d,%d,%d", r.intn(2), r.intn(3), r.intn(3))
		case 6:
			return "tmul:0:4:1:1"
		default:
			// the general branch of Dot with private destinations, then allocations: a struct handed
			// to the pool twice would be given to two tensors
			return []string{"dot:4:3:both.6.7", "dot:4:3:reuse.6", "dot:4:3:incr.7", fmt.Sprintf("slice:%d:0.1.1", priv), fmt.Sprintf("reduce:sum:4:%d", r.intn(3))}[r.intn(5)]
		}
	case "churn":
		// short-lived tensors whose metadata lists the caller keeps, garbage collections in between,
		// and ordinary allocations that would pick up anything recycled too early
		switch r.intn(6) {
		case 0, 1:
			return fmt.Sprintf("keepdrop:%d", []int{0, 2, priv}[r.intn(3)])
		case 2:
			return "gc"
		case 3:
			return fmt.Sprintf("bin:add:%d:%d:safe", sq, priv)
		case 4:
			return fmt.Sprintf("slice:%d:0.2.1/_", sq)
		default:
			return fmt.Sprintf("clone:%d", r.intn(5))
		}
	case "dotvm":
		// vector . matrix: Dot transposes its matrix operand in place and takes it back afterwards
		if r.intn(2) == 0 {
			return "dot:3:0"
		}
		return "dot:3:1"
	case "shapeops":
		switch r.intn(3) {
		case 0:
			return fmt.Sprintf("stack:%d:%d:%d", sq, r.intn(3), priv)
		case 1:
			return fmt.Sprintf("concat:%d:%d:%d", sq, r.intn(2), priv)
		default:
			return fmt.Sprintf("repeat:0:%d:2", r.intn(2))
		}
	case "format":
		return fmt.Sprintf("fmt:%d", r.intn(5))
	case "errpath":
		// calls that must FAIL (a reuse tensor of the wrong size: private tensor 6 is 2x2) between calls
		// that succeed with a private reuse tensor (7 is 3x3): error paths hand pooled objects back too
		switch r.intn(4) {
		case 0:
			return fmt.Sprintf("bin:add:%d:%d:reuse.6", sq, priv)
		case 1:
			return fmt.Sprintf("lin:matmul:%d:%d:reuse.7", sq, []int{0, 1}[r.intn(2)])
		case 2:
			return fmt.Sprintf("bin:mul:%d:%d:reuse.7", sq, priv)
		default:
			return fmt.Sprintf("bins:add:%d:2:left:reuse.6", sq)
		}
	case "blas":
		// (re)selecting the BLAS implementation while others multiply
		switch r.intn(3) {
		case 0:
			return "useblas"
		case 1:
			return fmt.Sprintf("lin:matmul:%d:%d:safe", priv, priv)
		default:
			return fmt.Sprintf("lin:matvec:%d:3:safe", sq)
		}
	case "blasuse":
		// goroutines that only (re)select the BLAS implementation (and work on private tensors
		// without products): the selection itself is serialised by a mutex
		if r.intn(2) == 0 {
			return "useblas"
		}
		return fmt.Sprintf("bin:add:%d:%d:safe", priv, priv)
	case "private":
		// operations that mutate, on private tensors only
		switch r.intn(5) {
		case 0:
			return fmt.Sprintf("T:%d:1,0", priv)
		case 1:
			return fmt.Sprintf("transpose:%d", priv)
		case 2:
			return fmt.Sprintf("setat:%d:%d,%d:%d", priv, r.intn(3), r.intn(3), r.intn(9))
		case 3:
			return fmt.Sprintf("memset:%d:%d", priv, r.intn(9))
		default:
			return fmt.Sprintf("UT:%d", priv)
		}
	}
	panic("family")
}

// (arith first: the first racing goroutines of the process then meet the lazily initialised scalar pools)
var concFamilies = []string{"arith", "access", "reduce", "lin", "dot", "dotvm", "tmul", "churn", "shapeops", "format", "errpath", "blasuse", "blas", "private"}

func genC18(tier string, r *rng, emit func(string)) {
	reps := 6
	if tier == "thorough" {
		reps = 60
	}
	shared := "new:rm:3,3:1;new:rm:3,3:11;T:1:1,0;new:rm:3,4:21;new:rm:3:31;slice:2:0.2.1/1.4.1"
	// indices: 0 matrix, 1 lazy transpose, 2 3x4 matrix, 3 vector, 4 view of 2
	for _, fam := range concFamilies {
		for _, procs := range []int{1, 2, 4, 16} {
			for _, g := range []int{2, 4, 8, 16} {
				for k := 0; k < reps; k++ {
					dt := []string{"f64", "f32", "i"}[r.intn(3)]
					if fam == "lin" || fam == "dot" || fam == "dotvm" || fam == "tmul" || fam == "errpath" || fam == "blas" {
						dt = []string{"f64", "f32"}[r.intn(2)]
					}
					progs := make([]string, g)
					for i := range progs {
						// private tensor is index 5 in every goroutine's world
						ops := []string{fmt.Sprintf("new:rm:3,3:%d", 40+i)}
						if fam == "errpath" {
							ops = append(ops, "new:rm:2,2:0", "new:rm:3,3:0") // private tensors 6 (wrong size) and 7
						}
						if fam == "tmul" {
							ops = append(ops, "new:rm:2,3:0", "new:rm:2,3:100") // private destinations 6 and 7 of Dot(4,3)
						}
						n := r.rangeInt(3, 8)
						for j := 0; j < n; j++ {
							f := fam
							if fam != "private" && r.intn(5) == 0 {
								f = "private"
							}
							ops = append(ops, concOp(r, f, 5))
						}
						progs[i] = strings.Join(ops, ";")
					}
					sw := shared
					if fam == "tmul" {
						sw = "new:rm:3,3:1;new:rm:3,3:11;T:1:1,0;new:rm:3,4:21;new:rm:3:31;new:rm:2,3,3:51"
					}
					emit(fmt.Sprintf("conc %s %d %s %s %s", fam, procs, dt, sw, strings.Join(progs, "|")))
				}
			}
		}
	}
}
