package main

import (
	"fmt"
	"strings"
)

func init() { gens["C02"] = genC02 }

func crossSpecs(sh []int, steps []int, emit func(string)) {
	var rec func(i int, cur []string)
	rec = func(i int, cur []string) {
		if i == len(sh) {
			emit(strings.Join(cur, "/"))
			return
		}
		for _, s := range axisSpecs(sh[i], steps) {
			rec(i+1, append(cur, s))
		}
	}
	rec(0, nil)
}

func genC02(tier string, r *rng, emit func(string)) {
	genXKinds("C02", emit)
	// T[:] (an empty slice list): a view of everything whose shape and strides are its own - later
	// operations on the parent or on the view, and handing the view back, leave the other intact
	for _, c := range []string{"new:rm:2,3:0;slice:0:-;reshape:0:3,2", "new:rm:2,3:0;slice:0:-;reshape:1:6", "new:rm:3,4:0;slice:0:-;ret:1;slice:0:1.2.0/1.4.2",
		"new:rm:2,3:0;slice:0:-;T:0:1,0;at:1:1,2", "new:rm:2,3:0;slice:0:-;T:1:1,0;at:0:1,2", "new:cm:2,3:0;slice:0:-;reshape:0:3,2", "new:rm:2,3,2:0;slice:0:-;slice:1:-;ret:1;at:2:1,2,1"} {
		emit("prog f64 " + c)
	}
	thorough := tier == "thorough"
	dts := []string{"f64", "i", "u8", "str", "c64", "b"}
	// (1) complete per-axis argument sets, full cross product, row-major and column-major sources
	maxD1, maxD2 := 5, 3
	steps2 := []int{0, 1, 2}
	if thorough {
		maxD2 = 4
		steps2 = []int{0, 1, 2, 3}
	}
	for d := 1; d <= maxD1; d++ {
		for _, order := range []string{"rm", "cm"} {
			crossSpecs([]int{d}, []int{0, 1, 2, 3}, func(sl string) {
				emit(fmt.Sprintf("prog f64 new:%s:%d:0;slice:0:%s;mat:1", order, d, sl))
			})
			for _, b := range badSpecs(d) {
				emit(fmt.Sprintf("prog f64 new:%s:%d:0;slice:0:%s", order, d, b))
			}
		}
	}
	for a := 1; a <= maxD2; a++ {
		for b := 1; b <= maxD2; b++ {
			sh := []int{a, b}
			for oi, order := range []string{"rm", "cm"} {
				crossSpecs(sh, steps2, func(sl string) {
					if oi == 1 && !thorough && r.intn(3) != 0 {
						return
					}
					emit(fmt.Sprintf("prog f64 new:%s:%s:0;slice:0:%s;mat:1", order, fints(sh), sl))
				})
			}
			// fewer slices than axes
			for _, s := range axisSpecs(a, steps2) {
				emit(fmt.Sprintf("prog f64 new:rm:%s:0;slice:0:%s;mat:1", fints(sh), s))
			}
		}
	}
	// (1a) EVERY (start, end, step) triple around the axis, on each axis of small tensors: which ones are
	// refused and what the accepted ones select
	for _, sh := range [][]int{{3}, {2, 3}, {3, 2}, {2, 2, 3}} {
		for ax := range sh {
			d := sh[ax]
			for st := -2; st <= d+1; st++ {
				for en := -2; en <= d+2; en++ {
					for step := -1; step <= 3; step++ {
						parts := make([]string, len(sh))
						for i := range parts {
							parts[i] = "_"
							if i != ax && i == (ax+1)%len(sh) && sh[i] > 1 {
								parts[i] = "1.2.0" // a single index on a neighbouring axis
							}
						}
						parts[ax] = fmt.Sprintf("%d.%d.%d", st, en, step)
						emit(fmt.Sprintf("prog f64 new:rm:%s:0;slice:0:%s", fints(sh), strings.Join(parts, "/")))
						if step == 0 || (st >= 0 && en <= d) {
							emit(fmt.Sprintf("prog i new:cm:%s:0;slice:0:%s", fints(sh), strings.Join(parts, "/")))
						}
					}
				}
			}
		}
	}
	// (1b) Narrow, package-level and method form, every axis / start / length of small shapes
	for _, sh := range [][]int{{4}, {3, 4}, {2, 3, 2}} {
		for _, order := range []string{"rm", "cm"} {
			for dim := range sh {
				for st := 0; st <= sh[dim]; st++ {
					for ln := 0; st+ln <= sh[dim]+1; ln++ {
						for _, form := range []string{"api", "method"} {
							emit(fmt.Sprintf("prog f64 new:%s:%s:0;narrow:0:%d:%d:%d:%s;mat:1", order, fints(sh), dim, st, ln, form))
						}
					}
				}
			}
		}
	}
	// (2) random slice lists on every source layout, rank 1-4, element types rotated
	n := 9000
	if thorough {
		n = 150000
	}
	for k := 0; k < n; k++ {
		sh := randShape(r, 1, 4, 5)
		if prod(sh) > 120 {
			continue
		}
		layout := layouts[r.intn(len(layouts))]
		dt := dts[k%len(dts)]
		pre, src := source(r, layout, sh, 0)
		emit(fmt.Sprintf("prog %s %s;slice:%d:%s;mat:%d", safeDt(dt, pre), pre, src, randSlices(r, sh), src+1))
	}
	// (3) nested slicing to depth 3 (slice of slice of transpose)
	m := 4000
	if thorough {
		m = 60000
	}
	for k := 0; k < m; k++ {
		sh := randShape(r, 1, 4, 5)
		if prod(sh) > 120 {
			continue
		}
		layout := layouts[r.intn(len(layouts))]
		pre, src := source(r, layout, sh, 0)
		prog := pre
		cur := src
		curSh := sh
		depth := r.rangeInt(2, 3)
		for d := 0; d < depth; d++ {
			prog += fmt.Sprintf(";slice:%d:%s", cur, randSlices(r, curSh))
			nsh, ok := shapeAfter("f64", prog, cur+1)
			if !ok {
				break
			}
			cur++
			curSh = nsh
			if len(curSh) == 0 {
				break
			}
		}
		emit("prog f64 " + prog)
	}
}
