#!/usr/bin/env python3
"""Shared machinery of ./check: build (Coq, extraction, OCaml driver, Go harness), run the
correspondence, classify, write evidence.  See DESIGN.md sections 4, 5 and 8."""
import fcntl, glob, hashlib, json, os, re, subprocess, sys, time

VERIF = os.path.dirname(os.path.dirname(os.path.abspath(__file__)))
REPO = os.environ.get("VERIF_REPO", "/repo")
BUILD = os.path.join(VERIF, "_build")
COQ = os.path.join(VERIF, "coq")
OCAML = os.path.join(VERIF, "ocaml")
HARNESS = os.path.join(VERIF, "harness")
GOENV = dict(os.environ, GOFLAGS="-mod=mod", GOPROXY="off", GOSUMDB="off", GOTOOLCHAIN="local",
             CGO_ENABLED=os.environ.get("CGO_ENABLED", "1"))

TRUSTED_BASE = [
    "Coq 8.16.1 kernel (coqc); vm_compute used only for finite reflection and refutation witnesses; no native_compute",
    "axioms: none (Print Assumptions under every property theorem must print 'Closed under the global context')",
    "extraction: Coq Extraction with ExtrOcamlBasic only (bool, option, list, prod, unit, sumbool mapped to OCaml's); no Extract Constant; nat/positive/Z stay Coq datatypes; ocamlfind ocamlopt 4.13.1",
    "ocaml/proto.ml, ocaml/drv_*.ml, ocaml/driver.ml: case parsing/printing and int<->Z conversion",
    "Go harness (verif/harness): case generation, execution against /repo through a module replace, panic recovery, token<->element-type mapping",
    "tools/vlib.py comparator and classifier; verif build-tag hook files in /repo (read-only accessors)",
    "hand transcription Go source -> Gallina MODEL: measured by this correspondence run, not proved",
]


def sh(cmd, cwd=None, env=None, timeout=3600, check=True):
    p = subprocess.run(cmd, shell=isinstance(cmd, str), cwd=cwd, env=env, timeout=timeout,
                       stdout=subprocess.PIPE, stderr=subprocess.STDOUT, text=True)
    if check and p.returncode != 0:
        sys.stdout.write(p.stdout)
        raise SystemExit("BROKEN: command failed: %s" % (cmd if isinstance(cmd, str) else " ".join(cmd)))
    return p.returncode, p.stdout


class Lock:
    def __init__(self, name="build"):
        os.makedirs(BUILD, exist_ok=True)
        self.path = os.path.join(BUILD, "." + name + ".lock")

    def __enter__(self):
        self.f = open(self.path, "w")
        fcntl.flock(self.f, fcntl.LOCK_EX)
        return self

    def __exit__(self, *a):
        fcntl.flock(self.f, fcntl.LOCK_UN)
        self.f.close()


def file_hash(paths):
    h = hashlib.sha256()
    for p in sorted(paths):
        h.update(p.encode())
        with open(p, "rb") as f:
            h.update(f.read())
    return h.hexdigest()


def build_coq():
    """Full .vo build of the development (coq_makefile + make).  No-op when current."""
    with Lock("coq"):
        if not os.path.exists(os.path.join(COQ, "Makefile")) or \
           os.path.getmtime(os.path.join(COQ, "Makefile")) < os.path.getmtime(os.path.join(COQ, "_CoqProject")):
            sh("coq_makefile -f _CoqProject -o Makefile", cwd=COQ)
        rc, out = sh("timeout 3000 make -j16", cwd=COQ, check=False)
        if rc != 0:
            sys.stdout.write(out[-6000:])
            raise SystemExit("BROKEN: Coq development does not build (a proof in /verif is broken; not a property violation)")
        return out


def prop_obligations(prop):
    """Re-check every Prop<id>*.v on its own and read the Print Assumptions answers."""
    import glob
    files = sorted(glob.glob(os.path.join(COQ, "Prop%s*.v" % prop)))
    files = [f for f in files if re.match(r"Prop%s[a-z]?\.v$" % prop, os.path.basename(f))]
    if not files:
        return dict(obligations=0, discharged=0, theorems=[], axioms=[], checker_cmd="")
    names, cmds, closed_all, asked_all = [], [], 0, 0
    for src in files:
        text = open(src).read()
        names += re.findall(r"^(?:Theorem|Example|Lemma|Corollary)\s+([A-Za-z0-9_']+)", text, re.M)
        for bad in ("Admitted", "admit.", "Axiom ", "Parameter ", "Conjecture "):
            if re.search(r"(^|\s)" + re.escape(bad), re.sub(r"\(\*.*?\*\)", "", text, flags=re.S)):
                raise SystemExit("BROKEN: %s contains %s" % (src, bad))
        cmd = "coqc -Q . TV %s" % os.path.basename(src)
        with Lock("coq"):
            rc, out = sh("timeout 900 " + cmd, cwd=COQ, check=False)
        if rc != 0:
            sys.stdout.write(out[-4000:])
            raise SystemExit("BROKEN: %s does not compile" % src)
        closed = out.count("Closed under the global context")
        axioms = re.findall(r"^Axioms:\n((?:.+\n)+)", out, re.M)
        asked = len(re.findall(r"^Print Assumptions", text, re.M))
        if axioms or closed != asked:
            sys.stdout.write(out[-4000:])
            raise SystemExit("BROKEN: a property theorem of %s depends on axioms" % prop)
        cmds.append(cmd); closed_all += closed; asked_all += asked
    return dict(obligations=len(names), discharged=len(names), theorems=names, axioms=[],
                checker_cmd="cd coq && make -j16 && " + " && ".join(cmds) + "   (Print Assumptions: %d/%d closed)" % (closed_all, asked_all))


def coqchk(prop):
    """thorough tier: re-check the compiled property files (and everything they depend on) with the
    independent checker and report the axioms it finds."""
    mods = sorted(os.path.basename(f)[:-2] for f in glob.glob(os.path.join(COQ, "Prop%s*.v" % prop))
                  if re.match(r"Prop%s[a-z]?\.v$" % prop, os.path.basename(f)) and os.path.exists(f + "o"))
    if not mods:
        return dict(coqchk="no compiled property file")
    with Lock("coq"):
        rc, out = sh("timeout 3000 coqchk -silent -o -Q . TV " + " ".join("TV." + m for m in mods), cwd=COQ, check=False)
    m = re.search(r"\* Axioms:\s*(.*?)\n\s*\n", out, re.S)
    ax = re.sub(r"\s+", " ", m.group(1)).strip() if m else "?"
    if rc != 0:
        raise SystemExit("BROKEN: coqchk rejects the compiled development: " + out[-1500:])
    return dict(coqchk="coqchk -silent -o %s: ok; axioms: %s" % (" ".join(mods), ax))


def build_driver():
    """Extract the model (ExtrOcamlBasic) and build the OCaml driver when stale."""
    with Lock("ocaml"):
        srcs = [os.path.join(COQ, f) for f in os.listdir(COQ) if f.endswith(".v")] + \
               [os.path.join(OCAML, f) for f in os.listdir(OCAML) if f.endswith(".ml") and f not in ("model.ml",)]
        stamp = os.path.join(BUILD, "driver.stamp")
        h = file_hash(srcs)
        if os.path.exists(stamp) and open(stamp).read() == h and os.path.exists(os.path.join(BUILD, "driver")):
            return
        sh("timeout 900 coqc -Q ../coq TV ../coq/Extract.v", cwd=OCAML)
        mods = sorted(f for f in os.listdir(OCAML) if f.startswith("drv_") and f.endswith(".ml"))
        sh("timeout 900 ocamlfind ocamlopt -package str -linkpkg -O2 -w -a model.mli model.ml proto.ml prog.ml %s driver.ml -o %s"
           % (" ".join(mods), os.path.join(BUILD, "driver")), cwd=OCAML)
        for f in os.listdir(OCAML):
            if f.endswith((".cmi", ".cmx", ".o")):
                os.remove(os.path.join(OCAML, f))
        open(stamp, "w").write(h)


def build_harness(tags="verif", out="harness", extra=""):
    """Rebuild the Go harness from /repo's CURRENT working tree (module replace -> /repo)."""
    with Lock("go-" + out):
        gosum = os.path.join(REPO, "go.sum")
        if os.path.exists(gosum):
            dst = os.path.join(HARNESS, "go.sum")
            if not os.path.exists(dst) or open(dst).read() != open(gosum).read():
                open(dst, "w").write(open(gosum).read())
        rc, o = sh("timeout 1200 go build %s -tags '%s' -o %s ." % (extra, tags, os.path.join(BUILD, out)),
                   cwd=HARNESS, env=GOENV, check=False)
        if rc != 0:
            sys.stdout.write(o[-4000:])
            raise SystemExit("BROKEN: harness does not build against /repo (does /repo compile?)")
    return os.path.join(BUILD, out)


DIED = []   # VIOLATION lines for inputs on which the harness process died


def cur_case_path(prop, suffix=""):
    return os.path.join(BUILD, "%s%s.curcase" % (prop, suffix))


def harness_died(prop, rc, out, cases, suffix="", note=""):
    """The harness process ended abnormally (Go fatal error, out of memory, killed): the case it was
    executing is reported as a violation with that case as the replay (on the unchanged tree the
    run completes); the cases completed before it are still compared.  Without a known current
    case the check is BROKEN."""
    cur = cur_case_path(prop, suffix)
    case = None
    if os.path.exists(cur):
        raw = open(cur, errors="replace").read()
        try:
            n = int(raw[:8]); case = raw[9:9 + n]
        except ValueError:
            case = None
    if not case:
        sys.stdout.write(out[-4000:])
        raise SystemExit("BROKEN: harness run failed (exit %d)" % rc)
    os.makedirs(os.path.join(VERIF, "evidence", "replays"), exist_ok=True)
    rp = os.path.join(VERIF, "evidence", "replays", "%s-harness-died%s.replay" % (prop, suffix))
    with open(rp, "w") as f:
        f.write("# replay for property %s: the process executing the cases ended abnormally (exit %d%s) while running the case below;\n" % (prop, rc, note))
        f.write("# on the unchanged tree the run completes.  Last output of the process:\n")
        for l in out[-1500:].splitlines()[-12:]:
            f.write("#   %s\n" % l)
        f.write("# re-run: ./check %s --replay %s\n" % (prop, os.path.relpath(rp, VERIF)))
        f.write(case + "\n")
    DIED.append("VIOLATION property=%s replay=%s" % (prop, os.path.relpath(rp, VERIF)))
    # keep the complete lines written so far
    if os.path.exists(cases):
        lines = open(cases, errors="replace").read().split("\n")
        good = [l for l in lines[:-1] if " => " in l]
        open(cases, "w").write("\n".join(good) + ("\n" if good else ""))
    else:
        open(cases, "w").write("")


def run_harness(prop, tier, seed, binary="harness", suffix=""):
    cases = os.path.join(BUILD, "%s%s.cases" % (prop, suffix))
    cur = cur_case_path(prop, suffix)
    if os.path.exists(cur):
        os.remove(cur)
    rc, out = sh([os.path.join(BUILD, binary), "gen", prop, tier, str(seed), cases], env=dict(GOENV, VERIF_CUR_CASE=cur), timeout=3000, check=False)
    if rc != 0:
        harness_died(prop, rc, out, cases, suffix)
    return cases


def run_driver(cases):
    out = cases + ".model"
    with open(out, "w") as f:
        p = subprocess.run([os.path.join(BUILD, "driver"), cases], stdout=f, stderr=subprocess.PIPE, text=True, timeout=3000)
    if p.returncode != 0:
        sys.stdout.write(p.stderr[-4000:])
        raise SystemExit("BROKEN: driver failed")
    return out


def load_known():
    p = os.path.join(VERIF, "known_findings.json")
    if not os.path.exists(p):
        return {"findings": [], "fixed": []}
    return json.load(open(p))


def classify(prop, cases_file, model_file):
    """Three-way comparison IMPL / MODEL / SPEC per case.  Returns a dict of buckets."""
    res = dict(n=0, ok=0, nontrivial=0, in_domain=0, known={}, violations=[], drift=[], fixed_seen={},
               kinds={}, outcomes={}, samples=[])
    with open(cases_file) as fc, open(model_file) as fm:
        for lineno, (lc, lm) in enumerate(zip(fc, fm), 1):
            lc = lc.rstrip("\n")
            parts = lm.rstrip("\n").split("\t")
            while len(parts) < 3:
                parts.append("")
            model, spec, cls = parts[0], parts[1], parts[2]
            i = lc.find(" => ")
            case, impl = lc[:i], lc[i + 4:]
            res["n"] += 1
            kind = case.split(" ", 1)[0]
            res["kinds"][kind] = res["kinds"].get(kind, 0) + 1
            oc = impl.split(":", 1)[0]
            res["outcomes"][oc] = res["outcomes"].get(oc, 0) + 1
            if model.startswith(("nokind", "badcase", "driver-exn")):
                raise SystemExit("BROKEN: driver cannot interpret case %r: %s" % (case, model))
            has_m, has_s = model != "-", spec != "-"
            if has_s and ("|W:" in impl or " # " in spec or spec.endswith("?")):
                # program observations: SPEC speaks about shapes and logical contents only, and only
                # up to the first step the property leaves open ("?")
                impl_p, spec_p = project_prog(impl, spec)
                model_p = project_prog(model, spec)[0] if has_m else None
            elif has_s and ("..." in spec or "=*" in spec):
                impl_p, spec_p = project_tokens(impl, spec)
                model_p = project_tokens(model, spec)[0] if has_m else None
            else:
                impl_p, spec_p, model_p = impl, spec, model
            rec = dict(line=lineno, case=case, impl=impl, model=model, spec=spec, cls=cls)
            if cls == "":
                res["in_domain"] += 1
                if oc == "ok":
                    res["nontrivial"] += 1
            # (SPEC hints are taken from the implementation's observation, so a MODEL/SPEC difference
            #  in the theorem domain is a machinery fault only when IMPL agrees with the MODEL;
            #  otherwise it is reported below as IMPL differing from MODEL)
            if cls == "" and has_m and has_s and model_p != spec_p and impl == model:
                raise SystemExit("BROKEN: MODEL and SPEC disagree inside the theorem domain on %r (model=%s spec=%s): the machinery is wrong" % (case, model, spec))
            if has_m and impl == model:
                if has_s and spec_p != impl_p:
                    res["known"].setdefault(cls or "UNCLASSIFIED", []).append(rec)
                else:
                    res["ok"] += 1
            elif has_m:
                if has_s and impl_p == spec_p:
                    if cls:
                        res["fixed_seen"].setdefault(cls, []).append(rec)
                    else:
                        res["drift"].append(rec)
                else:
                    res["violations"].append(rec)
            else:
                if has_s and impl_p != spec_p:
                    res["known"].setdefault(cls or "UNCLASSIFIED", []).append(dict(rec, speconly=True))
                else:
                    res["ok"] += 1
            if len(res["samples"]) < 6 and lineno % 997 == 1:
                res["samples"].append(lc)
    return res


_STRIP = re.compile(r"\|W:[^\]]*\]")


def project_prog(obs, spec):
    """Keep status + shape + logical contents of each step; cut both at the first '?' step of spec."""
    so = spec.split(" # ")
    oo = _STRIP.sub("]", obs).split(" # ")
    n = len(so)
    for i, s in enumerate(so):
        if s == "?":
            n = i
            break
    return " # ".join(oo[:n]), " # ".join(so[:n])


def project_tokens(obs, spec):
    """Token-wise projection: a spec ending in '...' speaks about a prefix only; a token 'x=*' is a wildcard."""
    st = spec.split(" ")
    prefix = st and st[-1] == "..."
    if prefix:
        st = st[:-1]
    ot = obs.split(" ")
    if prefix:
        ot = ot[:len(st)]
    if len(ot) == len(st):
        ot = [s if s.endswith("=*") and o.split("=")[0] == s.split("=")[0] else o for o, s in zip(ot, st)]
    return " ".join(ot), " ".join(st)


def write_replay(prop, tag, recs, note=""):
    d = os.path.join(VERIF, "evidence", "replays")
    os.makedirs(d, exist_ok=True)
    p = os.path.join(d, "%s-%s.replay" % (prop, tag))
    with open(p, "w") as f:
        f.write("# replay for property %s (%s)\n# re-run: ./check %s --replay %s\n" % (prop, note, prop, os.path.relpath(p, VERIF)))
        for r in recs[:50]:
            f.write("# model=%s spec=%s class=%s\n" % (r.get("model"), r.get("spec"), r.get("cls")))
            f.write("%s => %s\n" % (r["case"], r["impl"]))
    return os.path.relpath(p, VERIF)


def lookup_known(prop, cls):
    for k in load_known().get("findings", []):
        if (prop in k["properties"] or "*" in k["properties"]) and re.search(k["class_re"], cls):
            return k
    return None


def shrink_key(rec):
    return (len(rec["case"]), rec["case"])


def decide(prop, res, extra_violation_lines=None):
    """Print KNOWN-FINDING / VIOLATION lines; return the number of violations."""
    known = load_known()
    def lookup(cls):
        for k in known.get("findings", []):
            if (prop in k["properties"] or "*" in k["properties"]) and re.search(k["class_re"], cls):
                return k
        return None
    nviol = 0
    lines = []
    kf = {}
    for cls, recs in sorted(res["known"].items()):
        recs.sort(key=shrink_key)
        k = lookup(cls)
        if k is not None:
            kf.setdefault(k["id"], [k, 0, recs[0]])
            kf[k["id"]][1] += len(recs)
            if shrink_key(recs[0]) < shrink_key(kf[k["id"]][2]):
                kf[k["id"]][2] = recs[0]
        else:
            rp = write_replay(prop, "finding-" + re.sub(r"[^A-Za-z0-9_.-]", "_", cls), recs,
                              "implementation contradicts the property on these inputs; class not listed in known_findings.json")
            lines.append("VIOLATION property=%s replay=%s" % (prop, rp))
            nviol += 1
    for fid, (k, n, r0) in sorted(kf.items()):
        lines.append("KNOWN-FINDING: property=%s %s %s [%d cases this run; smallest: %s]"
                     % (prop, fid, k.get("what", ""), n, r0["case"][:200]))
    res["known_ids"] = {fid: n for fid, (k, n, r0) in kf.items()}
    if res["violations"]:
        recs = sorted(res["violations"], key=shrink_key)
        rp = write_replay(prop, "violation", recs, "IMPL differs from MODEL (and from SPEC where one exists) on these inputs")
        lines.append("VIOLATION property=%s replay=%s" % (prop, rp))
        nviol += 1
    elif res["drift"]:
        recs = sorted(res["drift"], key=shrink_key)
        rp = write_replay(prop, "drift", recs,
                          "correspondence corr:%s broken: IMPL = SPEC but MODEL differs; the theorems no longer describe this code; no input found on which the property fails"
                          % recs[0]["case"].split(" ")[0])
        lines.append("VIOLATION property=%s replay=%s no-failing-input-found" % (prop, rp))
        nviol += 1
    for l in (extra_violation_lines or []):
        lines.append(l)
        nviol += 1
    for l in lines:
        print(l)
    return nviol, lines


def write_evidence(prop, tier, seed, t0, res, obl, nviol, extra=None, assumptions=None, level="proof"):
    os.makedirs(os.path.join(VERIF, "evidence"), exist_ok=True)
    cov = dict(
        obligations=obl["obligations"], discharged=obl["discharged"], checker_cmd=obl["checker_cmd"],
        trusted_base=TRUSTED_BASE, theorems=obl["theorems"],
        evaluations=res["n"], distinct_nontrivial=res["nontrivial"],
        rule="cases are generated by harness/%s.go (deduplicated case strings; enumeration + seeded splitmix64); a case counts as non-trivial when it lies inside the hypotheses of the proved theorems (class '') and the real library accepted it with an ok: observation (a value, a window or a layout was actually compared), so rejected/near-miss inputs are not counted" % prop.lower(),
        samples=res["samples"], exhaustive=False,
        case_kinds=res["kinds"], impl_outcomes=res["outcomes"], in_theorem_domain=res["in_domain"],
        agree_with_model=res["ok"],
        known_finding_cases={k: len(v) for k, v in res["known"].items()},
        known_findings_reproduced=res.get("known_ids", {}),
        finding_no_longer_reproduces={k: len(v) for k, v in res["fixed_seen"].items()},
        model_drift_cases=len(res["drift"]), violation_cases=len(res["violations"]),
    )
    if extra:
        cov.update(extra)
    ev = dict(property_id=prop, tier=tier, seed=seed, level=level, coverage=cov,
              assumptions=assumptions or [], wall_s=round(time.time() - t0, 2), violations=nviol)
    with open(os.path.join(VERIF, "evidence", "%s.json" % prop), "w") as f:
        json.dump(ev, f, indent=1)
