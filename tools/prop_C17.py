"""C17 plug-in: regenerate the kernel table from /repo's generated sources with kx on every run,
re-check the reflection theorems of PropC17.v against it, and — when an obligation no longer
holds — name the offending kernels / dispatch rows (C17Query.v) for the violation report."""
import os, re, subprocess, sys
sys.path.insert(0, os.path.dirname(os.path.abspath(__file__)))
import vlib


def obligations(prop):
    kxdir = os.path.join(vlib.VERIF, "kx")
    with vlib.Lock("kx"):
        vlib.sh("timeout 600 go build -o %s ." % os.path.join(vlib.BUILD, "kx"), cwd=kxdir, env=vlib.GOENV)
        rc, out = vlib.sh([os.path.join(vlib.BUILD, "kx"), "-repo", vlib.REPO, "-out", vlib.COQ], env=vlib.GOENV, check=False)
    info = dict(kx_summary=[l for l in out.splitlines() if l.startswith(("TOTAL", "dispatch functions"))])
    failed = []
    if rc != 0:
        failed.append(("kx", "kx could not parse the generated sources: " + out[-400:]))
    names = re.findall(r"^Theorem\s+([A-Za-z0-9_']+)", open(os.path.join(vlib.COQ, "PropC17.v")).read(), re.M)
    detail = ""
    if not failed:
        with vlib.Lock("coq"):
            rc1, o1 = vlib.sh("timeout 900 coqc -Q . TV KernelTable.v", cwd=vlib.COQ, check=False)
            if rc1 != 0:
                failed.append(("KernelTable.v", "the generated table does not type-check: " + o1[-400:]))
            else:
                rc2, o2 = vlib.sh("timeout 1500 coqc -Q . TV PropC17.v", cwd=vlib.COQ, check=False)
                closed = o2.count("Closed under the global context")
                if rc2 != 0:
                    m = re.search(r'File "./PropC17.v", line (\d+)', o2)
                    ln = int(m.group(1)) if m else 0
                    src = open(os.path.join(vlib.COQ, "PropC17.v")).read().splitlines()
                    thm = ""
                    for i in range(min(ln, len(src)) - 1, -1, -1):
                        mm = re.match(r"Theorem\s+([A-Za-z0-9_']+)", src[i])
                        if mm:
                            thm = mm.group(1); break
                    rcq, oq = vlib.sh("timeout 1500 coqc -Q . TV C17Query.v", cwd=vlib.COQ, check=False)
                    detail = re.sub(r"\s+", " ", oq)[:3000]
                    failed.append((thm or "PropC17.v", "obligation no longer holds on the regenerated table; " + detail))
                else:
                    rc3, o3 = vlib.sh("timeout 600 coqc -Q . TV KernelSemCheck.v", cwd=vlib.COQ, check=False)
                    if rc3 != 0:
                        failed.append(("KernelSemCheck.v", o3[-300:]))
    ok = not failed
    obl = dict(obligations=len(names) + 2, discharged=(len(names) + 2) if ok else max(1, len(names) + 2 - len(failed)),
               theorems=names + ["KernelTable.v type-checks", "KernelSemCheck.v"], axioms=[],
               checker_cmd="kx -repo /repo -out coq && coqc KernelTable.v && coqc PropC17.v (vm_compute reflection, Print Assumptions) && coqc KernelSemCheck.v")
    obligations.failed = failed
    obligations.info = info
    return obl


def post(prop, tier, seed, res):
    extra = dict(kernel_table=getattr(obligations, "info", {}))
    viol = []
    failed = getattr(obligations, "failed", [])
    if failed:
        # a proof obligation over the regenerated table broke: the value sweep of this run is the
        # search for a failing input; report one if found, otherwise name the obligation
        bad_inputs = list(res["violations"]) + [r for c, v in res["known"].items() if vlib.lookup_known(prop, c) is None for r in v]
        d = os.path.join(vlib.VERIF, "evidence", "replays")
        os.makedirs(d, exist_ok=True)
        p = os.path.join(d, "C17-obligation.replay")
        with open(p, "w") as f:
            for thm, why in failed:
                f.write("# obligation %s: %s\n" % (thm, why))
            for r in bad_inputs[:20]:
                f.write("%s => %s\n" % (r["case"], r["impl"]))
        rel = os.path.relpath(p, vlib.VERIF)
        if bad_inputs:
            viol.append("VIOLATION property=C17 replay=%s" % rel)
        else:
            viol.append("VIOLATION property=C17 replay=%s no-failing-input-found" % rel)
        extra["failed_obligations"] = [t for t, _ in failed]
    # the generated mask predicates (dense_maskcmp_methods.go) are per-element-type instances too:
    # every instance must be the modelled template after renaming the type (tools/mask_uniform.py)
    pm = subprocess.run([sys.executable, os.path.join(vlib.VERIF, "tools", "mask_uniform.py"), vlib.REPO], capture_output=True, text=True)
    extra["mask_predicate_uniformity"] = dict(ok=(pm.returncode == 0))
    if pm.returncode != 0:
        d = os.path.join(vlib.VERIF, "evidence", "replays")
        os.makedirs(d, exist_ok=True)
        rp = os.path.join(d, "C17-mask-template.replay")
        bad_inputs = [r for r in list(res["violations"]) + [r for c, v in res["known"].items() if vlib.lookup_known(prop, c) is None for r in v] if r["case"].startswith("mk")]
        with open(rp, "w") as f:
            f.write("# obligation 'every element type's mask predicate is an instance of the one template' no longer holds (tools/mask_uniform.py):\n")
            for l in pm.stdout.strip().splitlines():
                f.write("# " + l + "\n")
            for r in bad_inputs[:20]:
                f.write("%s => %s\n" % (r["case"], r["impl"]))
        viol.append("VIOLATION property=C17 replay=%s%s" % (os.path.relpath(rp, vlib.VERIF), "" if bad_inputs else " no-failing-input-found"))
    return extra, viol, ["kx translator (go/ast, stdlib only) is trusted to transcribe the generated Go sources; it is deterministic and exits non-zero on parse errors",
                         "vecf32/vecf64 assembly kernels are opaque calls in the table (external code)"]
