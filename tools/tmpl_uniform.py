#!/usr/bin/env python3
"""Template uniformity of the GENERATED engine methods (genlib2 output in /repo):
defaultengine_arith.go (Add Sub Mul Div Pow Mod, and their Scalar forms), defaultengine_cmp.go
(Gt Gte Lt Lte ElEq ElNe, and Scalar forms), defaultengine_unary.go (Neg Inv ... Tanh ...),
defaultengine_minmax.go (MinBetween MaxBetween, Scalar forms).
The Coq model has ONE function per template (eng_arith_vv, eng_arith_scalar, eng_cmp_vv, eng_cmp_scalar,
eng_unary, eng_minmax_vv, eng_minmax_scalar) with the kernel as a parameter; this check shows that
every instance in the source IS that template: after replacing the operation's own name (and, for
comparisons, the name of its converse) by placeholders and dropping strings/comments, all bodies of
a family are textually identical (families are split by the type-class argument of the dtype
check, which is reported).  usage: tmpl_uniform.py <repo> [family-prefix ...]; exit 1 and a
report of the deviating functions (unified diff against the majority body) otherwise."""
import collections, difflib, os, re, sys

CONVERSE = {"Gt": "Lt", "Lt": "Gt", "Gte": "Lte", "Lte": "Gte", "ElEq": "ElEq", "ElNe": "ElNe", "Eq": "Eq", "Ne": "Ne"}
FILES = {
    "arith": ("defaultengine_arith.go", ["Add", "Sub", "Mul", "Div", "Pow", "Mod"]),
    "cmp": ("defaultengine_cmp.go", ["Gte", "Gt", "Lte", "Lt", "ElEq", "ElNe", "Eq", "Ne"]),
    "unary": ("defaultengine_unary.go", None),
    "minmax": ("defaultengine_minmax.go", ["MinBetween", "MaxBetween"]),
}


def funcs(path):
    s = open(path).read().replace("\r", "")
    return {m.group(1): m.group(0) for m in re.finditer(r"^func \(e StdEng\) (\w+)\(.*?\n.*?^}\n", s, re.S | re.M)}


def sub_name(body, name, repl):
    # the name as an identifier prefix: Gt must not touch Gte
    return re.sub(r"(?<![A-Za-z0-9_])%s(?![a-z])" % re.escape(name), repl, body)


def normalise(name, op, body):
    b = re.sub(r"//.*", "", body)
    b = re.sub(r'"[^"]*"', '""', b)
    if op in CONVERSE and CONVERSE[op] != op:
        b = sub_name(b, op, "\0OP\0")
        b = sub_name(b, CONVERSE[op], "\0INV\0")
        b = b.replace("\0OP\0", "OP").replace("\0INV\0", "INV")
    else:
        b = sub_name(b, op, "OP")
        if op in ("ElEq", "ElNe"):                 # their kernels are called Eq* / Ne*
            b = sub_name(b, op[2:], "OP")
    tc = re.findall(r"(?:unaryCheck|binaryCheck)\(\w+(?:, \w+)?, (\w+)\)", b)
    b = re.sub(r"((?:unaryCheck|binaryCheck)\(\w+(?:, \w+)?, )\w+\)", r"\1TYPECLASS)", b)
    return re.sub(r"[ \t]+\n", "\n", b), ",".join(tc)


def main():
    repo = sys.argv[1]
    want = sys.argv[2:] or list(FILES)
    bad = []
    report = []
    for fam in want:
        path, ops = FILES[fam]
        fs = funcs(os.path.join(repo, path))
        groups = collections.defaultdict(list)
        for name, body in fs.items():
            if ops is None:
                op, suffix = name, ""
            else:
                op = next((o for o in sorted(ops, key=len, reverse=True) if name.startswith(o)), None)
                if op is None:
                    continue
                suffix = name[len(op):]
                if op in ("Eq", "Ne"):
                    op_family = "ElEq" if op == "Eq" else "ElNe"
                    body = sub_name(body, op, op_family)   # EqScalar is ElEq's scalar form
                    op = op_family
            nb, tc = normalise(name, op, body)
            # equality comparisons accept more element types and need no converse: own sub-family
            sub = "eq" if op in ("ElEq", "ElNe") else ""
            groups[(fam, suffix, sub)].append((name, nb, tc))
        for key, members in sorted(groups.items()):
            cnt = collections.Counter(nb for _, nb, _ in members)
            major = cnt.most_common(1)[0][0]
            report.append("%s%s%s: %d instances, %d distinct bodies; type classes %s" % (
                key[0], "/" + key[1] if key[1] else "", "/" + key[2] if key[2] else "", len(members), len(cnt),
                sorted(set(tc for _, _, tc in members))))
            if ops is None:
                # the unary template has variants (with / without an iterator-free fast path); every
                # variant must have at least two instances
                for name, nb, _ in members:
                    if cnt[nb] == 1:
                        ref = max((x for x in cnt if x != nb), key=lambda x: difflib.SequenceMatcher(None, x, nb).ratio())
                        bad.append((name, path, "\n".join(difflib.unified_diff(ref.splitlines(), nb.splitlines(), "template", name, lineterm="", n=2))))
            else:
                for name, nb, _ in members:
                    if nb != major:
                        bad.append((name, path, "\n".join(difflib.unified_diff(major.splitlines(), nb.splitlines(), "template", name, lineterm="", n=2))))
    for r in report:
        print(r)
    for name, path, d in bad:
        print("DEVIATION %s in %s:\n%s" % (name, path, d))
    sys.exit(1 if bad else 0)


if __name__ == "__main__":
    main()
