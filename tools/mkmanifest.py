#!/usr/bin/env python3
"""Regenerates MANIFEST.json from tools/manifest_src.json (one entry per claimed property)."""
import json, os
V = os.path.dirname(os.path.dirname(os.path.abspath(__file__)))
src = json.load(open(os.path.join(V, "tools", "manifest_src.json")))
props = [json.loads(l)["id"] for l in open(os.path.join(V, "properties.jsonl"))]
checks, na = [], []
for p in props:
    c = src["claims"].get(p)
    if c is None:
        na.append({"property_id": p, "reason": src["unclaimed"].get(p, "check not built yet (work in progress; see DESIGN.md section 6)")})
        continue
    checks.append({
        "property_id": p,
        "quick_cmd": "./check %s quick" % p,
        "thorough_cmd": "./check %s thorough" % p,
        "evidence_file": "evidence/%s.json" % p,
        "replay_cmd_template": "./check %s --replay {path}" % p,
        "engine": "coq-model+correspondence",
        "level_claimed": {"category": c.get("category", "proof"), "text": c["text"], "design_ref": c.get("design_ref", "DESIGN.md section 6, " + p)},
        "level_note": c["note"],
        "technique": c.get("technique", "machine-checked proof in Coq over a Gallina model of the code, tied to /repo by a differential correspondence check (extracted model vs. real library on generated inputs)"),
    })
m = {
    "version": 1,
    "setup_cmd": "./tools/setup.sh",
    "hooks": src["hooks"],
    "engines": [{"name": "coq-model+correspondence", "path": "coq/ ocaml/ harness/ tools/ check",
                 "serves_properties": [c["property_id"] for c in checks],
                 "kind_free_text": "Coq 8.16 development (MODEL + SPEC + theorems), model extracted to OCaml, Go harness executing the same cases on /repo, three-way comparator"}],
    "checks": checks,
    "notes": src.get("notes", ""),
    "not_applicable": na,
}
json.dump(m, open(os.path.join(V, "MANIFEST.json"), "w"), indent=1)
print("claimed", len(checks), "unclaimed", len(na))
