#!/usr/bin/env python3
"""triage.py <PROP> [n]: classify _build/<PROP>.cases and print the smallest examples per bucket."""
import sys, os
sys.path.insert(0, os.path.dirname(os.path.abspath(__file__)))
import vlib
prop = sys.argv[1]; n = int(sys.argv[2]) if len(sys.argv) > 2 else 2
only = sys.argv[3] if len(sys.argv) > 3 else None
c = os.path.join(vlib.BUILD, prop + ".cases")
res = vlib.classify(prop, c, c + ".model")
print(res['n'], 'ok', res['ok'], 'viol', len(res['violations']), 'drift', len(res['drift']),
      {k: len(v) for k, v in res['known'].items()}, 'fixed', {k: len(v) for k, v in res['fixed_seen'].items()})
def firstdiff(a, b, la, lb):
    ai = a.split(' # '); bi = b.split(' # ')
    for i, (x, y) in enumerate(zip(ai, bi)):
        if x != y:
            print('    step', i, '\n     %s %s\n     %s %s' % (la, x[:400], lb, y[:400])); return
    print('    (length differs)', len(ai), len(bi))
for k, v in sorted(res['known'].items()):
    if only and only not in k: continue
    v.sort(key=vlib.shrink_key)
    print('== KNOWN-class', k, len(v))
    for r in v[:n]:
        print('  case', r['case'])
        a, b = vlib.project_prog(r['impl'], r['spec']) if ' # ' in r['spec'] or '|W:' in r['impl'] else (r['impl'], r['spec'])
        firstdiff(a, b, 'impl', 'spec')
if not only or only == 'VIOL':
    for r in sorted(res['violations'], key=vlib.shrink_key)[:n * 3]:
        print('VIOL', r['case'], 'cls=', r['cls'])
        firstdiff(r['impl'], r['model'], 'impl', 'modl')
if not only or only == 'DRIFT':
    for r in sorted(res['drift'], key=vlib.shrink_key)[:n * 3]:
        print('DRIFT', r['case'])
        firstdiff(r['impl'], r['model'], 'impl', 'modl')
