"""C20 plug-in: the case file generated (and executed) under the default build is executed again by
harness binaries built with -tags noasm and -tags inplacetranspose; each run is compared with the
same MODEL/SPEC (so the theorems are shown to describe every build), and with the default build's
observations line by line."""
import os, sys
sys.path.insert(0, os.path.dirname(os.path.abspath(__file__)))
import vlib

CONFIGS = [("noasm", "verif noasm"), ("inplacetranspose", "verif inplacetranspose")]


def obligations(prop):
    return vlib.prop_obligations(prop)


def post(prop, tier, seed, res):
    cases = os.path.join(vlib.BUILD, "%s.cases" % prop)
    extra, viol = {"builds": {"default": dict(cases=res["n"], agree=res["ok"])}}, []
    default_lines = open(cases).read().splitlines()
    for name, tags in CONFIGS:
        binary = "harness_" + name
        vlib.build_harness(tags=tags, out=binary)
        out = os.path.join(vlib.BUILD, "%s.%s.cases" % (prop, name))
        rc, o = vlib.sh([os.path.join(vlib.BUILD, binary), "replay", cases], env=vlib.GOENV, timeout=3000, check=False)
        if rc != 0:
            # the tagged build died on a case: that case is the replay; the lines before it are compared
            done = [l for l in o.split("\n")[:-1] if " => " in l]
            if len(done) >= len(default_lines):
                raise SystemExit("BROKEN: harness built with -tags '%s' failed: %s" % (tags, o[-2000:]))
            died = default_lines[len(done)].split(" => ")[0]
            rp = os.path.join(vlib.VERIF, "evidence", "replays", "%s-%s-harness-died.replay" % (prop, name))
            os.makedirs(os.path.dirname(rp), exist_ok=True)
            with open(rp, "w") as f:
                f.write("# replay for property %s: the harness built with -tags '%s' ended abnormally (exit %d) while running the case below;\n" % (prop, tags, rc))
                f.write("# the default build completes it.  Last output:\n")
                for l in o[-1500:].splitlines()[-10:]:
                    if " => " not in l:
                        f.write("#   %s\n" % l[:300])
                f.write("# re-run: VERIF_TAGS='%s' ./check %s --replay %s\n" % (tags, prop, os.path.relpath(rp, vlib.VERIF)))
                f.write(died + "\n")
            viol.append("VIOLATION property=%s replay=%s" % (prop, os.path.relpath(rp, vlib.VERIF)))
            o = "\n".join(done) + "\n"
        open(out, "w").write(o)
        model = vlib.run_driver(out)
        r = vlib.classify(prop, out, model)
        # line-by-line against the default build (observational equivalence of the builds)
        tagged = o.splitlines()
        def textual(case):
            if case.startswith("mk "):
                # a masked tensor: the in-place build transposes masks of matrices only
                sh = case.split(" ")[3].split(":")[2]
                return "mask-rank%d" % (0 if sh == "_" else len(sh.split(",")))
            if "new:cm" in case:
                return "col-major"
            if "slice:" in case:
                return "view-source"
            ops = case.split(" ")[-1].split(";")
            # two or more LAZY transpositions (a physical Transpose after one lazy T is the normal case)
            if sum(1 for o in ops if o.split(":")[0] in ("T", "safeT", "apitranspose", "rollaxis")) >= 2:
                return "composed-transposes"
            return "in-domain"
        dcls = []
        for l in open(cases + ".model"):
            parts = l.rstrip("\n").split("\t") + ["", "", "", ""]
            # the default build's finding class, else the first step outside the guarded domain
            dcls.append(parts[2] or (parts[3] and parts[3] + ":latent"))
        # class of a build difference: the build plus the class the DEFAULT build's case falls in
        # ("in-domain" = inside the hypotheses of the theorems)
        diff = [dict(case=a.split(" => ")[0], impl=b.split(" => ", 1)[1], model=a.split(" => ", 1)[1], spec="(default build)",
                     cls="c20.build.%s:%s" % (name, c or textual(a.split(" => ")[0])))
                for a, b, c in zip(default_lines, tagged, dcls) if a != b]
        extra["builds"][name] = dict(tags=tags, cases=r["n"], agree=r["ok"], differs_from_default=len(diff),
                                     violations=len(r["violations"]), drift=len(r["drift"]))
        difflines = set(d["case"] for d in diff)
        bad = [v for v in r["drift"] if v["case"] not in difflines]
        # a case that differs from the default build is reported once, as a build difference
        bad += [v for v in r["violations"] if v["case"] not in difflines]
        for cls, recs in r["known"].items():
            if vlib.lookup_known(prop, cls) is None:
                bad += [v for v in recs if v["case"] not in difflines]
        bydiff = {}
        for d in diff:
            bydiff.setdefault(d["cls"], []).append(d)
        for cls, recs in sorted(bydiff.items()):
            k = vlib.lookup_known(prop, cls)
            if k is None:
                bad += recs
            else:
                recs.sort(key=vlib.shrink_key)
                print("KNOWN-FINDING: property=%s %s %s [%d cases this run; smallest: %s]" % (prop, k["id"], k.get("what", ""), len(recs), recs[0]["case"][:200]))
        extra["builds"][name]["difference_classes"] = {c: len(v) for c, v in bydiff.items()}
        if bad:
            recs = sorted(bad, key=vlib.shrink_key)
            rp = vlib.write_replay(prop, name + "-violation", recs,
                                   "build with -tags '%s' (VERIF_TAGS='%s' ./check C20 --replay ...) differs from the default build / the model" % (tags, tags))
            viol.append("VIOLATION property=%s replay=%s" % (prop, rp))
    return extra, viol, ["the assembly divmod (divmod_amd64.s) and the vecf32/vecf64 assembly kernels are compared with their pure-Go versions by execution only (not modelled)",
                         "Float32Engine/Float64Engine code paths are not modelled: their observations are compared with the default engine's MODEL (differential)"]
