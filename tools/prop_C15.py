"""C15 plug-in: every run re-checks that the generated mask predicates of /repo are, per element type,
instances of the one template the Coq model (Masked.v k_pred) describes (tools/mask_uniform.py)."""
import os, subprocess, sys
sys.path.insert(0, os.path.dirname(os.path.abspath(__file__)))
import vlib


def post(prop, tier, seed, res):
    p = subprocess.run([sys.executable, os.path.join(vlib.VERIF, "tools", "mask_uniform.py"), vlib.REPO], capture_output=True, text=True)
    lines = p.stdout.strip().splitlines()
    extra = dict(mask_predicate_uniformity=dict(ok=(p.returncode == 0), summary=[l for l in lines if ": " in l and "kinds" in l]))
    viol = []
    if p.returncode != 0:
        d = os.path.join(vlib.VERIF, "evidence", "replays")
        os.makedirs(d, exist_ok=True)
        rp = os.path.join(d, "%s-template.replay" % prop)
        bad_inputs = list(res["violations"]) + [r for c, v in res["known"].items() if vlib.lookup_known(prop, c) is None for r in v]
        with open(rp, "w") as f:
            f.write("# obligation 'every element type's mask predicate is an instance of the modelled template' no longer holds (tools/mask_uniform.py):\n")
            for l in lines:
                f.write("# " + l + "\n")
            for r in bad_inputs[:20]:
                f.write("%s => %s\n" % (r["case"], r["impl"]))
        viol.append("VIOLATION property=%s replay=%s%s" % (prop, os.path.relpath(rp, vlib.VERIF), "" if bad_inputs else " no-failing-input-found"))
    return extra, viol, ["tools/mask_uniform.py: textual normalisation of the generated mask predicates (element type names, comments); trusted"]
