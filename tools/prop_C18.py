"""C18 plug-in: the concurrency cases are executed by a harness binary built with the Go race
detector (-race); race reports are written by the race runtime to a log (GORACE=log_path) that the
harness counts per case."""
import glob, os, sys
sys.path.insert(0, os.path.dirname(os.path.abspath(__file__)))
import vlib


def obligations(prop):
    return vlib.prop_obligations(prop)


def gen(prop, tier, seed):
    binary = vlib.build_harness(tags="verif", out="harness_race", extra="-race")
    log = os.path.join(vlib.BUILD, "race_log")
    for f in glob.glob(log + ".*"):
        os.remove(f)
    cur = vlib.cur_case_path(prop)
    if os.path.exists(cur):
        os.remove(cur)
    env = dict(vlib.GOENV, VERIF_RACE_LOG=log, GORACE="log_path=%s halt_on_error=0" % log, VERIF_CUR_CASE=cur)
    cases = os.path.join(vlib.BUILD, "%s.cases" % prop)
    rc, out = vlib.sh([binary, "gen", prop, tier, str(seed), cases], env=env, timeout=6000, check=False)
    if rc != 0 and rc != 66:   # 66 = the race runtime's exit code when reports were written
        vlib.harness_died(prop, rc, out, cases, note=", race-detector build")
    gen.reports = sum(open(f).read().count("WARNING: DATA RACE") for f in glob.glob(log + ".*"))
    gen.stacks = []
    for f in glob.glob(log + ".*"):
        for blk in open(f).read().split("==================")[:400]:
            fr = [l.strip().split("(")[0] for l in blk.splitlines() if l.strip().startswith("gorgonia.org/tensor.")]
            if fr:
                gen.stacks.append(fr[0])
    return cases


def post(prop, tier, seed, res):
    top = {}
    for s in getattr(gen, "stacks", []):
        top[s] = top.get(s, 0) + 1
    return (dict(race_reports=getattr(gen, "reports", 0),
                 racing_functions=dict(sorted(top.items(), key=lambda kv: -kv[1])[:12])), [],
            ["Go race detector (runtime/race, -race build) and the Go scheduler: the interleavings explored are those the runtime produces under GOMAXPROCS 1/2/4/16 with a yield after every step; a theorem cannot exhibit a runtime data race",
             "sequential oracle = the same program run alone on the same binary"])
