#!/bin/bash
# Runs the repository's pinned test suite with the verif guard OFF and summarises pass/fail.
# usage: tools/baseline.sh [repo-dir]
R=${1:-/repo}
export GOPROXY=off GOSUMDB=off GOTOOLCHAIN=local
cd "$R" && go test -mod=mod -json -vet=off -count=1 -timeout 25m ./... > /tmp/verif_baseline.json 2>/tmp/verif_baseline.err
python3 - <<'PY'
import json
p=f=0; failed=[]
for l in open('/tmp/verif_baseline.json'):
    try: e=json.loads(l)
    except Exception: continue
    if e.get('Test') and e.get('Action') in ('pass','fail'):
        if e['Action']=='pass': p+=1
        else: f+=1; failed.append(e['Package']+'::'+e['Test'])
print('passed',p,'failed',f,failed)
PY
rm -f /tmp/verif_baseline.json /tmp/verif_baseline.err
