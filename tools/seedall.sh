#!/bin/bash
# Re-runs every seeded change against the current checks (its own property's quick check, plus the
# check that caught it where its own did not at first).  /repo must be clean.  ~1 h.
# (the demonstrations were confirmed to fail when each change was first imported; skipped here)
cd "$(dirname "$0")/.."
declare -A EXTRA=( [C06-2]=C17 [C07-3]=C09 [C11-1]=C17 [C17-3]=C15 [r2-C08-2]=C17 [r2-C11-2]=C17 [r2-C17-3]=C15 [r3-C06-3]=C17 [r3-C07-2]=C17 [r3-C11-1]=C17 [r3-C12-1]=C17 [r3-C12-2]=C17 [r4-C06-1]=C17 [r4-C07-3]=C17 [r4-C11-1]=C17 [r4-C11-3]=C17 [r4-C12-3]=C17 [r4-C17-3]=C04 [r3-C01-3]=C19 [r3-C17-2]=C04 [C15-3]=C12 [r5-C01-2]=C03 [r5-C01-3]=C02 [r5-C05-3]=C15 [r5-C06-1]=C17 [r5-C06-2]=C17 [r5-C11-3]=C17 [r5-C15-1]=C19 [r5-C07-2]=C09 [r6-C01-1]=C19 )
for d in seeded/*/; do
  b=$(basename "$d")
  [ -f "$d/meta.json" ] || continue
  rm -f "$d/result.json"
  p=$(python3 -c "import json;print(json.load(open('$d/meta.json'))['property'])")
  SEED_SKIP_DEMO=1 tools/seedrun.py "$d" $p ${EXTRA[$b]} 2>&1 | head -1
done
python3 tools/mkreport.py
