from prop_tmpl import post  # noqa: F401 (template uniformity of the generated engine methods)
