#!/usr/bin/env python3
"""Regenerates the machine-written tables of DESIGN.md (between <!-- BEGIN:x --> / <!-- END:x --> markers)
from known_findings.json, seeded/*/ and evidence/*.json."""
import glob, json, os, re
V = os.path.dirname(os.path.dirname(os.path.abspath(__file__)))
K = json.load(open(os.path.join(V, "known_findings.json")))

def esc(s):
    return str(s).replace("|", "\\|").replace("\n", " ")

def findings():
    out = ["| id | properties | class (regex) | what fails | witness (replayable case) |", "|---|---|---|---|---|"]
    for f in K["findings"]:
        out.append("| %s | %s | `%s` | %s | `%s` |" % (f["id"], ",".join(f["properties"]), esc(f["class_re"]), esc(f["what"]), esc(f["witness"])[:160]))
    return "\n".join(out)

def fixed():
    return "\n".join("* " + esc(x) for x in K["fixed"])

FR = json.load(open(os.path.join(V, "seeded", "first_run.json")))


def seeded():
    out = ["| seed | file / kind | what breaks | caught by (quick checks, after strengthening) | first run |", "|---|---|---|---|---|"]
    def key(d):
        m = re.match(r".*/(r(\d)-)?C(\d+)-(\d+)$", d)
        return (int(m.group(2)) if m.group(1) else 1, int(m.group(3)), int(m.group(4)))
    for d in sorted([x for x in glob.glob(os.path.join(V, "seeded", "*")) if os.path.isdir(x)], key=key):
        if not os.path.exists(os.path.join(d, "meta.json")):
            continue
        m = json.load(open(os.path.join(d, "meta.json")))
        r = json.load(open(os.path.join(d, "result.json"))) if os.path.exists(os.path.join(d, "result.json")) else {}
        b = os.path.basename(d)
        first = "missed" if b in FR["missed"] else "stopped as BROKEN" if b in FR["broken"] else ("missed; caught by " + FR["other"][b]) if b in FR["other"] else "caught"
        out.append("| %s | %s (%s) | %s | %s | %s |" % (os.path.basename(d), esc(",".join(m.get("files", [])))[:60], esc(m.get("kind", "")),
                                                     esc(m.get("what_breaks", m.get("title", "")))[:200], ", ".join(r.get("caught_by", [])) or "**missed**", esc(first)))
    return "\n".join(out)

def status():
    out = ["| property | theorems (closed under the global context) | quick cases | agree | known-finding cases | s |", "|---|---|---|---|---|---|"]
    for p in ["C%02d" % i for i in range(1, 21)]:
        f = os.path.join(V, "evidence", p + ".json")
        if not os.path.exists(f):
            continue
        e = json.load(open(f)); c = e["coverage"]
        kf = c.get("known_finding_cases")
        kfn = sum(kf.values()) if isinstance(kf, dict) else (kf or 0)
        out.append("| %s | %s/%s | %s | %s | %s in %s classes | %s |" % (p, c.get("discharged"), c.get("obligations"), c.get("evaluations"), c.get("agree_with_model"),
                                                      kfn, len(kf) if isinstance(kf, dict) else "-", e.get("wall_s", "")))
    return "\n".join(out)

tables = dict(findings=findings(), fixed=fixed(), seeded=seeded(), status=status())
p = os.path.join(V, "DESIGN.md")
s = open(p).read()
for k, v in tables.items():
    s, n = re.subn(r"(<!-- BEGIN:%s -->\n).*?(<!-- END:%s -->)" % (k, k), lambda m: m.group(1) + v + "\n" + m.group(2), s, flags=re.S)
    if n == 0:
        print("marker missing:", k)
open(p, "w").write(s)
print("DESIGN.md tables refreshed")
