#!/usr/bin/env python3
"""Per-element-type uniformity of the GENERATED mask predicates (dense_maskcmp_methods.go):
inside every Masked<Pred> method, all `case reflect.<Kind>:` bodies must be the same template after
replacing the element type's own names (int8 / Int8s / Int8) by placeholders.  The Coq model
(Masked.v k_pred) has ONE body with the element predicate as a parameter; this check is what licenses
that.  Across methods, the bodies must differ from MaskedEqual's only in the comparison expression.
usage: mask_uniform.py <repo>; exit 1 with a report otherwise."""
import collections, difflib, os, re, sys

KINDS = ["Int", "Int8", "Int16", "Int32", "Int64", "Uint", "Uint8", "Uint16", "Uint32", "Uint64", "Float32", "Float64", "String"]


def main():
    repo = sys.argv[1]
    s = open(os.path.join(repo, "dense_maskcmp_methods.go")).read().replace("\r", "")
    bad = []
    for m in re.finditer(r"^func \(t \*Dense\) (Masked\w+)\(.*?\n(.*?)^}\n", s, re.S | re.M):
        name, body = m.group(1), m.group(2)
        parts = re.split(r"^\tcase reflect\.(\w+):\n", body, flags=re.M)
        cases = {parts[i]: parts[i + 1] for i in range(1, len(parts) - 1, 2)}
        norm = {}
        for kind, b in cases.items():
            low = kind.lower()
            b = b.replace("float64(", "F64(")          # conversions for math.Abs are part of the template
            b = re.sub(r"\b%ss\(\)" % kind, "TS()", b)
            b = re.sub(r"\b%s\b" % low, "T", b)
            b = re.sub(r"\b%s\b" % kind, "K", b)
            b = re.sub(r"//.*", "", b)
            b = re.split(r"^\t}\n", b, flags=re.M)[0]         # the last case runs into the switch's end
            norm[kind] = re.sub(r"[ \t]+\n", "\n", b).strip()
        # float and non-float kinds may legitimately differ (MaskedValues: tolerances); majority per group
        for group in (["Float32", "Float64"], [k for k in KINDS if not k.startswith("Float")]):
            bodies = {k: norm[k] for k in group if k in norm}
            if len(bodies) < 2:
                continue
            cnt = collections.Counter(bodies.values())
            major = cnt.most_common(1)[0][0]
            for k, b in bodies.items():
                if b != major:
                    bad.append((name, k, "\n".join(difflib.unified_diff(major.splitlines(), b.splitlines(), "template", "%s/%s" % (name, k), lineterm="", n=1))))
        print("%s: %d kinds, %d distinct bodies" % (name, len(norm), len(set(norm.values()))))
    for name, k, d in bad:
        print("DEVIATION %s case reflect.%s:\n%s" % (name, k, d))
    sys.exit(1 if bad else 0)


if __name__ == "__main__":
    main()
