#!/bin/bash
# setup_cmd: build the whole framework from files on disk, offline.
set -e
cd "$(dirname "$0")/.."
export GOFLAGS=-mod=mod GOPROXY=off GOSUMDB=off GOTOOLCHAIN=local
python3 - <<'PY'
import sys, os
sys.path.insert(0, 'tools')
import vlib
vlib.build_coq()
vlib.build_driver()
vlib.build_harness()
# warm the Go build cache for the other configurations the checks build (C18: race detector;
# C20: the tagged builds; C17: the translator), so that their first run does not pay for it
vlib.build_harness(tags="verif", out="harness_race", extra="-race")
vlib.build_harness(tags="verif noasm", out="harness_noasm")
vlib.build_harness(tags="verif inplacetranspose", out="harness_inplacetranspose")
vlib.sh("timeout 600 go build -o %s ." % os.path.join(vlib.BUILD, "kx"), cwd=os.path.join(vlib.VERIF, "kx"), env=vlib.GOENV)
print("setup ok")
PY
