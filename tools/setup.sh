#!/bin/bash
# setup_cmd: build the whole framework from files on disk, offline.
set -e
cd "$(dirname "$0")/.."
export GOFLAGS=-mod=mod GOPROXY=off GOSUMDB=off GOTOOLCHAIN=local
python3 - <<'PY'
import sys, os
sys.path.insert(0, 'tools')
import vlib
vlib.build_coq()
vlib.build_driver()
vlib.build_harness()
print("setup ok")
PY
