#!/usr/bin/env python3
"""Runs the checks against a seeded property-breaking change.
usage: tools/seedrun.py <seeded-dir> [prop ...]   (default: the property in meta.json)
Applies <dir>/patch.diff to /repo (git apply), confirms the demonstration fails, runs ./check <prop> quick
for each property, restores /repo (git checkout -- .), and writes <dir>/result.json."""
import json, os, signal, subprocess, sys, shutil
signal.signal(signal.SIGTERM, lambda *a: sys.exit(143))   # let the finally block restore /repo and evidence/
V = os.path.dirname(os.path.dirname(os.path.abspath(__file__)))
d = os.path.abspath(sys.argv[1])
meta = json.load(open(os.path.join(d, "meta.json")))
props = sys.argv[2:] or [meta["property"]]
env = dict(os.environ, GOFLAGS="-mod=mod", GOPROXY="off", GOSUMDB="off", GOTOOLCHAIN="local")
def sh(cmd, cwd=None, timeout=3000):
    p = subprocess.run(cmd, shell=True, cwd=cwd, env=env, capture_output=True, text=True, timeout=timeout)
    return p.returncode, p.stdout + p.stderr
assert sh("git -C /repo status --porcelain")[1].strip() == "", "/repo not clean"
# evidence files must describe clean-tree runs only: keep them aside while the seeded tree is checked
EVB = os.path.join(V, "_build", "evidence.keep")
shutil.rmtree(EVB, ignore_errors=True)
shutil.copytree(os.path.join(V, "evidence"), EVB)
rc, out = sh("git -C /repo apply %s" % os.path.join(d, "patch.diff"))
res = {"applied": rc == 0, "apply_out": out[-400:], "checks": {}}
try:
    if rc == 0:
        demo = os.path.join(d, "demo_test.go")
        if os.path.exists(demo) and not os.environ.get("SEED_SKIP_DEMO"):
            shutil.copy(demo, "/repo/zz_seed_demo_test.go")
            rcd, outd = sh("go test -vet=off -count=1 -run TestSeedDemo .", cwd="/repo")
            os.remove("/repo/zz_seed_demo_test.go")
            res["demo_fails_with_change"] = rcd != 0
        for p in props:
            rcc, outc = sh("./check %s quick" % p, cwd=V)
            viol = [l for l in outc.splitlines() if l.startswith("VIOLATION")]
            res["checks"][p] = {"exit": rcc, "violations": viol[:6], "summary": outc.strip().splitlines()[-1][:200] if outc.strip() else ""}
finally:
    sh("git -C /repo checkout -- .")
    sh("rm -f /repo/zz_seed_demo_test.go")
    shutil.rmtree(os.path.join(V, "evidence"), ignore_errors=True)
    shutil.copytree(EVB, os.path.join(V, "evidence"))
    shutil.rmtree(EVB, ignore_errors=True)
res["caught_by"] = [p for p, r in res["checks"].items() if r["exit"] != 0 and r["violations"]]
prev = {}
rp = os.path.join(d, "result.json")
if os.path.exists(rp):
    prev = json.load(open(rp))
    prev_checks = prev.get("checks", {})
    prev_checks.update(res["checks"])
    res["checks"] = prev_checks
    res["caught_by"] = sorted(set(prev.get("caught_by", [])) | set(res["caught_by"]))
json.dump(res, open(rp, "w"), indent=1)
print(os.path.basename(d), "applied" if res["applied"] else "NOT-APPLIED", "demo_fails=%s" % res.get("demo_fails_with_change"), "caught_by=%s" % res["caught_by"])
for p, r in res["checks"].items():
    print("  ", p, "exit", r["exit"], r["summary"])
