"""Shared plug-in of C06/C07/C11/C12: besides the correspondence, every run re-checks that the
GENERATED engine methods of /repo are instances of the one template the Coq model describes
(tools/tmpl_uniform.py).  A deviating instance means the theorems (stated for the template with the
kernel as a parameter) no longer cover that operation: reported as a violation, with the failing
inputs of the same run when the correspondence found some, otherwise no-failing-input-found."""
import os, subprocess, sys
sys.path.insert(0, os.path.dirname(os.path.abspath(__file__)))
import vlib

FAMILIES = {"C06": ["arith", "minmax"], "C07": ["arith", "cmp", "unary", "minmax"], "C11": ["cmp"], "C12": ["unary"]}


def post(prop, tier, seed, res):
    fams = FAMILIES[prop]
    p = subprocess.run([sys.executable, os.path.join(vlib.VERIF, "tools", "tmpl_uniform.py"), vlib.REPO] + fams,
                       capture_output=True, text=True)
    lines = p.stdout.strip().splitlines()
    summary = [l for l in lines if not l.startswith(("DEVIATION", "---", "+++", "@@", " ", "+", "-"))]
    extra = dict(template_uniformity=dict(families=fams, ok=(p.returncode == 0), summary=summary))
    viol = []
    if p.returncode != 0:
        d = os.path.join(vlib.VERIF, "evidence", "replays")
        os.makedirs(d, exist_ok=True)
        rp = os.path.join(d, "%s-template.replay" % prop)
        bad_inputs = list(res["violations"]) + [r for c, v in res["known"].items() if vlib.lookup_known(prop, c) is None for r in v]
        with open(rp, "w") as f:
            f.write("# obligation 'generated engine methods are instances of the modelled template' no longer holds (tools/tmpl_uniform.py %s):\n" % " ".join(fams))
            for l in lines:
                f.write("# " + l + "\n")
            for r in bad_inputs[:20]:
                f.write("%s => %s\n" % (r["case"], r["impl"]))
        rel = os.path.relpath(rp, vlib.VERIF)
        viol.append("VIOLATION property=%s replay=%s%s" % (prop, rel, "" if bad_inputs else " no-failing-input-found"))
    return extra, viol, ["tools/tmpl_uniform.py: textual normalisation of the generated engine methods (operation name, converse name, type class, strings, comments); trusted"]
