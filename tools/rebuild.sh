#!/bin/bash
# quick developer rebuild: coq (make), extraction, driver, harness
set -e
cd /verif/coq && { [ -f Makefile ] && [ Makefile -nt _CoqProject ] || coq_makefile -f _CoqProject -o Makefile >/dev/null; } && make -j16 > /tmp/verif_make.log 2>&1 || { grep -v "^COQ\|^CO" /tmp/verif_make.log | head -30; exit 1; }
cd /verif/ocaml && coqc -Q ../coq TV ../coq/Extract.v && ocamlfind ocamlopt -package str -linkpkg -O2 -w -a model.mli model.ml proto.ml prog.ml $(ls drv_*.ml) driver.ml -o /verif/_build/driver && rm -f *.cm* *.o
cd /verif/harness && GOFLAGS=-mod=mod GOPROXY=off GOSUMDB=off GOTOOLCHAIN=local go build -tags verif -o /verif/_build/harness .
