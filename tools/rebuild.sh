#!/bin/bash
# dev rebuild: Coq development (make), extraction + OCaml driver, Go harness. Paths relative to this checkout.
set -e
V="$(cd "$(dirname "$0")/.." && pwd)"
mkdir -p "$V/_build"
cd "$V/coq" && { [ -f Makefile ] && [ Makefile -nt _CoqProject ] || coq_makefile -f _CoqProject -o Makefile >/dev/null; } && make -j16 > "$V/_build/make.log" 2>&1 || { grep -v "^COQ\|^CO" "$V/_build/make.log" | head -30; exit 1; }
cd "$V/ocaml" && coqc -Q ../coq TV ../coq/Extract.v && ocamlfind ocamlopt -package str -linkpkg -O2 -w -a model.mli model.ml proto.ml prog.ml $(ls drv_*.ml) driver.ml -o "$V/_build/driver" && rm -f *.cm* *.o
cd "$V/harness" && GOFLAGS=-mod=mod GOPROXY=off GOSUMDB=off GOTOOLCHAIN=local go build -tags verif -o "$V/_build/harness" .
