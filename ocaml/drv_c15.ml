(* C15 — masks.  case: mk <dt> <t> <prog> <mops>   (see harness/c15.go for the step language)
   MODEL: coq/Masked.v k_* on a masked tensor value; SPEC: coq/Masked.v ks_* on the logical array
   (shape, row-major elements, row-major mask bits; unmasked = all bits false). *)
open Model
type string = Stdlib.String.t  (* Model defines Coq's string inductive; keep OCaml's name *)
open Proto

(* ---- element types ---- *)
let is_float dt = dt = "f32" || dt = "f64"
let has_case dt = not (List.mem dt ["b"; "c64"; "c128"])    (* the generated switch: ordered kinds only *)
let str_of_tok (k : z) = "s" ^ string_of_int (int_of_z k)
let cmp_of dt : (z -> z -> bool) * (z -> z -> bool) * (z -> z -> bool) =
  if dt = "str" then
    ((fun a b -> str_of_tok a = str_of_tok b),
     (fun a b -> compare (str_of_tok a) (str_of_tok b) < 0),
     (fun a b -> compare (str_of_tok a) (str_of_tok b) <= 0))
  else if dt = "b" then
    ((fun a b -> pv "b" a = pv "b" b), (fun a b -> pv "b" a < pv "b" b), (fun a b -> pv "b" a <= pv "b" b))
  else
    ((fun a b -> int_of_z a = int_of_z b), (fun a b -> int_of_z a < int_of_z b), (fun a b -> int_of_z a <= int_of_z b))

(* Dense.FillValue() as a token (valTok of the harness) *)
let fill_token dt =
  match dt with
  | "i" | "i32" | "i64" | "u" | "u32" | "u64" -> 999999
  | "i8" | "u8" -> 99
  | "i16" | "u16" -> 9999
  | "b" -> 1
  | "str" -> -999999
  | "f32" | "f64" | "c64" | "c128" -> 88888888
  | _ -> failwith "no fill token"

(* ---- printing ---- *)
let bits_str (l : bool list) = if l = [] then "_" else String.concat "" (List.map (fun b -> if b then "1" else "0") l)
let bits_of (s : string) : bool list =
  if s = "_" || s = "-" then [] else List.init (String.length s) (fun i -> s.[i] = '1')

let cell dt (r : z res) = match r with Ok v -> string_of_int (pv dt v) | Err -> "E" | Panic -> "P"
let mcell (r : bool res) = match r with Ok true -> "1" | Ok false -> "0" | Err -> "E" | Panic -> "P"

let obs_model dt (t : z mten) : string =
  let ls = List.map (cell dt) (k_logical t) and ks = List.map mcell (k_logical_mask t) in
  Printf.sprintf "[%s|L:%s|K:%s|W:%s;%d]" (fzs t.mt_ap.shp)
    (if ls = [] then "_" else String.concat "," ls)
    (if ks = [] then "_" else String.concat "" ks)
    (bits_str t.mt_mask) (if k_is_masked t then 1 else 0)

type sstate = { sh : z list; d : z list; m : bool list; soft : bool }
let obs_spec dt (s : sstate) : string =
  Printf.sprintf "[%s|L:%s|K:%s]" (fzs s.sh)
    (if s.d = [] then "_" else String.concat "," (List.map (fun v -> string_of_int (pv dt v)) s.d))
    (if s.m = [] then "_" else bits_str s.m)

let strip_w = Str.regexp "|W:[^]]*\\]"
let project s = Str.global_replace strip_w "]" s

let redval_str in_tensor = function
  | RVInt z -> string_of_int (int_of_z z)
  | RVBool b -> if in_tensor then (if b then "1" else "0") else (if b then "true" else "false")
let redres_str = function
  | RScalar v -> redval_str false v
  | RTensor (sh, vs) -> "(" ^ fzs sh ^ ")" ^ String.concat "," (List.map (redval_str true) vs)
let runs_str (l : (z * z) list) =
  if l = [] then "_" else String.concat "," (List.map (fun (a, b) -> Printf.sprintf "%d-%d" (int_of_z a) (int_of_z b)) l)

let logical_ok (t : z mten) : (z list * bool list) option =
  let d = k_logical t and m = k_logical_mask t in
  if List.for_all (function Ok _ -> true | _ -> false) d && List.for_all (function Ok _ -> true | _ -> false) m
  then Some (List.map (function Ok v -> v | _ -> Z0) d, List.map (function Ok b -> b | _ -> false) m)
  else None

(* ---- guards (state before the step) ---- *)
let layout_guard (t : z mten) : string =
  let a = t.mt_ap in
  if not (k_is_masked t) then "unmasked"
  else if mt_len t <> mt_size t && not (is_scalar a.shp) then "window"
  else if t.mt_old <> None then "transposed"
  else if a.str <> calc_strides a.shp && not (is_vector a.shp) then "strided"
  else ""

let is_perm (dims : int) (axes : int list) =
  axes = [] || (List.length axes = dims && List.sort compare axes = List.init dims (fun i -> i))

let slices_valid (sh : z list) (sls : slice list) =
  List.length sls <= List.length sh &&
  List.for_all2 (fun sz sl -> slice_details sl sz <> None)
    sh (sls @ List.init (List.length sh - List.length sls) (fun _ -> None))

(* one step: returns (model string, new model state option (None = stop), spec string, new spec state, guard) *)
type stepres = { ms : string; mt' : z mten option; ss : string; st' : sstate; guard : string }

let step dt (impl_step : string) (t : z mten) (s : sstate) (op : string) : stepres =
  let f = Prog.fields op in
  let zi i = z_of_int (int_of_string f.(i)) in
  let is_str = dt = "str" in
  let (veq, vlt, vle) = cmp_of dt in
  let impl_err = String.length impl_step >= 3 && String.sub impl_step 0 3 = "err" in
  (* state-changing step with a res mten model result and a spec state *)
  let change (r : z mten res) (s' : sstate) (spec_refuses : bool) guard =
    let ss = if spec_refuses then "err " ^ obs_spec dt s else "ok " ^ obs_spec dt s' in
    let st' = if spec_refuses then s else s' in
    match r with
    | Ok t' -> { ms = "ok " ^ obs_model dt t'; mt' = Some t'; ss; st'; guard }
    | Err -> { ms = "err " ^ obs_model dt t; mt' = Some t; ss; st'; guard }
    | Panic -> { ms = "panic"; mt' = None; ss; st'; guard } in
  let query (mv : string res) (sv : string) guard =
    let ms = match mv with Ok v -> "ok=" ^ v | Err -> "err" | Panic -> "panic" in
    { ms; mt' = Some t; ss = "ok=" ^ sv; st' = s; guard } in
  let pred (q : z mpred) =
    let p = pred_fn veq vlt vle z_within q in
    let float_only = (match q with PValues _ -> true | _ -> false) in
    let r = k_masked veq vlt vle z_within (is_float dt) (has_case dt) q t in
    let refuse = float_only && not (is_float dt) && impl_err in
    let s' = { s with m = ks_pred s.soft p s.d s.m } in
    let guard =
      if not (has_case dt) then "dtype-nocase"
      else if not (k_is_masked t) && mt_len t <> mt_size t then "view-nomask"
      else "" in
    change r s' refuse guard in
  let axis_of () = if Array.length f > 1 then Some (int_of_string f.(1)) else None in
  let reduce (fn : redfn) (sf : bool list -> redval) =
    let ax = axis_of () in
    let mv = (match k_reduce fn t (match ax with None -> None | Some a -> Some (z_of_int a)) with
        | Ok r -> Ok (redres_str r) | Err -> Err | Panic -> Panic) in
    let dims = List.length s.sh in
    let veclike sh = List.length (List.filter (fun d -> int_of_z d <> 1) sh) <= 1 in
    let sv, guard =
      match ax with
      | None -> redval_str false (sf s.m), layout_guard t
      | Some a when a >= dims -> "-1", (if is_vector s.sh then "axis-vector" else "axis-range")
      | Some a when a < 0 -> "-1", (if is_vector s.sh then "axis-vector" else "axis-negative")
      | Some a ->
        let (rsh, vals) = ks_reduce_axis sf s.sh (nat_of_int a) s.m in
        let g = if is_vector s.sh then (if dims = 1 then layout_guard t else "axis-vector")
          else if veclike rsh then "axis-veclike-result" else layout_guard t in
        (if rsh = [] then redval_str false (List.hd vals)
         else "(" ^ fzs rsh ^ ")" ^ String.concat "," (List.map (redval_str true) vals)), g in
    query mv sv guard in
  let res_map_str g = function Ok v -> Ok (g v) | Err -> Err | Panic -> Panic in
  match f.(0) with
  | "setmask" | "mfs" ->
    let t' = if f.(0) = "setmask" then k_setmask t (bits_of f.(1)) else k_mask_from_slice t (bits_of f.(1)) in
    (* raw API: the logical mask it denotes is read through the access pattern *)
    let m' = (match logical_ok t' with Some (_, m) -> m | None -> s.m) in
    change (Ok t') { s with m = m' } false ""
  | "mfd" ->
    let bm = bits_of f.(1) in
    let n = int_of_z (size s.sh) in
    let b_masked = List.length bm = n in
    let t' = k_mask_from_dense t b_masked bm in
    (* SPEC: the argument's mask (row-major over the same shape) is added to the tensor's *)
    let m' = if b_masked then List.map2 (||) s.m bm else s.m in
    change (Ok t') { s with m = m' } false (if is_scalar s.sh then "scalar"
       else if t.mt_old <> None || (t.mt_ap.str <> calc_strides t.mt_ap.shp && not (is_vector t.mt_ap.shp)) then "layout-differs"
       else "")
  | "soft" | "hard" ->
    let b = f.(0) = "soft" in
    { ms = "ok"; mt' = Some (with_soft t b); ss = "ok"; st' = { s with soft = b }; guard = "" }
  | "reset" ->
    let v = f.(1) = "1" in
    change (Ok (k_reset t v)) { s with m = List.map (fun _ -> v) s.m } false
      (if not (k_is_masked t) && mt_len t <> mt_size t then "view-nomask" else "")
  | "eq" -> pred (PEq (zi 1))
  | "ne" -> pred (PNe (zi 1))
  | "gt" -> pred (PGt (zi 1))
  | "ge" -> pred (PGe (zi 1))
  | "lt" -> pred (PLt (zi 1))
  | "le" -> pred (PLe (zi 1))
  | "in" -> pred (PInside (zi 1, zi 2))
  | "out" -> pred (POutside (zi 1, zi 2))
  | "val" -> pred (PValues (zi 1, zi 2, if Array.length f > 3 then Some (zi 3) else None))
  | "T" ->
    let axes = zs f.(1) in
    let valid = is_perm (List.length s.sh) (List.map int_of_z axes) in
    let s' = if valid then { s with sh = ks_T_shape axes s.sh; d = ks_T Z0 axes s.sh s.d; m = ks_T false axes s.sh s.m } else s in
    change (k_T is_str t axes) s' (not valid)
      (if t.mt_old <> None then "retranspose" else if is_str && t.mt_old <> None then "string" else "")
  | "safet" | "apitr" ->
    (* the copying spellings: Dense.SafeT / tensor.T (a copy carrying the lazy transpose) and
       tensor.Transpose (the copy transposed physically); the mask goes with the copy *)
    let axes = zs f.(1) in
    let valid = is_perm (List.length s.sh) (List.map int_of_z axes) in
    let s' = if valid then { s with sh = ks_T_shape axes s.sh; d = ks_T Z0 axes s.sh s.d; m = ks_T false axes s.sh s.m; soft = false } else s in
    let c = with_soft { (k_clone t) with mt_old = None } false in
    let r = (match k_T is_str c axes with
        | Ok c' when f.(0) = "apitr" && c'.mt_old <> None -> k_transpose is_str c'
        | x -> x) in
    change r s' (not valid)
      (if t.mt_old <> None then "retranspose" else if t.mt_view then "view" else "")
  | "transpose" ->
    change (k_transpose is_str t) s false (if is_str then "string" else if t.mt_view then "view" else "")
  | "slice" | "slinto" ->
    let sls = Prog.parse_slices f.(1) in
    let valid = slices_valid s.sh sls in
    let s' = if valid then
        let (sh', d') = ks_slice Z0 s.sh sls s.d in
        let (_, m') = ks_slice false s.sh sls s.m in
        { s with sh = sh'; d = d'; m = m' } else s in
    (match k_slice t sls with
     | Ok t' -> change (Ok t') { s' with soft = false } (not valid) (if t.mt_old <> None then "transposed" else "")
     | Err -> change Err s' (not valid) ""
     | Panic -> change Panic s' (not valid) "")
  | "clone" -> change (Ok (k_clone t)) { s with soft = false } false ""
  | "mat" -> change (k_materialize Z0 t) { s with soft = (if t.mt_view || t.mt_old <> None then false else s.soft) } false
               (if t.mt_old <> None then "transposed" else if t.mt_view then "view" else "")
  | "filli" ->
    let fv = if f.(1) = "-" then z_of_int (fill_token dt) else zi 1 in
    change (k_filled_inplace t fv) { s with d = ks_fill fv s.d s.m } false
      (if is_rowvec s.sh || is_colvec s.sh then "rowcolvec" else layout_guard t)
  | "fill" ->
    let fv = if f.(1) = "-" then z_of_int (fill_token dt) else zi 1 in
    let guard = if is_rowvec s.sh || is_colvec s.sh then "rowcolvec" else layout_guard t in
    (match k_filled t fv with
     | Ok r ->
       (* the mask of the returned tensor is left open by the property *)
       let rk = (match logical_ok r with Some (_, m) -> m | None -> s.m) in
       { ms = "ok R" ^ obs_model dt r ^ " S" ^ obs_model dt t; mt' = Some t;
         ss = "ok R" ^ obs_spec dt { s with d = ks_fill fv s.d s.m; m = rk } ^ " S" ^ obs_spec dt s; st' = s; guard }
     | Err -> { ms = "err"; mt' = Some t; ss = "ok R" ^ obs_spec dt { s with d = ks_fill fv s.d s.m } ^ " S" ^ obs_spec dt s; st' = s; guard }
     | Panic -> { ms = "panic"; mt' = Some t; ss = "ok R" ^ obs_spec dt { s with d = ks_fill fv s.d s.m } ^ " S" ^ obs_spec dt s; st' = s; guard })
  | "cnt" -> reduce RCount (fun l -> RVInt (ks_count l))
  | "ncnt" -> reduce RNonCount (fun l -> RVInt (ks_noncount l))
  | "any" -> reduce RAny (fun l -> RVBool (ks_any l))
  | "all" -> reduce RAll (fun l -> RVBool (ks_all l))
  | "nmc" | "clu" -> query (res_map_str runs_str (k_runs false t)) (runs_str (ks_runs false s.m)) (layout_guard t)
  | "mc" | "clm" -> query (res_map_str runs_str (k_runs true t)) (runs_str (ks_runs true s.m)) (layout_guard t)
  | "nme" | "me" ->
    let want = f.(0) = "me" in
    let pr (a, b) = Printf.sprintf "%d,%d" (int_of_z a) (int_of_z b) in
    query (res_map_str pr (k_edges want t)) (pr (ks_edges want s.m)) (layout_guard t)
  | "iter" ->
    let mv = (match k_validity t with
        | Ok l ->
          (try Ok (String.concat "," (List.map (fun (i, v) ->
               match List.nth_opt t.mt_data (int_of_z i) with
               | Some x when int_of_z i >= 0 -> string_of_int (pv dt x) ^ (if v then "+" else "-")
               | _ -> raise Exit) l))
           with Exit -> Panic)
        | Err -> Err | Panic -> Panic) in
    let sv = String.concat "," (List.map (fun (x, v) -> string_of_int (pv dt x) ^ (if v then "+" else "-")) (ks_validity s.d s.m)) in
    query (match mv with Ok "" -> Ok "_" | x -> x) (if sv = "" then "_" else sv) (layout_guard t)
  | "bin" ->
    let opf = (match f.(1) with
        | "add" -> (fun a b -> z_of_int (int_of_z a + int_of_z b))
        | "sub" -> (fun a b -> z_of_int (int_of_z a - int_of_z b))
        | "mul" -> (fun a b -> z_of_int (int_of_z a * int_of_z b))
        | o -> failwith ("bin " ^ o)) in
    let n = int_of_z (size s.sh) in
    let base = int_of_string f.(3) in
    let bdata = List.init n (fun i -> z_of_int (base + i)) in
    let bmask_raw = bits_of f.(2) in
    let b = { mt_ap = { shp = s.sh; str = calc_strides s.sh; ord = Z0; fin = true }; mt_old = None; mt_view = false;
              mt_data = bdata; mt_mask = bmask_raw; mt_soft = false } in
    let bm = if k_is_masked b then bmask_raw else List.map (fun _ -> false) bdata in
    let guard = layout_guard t in
    let mode = if Array.length f > 4 then f.(4) else "safe" in
    let rdata = List.init n (fun i -> z_of_int (40 + i)) in
    let dest = { b with mt_data = rdata; mt_mask = [] } in
    let addf a b = z_of_int (int_of_z a + int_of_z b) in
    let mres = (match mode with
        | "unsafe" -> k_binop_unsafe opf t b
        | "reuse" -> k_binop_reuse opf t b dest
        | "incr" -> k_binop_incr opf addf t b dest
        | _ -> k_binop opf t b) in
    (match mres with
     | Ok r ->
       let t_after = if mode = "unsafe" then r else t in
       (match logical_ok r with
        | Some (rd, rk) ->
          (* SPEC: where both operands are valid the value of the unmasked operation; elsewhere open *)
          let rec zip3 a b c = match a, b, c with x :: a', y :: b', z :: c' -> (x, y, z) :: zip3 a' b' c' | _ -> [] in
          let both = List.map2 (fun x y -> not x && not y) s.m bm in
          let want = List.map2 (fun x y -> opf x y) s.d bdata in
          let want = if mode = "incr" then List.map2 addf rdata want else want in
          let sd = List.map (fun (v, w, r) -> if v then w else r) (zip3 both want rd) in
          let sr = { s with d = sd; m = rk } in
          let s_after = if mode = "unsafe" then sr else s in
          { ms = "ok R" ^ obs_model dt r ^ " S" ^ obs_model dt t_after; mt' = Some t_after;
            ss = "ok R" ^ obs_spec dt sr ^ " S" ^ obs_spec dt s_after; st' = s_after; guard }
        | None -> { ms = "ok R" ^ obs_model dt r ^ " S" ^ obs_model dt t_after; mt' = Some t_after; ss = "ok R[?] S" ^ obs_spec dt s; st' = s; guard })
     | Err -> { ms = "err"; mt' = Some t; ss = "ok"; st' = s; guard }
     | Panic -> { ms = "panic"; mt' = Some t; ss = "ok"; st' = s; guard })
  | o -> failwith ("mask op " ^ o)

let symptom (ms : string) (ss : string) : string =
  let status x = match String.index_opt x ' ', String.index_opt x '=' with
    | Some i, _ -> String.sub x 0 i
    | None, Some i -> String.sub x 0 i
    | None, None -> x in
  let field x tag =
    match Str.search_forward (Str.regexp (tag ^ "\\([^]|]*\\)")) x 0 with
    | _ -> Str.matched_group 1 x | exception Not_found -> "" in
  if ms = "panic" then "panic"
  else if status ms <> status ss then "status"
  else if String.contains ms '=' && not (String.contains ms '[') then "value"
  else if field ms "\\[" <> field ss "\\[" then "shape"
  else if field ms "|L:" <> field ss "|L:" then "values"
  else if field ms "|K:" <> field ss "|K:" then "mask"
  else "operand"

let overall (steps : string list) : string =
  let pre p s = String.length s >= String.length p && String.sub s 0 (String.length p) = p in
  if List.exists (pre "panic") steps then "panic"
  else if List.exists (pre "err") steps then "err" else "ok"

let strip_overall (impl : string) : string =
  match Str.search_forward (Str.regexp_string ": ") impl 0 with
  | i when i <= 5 -> String.sub impl (i + 2) (String.length impl - i - 2)
  | _ -> impl
  | exception Not_found -> impl

let () =
  register2 "mk" (fun a impl ->
      let impl = strip_overall impl in
      let dt = a.(0) and ti = int_of_string a.(1) in
      let ops = Prog.split_ops a.(2) and mops = Prog.split_ops a.(3) in
      let m = ref (empty_store : z store) in
      let panicked = ref false in
      List.iter (fun o ->
          if not !panicked then begin
            let (m', r) = zstep_model !m (Prog.parse_op o "") in
            m := m';
            if r = RPanic then panicked := true
          end) ops;
      if !panicked then { model = "progpanic"; spec = "-"; cls = "" } else
      match get_t !m (nat_of_int ti) with
      | None -> { model = "notensor"; spec = "-"; cls = "" }
      | Some d ->
        let t0 = { mt_ap = d.d_ap; mt_old = d.d_old; mt_view = d.d_view; mt_data = window !m d; mt_mask = []; mt_soft = false } in
        (match logical_ok t0 with
         | None -> { model = "nosource"; spec = "-"; cls = "" }
         | Some (d0, m0) ->
           let s0 = { sh = t0.mt_ap.shp; d = d0; m = m0; soft = false } in
           let impl_steps = Array.of_list (Str.split (Str.regexp_string " # ") impl) in
           let rec go i t s ops macc sacc cls =
             match ops with
             | [] -> (List.rev macc, List.rev sacc, cls)
             | op :: rest ->
               let impl_step = if i < Array.length impl_steps then impl_steps.(i) else "" in
               let r = step dt impl_step t s op in
               let opname = (Prog.fields op).(0) in
               let cls = if cls <> "" || project r.ms = r.ss then cls
                 else Printf.sprintf "mask.%s:%s:%s" opname (if r.guard = "" then "UNGUARDED" else r.guard) (symptom (project r.ms) r.ss) in
               (match r.mt' with
                | None -> (List.rev (r.ms :: macc), List.rev (r.ss :: sacc), cls)
                | Some t' -> go (i + 1) t' r.st' rest (r.ms :: macc) (r.ss :: sacc) cls) in
           let (ml, sl, cls) = go 0 t0 s0 mops [] [] "" in
           { model = overall ml ^ ": " ^ String.concat " # " ml; spec = overall sl ^ ": " ^ String.concat " # " sl; cls }))

(* masked Concat, SPEC only: the result carries every operand's mask at its elements and the
   operands are unchanged *)
let () =
  register2 "mkcat" (fun a _impl ->
      let axis = int_of_string a.(1) in
      let mk shs bs base =
        let sh = zs shs in
        let n = int_of_z (size sh) in
        let d = List.init n (fun i -> z_of_int (base + i)) in
        let m = if bs = "-" then List.map (fun _ -> false) d else bits_of bs in
        { sh; d; m; soft = false } in
      let x = mk a.(2) a.(3) 0 and y = mk a.(4) a.(5) 50 in
      (* concatenation along [axis] of two row-major logical arrays *)
      let dim sh k = int_of_z (List.nth sh k) in
      let outer sh = List.fold_left ( * ) 1 (List.filteri (fun i _ -> i < axis) (List.map int_of_z sh)) in
      let chunk sh = List.fold_left ( * ) 1 (List.filteri (fun i _ -> i >= axis) (List.map int_of_z sh)) in
      let rec take n l = if n = 0 then [] else match l with h :: t -> h :: take (n - 1) t | [] -> [] in
      let rec drop n l = if n = 0 then l else match l with _ :: t -> drop (n - 1) t | [] -> [] in
      let cat la lb =
        let ca = chunk x.sh and cb = chunk y.sh in
        List.concat (List.init (outer x.sh) (fun o -> take ca (drop (o * ca) la) @ take cb (drop (o * cb) lb))) in
      let rsh = List.mapi (fun i v -> if i = axis then z_of_int (dim x.sh i + dim y.sh i) else v) x.sh in
      let r = { sh = rsh; d = cat x.d y.d; m = cat x.m y.m; soft = false } in
      let spec = "ok: R" ^ obs_spec "f64" r ^ " A" ^ obs_spec "f64" x ^ " B" ^ obs_spec "f64" y in
      let masked = a.(3) <> "-" || a.(5) <> "-" in
      { model = "-"; spec; cls = (if masked then "mask.concat:masked-operand:mask" else "") })
