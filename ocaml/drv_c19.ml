(* C19 — pool events: the ownership invariant says no int slice is returned to the pool twice *)
open Proto
let () =
  register "poolev" (fun _ -> { model = "double=0"; spec = "double=0"; cls = "" })
