(* C19 — pool events: the ownership invariant says no int slice is returned to the pool twice *)
open Model
type string = Stdlib.String.t  (* Model defines Coq's string inductive; keep OCaml's name *)
open Proto
let () =
  register "poolev" (fun _ -> { model = "double=0"; spec = "double=0"; cls = "" })

(* progm <dt> <ops> : histories with MASKS.  The mask of a tensor lives in storage exactly like its
   data (a slice view's mask is the window mask[start:end] of its parent's, Clone copies it, lazy
   transposition reads it through the strides), so the MODEL runs every structural operation twice:
   on the store of the values and on a SHADOW store holding the mask bits, plus a masked flag per
   tensor.  ops: new | setmask:<t>:<bits> (base tensors, before any slicing) | resetmask:<t>:<0|1> |
   slice | clone | T | UT | ret.  Observation per step: status T<i>[shape|L:values|K:mask bits or -] *)
let () =
  register2 "progm" (fun a impl ->
      let dt = a.(0) in
      let ops = Array.of_list (Prog.split_ops a.(1)) in
      let isteps = Prog.split_steps impl in
      let m = ref (empty_store : z store) and s = ref (empty_store : z store) in
      let masked : (int, unit) Hashtbl.t = Hashtbl.create 8 in
      let dead : (int, unit) Hashtbl.t = Hashtbl.create 8 in
      let out = ref [] in
      let stop = ref false in
      let cellstr = function Ok v -> string_of_int (pv dt v) | Err -> "E" | Panic -> "P" in
      let obs () =
        let n = int_of_nat (ntens_model !m) in
        String.concat "" (List.init n (fun i ->
            if Hashtbl.mem dead i then Printf.sprintf " T%d[_|dead]" i else
            let sh = (match get_t !m (nat_of_int i) with Some d -> d.d_ap.shp | None -> []) in
            let l = List.map cellstr (logical !m (nat_of_int i)) in
            let k = if Hashtbl.mem masked i then
                String.concat "" (List.map (function Ok v -> if int_of_z v <> 0 then "1" else "0" | Err -> "E" | Panic -> "P")
                                    (logical !s (nat_of_int i)))
              else "-" in
            Printf.sprintf " T%d[%s|L:%s|K:%s]" i (fzs sh) (if l = [] then "_" else String.concat "," l)
              (if k = "" then "_" else k))) in
      Array.iteri (fun i o ->
          if not !stop then begin
            let f = Prog.fields o in
            let istep = if i < Array.length isteps then isteps.(i) else "" in
            let t1 () = int_of_string f.(1) in
            let status =
              match f.(0) with
              | "ret" -> Hashtbl.replace dead (t1 ()) (); "ok"
              | "setmask" | "resetmask" ->
                (match get_t !s (nat_of_int (t1 ())) with
                 | None -> "panic"
                 | Some d ->
                   let n = int_of_z d.d_len in
                   let bits = if f.(0) = "setmask"
                     then List.init (String.length f.(2)) (fun j -> if f.(2).[j] = '1' then z_of_int 1 else Z0)
                     else List.init n (fun _ -> z_of_int (int_of_string f.(2))) in
                   (match set_window !s d bits with
                    | Some s' -> s := s'; Hashtbl.replace masked (t1 ()) (); "ok"
                    | None -> "panic"))
              | _ ->
                Prog.cur_model := !m;
                let op = Prog.parse_op o istep in
                let sop = (match op with
                    | ZBase (ONew (ord, sh, data)) -> ZBase (ONew (ord, sh, List.map (fun _ -> Z0) data))
                    | x -> x) in
                let (m', r) = zstep_model !m op in
                let (s', _) = zstep_model !s sop in
                m := m'; s := s';
                (match r, op with
                 | RNew t, (ZBase (OSlice (src, _, _)) | ZBase (OClone src)) ->
                   if Hashtbl.mem masked (int_of_nat src) then Hashtbl.replace masked (int_of_nat t) ()
                 | _ -> ());
                Prog.status_str dt r in
            if status = "panic" then begin out := "panic" :: !out; stop := true end
            else out := (status ^ obs ()) :: !out
          end) ops;
      { model = String.concat " # " (List.rev !out); spec = "-"; cls = "" })
