(* C13 — shape algebra agrees with execution *)
open Model
type string = Stdlib.String.t  (* Model defines Coq's string inductive; keep OCaml's name *)
open Proto

let () =
  (* Shape.S: MODEL = shape_S; SPEC = the shape the executed AP.S (and the logical slice) has *)
  register "shapes" (fun a ->
      let sh = zs a.(0) and sl = Prog.parse_slices a.(1) in
      let m = match shape_S sh sl with Some s -> "ok:" ^ fzs s | None -> "err" in
      (* what the executed slicing produces (ap_S on default strides) *)
      let exec =
        let ap = { shp = sh; str = calc_strides sh; ord = Z0; fin = true } in
        match ap_S ap (size sh) sl with
        | Ok ((a', _), _) -> "ok:" ^ fzs a'.shp
        | Err -> "err"
        | Panic -> "panic" in
      let cls =
        if m = exec then "" else
        match guard_slice { shp = sh; str = calc_strides sh; ord = Z0; fin = true } (size sh) sl with
        | GOk -> "shapeS:nondividing-step"
        | g -> "shapeS:" ^ Prog.gname g in
      { model = m; spec = exec; cls });
  register "aps" (fun a ->
      let sh = zs a.(0) in
      let cm = a.(1) = "cm" in
      let ap = if cm then { shp = sh; str = calc_strides_cm sh; ord = z_of_int 1; fin = true }
        else { shp = sh; str = calc_strides sh; ord = Z0; fin = true } in
      let m = match ap_S ap (size sh) (Prog.parse_slices a.(2)) with
        | Ok ((a', s), e) ->
          Printf.sprintf "ok:%s/%s/%d/%d/%d" (fzs a'.shp) (fzs a'.str) (int_of_z s) (int_of_z e) (int_of_z a'.ord)
        | Err -> "err"
        | Panic -> "panic" in
      { model = m; spec = "-"; cls = "" });
  register "apt" (fun a ->
      let ap = { shp = zs a.(0); str = zs a.(1); ord = Z0; fin = true } in
      let m = match ap_T ap (zs a.(2)) with
        | TOk (a', ax) -> Printf.sprintf "ok:%s/%s/%s" (fzs a'.shp) (fzs a'.str) (fzs ax)
        | TNoop -> "noop"
        | TErr -> "err"
        | TPanic -> "panic" in
      { model = m; spec = "-"; cls = "" });
  (* shapec / shaper: the calculator (MODEL shape_concat / shape_repeat) and the executed operation
     (MODEL m_concat / m_repeat on row-major tensors); SPEC: they agree on shape and on failing *)
  let norm s = if String.length s >= 3 && String.sub s 0 3 = "ok:" then s else "fail" in
  let run_exec (shapes : z list list) (op : int -> zop) : string =
    let m = ref (empty_store : z store) in
    List.iter (fun sh ->
        let n = int_of_z (size sh) in
        let (m', _) = zstep_model !m (ZBase (ONew (Z0, sh, List.init (max n 0) (fun _ -> Z0)))) in
        m := m') shapes;
    let k = List.length shapes in
    match zstep_model !m (op k) with
    | (m', RNew t) -> (match get_t m' t with Some d -> "ok:" ^ fzs d.d_ap.shp | None -> "panic")
    | (_, RErr) -> "err"
    | (_, RPanic) -> "panic"
    | _ -> "?" in
  let obs calc exec = Printf.sprintf "calc=%s exec=%s rawcalc=%s rawexec=%s" (norm calc) (norm exec) calc exec in
  register "shapec" (fun a ->
      let sh = zs a.(0) and axis = z_of_int (int_of_string a.(1)) in
      let others = if a.(2) = "-" then [] else List.map zs (String.split_on_char ';' a.(2)) in
      let calc = (match shape_concat sh axis others with Some r -> "ok:" ^ fzs r | None -> "err") in
      let exec = run_exec (sh :: others) (fun k -> ZConcat (nat_of_int 0, axis, List.init (k - 1) (fun i -> nat_of_int (i + 1)))) in
      let e = norm exec in
      { model = obs calc exec; spec = Printf.sprintf "calc=%s exec=%s rawcalc=* rawexec=*" e e;
        cls = if norm calc = e then "" else if int_of_string a.(1) = -1 then "shapec:axis-allaxes" else "shapec:calc-exec-differ" });
  register "shaper" (fun a ->
      let sh = zs a.(0) and axis = z_of_int (int_of_string a.(1)) and reps = zs a.(2) in
      let calc = (match shape_repeat sh axis reps with
          | Ok (((ns, _), _), _) -> "ok:" ^ fzs ns | Err -> "err" | Panic -> "panic") in
      let exec = run_exec [sh] (fun _ -> ZRepeat (nat_of_int 0, axis, reps)) in
      let e = norm exec in
      { model = obs calc exec; spec = Printf.sprintf "calc=%s exec=%s rawcalc=* rawexec=*" e e;
        cls = if norm calc = e then "" else "shaper:calc-exec-differ" });
  register2 "proginv" (fun a impl ->
      let dt = a.(0) in
      let ops = Array.of_list (Prog.split_ops a.(1)) in
      let m = ref (empty_store : z store) in
      let panicked = ref false in
      Array.iter (fun o ->
          if not !panicked then begin
            (* hints are irrelevant for the model side *)
            let op = Prog.parse_op o "" in
            let (m', r) = zstep_model !m op in
            m := m';
            if r = RPanic then panicked := true
          end) ops;
      ignore dt;
      if !panicked then { model = "panic"; spec = "-"; cls = "" }
      else begin
        let n = int_of_nat (ntens_model !m) in
        let parts = List.init n (fun i ->
            let (((sz, pr), d), b) = inv_model !m (nat_of_int i) in
            let (((((((_, _), w), _), _), _), _), _) = obs_model !m (nat_of_int i) in
            if w = None then Printf.sprintf "T%d:P" i   (* Data() panics on an empty window *)
            else Printf.sprintf "T%d:%d:%d:%d:%d" i (int_of_z sz) (int_of_z pr) (if d then 1 else 0) (if b then 1 else 0)) in
        let model = String.concat " " parts in
        (* SPEC: every tensor has size = product of shape, distinct in-bounds offsets *)
        let spec = String.concat " " (List.init n (fun i ->
            let (((sz, _), _), _) = inv_model !m (nat_of_int i) in
            Printf.sprintf "T%d:%d:%d:1:1" i (int_of_z sz) (int_of_z sz))) in
        (* guard: tensors born from an empty range (window of length <= 1 holding a cell outside
           it, or an empty window) are the F21 family *)
        let from_empty = List.exists (fun i ->
            match get_t !m (nat_of_int i) with
            | Some d -> int_of_z d.d_len <= 0 || (d.d_view && not (snd (meta_inv_obs d)) && List.mem Z0 d.d_ap.shp)
                        || (d.d_view && not (snd (meta_inv_obs d)))
            | None -> false) (List.init n (fun i -> i)) in
        let has_empty_slice = List.exists (fun o ->
            let f = Prog.fields o in
            f.(0) = "slice" && List.exists (function Some ((s, e), _) -> int_of_z e <= int_of_z s | None -> false)
              (Prog.parse_slices f.(2))) (Array.to_list ops) in
        let cls = if model = spec then ""
          else if from_empty && has_empty_slice then "meta-inv:empty-range" else "meta-inv:other" in
        { model; spec; cls }
      end)

(* mixdt <op> <dtA> <dtB> <form> (C06/C11): operands of different element types.  SPEC only: the
   property demands a refusal ("mismatched shapes or element types are refused with an error") *)
let () =
  register2 "mixdt" (fun a impl ->
      { model = "-"; spec = "err"; cls = if impl = "err" then "" else Printf.sprintf "mixdt.%s:%s:%s" a.(0) a.(3) (if impl = "panic" then "panic" else "accepted") })

(* SPEC-only kinds whose observation is the harness's own comparison (xkinds.go): SPEC = "same" *)
let () =
  List.iter (fun k ->
      register2 k (fun a impl ->
          let sym = (match String.index_opt impl ':' with Some i -> String.sub impl 0 i | None -> impl) in
          { model = "-"; spec = "same"; cls = if impl = "same" then "" else Printf.sprintf "%s:%s:%s" k a.(0) sym }))
    ["xtomat"; "xeng"; "rrepeat"; "slinto"; "xcopyov"; "xred"; "xredfn"];
  (* xtext <format> <variant> <shape>: a refusal when writing is within the statement ("or is refused") *)
  register2 "xtext" (fun a impl ->
      let sym = (match String.index_opt impl ':' with Some i -> String.sub impl 0 i | None -> impl) in
      { model = "-"; spec = (if impl = "werr" then "werr" else "same");
        cls = if impl = "same" || impl = "werr" then "" else Printf.sprintf "xtext.%s:%s:%s" a.(0) a.(1) sym })
