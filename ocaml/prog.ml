(* operation programs: MODEL interpreter (Run.step_model) and SPEC interpreter (Run.step_spec)
   over the same program text the Go harness executed *)
open Model
type string = Stdlib.String.t  (* Model defines Coq's string inductive; keep OCaml's name *)
open Proto

let split_ops s = String.split_on_char ';' s
let fields s = Array.of_list (String.split_on_char ':' s)

let parse_slices (s : string) : (((z * z) * z) option) list =
  if s = "" || s = "-" then [] else
  List.map (fun p ->
      if p = "_" then None
      else match String.split_on_char '.' p with
        | [a; b; c] -> Some ((z_of_int (int_of_string a), z_of_int (int_of_string b)), z_of_int (int_of_string c))
        | _ -> failwith ("bad slice " ^ p))
    (String.split_on_char '/' s)

(* shape of tensor T<t> in an implementation observation of one step *)
let shape_in_obs (obs : string) (t : int) : z list =
  let key = Printf.sprintf "T%d[" t in
  match Str.search_forward (Str.regexp_string key) obs 0 with
  | i ->
    let j = i + String.length key in
    let k = String.index_from obs j '|' in
    zs (String.sub obs j (k - j))
  | exception Not_found -> []

let new_id_of_status (obs : string) : int option =
  if String.length obs >= 4 && String.sub obs 0 4 = "new:" then
    let e = try String.index obs ' ' with Not_found -> String.length obs in
    Some (int_of_string (String.sub obs 4 (e - 4)))
  else None

let order_code = function "rm" -> 0 | "cm" -> 1 | "cmb" -> 2 | o -> failwith ("order " ^ o)

(* extension point: other driver modules may add operations *)
let extra_ops : (string, string array -> string -> z Model.op) Hashtbl.t = Hashtbl.create 16

let parse_base_op (o : string) (impl_step : string) : z op =
  let f = fields o in
  let nat i = nat_of_int (int_of_string f.(i)) in
  match f.(0) with
  | "new" ->
    let sh = zs f.(2) in
    let base = int_of_string f.(3) in
    let n = int_of_z (size sh) in
    ONew (z_of_int (order_code f.(1)), sh, List.init (max n 0) (fun i -> z_of_int (base + i)))
  | "slice" ->
    let hint = match new_id_of_status impl_step with
      | Some t -> shape_in_obs impl_step t
      | None -> [] in
    OSlice (nat 1, parse_slices f.(2), hint)
  | "narrow" ->
    (* Narrow(t, dim, start, length) = t.Slice(nil x dim, S(start, start+length, 1)) *)
    let hint = match new_id_of_status impl_step with
      | Some t -> shape_in_obs impl_step t
      | None -> [] in
    let dim = int_of_string f.(2) and st = int_of_string f.(3) and ln = int_of_string f.(4) in
    let sl = List.init dim (fun _ -> None) @ [Some ((z_of_int st, z_of_int (st + ln)), z_of_int 1)] in
    OSlice (nat 1, sl, hint)
  | "T" -> OT (nat 1, zs f.(2))
  | "UT" -> OUT (nat 1)
  | "transpose" -> OTranspose (nat 1)
  | "at" -> OAt (nat 1, zs f.(2))
  | "setat" -> OSetAt (nat 1, zs f.(2), z_of_int (int_of_string f.(3)))
  | "memset" -> OMemset (nat 1, z_of_int (int_of_string f.(2)))
  | "zero" -> OZero (nat 1)
  | "clone" -> OClone (nat 1)
  | "mat" -> OMaterialize (nat 1, (new_id_of_status impl_step = Some (int_of_string f.(1))))
  | "copy" -> OCopy (nat 1, nat 2)
  | "safeT" -> OSafeT (nat 1, zs f.(2))
  | "rollaxis" -> ORollAxis (nat 1, z_of_int (int_of_string f.(2)), z_of_int (int_of_string f.(3)), f.(4) = "1")
  | "apitranspose" -> OApiTranspose (nat 1, zs f.(2))
  | "reshape" -> OReshape (nat 1, zs f.(2), (String.length impl_step >= 3 && String.sub impl_step 0 3 = "err"))
  | k -> (match Hashtbl.find_opt extra_ops k with
      | Some p -> p f impl_step
      | None -> failwith ("unknown op " ^ k))

let bin_code = function "add" -> 0 | "sub" -> 1 | "mul" -> 2 | "div" -> 3 | "mod" -> 4 | "pow" -> 5
                       | "min" -> 6 | "max" -> 7 | o -> failwith ("binop " ^ o)
let cmp_code = function "gt" -> 0 | "gte" -> 1 | "lt" -> 2 | "lte" -> 3 | "eq" -> 4 | "ne" -> 5
                       | o -> failwith ("cmpop " ^ o)
let un_code s =
  match String.split_on_char '.' s with
  | ["clamp"; lo; hi] -> 100 + 16 * int_of_string lo + int_of_string hi
  | _ -> (match s with "neg" -> 0 | "square" -> 1 | "cube" -> 2 | "abs" -> 3 | "sign" -> 4 | "sqrt" -> 5
                      | o -> failwith ("unop " ^ o))

let parse_mode (s : string) : mode =
  match String.split_on_char '.' s with
  | ["safe"] -> MSafe | ["unsafe"] -> MUnsafe
  | ["reuse"; r] | ["ur"; r] -> MReuse (nat_of_int (int_of_string r))   (* ur = UseUnsafe + WithReuse: the destination wins *)
  | ["incr"; r] -> MIncr (nat_of_int (int_of_string r))
  | _ -> failwith ("mode " ^ s)
let parse_cmode (s : string) : cmode =
  match String.split_on_char '.' s with
  | ["safe"] -> CSafe | ["unsafe"] -> CUnsafe
  | ["reuse"; r] | ["ur"; r] -> CReuse (nat_of_int (int_of_string r))
  | ["incr"; r] -> CIncr (nat_of_int (int_of_string r))
  | _ -> failwith ("cmode " ^ s)

(* elementwise operations:
     bin:<op>:<a>:<b>:<mode>[:api]        bins:<op>:<t>:<scalar>:<left|right>:<mode>[:api]
     cmp:<op>:<a>:<b>:<bool|same>:<mode>  cmps:<op>:<t>:<scalar>:<left|right>:<bool|same>:<mode>
     un:<op>:<a>:<mode> *)
let refusal (impl_step : string) : int =
  if String.length impl_step >= 5 && String.sub impl_step 0 5 = "panic" then 2
  else if String.length impl_step >= 3 && String.sub impl_step 0 3 = "err" then 1 else 0

(* the model store before the step being parsed (Hstack/Vstack choose the axis from the rank) *)
let cur_model : z store ref = ref (empty_store : z store)

(* dtype suffix @alt: the harness used the other spelling (method <-> package-level function) *)
let alt_mode = ref false

let parse_op (o : string) (impl_step : string) : zop =
  let f = fields o in
  let meth i = (Array.length f > i && f.(i) = "method") <> !alt_mode in
  let nat i = nat_of_int (int_of_string f.(i)) in
  let zi i = z_of_int (int_of_string f.(i)) in
  match f.(0) with
  | "bin" -> ZBin (z_of_int (bin_code f.(1)), nat 2, nat 3, parse_mode f.(4), not (meth 5 && f.(1) <> "min" && f.(1) <> "max"))
  | "bins" -> ZBinS (z_of_int (bin_code f.(1)), nat 2, zi 3, f.(4) = "left", parse_mode f.(5))
  | "cmp" -> ZCmp (z_of_int (cmp_code f.(1)), nat 2, nat 3, f.(4) = "same", parse_cmode f.(5), not (meth 6))
  | "cmps" -> ZCmpS (z_of_int (cmp_code f.(1)), nat 2, zi 3, f.(4) = "left", f.(5) = "same", parse_cmode f.(6))
  | "copyto" -> ZCopyTo (nat 1, nat 2)
  | "un" -> ZUn (z_of_int (un_code f.(1)), nat 2, parse_mode f.(3))
  | "apply" -> ZApply (z_of_int (un_code f.(1)), nat 2, parse_mode f.(3))
  | "reduce" ->
    let code = (match f.(1) with "sum" -> 0 | "min" -> 1 | "max" -> 2 | o -> failwith o) in
    ZReduce (z_of_int code, nat 2, zs f.(3), (String.length impl_step >= 3 && String.sub impl_step 0 3 = "err"))
  | "reducefn" ->
    let code = (match f.(1) with "sum" -> 0 | "min" -> 1 | "max" -> 2 | o -> failwith o) in
    ZReduceFn (z_of_int code, nat 2, zi 3, (String.length impl_step >= 3 && String.sub impl_step 0 3 = "err"))
  | "lin" ->
    let code = (match f.(1) with "matmul" -> 0 | "matvec" -> 1 | "outer" -> 2 | o -> failwith o) in
    let m = (match String.split_on_char '.' f.(4) with
        | ["safe"] -> LSafe | ["reuse"; r] -> LReuse (nat_of_int (int_of_string r))
        | ["incr"; r] -> LIncr (nat_of_int (int_of_string r)) | _ -> failwith "lmode") in
    ZLin (z_of_int code, nat 2, nat 3, m, z_of_int (refusal impl_step))
  | "tmul" -> (* tmul:<a>:<b>:<axesA>:<axesB> = a.TensorMul(b, axesA, axesB) *)
    ZTensorMul (nat 1, nat 2, zs f.(3), zs f.(4), z_of_int (refusal impl_step))
  | "inner" -> ZInner (nat 1, nat 2, z_of_int (refusal impl_step))
  | "trace" -> ZTrace (nat 1, z_of_int (refusal impl_step))
  | "stack" -> ZStack (nat 1, z_of_int (int_of_string f.(2)), List.map (fun i -> nat_of_int i) (ints f.(3)))
  | "fma" ->
    (* StdEng.FMA(a, x, y) = Mul(a, x, WithIncr(y)) ; FMAScalar(a, s, y) = MulScalar(a, s, true, WithIncr(y)) *)
    ZBin (z_of_int (bin_code "mul"), nat 1, nat 2, MIncr (nat 3), false)
  | "fmas" -> ZBinS (z_of_int (bin_code "mul"), nat 1, zi 2, true, MIncr (nat 3))
  | "concat" ->
    (* forms: "" = Dense.Concat, api = tensor.Concat, h = Hstack (axis 1, or 0 for rank 1),
       v = Vstack (axis 0); the generator uses h for rank >= 1 and v for rank >= 2 only *)
    let form = if Array.length f > 4 then f.(4) else "" in
    let dims = (match get_t !cur_model (nat 1) with Some d -> List.length d.d_ap.shp | None -> 0) in
    let axis = (match form with
        | "h" -> if dims = 1 then 0 else 1
        | "v" -> 0
        | _ -> int_of_string f.(2)) in
    ZConcat (nat 1, z_of_int axis, List.map (fun i -> nat_of_int i) (ints f.(3)))
  | "repeat" -> ZRepeat (nat 1, z_of_int (int_of_string f.(2)), zs f.(3))
  | "arg" ->
    let code = (match f.(1) with "max" -> 0 | "min" -> 1 | o -> failwith o) in
    ZArg (z_of_int code, nat 2, z_of_int (int_of_string f.(3)), (String.length impl_step >= 3 && String.sub impl_step 0 3 = "err"))
  | _ -> ZBase (parse_base_op o impl_step)

let status_str dt = function
  | RUnit -> "ok"
  | RVal v -> "val:" ^ string_of_int (pv dt v)
  | RNew t -> "new:" ^ string_of_int (int_of_nat t)
  | RErr -> "err"
  | RPanic -> "panic"

let lcell dt = function Ok v -> string_of_int (pv dt v) | Err -> "E" | Panic -> "P"
let flist l = if l = [] then "_" else String.concat "," l

(* allocation ids are reported in order of first appearance over the run (the harness names
   the allocations it discovers the same way), so engine-internal temporaries do not count *)
let bufnames : (int, int) Hashtbl.t = Hashtbl.create 16
let bufname (b : int) : int =
  match Hashtbl.find_opt bufnames b with
  | Some n -> n
  | None -> let n = Hashtbl.length bufnames in Hashtbl.replace bufnames b n; n

(* tensors handed back to the pool with ReturnTensor (ret:<t>): no longer observed *)
let dead : (int, unit) Hashtbl.t = Hashtbl.create 8

let obs_model_str dt (st : z store) : string =
  let n = int_of_nat (ntens_model st) in
  let b = Buffer.create 256 in
  for i = 0 to n - 1 do
    if Hashtbl.mem dead i then Buffer.add_string b (Printf.sprintf " T%d[_|dead]" i) else
    let (((((((sh, l), w), strides), o), buf), off), len) = obs_model st (nat_of_int i) in
    let ws = match w with Some w -> fvals dt w | None -> "P" in
    let bs = if int_of_z len = 0 then "?" else Printf.sprintf "%d+%d" (bufname (int_of_nat buf)) (int_of_z off) in
    Buffer.add_string b
      (Printf.sprintf " T%d[%s|L:%s|W:%s|M:%s;%d;%s]" i (fzs sh)
         (flist (List.map (lcell dt) l)) ws (fzs strides) (int_of_z o) bs)
  done;
  Buffer.contents b

let obs_spec_str dt (st : z sstate) : string =
  let n = int_of_nat (ntens_spec st) in
  let b = Buffer.create 256 in
  for i = 0 to n - 1 do
    if Hashtbl.mem dead i then Buffer.add_string b (Printf.sprintf " T%d[_|dead]" i) else
    let (sh, l) = obs_spec Z0 st (nat_of_int i) in
    Buffer.add_string b (Printf.sprintf " T%d[%s|L:%s]" i (fzs sh) (fvals dt l))
  done;
  Buffer.contents b

let split_steps (impl : string) : string array =
  Array.of_list (Str.split (Str.regexp_string " # ") impl)

let strip_model_only (s : string) : string =
  Str.global_replace (Str.regexp "|W:[^]]*\\]") "]" s

(* layout tag of tensor t in the model state: v = view, t = lazily transposed, c = column-major,
   n = flagged non-contiguous *)
let layout_tag (st : z store) (t : int) : string =
  match get_t st (nat_of_int t) with
  | None -> "?"
  | Some d ->
    (if d.d_view then "v" else "")
    ^ (match d.d_old with Some _ -> "t" | None -> "")
    ^ (if is_cm d.d_ap.ord then "c" else "")
    ^ (if is_nc d.d_ap.ord then "n" else "")

(* how the MODEL's observation of a step differs from the SPEC's: panic | status | rank | dims | values *)
let symptom (m : string) (s : string) : string =
  let status x = match String.index_opt x ' ' with Some i -> String.sub x 0 i | None -> x in
  let kind x = match String.index_opt x ':' with Some i -> String.sub x 0 i | None -> x in
  if status m = "panic" then "panic"
  else if kind (status m) <> kind (status s) then "status"
  else begin
    let shapes x =
      let re = Str.regexp "T[0-9]+\\[\\([^|]*\\)|" in
      let rec go i acc =
        match Str.search_forward re x i with
        | _ -> let g = Str.matched_group 1 x in go (Str.match_end ()) (g :: acc)
        | exception Not_found -> List.rev acc in
      go 0 [] in
    let ms = shapes m and ss = shapes s in
    if List.length ms <> List.length ss then "status"
    else if ms = ss then (if String.contains m 'P' then "panic" else "values")
    else if List.exists2 (fun a b -> List.length (ints a) <> List.length (ints b)) ms ss then "rank"
    else "dims"
  end

let gname = function
  | GOk -> "UNGUARDED" | GStridesShort -> "strides-short" | GEmptyRange -> "empty-range"
  | GLeadFloor -> "lead-floor" | GWindowOne -> "window-one" | GNegStep -> "neg-step"
  | GEmptyTensor -> "empty-tensor" | GSliceOfTransposed -> "slice-of-transposed"
  | GColMajor -> "col-major" | GPendingTranspose -> "pending-transpose" | GView -> "view"
  | GVectorAxes -> "vector-axes" | GBadAxes -> "bad-axes" | GFlagUnsound -> "flag-unsound"
  | GLenOne -> "len-one" | GDestRefused -> "dest-refused" | GDestAlias -> "dest-alias"
  | GOrderMix -> "order-mix" | GScalarLeftView -> "scalar-left-view" | GShapeSoft -> "shape-soft"
  | GModeUnsupported -> "mode-unsupported" | GScalarShaped -> "scalar-shaped"
  | GReduceDefault -> "reduce-default" | GFlatRawWindow -> "flat-raw-window"
  | GShapeMisfit -> "shape-misfit"
  | GAliasedStorage -> "aliased-storage"
  | GLateRefusal -> "late-refusal"
  | GApplyDest -> "apply-dest"
  | GOther -> "other"

let operand_ids (o : string) : int list =
  let f = fields o in
  match f.(0) with
  | "new" -> []
  | "copy" | "copyto" -> [int_of_string f.(1); int_of_string f.(2)]
  | "bin" | "cmp" -> [int_of_string f.(2); int_of_string f.(3)]
  | "fma" -> [int_of_string f.(1); int_of_string f.(2); int_of_string f.(3)]
  | "fmas" -> [int_of_string f.(1); int_of_string f.(3)]
  | "bins" | "cmps" | "un" | "apply" | "reduce" | "reducefn" | "arg" -> [int_of_string f.(2)]
  | "stack" | "concat" -> int_of_string f.(1) :: ints f.(3)
  | "repeat" | "trace" -> [int_of_string f.(1)]
  | "lin" -> [int_of_string f.(2); int_of_string f.(3)]
  | "dot" | "tmul" -> [int_of_string f.(1); int_of_string f.(2)]
  | "inner" -> [int_of_string f.(1); int_of_string f.(2)]
  | _ -> (try [int_of_string f.(1)] with _ -> [])

(* extension point: operand ids of operations added by other driver modules *)
let extra_operands : (string, string array -> int list) Hashtbl.t = Hashtbl.create 16

(* Some API-level operations are compositions of modelled operations: the dispatching tensor.Dot
   (defaultengine_linalg.go: vector.matrix is b.T(); defer b.UT(); b.MatVecMul(a)), and products
   given BOTH WithReuse and WithIncr (the product lands in the reuse tensor, then incr += it and
   incr is returned).  expand gives the operation list and the index of the operation whose
   outcome is the call's outcome; operations after that index always run (the deferred UT). *)
let lmode_of (s : string) : lmode * (int * int) option =
  match String.split_on_char '.' s with
  | ["safe"] -> (LSafe, None)
  | ["reuse"; r] -> (LReuse (nat_of_int (int_of_string r)), None)
  | ["incr"; r] -> (LIncr (nat_of_int (int_of_string r)), None)
  | ["both"; r; i] -> (LReuse (nat_of_int (int_of_string r)), Some (int_of_string r, int_of_string i))
  | _ -> failwith "lmode"

(* operations whose MODEL and SPEC are Coq functions outside the zop language (DotN.v): expand
   returns a representative zop (for the guard of the operands) and sets these for the reporting
   operation of the step *)
let override_model : (z store -> z store * z Model.outcome) option ref = ref None
let override_spec : (z sstate -> (z sstate * z Model.outcome) option) option ref = ref None
let override_guard : string option ref = ref None

let expand (o : string) (impl_step : string) : zop list * int =
  override_model := None; override_spec := None; override_guard := None;
  let f = fields o in
  let nat i = nat_of_int (int_of_string f.(i)) in
  let with_both (lin : lmode -> zop) (mode : string) : zop list * int =
    match lmode_of mode with
    | (lm, None) -> ([lin lm], 0)
    | (lm, Some (r, i)) ->
      ([lin lm; ZBin (z_of_int (bin_code "add"), nat_of_int i, nat_of_int r, MUnsafe, false)], 1) in
  match f.(0) with
  | "lin" when String.length f.(4) >= 4 && String.sub f.(4) 0 4 = "both" ->
    let code = (match f.(1) with "matmul" -> 0 | "matvec" -> 1 | "outer" -> 2 | x -> failwith x) in
    with_both (fun lm -> ZLin (z_of_int code, nat 2, nat 3, lm, z_of_int (refusal impl_step))) f.(4)
  | "dot" ->
    let shape i = (match get_t !cur_model (nat i) with Some d -> d.d_ap.shp | None -> []) in
    let sa = shape 1 and sb = shape 2 in
    let lin code a b = (fun lm -> ZLin (z_of_int code, a, b, lm, z_of_int (refusal impl_step))) in
    if is_vector sa && List.length sb = 2 then
      let (l, k) = with_both (lin 1 (nat 2) (nat 1)) f.(3) in
      (ZBase (OT (nat 2, [])) :: l @ [ZBase (OUT (nat 2))], k + 1)
    else if List.length sa = 2 && is_vector sb then with_both (lin 1 (nat 1) (nat 2)) f.(3)
    else if List.length sa = 2 && List.length sb = 2 then with_both (lin 0 (nat 1) (nat 2)) f.(3)
    else if is_vector sa && is_vector sb && f.(3) = "safe" then begin
      (* vector . vector: unequal storage lengths are refused, otherwise Inner and a new scalar tensor *)
      let len i = (match get_t !cur_model (nat i) with Some d -> int_of_z d.d_len | None -> -1) in
      if len 1 <> len 2 then ([ZInner (nat 1, nat 2, z_of_int 1)], 0) else
      match zstep_model !cur_model (ZInner (nat 1, nat 2, z_of_int 0)) with
      | (_, RVal v) -> ([ZBase (ONew (z_of_int 0, [], [v]))], 0)
      | _ -> ([ZInner (nat 1, nat 2, z_of_int (refusal impl_step))], 0)
    end
    else if dot_nd_dispatch sa sb then begin
      (* the general contraction branch of tensor.Dot (DotN.v) *)
      let (reuse, incr) = (match String.split_on_char '.' f.(3) with
          | ["safe"] -> (None, None)
          | ["reuse"; r] -> (Some (nat_of_int (int_of_string r)), None)
          | ["incr"; r] -> (None, Some (nat_of_int (int_of_string r)))
          | ["both"; r; i] -> (Some (nat_of_int (int_of_string r)), Some (nat_of_int (int_of_string i)))
          | _ -> failwith "dot nd: mode") in
      let la = List.length sa - 1 and lb = (if List.length sb >= 2 then List.length sb - 2 else 0) in
      override_model := Some (fun m -> zdot_nd_full m (nat 1) (nat 2) reuse incr);
      override_spec := Some (fun st ->
          match reuse, incr with
          | _, None -> zdot_nd_spec st (nat 1) (nat 2) reuse
          | None, Some i -> zdot_nd_spec_incr st (nat 1) (nat 2) i
          | Some r, Some i -> zdot_nd_spec_both st (nat 1) (nat 2) r i);
      (match reuse, incr with
       | Some r, _ ->
         let psize = List.fold_left (fun acc d -> acc * int_of_z d) 1
             (List.filteri (fun i _ -> i < la) sa @ List.filteri (fun i _ -> i <> lb) sb) in
         if not (dot_nd_reuse_plain !cur_model r (z_of_int psize)) then override_guard := Some "nd-reuse-dest"
       | None, Some _ -> ()
       | None, None -> ());
      ([ZTensorMul (nat 1, nat 2, [z_of_int la], [z_of_int lb], z_of_int 0)], 0)
    end
    else failwith "dot: operand ranks not modelled"
  | _ -> ([parse_op o impl_step], 0)

(* native:<t>  select:<t>:<axis>  tomat:<t>[:unsafe] — conversions out of a tensor.  The MODEL is
   Native.v; the SPEC is the logical content cut into rows.  A refusal is within the letter of the
   property only where the MODEL (the code as it is) refuses too: then the SPEC takes the refusal.
   Result: (model status, spec status (None = no SPEC state), guard name). *)
let conv_status dt (m : z store) (s : z sstate option) (o : string) : (string * string option * string) option =
  let f = fields o in
  match f.(0) with
  | "native" | "select" | "tomat" ->
    let t = nat_of_int (int_of_string f.(1)) in
    let show (dims, rows) =
      "rows:" ^ String.concat "." (List.map (fun d -> string_of_int (int_of_z d)) dims) ^ "|"
      ^ String.concat ";" (List.map (fun r -> fvals dt r) rows) in
    (match get_t m t with
     | None -> Some ("panic", None, "other")
     | Some d ->
       let r = (match f.(0) with
           | "native" -> native_conv m d
           | "select" -> native_select m d (z_of_int (int_of_string f.(2)))
           | _ -> to_mat64 m d) in
       let ms = (match r with NRows (dims, rows) -> show (dims, rows) | NErr -> "err" | NPanic -> "panic") in
       let guard =
         if is_cm d.d_ap.ord then "col-major" else if d.d_old <> None then "pending-transpose"
         else if d.d_view then "view" else "UNGUARDED" in
       let ss = (match s with
           | None -> None
           | Some st ->
             if r = NErr then Some "err" else begin
               let (sh, l) = obs_spec Z0 st t in
               Some (show (match f.(0) with
                   | "native" -> spec_native sh l
                   | "select" -> spec_select sh (z_of_int (int_of_string f.(2))) l
                   | _ -> spec_to_mat64 sh l))
             end) in
       Some (ms, ss, guard))
  | _ -> None

(* the operation part of a finding class: the op, plus its name for the families with many *)
let op_prefix (f : string array) : string =
  f.(0) ^ (if Array.length f > 1 && (f.(0) = "bin" || f.(0) = "bins" || f.(0) = "cmp" || f.(0) = "cmps" || f.(0) = "un" || f.(0) = "apply" || f.(0) = "reduce" || f.(0) = "reducefn" || f.(0) = "arg" || f.(0) = "lin") then "." ^ List.hd (String.split_on_char '.' f.(1)) else "")

let run_prog_gen (kept : bool) dt (prog : string) (impl : string) : outcome =
  (* dtype suffix @alt: the harness used the other API spelling of every operation that has one;
     the model and the SPEC are the same *)
  alt_mode := String.contains dt '@';
  let dt = (match String.index_opt dt '@' with Some i -> String.sub dt 0 i | None -> dt) in
  let ops = Array.of_list (split_ops prog) in
  let isteps = split_steps impl in
  Hashtbl.reset bufnames;
  Hashtbl.reset dead;
  let m = ref (empty_store : z store) and s = ref (Some (empty_sstate : z sstate)) in
  let mout = ref [] and sout = ref [] in
  let stop = ref false in
  let cls = ref "" in
  let ps = ref empty_pstate in
  let kept_in : z list list ref = ref [] in   (* the slices as the caller passed them (SPEC: unchanged) *)
  let slices_str (l : z list list) = String.concat "" (List.mapi (fun i s -> Printf.sprintf " S%d=%s" i (fzs s)) l) in
  Array.iteri (fun i o ->
      if not !stop then begin
        let istep = if i < Array.length isteps then isteps.(i) else "" in
        cur_model := !m;
        let is_ret = (fields o).(0) = "ret" in
        if is_ret then Hashtbl.replace dead (int_of_string (fields o).(1)) ();
        (* conversions out of a tensor (native.*, ToMat64): read-only, the outcome is a value *)
        let conv = conv_status dt !m !s o in
        let is_ret = is_ret || conv <> None in
        (* ReturnTensor: the tensor is gone; nothing else may change (MODEL and SPEC: a no-op) *)
        let (opl, rep) = if is_ret then ([ZBase (OUT (nat_of_int 0))] (* placeholder, not executed *), 0) else expand o istep in
        let op = List.nth opl rep in
        let before = ref !m in
        let (m', r) =
          if is_ret then (!m, RUnit) else begin
            (* operations up to the reporting one run while they succeed; a failure is the call's
               outcome; the trailing ones (deferred) always run *)
            let st = ref !m and res = ref RUnit and failed = ref false in
            List.iteri (fun k opk ->
                if k <= rep then begin
                  if not !failed then begin
                    if k = rep then before := !st;
                    let (st', rk) = (match !override_model with
                        | Some fm when k = rep -> fm !st
                        | _ -> zstep_model !st opk) in
                    st := st'; res := rk;
                    if k < rep && (rk = RErr || rk = RPanic) then failed := true
                  end
                end else begin
                  let (st', _) = zstep_model !st opk in st := st'
                end) opl;
            (!st, !res)
          end in
        let before = !before in
        (* the first step whose guard is not GOk taints the rest of the run *)
        if !last_taint = "" && not is_ret then begin
          let g = gname (zguard before op) in
          if g <> "UNGUARDED" then last_taint := op_prefix (fields o) ^ ":" ^ g
        end;
        m := m';
        if kept && not is_ret then begin
          (match op with
           | ZBase (OT (t, axes)) ->
             if axes <> [] then kept_in := !kept_in @ [axes];
             ps := pstep_T !ps t axes (get_t before t) (get_t m' t) (r = RUnit)
           | ZBase (OSafeT (t, axes)) when axes <> [] && not (Array.length (fields o) > 3 && (fields o).(3) = "api") ->
             (* SafeT copies the axes (since the fix of F18): the caller's slice is registered and
                never changes *)
             kept_in := !kept_in @ [axes];
             ps := { p_slices = !ps.p_slices @ [axes]; p_tw = !ps.p_tw }
           | ZBase (OUT t) -> ps := pstep_UT !ps t (get_t before t)
           | ZBase (OTranspose t) -> ps := pstep_transpose !ps t (get_t before t)
           | _ -> ())
        end;
        let axes_note = (match op with
            | ZReduce (code, a, axes, _) when r <> RPanic ->
              ";ax=" ^ fzs (zreduce_axes_after before code a axes)
            | _ -> "") in
        let mstr = (match r, conv with
            | _, Some ("panic", _, _) -> "panic"
            | _, Some (ms, _, _) -> ms ^ obs_model_str dt m'
            | RPanic, _ -> "panic"
            | _ -> status_str dt r ^ axes_note ^ obs_model_str dt m'
                   ^ (if kept then slices_str !ps.p_slices else "")) in
        mout := mstr :: !mout;
        (match !s with
         | None -> sout := "?" :: !sout
         | Some st ->
           let spec_run () =
             if is_ret then Some (st, RUnit) else begin
               let cur = ref (Some st) and res = ref RUnit and failed = ref false in
               List.iteri (fun k opk ->
                   match !cur with
                   | None -> ()
                   | Some sk ->
                     if k <= rep then begin
                       if not !failed then
                         (match (match !override_spec with
                             | Some fs when k = rep -> fs sk
                             | _ -> zstep_spec sk opk) with
                          | None -> cur := None
                          | Some (sk', rk) ->
                            cur := Some sk'; res := rk;
                            if k < rep && (rk = RErr || rk = RPanic) then failed := true)
                     end else
                       (match zstep_spec sk opk with
                        | None -> cur := None
                        | Some (sk', _) -> cur := Some sk')) opl;
               match !cur with None -> None | Some sk -> Some (sk, !res)
             end in
           (match (match conv with
               | Some (_, Some ss, _) -> Some (st, RUnit, Some ss)
               | Some (_, None, _) -> None
               | None -> (match spec_run () with Some (a, b) -> Some (a, b, None) | None -> None)) with
            | None -> s := None; sout := "?" :: !sout
            | Some (st', RPanic, _) ->
              s := None; sout := "panic" :: !sout
            | Some (st', r', cs) ->
              s := Some st';
              (* SPEC: the caller's axes slice is left as it was passed *)
              let saxes = (match op with ZReduce (_, _, axes, _) -> ";ax=" ^ fzs axes | _ -> "") in
              let sstr = (match cs with Some ss -> ss | None -> status_str dt r') ^ saxes ^ obs_spec_str dt st'
                         ^ (if kept then slices_str !kept_in else "") in
              sout := sstr :: !sout;
              if !cls = "" && strip_model_only mstr <> sstr then begin
                (* first step at which the MODEL (the code as it is) leaves the SPEC: the finding
                   class is the operation plus the layouts of its operands *)
                let f = fields o in
                let ids = match Hashtbl.find_opt extra_operands f.(0) with
                  | Some g -> g f | None -> operand_ids o in
                let gn = (match conv with Some (_, _, g) -> g | None -> gname (zguard before op)) in
                let gn = (match !override_guard with Some g -> g | None -> gn) in
                let gn = if gn = "other" then "L" ^ String.concat "," (List.map (layout_tag before) ids) else gn in
                (* TensorMul with negative axes (named in the glue: the Coq guard has no case for it) *)
                let gn = if f.(0) = "tmul" && List.exists (fun x -> x < 0) (ints f.(3) @ ints f.(4)) then "negative-axes" else gn in
                (* found by the proof of zhistory_refines4 (RefineProofs4.v: zextra4): Dense.Reduce with a
                   function other than a sum along the LAST axis (not the first) folds from the default value *)
                let gn = if gn = "UNGUARDED" && f.(0) = "reducefn" && f.(1) <> "sum" then begin
                    match get_t before (nat_of_int (int_of_string f.(2))) with
                    | Some d ->
                      let rk = List.length d.d_ap.shp and ax = int_of_string f.(3) in
                      if ax = rk - 1 && ax <> 0 then "default-seed" else gn
                    | None -> gn
                  end else gn in
                (* two guards found by the proof of zhistory_refines (RefineProofs2.v: zextra_ok) and named
                   here: in-place operations on PARTLY overlapping operands, and comparisons of a
                   one-element view over a wider window *)
                let gn = if gn <> "UNGUARDED" then gn else begin
                    let dense i = get_t before (nat_of_int i) in
                    let unsafe_mode = Array.exists (fun x -> x = "unsafe") f in
                    match f.(0), ids with
                    | ("bin" | "cmp"), [a; b] when unsafe_mode && a <> b ->
                      (match dense a, dense b with
                       | Some da, Some db when overlaps da db -> "operands-overlap"
                       | _ -> gn)
                    | ("cmp" | "cmps"), (a :: _) ->
                      (match dense a with
                       | Some da when int_of_z (size da.d_ap.shp) = 1 && int_of_z da.d_len > 1 -> "len-one"
                       | _ -> gn)
                    | _ -> gn
                  end in
                (* a divergence at a step whose own guard holds, AFTER a step outside the guarded domain:
                   the class is that earlier step's (symptom "latent") *)
                let tainted = gn = "UNGUARDED" && !last_taint <> "" in
                if tainted then cls := !last_taint ^ ":latent" else
                cls := op_prefix f ^ ":" ^ gn
                       ^ ":" ^ symptom (strip_model_only mstr) sstr;
                (* after a divergence the two states are no longer related *)
                s := None
              end));
        if r = RPanic || istep = "panic" then stop := true
      end) ops;
  let model = String.concat " # " (List.rev !mout) in
  let spec = String.concat " # " (List.rev !sout) in
  { model; spec; cls = !cls }

let run_prog = run_prog_gen false

(* one program step on the model alone (the composition rules of expand included) *)
let model_step (m : z store) (o : string) : z store =
  cur_model := m;
  let (opl, rep) = expand o "" in
  let st = ref m and failed = ref false in
  List.iteri (fun k opk ->
      if k <= rep then begin
        if not !failed then begin
          let (st', rk) = (match !override_model with
              | Some fm when k = rep -> fm !st
              | _ -> zstep_model !st opk) in
          st := st';
          if k < rep && (rk = RErr || rk = RPanic) then failed := true
        end
      end else begin
        let (st', _) = zstep_model !st opk in st := st'
      end) opl;
  !st

let () =
  register2 "prog" (fun a impl -> run_prog a.(0) a.(1) impl);
  (* progk: same programs, additionally observing every caller-owned axes slice after each step *)
  register2 "progk" (fun a impl -> run_prog_gen true a.(0) a.(1) impl);
  (* proge <eng> <dt> <prog> (C20): a program run under a specialised engine.  The property
     demands the DEFAULT engine's behaviour, so the SPEC is the StdEng model's observation
     (status, shapes and logical contents of every tensor after every step); there is no separate
     model of the engines' own code paths *)
  register2 "proge" (fun a impl ->
      let o = run_prog a.(1) a.(2) impl in
      let isteps = Array.map strip_model_only (split_steps impl) in
      let ssteps = Array.map (fun s -> s) (split_steps (strip_model_only o.model)) in
      let ops = Array.of_list (split_ops a.(2)) in
      let refused s = String.length s >= 3 && (String.sub s 0 3 = "err") in
      (* "every operation they accept returns the same result as the default engine": a step that
         either side refuses is outside the statement, and so is everything after it *)
      let cut = ref (-1) in
      Array.iteri (fun i s ->
          if !cut < 0 && (refused s || (i < Array.length isteps && refused isteps.(i))) then cut := i) ssteps;
      let n = if !cut < 0 then Array.length ssteps else !cut in
      let spec = String.concat " # " (Array.to_list (Array.sub ssteps 0 n) @ (if !cut < 0 then [] else ["?"])) in
      let k = ref (-1) in
      for i = 0 to n - 1 do
        if !k < 0 && (i >= Array.length isteps || isteps.(i) <> ssteps.(i)) then k := i
      done;
      let cls = if !k < 0 then "" else begin
          (* the guard of the differing step, from the default model's state before it *)
          let m = ref (empty_store : z store) in
          for i = 0 to !k - 1 do
            m := model_step !m ops.(i)
          done;
          cur_model := !m;
          let op = (let (opl, rep) = expand ops.(!k) "" in List.nth opl rep) in
          let f = fields ops.(!k) in
          let gn = gname (zguard !m op) in
          let gn = if gn = "other" || gn = "ok" then "L" ^ String.concat "," (List.map (layout_tag !m) (operand_ids ops.(!k))) else gn in
          (* "order-mix" covers every column-major operand in the default engine's guards; the float
             engines' known difference (F62) is about MIXED orders only *)
          let dests = List.concat (List.map (fun tok ->
              match String.split_on_char '.' tok with
              | ("reuse" | "incr" | "ur") :: r :: _ -> (try [int_of_string r] with _ -> [])
              | "both" :: r :: i :: _ -> (try [int_of_string r; int_of_string i] with _ -> [])
              | _ -> []) (Array.to_list (fields ops.(!k)))) in
          let tags = List.map (layout_tag !m) (operand_ids ops.(!k) @ dests) in
          let gn = if gn = "order-mix" && tags <> [] && List.for_all (fun t -> String.contains t 'c') tags then "all-col-major" else gn in
          (* a destination that needs an iterator (lazily transposed, view, other order) while the
             default engine's guard is satisfied *)
          let gn = if gn = "UNGUARDED" && List.exists (fun d -> layout_tag !m d <> "") dests then "dest-needs-iterator" else gn in
          (* which operand the destination aliases: the engines copy the LEFT operand into the
             destination first, so a destination that is the RIGHT operand is their known weak spot *)
          let mixed = List.exists (fun t -> String.contains t 'c') tags && List.exists (fun t -> not (String.contains t 'c')) tags in
          let gn = if gn = "dest-alias" && mixed then "order-mix" else gn in
          let gn = if gn = "dest-alias" then
              (match operand_ids ops.(!k) with
               | [_; b] when List.mem b dests -> "dest-alias-right"
               | _ -> "dest-alias-left") else gn in
          (* the option mode, and whether a destination tensor has another shape than the operand
             (it is then reshaped by the option handling) *)
          let mode = List.fold_left (fun acc tok ->
              match String.split_on_char '.' tok with
              | ("safe" | "unsafe" | "reuse" | "incr" | "both" | "ur") as m0 :: _ -> m0
              | _ -> acc) "safe" (List.tl (Array.to_list (fields ops.(!k)))) in
          let shape_of i = (match get_t !m (nat_of_int i) with Some d -> d.d_ap.shp | None -> []) in
          let reshaped = (match operand_ids ops.(!k) with
              | o0 :: _ -> List.exists (fun d -> shape_of d <> shape_of o0) dests
              | [] -> false) in
          let gn = if reshaped && f.(0) <> "lin" then gn ^ "+dest-reshaped" else gn in
          Printf.sprintf "c20.%s:%s:%s:%s" a.(0)
            (f.(0) ^ (if Array.length f > 1 && (f.(0) = "bin" || f.(0) = "bins" || f.(0) = "lin") then "." ^ f.(1) else "")) gn mode
        end in
      { model = "-"; spec; cls })
