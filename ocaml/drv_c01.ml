(* C01 — coordinate addressing *)
open Model
type string = Stdlib.String.t  (* Model defines Coq's string inductive; keep OCaml's name *)
open Proto

let all_nonneg l = List.for_all (fun x -> x >= 0) l

let () =
  register "cstr" (fun a ->
    let s = zs a.(0) in
    let m = "ok:" ^ fzs (calc_strides s) in
    { model = m; spec = "-"; cls = "" });
  register "cstrcm" (fun a ->
    let s = zs a.(0) in
    { model = "ok:" ^ fzs (calc_strides_cm s); spec = "-"; cls = "" });
  (* ltoi shape strides coords.  SPEC: accepted iff in the box (when the strides fit the shape),
     and then the offset is the dot product. *)
  (* itol i shape strides.  SPEC (default strides, 0 <= i < size): the coordinate of rank i *)
  register "itol" (fun a ->
    let i = z_of_int (int_of_string a.(0)) and sh = zs a.(1) and st = zs a.(2) in
    let m = (match itol i sh st with
        | Ok (c, false) -> "ok:" ^ fzs c
        | Ok (c, true) -> "err:" ^ fzs c
        | Err -> "err" | Panic -> "panic") in
    let n = int_of_z (size sh) in
    let spec = if st = calc_strides sh && int_of_string a.(0) >= 0 && int_of_string a.(0) < n && sh <> []
      then "ok:" ^ fzs (unrank sh i) else "-" in
    { model = m; spec; cls = "" });
  register "ltoi" (fun a ->
    let sh = zs a.(0) and st = zs a.(1) and co = zs a.(2) in
    let m = res_str (fun v -> string_of_int (int_of_z v)) (ltoi sh st co) in
    (* Ltoi itself has no arity check (At/SetAt have); the property speaks about At/SetAt, so
       only full-arity calls carry a spec. *)
    let spec =
      if List.length co <> List.length sh then "-"
      else if inboxb sh co then
        (if List.length st = List.length sh then "ok:" ^ string_of_int (int_of_z (dot st co))
         else "-")
      else "err" in
    let cls = "" in
    { model = m; spec; cls });
  let build order sh =
    let n = int_of_z (size sh) in
    match order with
    | "rm" -> Some (iota n, calc_strides sh)
    | "cm" | "cmf" | "cmg" | "cmn" -> Some (iota n, calc_strides_cm sh)   (* the same tensor, declared through other option orders / NewDense *)
    | _ -> None in
  let spec_index order sh co =
    match order with
    | "rm" | "cmb" -> rank_rm sh co
    | _ -> rank_cm sh co in
  (* at dt order shape coords *)
  register "at" (fun a ->
    let dt = a.(0) and order = a.(1) in
    let sh = zs a.(2) and co = zs a.(3) in
    let n = int_of_z (size sh) in
    let spec =
      if inboxb sh co then
        (* rm: backing[rank_rm]; cm over a raw backing: backing[rank_cm];
           cmb keeps the row-major meaning of the sequence: element = rank_rm *)
        let k = int_of_z (spec_index order sh co) in
        if k < 0 || k >= n then "?" else "ok:" ^ string_of_int (pv dt (z_of_int k))
      else "err" in
    let cls = "" in
    match build order sh with
    | Some (data, st) ->
      let m = res_str (fun v -> string_of_int (pv dt v)) (window_at data sh st co) in
      { model = m; spec; cls }
    | None -> { model = "-"; spec; cls });
  (* setat dt order shape coords : writes token 77, reports the whole backing *)
  register "setat" (fun a ->
    let dt = a.(0) and order = a.(1) in
    let sh = zs a.(2) and co = zs a.(3) in
    let n = int_of_z (size sh) in
    let v = z_of_int 77 in
    let cls = "" in
    match build order sh with
    | Some (data, st) ->
      let m = match window_setat data sh st co v with
        | Ok d -> "ok:" ^ fvals dt d
        | Err -> "err:" ^ fvals dt data
        | Panic -> "panic:" ^ fvals dt data in
      let spec =
        if inboxb sh co then
          let k = int_of_z (spec_index order sh co) in
          "ok:" ^ fints (List.mapi (fun i x -> if i = k then pv dt v else pv dt x) data)
        else "err:" ^ fvals dt data in
      { model = m; spec; cls }
    | None ->
      (* cmb: the backing is the column-major rearrangement of iota; SPEC only *)
      let spec =
        if inboxb sh co then "-" else "-" in
      ignore n; { model = "-"; spec; cls })
