(* proto.ml — glue between the textual case protocol and the extracted Coq model.
   Trusted: parsing, printing, int <-> Coq Z conversion. *)
open Model
type string = Stdlib.String.t  (* Model defines Coq's string inductive; keep OCaml's name *)

let rec pos_of_int (n : int) : positive =
  if n = 1 then XH
  else if n land 1 = 0 then XO (pos_of_int (n lsr 1))
  else XI (pos_of_int (n lsr 1))

let z_of_int (n : int) : z =
  if n = 0 then Z0 else if n > 0 then Zpos (pos_of_int n) else Zneg (pos_of_int (-n))

let rec int_of_pos (p : positive) : int =
  match p with XH -> 1 | XO q -> 2 * int_of_pos q | XI q -> 2 * int_of_pos q + 1

let int_of_z (x : z) : int =
  match x with Z0 -> 0 | Zpos p -> int_of_pos p | Zneg p -> - (int_of_pos p)

let rec nat_of_int (n : int) : nat = if n <= 0 then O else S (nat_of_int (n - 1))
let rec int_of_nat (n : nat) : int = match n with O -> 0 | S m -> 1 + int_of_nat m

let split_on c s = String.split_on_char c s

let ints (s : string) : int list =
  if s = "_" || s = "" then [] else List.map int_of_string (split_on ',' s)
let zs (s : string) : z list = List.map z_of_int (ints s)

let fints (l : int list) : string =
  if l = [] then "_" else String.concat "," (List.map string_of_int l)
let fzs (l : z list) : string = fints (List.map int_of_z l)

let iota n = List.init n (fun i -> z_of_int i)

(* value projection per dtype: bool tensors only carry k mod 2 *)
let pv (dt : string) (v : z) : int =
  let k = int_of_z v in
  if dt = "b" then ((k mod 2) + 2) mod 2 else k
let fvals dt (l : z list) = fints (List.map (pv dt) l)

(* a handler returns (model, spec, cls):
     model : what the MODEL (transcription of the Go code) predicts for the observation
     spec  : what the property demands ("-" when the case has no separate spec)
     cls   : "" when the case lies inside the hypotheses of the proved theorems (then
             model = spec is a theorem), otherwise the name of the finding class *)
type outcome = { model : string; spec : string; cls : string }

(* taint of the last case: the first step of a program whose named guard was NOT GOk, as
   "<op>:<guard>" (printed as a 4th column; "" for kinds without guards).  After such a step the
   run is outside the domain of the theorems even when nothing observable differs yet. *)
let last_taint : string ref = ref ""

(* handlers get the case fields and the implementation's observation (used only where the
   property leaves a choice open, e.g. which length-one axes a slice drops) *)
let handlers : (string, string array -> string -> outcome) Hashtbl.t = Hashtbl.create 64
let register2 k f = Hashtbl.replace handlers k f
let register k f = Hashtbl.replace handlers k (fun a _impl -> f a)

let res_str (f : 'a -> string) (r : 'a res) : string =
  match r with Ok a -> "ok:" ^ f a | Err -> "err" | Panic -> "panic"
