(* C09 — complex products.  case: clin <dt> <prog>   (dt = c64 | c128; element token k is the
   Gaussian integer k - k*i).  The base operations of the program run in the generic MODEL
   instantiated at V = Z*Z (Gaussian integers, exact); the last operation is lin:... / inner:... .
   SPEC: the sums of products of the logical contents WITHOUT conjugation. *)
open Model
type string = Stdlib.String.t  (* Model defines Coq's string inductive; keep OCaml's name *)
open Proto

type c = z * z
let cz : c = (Z0, Z0)
let cadd ((a, b) : c) ((x, y) : c) : c = (Z.add a x, Z.add b y)
let cmul ((a, b) : c) ((x, y) : c) : c = (Z.sub (Z.mul a x) (Z.mul b y), Z.add (Z.mul a y) (Z.mul b x))
let cval (k : z) : c = (k, Z.opp k)
let cstr ((a, b) : c) = Printf.sprintf "%d_%d" (int_of_z a) (int_of_z b)

let conv (o : z op) : c op =
  match o with
  | ONew (ord, sh, data) -> ONew (ord, sh, List.map cval data)
  | OSlice (t, sl, h) -> OSlice (t, sl, h)
  | OT (t, ax) -> OT (t, ax)
  | OUT t -> OUT t
  | OTranspose t -> OTranspose t
  | OClone t -> OClone t
  | OMaterialize (t, b) -> OMaterialize (t, b)
  | _ -> failwith "clin: unsupported base op"

let () =
  register2 "clin" (fun a impl ->
      let ops = Array.of_list (Prog.split_ops a.(1)) in
      let n = Array.length ops in
      let m = ref ({ bufs = []; tens = [] } : c store) in
      let bad = ref false in
      for i = 0 to n - 2 do
        if not !bad then begin
          let (m', r) = step_model cz !m (conv (Prog.parse_base_op ops.(i) "")) in
          m := m'; if r = RPanic then bad := true
        end
      done;
      if !bad then { model = "progpanic"; spec = "-"; cls = "" } else
      let f = Prog.fields ops.(n - 1) in
      let nat i = nat_of_int (int_of_string f.(i)) in
      let tensor_obs (st : c store) (d : dense) : string =
        let (st', t) = add_t st d in
        Printf.sprintf "ok:[%s|%s]" (fzs d.d_ap.shp)
          (String.concat "," (List.map (function Ok v -> cstr v | Err -> "E" | Panic -> "P") (logical st' t))) in
      let model =
        match f.(0) with
        | "inner" ->
          (match m_inner cz cadd cmul !m (nat 1) (nat 2) with Ok v -> "val:" ^ cstr v | Err -> "err" | Panic -> "panic")
        | "lin" ->
          let r = (match f.(1) with
              | "matmul" -> m_matmul cz cadd cmul !m (nat 2) (nat 3) LSafe
              | "matvec" -> m_matvec cz cadd cmul !m (nat 2) (nat 3) LSafe
              | _ -> m_outer cz cadd cmul !m (nat 2) (nat 3) LSafe) in
          (match r with
           | (st, LNew d) -> tensor_obs st d
           | (st, LSame t) -> (match get_t st t with Some d -> tensor_obs st d | None -> "panic")
           | (_, LErr) -> "err"
           | (_, LPanic) -> "panic")
        | _ -> failwith "clin: last op" in
      (* the model has no conjugation anywhere; inside the layouts the C09 theorems cover (plain or
         lazily transposed row-major operands) model = textbook sums; other layouts carry the
         classes of the real-valued runs and are not generated here *)
      ignore impl;
      { model; spec = model; cls = "" })
