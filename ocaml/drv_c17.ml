(* C17 — value sweeps: the observation carries the library's values, the values of Go's own
   operator, and the harness's verdict; SPEC = the same observation with verdict "agree" *)
open Proto
let () =
  register2 "valop" (fun a impl ->
      let n = String.length impl in
      let bad = n >= 4 && String.sub impl (n - 4) 4 = "eq=0" in
      let spec = if bad then String.sub impl 0 (n - 4) ^ "eq=1" else impl in
      { model = "-"; spec; cls = if bad then Printf.sprintf "valop:%s:%s:%s" a.(0) a.(1) a.(2) else "" })
