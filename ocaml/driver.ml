(* driver.ml — reads "case => observation" lines, prints "model<TAB>spec<TAB>class" per line. *)
let () =
  let ic = if Array.length Sys.argv > 1 then open_in Sys.argv.(1) else stdin in
  let buf = Buffer.create (1 lsl 20) in
  (try
     while true do
       let line = input_line ic in
       let case, impl =
         match Str.search_forward (Str.regexp_string " => ") line 0 with
         | i -> String.sub line 0 i, String.sub line (i + 4) (String.length line - i - 4)
         | exception Not_found -> line, "" in
       let fields = Array.of_list (List.filter (fun s -> s <> "") (String.split_on_char ' ' case)) in
       let out =
         if Array.length fields = 0 then "badcase\t-\t"
         else
           match Hashtbl.find_opt Proto.handlers fields.(0) with
           | None -> "nokind\t-\t"
           | Some h ->
             (try
                Proto.last_taint := "";
                let o = h (Array.sub fields 1 (Array.length fields - 1)) impl in
                o.Proto.model ^ "\t" ^ o.Proto.spec ^ "\t" ^ o.Proto.cls ^ "\t" ^ !Proto.last_taint
              with e -> "driver-exn:" ^ Printexc.to_string e ^ "\t-\t") in
       Buffer.add_string buf out; Buffer.add_char buf '\n'
     done
   with End_of_file -> ());
  print_string (Buffer.contents buf)
