(* C05 — iterators: script interpreter over the extracted Iter / Mult models *)
open Model
type string = Stdlib.String.t  (* Model defines Coq's string inductive; keep OCaml's name *)
open Proto

type ist = Flat of fiter * bool list option | Mult of miter * int

let b2i b = if b then 1 else 0

let run_script (st0 : ist) (script : string) : string =
  let st = ref st0 in
  let out = ref [] in
  let stop = ref false in
  String.iter (fun ch ->
      if not !stop then begin
        let s =
          match !st, ch with
          | Flat (it, m), 'n' ->
            (match iter_next it with
             | (it', Ok i) -> st := Flat (it', m); Printf.sprintf "n=%d" (int_of_z i)
             | (it', Err) -> st := Flat (it', m); "n=E"
             | (_, Panic) -> "n=P")
          | Flat (it, None), 'v' ->
            let ((it', ((i, k), e)), p) = flat_next_valid it in
            if p then "v=P" else begin
              st := Flat (it', None);
              Printf.sprintf "v=%d:%d%s" (int_of_z i) (int_of_z k) (if e then "E" else "") end
          | Flat (it, None), 'i' ->
            let (i, k) = flat_next_invalid it in
            Printf.sprintf "i=%d:%dE" (int_of_z i) (int_of_z k)
          | Flat (it, Some mask), ('v' | 'i') ->
            let fuel = nat_of_int (int_of_z it.it_size + 3) in
            (match miter_seek fuel (ch = 'i') mask it Z0 with
             | (it', Ok ((i, k), found)) ->
               st := Flat (it', Some mask);
               Printf.sprintf "%c=%d:%d%s" ch (int_of_z i) (int_of_z k) (if found then "" else "E")
             | (_, _) -> Printf.sprintf "%c=P" ch)
          | Flat (it, m), 'y' ->
            let mask = match m with Some l -> l | None -> [] in
            (match miter_next_validity mask it with
             | (it', Ok (i, v)) -> st := Flat (it', m); Printf.sprintf "y=%d:%d" (int_of_z i) (b2i v)
             | (it', Err) -> st := Flat (it', m); "y=E"
             | (_, Panic) -> "y=P")
          | Flat (it, m), 'r' ->
            (match iter_reset it with
             | Ok it' -> st := Flat (it', m); "r"
             | _ -> "r=P")
          | Flat (it, m), ('R' | 'F') ->
            (match iter_set_dir it (ch = 'R') with
             | Ok it' -> st := Flat (it', m); String.make 1 ch
             | _ -> Printf.sprintf "%c=P" ch)
          | Flat (it, _), 'c' -> "c=" ^ fzs it.it_track
          | Flat (it, _), 'd' -> Printf.sprintf "d=%d" (b2i it.it_done)
          | Mult (mi, n), 'n' ->
            (match mult_next mi with
             | (mi', Ok i) -> st := Mult (mi', n); Printf.sprintf "n=%d" (int_of_z i)
             | (mi', Err) -> st := Mult (mi', n); "n=E"
             | (_, Panic) -> "n=P")
          | Mult (mi, n), 'l' -> "l=" ^ String.concat "," (List.map (fun z -> string_of_int (int_of_z z)) mi.mi_last)
          | Mult (mi, n), 'r' ->
            (match mult_reset mi with
             | Ok mi' -> st := Mult (mi', n); "r"
             | _ -> "r=P")
          | Mult (mi, n), ('R' | 'F') ->
            (match mult_set_dir mi (ch = 'R') with
             | Ok mi' -> st := Mult (mi', n); String.make 1 ch
             | _ -> Printf.sprintf "%c=P" ch)
          | Mult (mi, n), 'd' ->
            let (mi', d) = mult_done mi in
            st := Mult (mi', n);
            Printf.sprintf "d=%d" (b2i d)
          | _, c -> Printf.sprintf "%c=?" c in
        out := s :: !out;
        if String.length s >= 2 && String.sub s (String.length s - 2) 2 = "=P" then stop := true
      end) script;
  String.concat " " (List.rev !out)

(* SPEC for a complete forward run of n's with c's: offsets of the logical coordinates in
   row-major order, then exhaustion.  Computed only for scripts made of full runs. *)
let spec_full_forward (sh : z list) (st : z list) (script : string) (impl : string) : string =
  if List.length st <> List.length sh then "-" else
  let offs = List.map (fun c -> int_of_z (dot st c)) (coords sh) in
  let cs = coords sh in
  let n = List.length offs in
  (* only the canonical script (nc)^size dnndc is specified here *)
  let canon = String.concat "" (List.init n (fun _ -> "nc")) ^ "dnndc" in
  if script <> canon then "-" else begin
    let parts = ref [] in
    List.iteri (fun k o ->
        parts := Printf.sprintf "n=%d" o :: !parts;
        (* the coordinate reported once the iterator is exhausted is left open: the
           implementation's own report is echoed there *)
        let field j = try List.nth (String.split_on_char ' ' impl) j with _ -> "c=?" in
        let nextc = if k + 1 < n then "c=" ^ fzs (List.nth cs (k + 1)) else field (2 * k + 1) in
        parts := nextc :: !parts) offs;
    let last = try List.nth (String.split_on_char ' ' impl) (2 * n + 4) with _ -> "c=?" in
    String.concat " " (List.rev !parts) ^ " d=1 n=E n=E d=1 " ^ last
  end

(* SPEC for R(nc)^size...: the same offsets in reverse order (prefix only: the coordinate
   reports of a reversed run are not specified) *)
let spec_full_reverse (sh : z list) (st : z list) (script : string) : string =
  if List.length st <> List.length sh then "-" else
  let offs = List.rev (List.map (fun c -> int_of_z (dot st c)) (coords sh)) in
  let n = List.length offs in
  let canon = "R" ^ String.concat "" (List.init n (fun _ -> "nc")) ^ "dnndc" in
  if script <> canon || n = 0 then "-" else
    (* tokens: R n c n c ... ; only the n's are specified, c's are wildcards *)
    "R " ^ String.concat " " (List.map (fun o -> Printf.sprintf "n=%d c=*" o) offs) ^ " d=1 n=E n=E d=1 ..."

(* SPEC for v^(size+2) / i^(size+2) on a masked contiguous tensor *)
let spec_masked (size : int) (mask : bool list) (script : string) : string =
  let want = if script = String.make (size + 2) 'v' then Some false
    else if script = String.make (size + 2) 'i' then Some true else None in
  match want with
  | None -> "-"
  | Some w ->
    let ch = if w then 'i' else 'v' in
    let idxs = List.filteri (fun _ _ -> true) (List.mapi (fun i m -> (i, m)) mask) in
    let hits = List.filter (fun (_, m) -> m = w) idxs in
    let prev = ref (-1) in
    let toks = List.map (fun (i, _) -> let k = i - !prev in prev := i; Printf.sprintf "%c=%d:%d" ch i k) hits in
    let rest = size - 1 - !prev in
    let tail = List.init (size + 2 - List.length hits) (fun j ->
        if j = 0 then Printf.sprintf "%c=-1:%dE" ch rest else Printf.sprintf "%c=-1:0E" ch) in
    String.concat " " (toks @ tail)

(* SPEC for the multi-iterator over equally shaped operands: after each Next, LastIndex j is what
   operand j's own flat iterator yields *)
let spec_mult (aps : ap list) (script : string) : string =
  match aps with
  | [] -> "-"
  | a0 :: _ ->
    if not (List.for_all (fun a -> a.shp = a0.shp && List.length a.str = List.length a.shp) aps) then "-" else
    let cs = coords a0.shp in
    let n = List.length cs in
    let pre = String.concat "" (List.init n (fun _ -> "nl")) in
    if String.length script < 2 * n || String.sub script 0 (2 * n) <> pre then "-" else
    String.concat " " (List.map (fun c ->
        Printf.sprintf "n=%d l=%s" (int_of_z (dot a0.str c))
          (String.concat "," (List.map (fun a -> string_of_int (int_of_z (dot a.str c))) aps))) cs) ^ " ..."

let () =
  register2 "iterap" (fun a impl ->
      let sh = zs a.(0) and st = zs a.(1) in
      let it = new_iter { shp = sh; str = st; ord = Z0; fin = true } in
      let m = run_script (Flat (it, None)) a.(2) in
      let pos = List.for_all (fun d -> d >= 1) (ints a.(0)) in
      let spec = if not pos then "-" else
          match spec_full_forward sh st a.(2) impl with
          | "-" -> spec_full_reverse sh st a.(2)
          | s -> s in
      (* guard of the reverse theorem: on the vector-like fast path the long axis must be axis 0 *)
      let cls = "" in
      { model = m; spec; cls });
  register2 "itert" (fun a impl ->
      (* the access pattern is read from the implementation's own report (shape/strides of the
         tensor the program built); the program prefix itself is checked by the prog kind *)
      if String.length impl >= 6 && String.sub impl 0 6 = "setup-" then { model = impl; spec = "-"; cls = "" }
      else begin
        let sp = try String.index impl ' ' with Not_found -> String.length impl in
        let apf = String.sub impl 3 (sp - 3) in
        match String.split_on_char '/' apf with
        | [s; t] ->
          let sh = zs s and st = zs t in
          let it = new_iter { shp = sh; str = st; ord = Z0; fin = true } in
          { model = "ap=" ^ apf ^ " " ^ run_script (Flat (it, None)) a.(3); spec = "-"; cls = "" }
        | _ -> { model = "bad-ap"; spec = "-"; cls = "" }
      end);
  register "iterm" (fun a ->
      let sh = zs a.(0) in
      let mask = List.init (String.length a.(1)) (fun i -> a.(1).[i] = '1') in
      let it = new_iter { shp = sh; str = calc_strides sh; ord = Z0; fin = true } in
      { model = run_script (Flat (it, Some mask)) a.(2);
        spec = spec_masked (int_of_z (size sh)) mask a.(2); cls = "" });
  register "mult" (fun a ->
      let aps = List.map (fun p ->
          match String.split_on_char '/' p with
          | [s; t] -> { shp = zs s; str = zs t; ord = Z0; fin = true }
          | _ -> failwith "bad ap") (String.split_on_char ';' a.(0)) in
      match new_mult aps with
      | Ok mi ->
        let m = run_script (Mult (mi, List.length aps)) a.(1) in
        (* guard of the multi-iterator theorem: BroadcastStrides' vector shortcut keeps only
           strides[0]; on a row vector (1,n) the stride of the long axis is lost *)
        let rowvec_strided = List.exists (fun a ->
            is_rowvec a.shp && (match a.str with [_; s1] -> int_of_z s1 <> 1 | _ -> false)) aps in
        (* zero strides on an axis longer than one (broadcast views) cannot be reached by slicing
           and transposing: outside the property's quantifier (C05_mult_zero_stride_refuted shows
           the multi-iterator is wrong there); left unspecified *)
        let zero_wide = List.exists (fun a ->
            List.exists2 (fun d s -> int_of_z d <> 1 && int_of_z s = 0) a.shp a.str) aps in
        if zero_wide then { model = m; spec = "?"; cls = "" } else
        { model = m; spec = spec_mult aps a.(1); cls = if rowvec_strided then "mult:rowvec-stride" else "" }
      | Err -> { model = "E"; spec = "-"; cls = "" }
      | Panic -> { model = "l=P"; spec = "-"; cls = "" })
