(* C14 — serialisation round trips.  case: ser <dt> <fmt> <t> <mask|-> <prog> *)
open Model
type string = Stdlib.String.t  (* Model defines Coq's string inductive; keep OCaml's name *)
open Proto

let fill_sentinel = z_of_int (-7777)

(* what each dtype supports: types.go numpyDtypes / binary.Write, ReadNpy's switch, convFromStrs *)
let caps_of (dt : string) : caps =
  let npy_w = not (List.mem dt ["i"; "u"; "str"]) in        (* int/uint: binary.Write rejects; string: no numpy dtype *)
  let npy_r = true in
  let npy_case = dt <> "str" in
  let csv_r = not (List.mem dt ["b"; "c64"; "c128"]) in
  { npy_w; npy_r; npy_case; csv_r }

let fmt_of = function
  | "gob" -> FGob | "npy" -> FNpy | "csv" -> FCsv | "pb" -> FPb | "fb" -> FFb
  | f -> failwith ("fmt " ^ f)

(* the L list of the decoded tensor in the implementation's observation *)
let impl_L (impl : string) : string array =
  match Str.search_forward (Str.regexp "D\\[[^|]*|L:\\([^|]*\\)|K:") impl 0 with
  | _ -> Array.of_list (String.split_on_char ',' (Str.matched_group 1 impl))
  | exception Not_found -> [||]

let cell dt (impl_l : string array) (i : int) (r : z res) : string =
  match r with
  | Ok v when v = fill_sentinel -> if i < Array.length impl_l then impl_l.(i) else "F"
  | Ok v -> string_of_int (pv dt v)
  | Err -> "E"
  | Panic -> "P"

let mask_str (l : bool res list) (masked : bool) : string =
  if not masked then "-" else
  if l = [] then "_" else
  String.concat "" (List.map (function Ok true -> "1" | Ok false -> "0" | Err -> "E" | Panic -> "P") l)

let tv_obs tag dt impl_l (t : z tval) : string =
  let ls = List.mapi (cell dt impl_l) (tv_logical t) in
  Printf.sprintf "%s[%s|L:%s|K:%s]" tag (fzs t.tv_ap.shp)
    (if ls = [] then "_" else String.concat "," ls)
    (mask_str (tv_logical_mask t) (tv_masked t))

let symptom (m : string) (s : string) : string =
  let tok x i = match List.nth_opt (String.split_on_char ' ' x) i with Some t -> t | None -> "" in
  let shape_of x = match String.index_opt x '|' with Some i -> String.sub x 0 i | None -> x in
  if tok m 0 = "E=panic" || tok m 1 = "D=panic" then "panic"
  else if tok m 0 <> tok s 0 || tok m 1 <> tok s 1 then "status"
  else if tok m 2 <> tok s 2 then "dtype"
  else if shape_of (tok m 3) <> shape_of (tok s 3) then "shape"
  else if tok m 4 <> tok s 4 then "operand"
  else if String.contains (tok m 3) 'P' then "unreadable"
  else "values"

let () =
  (* serx: unsafe.Pointer / uintptr tensors, SPEC only (the property's own disjunction): the tensor
     is refused when written, or it comes back with the same element type, shape and elements *)
  register2 "serx" (fun a impl ->
      let refused = String.length impl >= 5 && String.sub impl 0 5 = "E=err" in
      let want = if refused then impl else Printf.sprintf "E=ok D=ok dt=%s same=1" (if a.(0) = "ptr" then "unsafe.Pointer" else "uintptr") in
      { model = "-"; spec = want; cls = if impl = want then "" else Printf.sprintf "serx.%s:%s:%s" a.(1) a.(0)
                                           (if String.length impl >= 9 && String.sub impl 5 4 = "D=ok" then "values" else "unreadable") });
  register2 "ser" (fun a impl ->
      let dt = a.(0) and fmt = a.(1) and ti = int_of_string a.(2) and mask = a.(3) in
      let ops = Prog.split_ops a.(4) in
      let m = ref (empty_store : z store) in
      let panicked = ref false in
      List.iter (fun o ->
          if not !panicked then begin
            let (m', r) = zstep_model !m (Prog.parse_op o "") in
            m := m';
            if r = RPanic then panicked := true
          end) ops;
      if !panicked then { model = "progpanic"; spec = "-"; cls = "" } else
      match get_t !m (nat_of_int ti) with
      | None -> { model = "notensor"; spec = "-"; cls = "" }
      | Some d ->
        let w = window !m d in
        let mk = if mask = "-" then [] else List.init (String.length mask) (fun i -> mask.[i] = '1') in
        let src = { tv_ap = d.d_ap; tv_data = w; tv_mask = mk } in
        let impl_l = impl_L impl in
        let s_obs = tv_obs "S" dt [||] src in
        let f = fmt_of fmt in
        let c = caps_of dt in
        let model =
          match ser_model Z0 fill_sentinel f c src with
          | SEncErr -> "E=err D=- dt=- D[-] " ^ s_obs
          | SEncPanic -> "E=panic D=- dt=- D[-] " ^ s_obs
          | SDecErr -> "E=ok D=err dt=- D[-] " ^ s_obs
          | SDecPanic -> "E=ok D=panic dt=- D[-] " ^ s_obs
          | SOk t' ->
            (* fromNumpyDtype answers the platform int for i8/u8 *)
            let dt' = (match fmt, dt with "npy", "i64" -> "i" | "npy", "u64" -> "u" | _ -> dt) in
            Printf.sprintf "E=ok D=ok dt=%s %s %s F=same" dt' (tv_obs "D" dt impl_l t') s_obs in
        (* SPEC: either refused at encoding, or the same dtype, shape, logical elements (masked
           ones are open where the format has no mask) and the mask where the format carries it *)
        let refused = String.length impl >= 5 && String.sub impl 0 5 = "E=err" in
        let spec =
          if refused then "E=err D=- dt=- D[-] " ^ s_obs else
          let masked = tv_masked src in
          let lm = tv_logical_mask src in
          let ls = List.mapi (fun i r ->
              let open_ = masked && not (carries_mask f) && (List.nth lm i = Ok true) in
              if open_ then (if i < Array.length impl_l then impl_l.(i) else "F")
              else cell dt [||] i r) (tv_logical src) in
          Printf.sprintf "E=ok D=ok dt=%s D[%s|L:%s|K:%s] %s F=same" dt (fzs src.tv_ap.shp)
            (if ls = [] then "_" else String.concat "," ls)
            (if carries_mask f then mask_str lm masked else "-") s_obs in
        (* guard classes (the hypotheses of the round-trip theorems) *)
        let a = src.tv_ap in
        let plain = (a.str = calc_strides a.shp) && (z_of_int (List.length w) = size a.shp) in
        let fits = z_of_int (List.length w) = size a.shp in
        let guard =
          match fmt with
          | "gob" -> if is_scalar a.shp then "scalar" else if not fits then "window" else ""
          | "npy" ->
            if dt = "i64" || dt = "u64" then "dtype-alias"
            else if not c.npy_r then "dtype-unreadable" else if not c.npy_case then "dtype-nocase"
            else if tv_masked src then "" else if not plain then "layout" else ""
          | "csv" ->
            if not c.csv_r then "dtype-unreadable" else ""
          | _ ->
            if fmt = "fb" && List.length a.str < List.length a.shp then "strides-short"
            else if not fits then "window" else "" in
        (* the flag-consistency token F= of the decoded tensor is demanded only inside the guarded
           domain; in a known-finding zone (a window that was not written whole, ...) the decoded
           tensor is not a sound tensor anyway and the implementation's token is taken over *)
        let f_impl = (match List.rev (String.split_on_char ' ' impl) with t :: _ when String.length t > 2 && String.sub t 0 2 = "F=" -> t | _ -> "F=same") in
        (* (a lazily transposed source is written with its permuted strides and read back without
           the pending transpose: the decoded tensor is flag-unsound in the sense of F5 - elements
           agree, raw-path consumers such as ToMat64 do not; outside C14's statement) *)
        let refix x = if guard = "" && d.d_old = None then x else Str.global_replace (Str.regexp_string "F=same") f_impl x in
        let model = refix model and spec = refix spec in
        let cls =
          if model = spec then "" else
          Printf.sprintf "ser.%s:%s:%s" fmt (if guard = "" then "UNGUARDED" else guard) (symptom model spec) in
        { model; spec; cls })

let () =
  (* serv <dt> <fmt>: the byte channels are the identity on every value of the element type *)
  register2 "serv" (fun a impl ->
      let dt = a.(0) and fmt = a.(1) in
      let c = caps_of dt in
      let n = match Str.search_forward (Str.regexp "n=\\([0-9]+\\)") impl 0 with
        | _ -> int_of_string (Str.matched_group 1 impl) | exception Not_found -> 0 in
      let ok dt' = Printf.sprintf "E=ok D=ok dt=%s n=%d eq=%s" dt' n (String.make n '1') in
      let model =
        match fmt with
        | "npy" -> if not c.npy_w then "E=err"
          else ok (match dt with "i64" -> "i" | "u64" -> "u" | _ -> dt)
        | "csv" -> if not c.csv_r then "E=ok D=err" else ok dt
        | _ -> ok dt in
      let refused = impl = "E=err" in
      let spec = if refused then "E=err" else ok dt in
      let cls = if model = spec then "" else
          (match fmt with
           | "npy" -> "ser.npy:dtype-alias:dtype"
           | "csv" -> "ser.csv:dtype-unreadable:status"
           | _ -> "ser." ^ fmt ^ ":UNGUARDED:values") in
      { model; spec; cls })
