(* C18 — concurrency.  case: conc <family> <procs> <dt> <sharedprog> <g0|g1|...>
   There is no model of the Go runtime: the SPEC is "no race report, every goroutine observes what
   it observes running alone, the shared tensors are unchanged" (the sequential oracle is computed
   by the harness itself on the same binary). *)
open Proto

let () =
  register2 "conc" (fun a impl ->
      let n = List.length (String.split_on_char '|' a.(4)) in
      let spec = "races=0 " ^ String.concat " " (List.init n (fun i -> Printf.sprintf "g%d=same" i)) ^ " shared=same" in
      let has s = try ignore (Str.search_forward (Str.regexp_string s) impl 0); true with Not_found -> false in
      let sym =
        if impl = spec then "" else
        if has "shared=changed" then "shared-changed"
        else if has "=diff" then "diff"
        else if not (has "races=0") then "race" else "other" in
      { model = "-"; spec; cls = if sym = "" then "" else Printf.sprintf "conc.%s:%s" a.(0) sym })
