(* NativeProofs.v — proofs about Native.v (package native: Vector/Matrix/Tensor3/Select, and ToMat64)
   for C04, and the column-major instances of the layout-generic theorems of MemProofs for C16.
   Arbitrary element type V. *)
From TV Require Import Base Index AP Iter Mem Native Spec Guards IndexProofs IterProofs APProofs MemProofs.
From Coq Require Import Lia ZifyBool.

Local Arguments bufs {V}.
Local Arguments tens {V}.

(* ====================================================================================== *)
(*  0. list facts: all_some, zseq, chunks                                                  *)
(* ====================================================================================== *)
Lemma all_some_map_Some {A} : forall l : list A, all_some (map Some l) = Some l.
Proof.
  induction l as [|x l IH]; cbn [map all_some]; [reflexivity|]. rewrite IH. reflexivity.
Qed.

Lemma all_some_map {A B} (f : A -> option B) (g : A -> B) : forall l : list A,
  (forall x, In x l -> f x = Some (g x)) -> all_some (map f l) = Some (map g l).
Proof.
  induction l as [|x l IH]; intro H; cbn [map all_some]; [reflexivity|].
  rewrite (H x (or_introl eq_refl)), IH; [reflexivity|]. intros y Hy. apply H. right. exact Hy.
Qed.

Lemma all_some_inv {A} : forall (l : list (option A)) r, all_some l = Some r -> l = map Some r.
Proof.
  induction l as [|[x|] l IH]; intros r H; cbn [all_some] in H.
  - injection H as <-. reflexivity.
  - destruct (all_some l) as [r'|] eqn:E; [|discriminate]. injection H as <-.
    cbn [map]. f_equal. apply IH. reflexivity.
  - discriminate.
Qed.

Lemma zseq_app_n : forall n m a, zseq a (n + m) = zseq a n ++ zseq (a + Z.of_nat n) m.
Proof.
  induction n as [|n IH]; intros m a.
  - cbn [Nat.add zseq app]. f_equal. lia.
  - cbn [Nat.add zseq app]. f_equal. rewrite IH. do 2 f_equal. lia.
Qed.

Lemma zseq_shift0 : forall n a, zseq a n = map (fun j => a + j) (zseq 0 n).
Proof.
  intros n a. apply nth_error_ext_eq. intro k.
  destruct (Nat.lt_ge_cases k n) as [Hk|Hk].
  - rewrite nth_error_map, !APProofs.zseq_nth_error by exact Hk. cbn [option_map]. f_equal.
  - rewrite (proj2 (nth_error_None _ _)) by (rewrite APProofs.zseq_length; exact Hk).
    rewrite (proj2 (nth_error_None _ _)) by (rewrite map_length, APProofs.zseq_length; exact Hk).
    reflexivity.
Qed.

Lemma zseq0_seq : forall n, zseq 0 n = map Z.of_nat (seq 0 n).
Proof.
  intro n. apply nth_error_ext_eq. intro k.
  destruct (Nat.lt_ge_cases k n) as [Hk|Hk].
  - rewrite nth_error_map, APProofs.zseq_nth_error, (nth_error_nth' _ 0%nat) by (rewrite ?seq_length; exact Hk).
    rewrite seq_nth by exact Hk. cbn [option_map]. f_equal.
  - rewrite (proj2 (nth_error_None _ _)) by (rewrite APProofs.zseq_length; exact Hk).
    rewrite (proj2 (nth_error_None _ _)) by (rewrite map_length, seq_length; exact Hk).
    reflexivity.
Qed.

Lemma skipn_skipn_add {A} : forall (b a : nat) (l : list A), skipn a (skipn b l) = skipn (b + a) l.
Proof.
  induction b as [|b IH]; intros a l; [reflexivity|].
  destruct l as [|x l]; [rewrite !skipn_nil; reflexivity|]. cbn [Nat.add skipn]. apply IH.
Qed.

(* cutting a list of n*len elements into rows *)
Lemma chunks_seq {A} (len : nat) : (1 <= len)%nat -> forall (n fuel : nat) (l : list A) ,
  length l = (n * len)%nat -> (n <= fuel)%nat ->
  chunks fuel len l = map (fun k => firstn len (skipn (k * len) l)) (seq 0 n).
Proof.
  intros Hlen. induction n as [|n IH]; intros fuel l Hl Hf.
  - destruct l; [|discriminate]. destruct fuel; reflexivity.
  - destruct fuel as [|fuel]; [lia|].
    destruct l as [|x l']; [cbn in Hl; lia|].
    change (chunks (S fuel) len (x :: l'))
      with (firstn len (x :: l') :: chunks fuel len (skipn len (x :: l'))).
    set (l := x :: l') in *. cbn [seq map]. f_equal.
    rewrite (IH fuel (skipn len l)).
    + rewrite <- seq_shift, map_map. apply map_ext. intro k.
      rewrite skipn_skipn_add. do 2 f_equal.
    + rewrite skipn_length. lia.
    + lia.
Qed.

Lemma chunks_concat {A} (len : nat) : forall (fuel : nat) (l : list A), (1 <= len)%nat ->
  (length l <= fuel)%nat -> concat (chunks fuel len l) = l.
Proof.
  induction fuel as [|fuel IH]; intros l Hlen Hf.
  - destruct l; [reflexivity|cbn in Hf; lia].
  - destruct l as [|x l']; [reflexivity|].
    change (chunks (S fuel) len (x :: l'))
      with (firstn len (x :: l') :: chunks fuel len (skipn len (x :: l'))).
    set (l := x :: l') in *. cbn [concat]. rewrite IH; [apply firstn_skipn|exact Hlen|].
    rewrite skipn_length. unfold l in *. cbn [length] in *. lia.
Qed.

Lemma nth_error_firstn_ge {A} : forall (l : list A) n k, (n <= k)%nat -> nth_error (firstn n l) k = None.
Proof.
  intros l n k H. apply nth_error_None. rewrite firstn_length. lia.
Qed.

(* ====================================================================================== *)
(*  1. the logical list of a tensor                                                        *)
(* ====================================================================================== *)
Section NativeProofs.
Variable V : Type.
Variable vzero : V.

Local Notation get_buf := (get_buf V).
Local Notation get_t := (get_t V).

(* l is the list of the elements of d in row-major order of the coordinates *)
Definition is_logical (σ : store V) (d : dense) (l : list V) : Prop :=
  map Some l = map (cell V σ d) (coords (shp (d_ap d))).

Lemma is_logical_unique σ d l l' : is_logical σ d l -> is_logical σ d l' -> l = l'.
Proof.
  unfold is_logical. intros H H'. rewrite <- H' in H. clear H'. revert l' H.
  induction l as [|x l IH]; intros [|y l'] H; cbn [map] in H; try discriminate; [reflexivity|].
  injection H as -> H. f_equal. apply IH. exact H.
Qed.

Lemma is_logical_length σ d l : is_logical σ d l -> zlen l = size (shp (d_ap d)) \/ size (shp (d_ap d)) < 0 /\ l = [].
Proof.
  unfold is_logical. intro H. apply (f_equal (@length _)) in H. rewrite !map_length, coords_length in H.
  unfold zlen. destruct (Z.lt_ge_cases (size (shp (d_ap d))) 0) as [Hn|Hn].
  - right. split; [exact Hn|]. destruct l; [reflexivity|cbn [length] in H; lia].
  - left. lia.
Qed.

Lemma wf_logical_exists σ d : wf_dense V σ d -> exists l, is_logical σ d l.
Proof.
  intros Hwf. pose proof Hwf as (_ & (Hp & _) & _). unfold is_logical.
  assert (Hall : Forall (inbox (shp (d_ap d))) (coords (shp (d_ap d)))).
  { apply Forall_forall. intros c Hc. apply coords_In; assumption. }
  induction Hall as [|c cs Hc _ IH].
  - exists []. reflexivity.
  - destruct IH as (l & El).
    destruct (bget_some V σ (d_buf d) (pos d c) (pos_in_buf V σ d c Hwf Hc)) as [v Hv].
    exists (v :: l). cbn [map]. rewrite El, (cell_bget V σ d c Hwf Hc), Hv. reflexivity.
Qed.

Lemma is_logical_m_at σ t d l : get_t σ t = Some d -> wf_dense V σ d -> is_logical σ d l ->
  logical V σ t = map (@Ok V) l.
Proof.
  intros Ht Hwf Hl. pose proof Hwf as (_ & (Hp & _) & _). unfold logical.
  change (Mem.get_t V σ t) with (get_t σ t). rewrite Ht. unfold is_logical in Hl.
  assert (Hall : Forall (inbox (shp (d_ap d))) (coords (shp (d_ap d)))).
  { apply Forall_forall. intros c Hc. apply coords_In; assumption. }
  revert l Hl. induction Hall as [|c cs Hc _ IH]; intros l Hl.
  - destruct l; [reflexivity|discriminate].
  - destruct l as [|v l]; [discriminate|]. cbn [map] in Hl |- *. injection Hl as Hv Hl.
    destruct (m_at_cell V σ t d c Ht Hwf Hc) as (v' & Em & Ec & _).
    rewrite Em. f_equal; [congruence|]. apply IH. exact Hl.
Qed.

Lemma is_logical_nth σ d l c : pos_shape (shp (d_ap d)) -> is_logical σ d l -> inbox (shp (d_ap d)) c ->
  nth_error l (Z.to_nat (rk (shp (d_ap d)) c)) = cell V σ d c.
Proof.
  intros Hp Hl Hc. unfold is_logical in Hl.
  apply (f_equal (fun x => nth_error x (Z.to_nat (rk (shp (d_ap d)) c)))) in Hl.
  rewrite !nth_error_map, nth_error_coords in Hl by (apply rk_bound; assumption).
  rewrite unrank_rk in Hl by assumption. cbn [option_map] in Hl.
  destruct (nth_error l _) as [v|]; cbn [option_map] in Hl; [|discriminate]. congruence.
Qed.

(* the element of a registered tensor at an in-box coordinate, through At *)
Lemma is_logical_m_at_nth σ t d l c : get_t σ t = Some d -> wf_dense V σ d -> is_logical σ d l ->
  inbox (shp (d_ap d)) c ->
  exists v, m_at V σ t c = Ok v /\ nth_error l (Z.to_nat (rk (shp (d_ap d)) c)) = Some v.
Proof.
  intros Ht Hwf Hl Hc. pose proof Hwf as (_ & (Hp & _) & _).
  destruct (m_at_cell V σ t d c Ht Hwf Hc) as (v & Em & Ec & _).
  exists v. split; [exact Em|]. rewrite (is_logical_nth σ d l c Hp Hl Hc). exact Ec.
Qed.

(* the cells are stored in row-major order over exactly the window *)
Definition rm_cells (d : dense) : Prop :=
  d_len d = size (shp (d_ap d)) /\ (forall c, inbox (shp (d_ap d)) c -> dot (str (d_ap d)) c = rk (shp (d_ap d)) c).

Lemma contig_rm_cells d : contig d -> rm_cells d.
Proof. intros [Hs Hl]. split; [exact Hl|]. intros c _. rewrite Hs, rk_dot. reflexivity. Qed.

Lemma window_is_logical σ d : wf_dense V σ d -> rm_cells d -> is_logical σ d (window V σ d).
Proof.
  intros Hwf [Hlen Hrm]. pose proof Hwf as (Hw & (Hp & _) & _).
  pose proof (size_pos _ Hp) as Hsz. pose proof (window_length V σ d Hw) as Hwl.
  unfold is_logical. apply nth_error_ext_eq. intro k.
  destruct (Z.lt_ge_cases (Z.of_nat k) (size (shp (d_ap d)))) as [Hk|Hk].
  - rewrite !nth_error_map.
    replace k with (Z.to_nat (Z.of_nat k)) by lia.
    rewrite window_nth, nth_error_coords by (assumption || lia). cbn [option_map].
    assert (Hc : inbox (shp (d_ap d)) (unrank (shp (d_ap d)) (Z.of_nat k))).
    { apply unrank_inbox; [exact Hp|lia]. }
    rewrite (cell_bget V σ d _ Hwf Hc). unfold pos. rewrite (Hrm _ Hc), rk_unrank by (assumption || lia).
    destruct Hw as (H0 & H1 & H2).
    destruct (bget_some V σ (d_buf d) (d_off d + Z.of_nat k)) as [v Hv]; [lia|].
    rewrite Hv. reflexivity.
  - rewrite (proj2 (nth_error_None _ _)) by (rewrite map_length; unfold zlen in Hwl; lia).
    rewrite (proj2 (nth_error_None _ _)) by (rewrite map_length, coords_length; lia).
    reflexivity.
Qed.

Lemma dot_all_zero : forall c st, forallb (fun v => v =? 0) c = true -> dot st c = 0.
Proof.
  induction c as [|x c IH]; intros [|k st] H; cbn [dot]; try reflexivity.
  cbn [forallb] in H. apply andb_true_iff in H as [Hx H]. rewrite (IH st H). lia.
Qed.

(* a vector-shaped or all-ones-shaped tensor over a window of exactly its size is stored in order *)
Lemma small_rm_cells d : wf_ap (d_len d) (d_ap d) -> d_len d = size (shp (d_ap d)) ->
  is_vector (shp (d_ap d)) || is_scalar_equiv (shp (d_ap d)) = true -> rm_cells d.
Proof.
  intros Ha Hlen Hv. split; [exact Hlen|]. intros c Hc.
  destruct (is_vector (shp (d_ap d))) eqn:Ev.
  - rewrite (vector_dot_default _ _ c Ha Hlen Ev Hc), rk_dot. reflexivity.
  - cbn [orb] in Hv. destruct (scalar_equiv_inbox_zero _ c Hv Hc) as (Hz & Hr & _).
    rewrite Hr. apply dot_all_zero. exact Hz.
Qed.

(* ====================================================================================== *)
(*  2. ToMat64                                                                             *)
(* ====================================================================================== *)
(* the flags that let ToMat64 hand over the raw window are sound: a tensor that is neither a view
   nor lazily transposed spans exactly its window, in default row-major strides unless column-major *)
Definition raw_sound (d : dense) : Prop :=
  is_materializable d = false ->
  d_len d = size (shp (d_ap d)) /\ (is_cm (ord (d_ap d)) = false -> str (d_ap d) = calc_strides (shp (d_ap d))).

Lemma iter_walk_logical σ d l : wf_dense V σ d -> is_logical σ d l ->
  match iter_all (d_ap d) with
  | Some idx => all_some (map (fun i => win_get V σ d i) idx)
  | None => None
  end = Some l.
Proof.
  intros (_ & Ha & _) Hl. rewrite (iter_all_offsets _ _ Ha). unfold offsets. rewrite map_map.
  change (map (fun x => win_get V σ d (dot (str (d_ap d)) x))) with (map (cell V σ d)).
  unfold is_logical in Hl. rewrite <- Hl. apply all_some_map_Some.
Qed.

Theorem to_mat64_logical σ d r c : wf_dense V σ d -> shp (d_ap d) = [r; c] -> raw_sound d ->
  exists l, to_mat64 V σ d = NRows V [r; c] [l] /\ is_logical σ d l /\ zlen l = r * c.
Proof.
  intros Hwf Hs Hraw. pose proof Hwf as (Hw & Ha & _). pose proof Ha as (Hp & _).
  pose proof (size_pos _ Hp) as Hsz.
  assert (Hzl : forall l, is_logical σ d l -> zlen l = r * c).
  { intros l Hl. destruct (is_logical_length σ d l Hl) as [E|[E _]]; [|lia].
    rewrite E, Hs. cbn [size]. lia. }
  unfold to_mat64. rewrite Hs. rewrite <- Hs.
  destruct (negb (is_materializable d) &&
            (negb (is_cm (ord (d_ap d))) || is_vector (shp (d_ap d)) || is_scalar_equiv (shp (d_ap d)))) eqn:Eraw.
  - apply andb_true_iff in Eraw as [Em Ec]. apply negb_true_iff in Em.
    destruct (Hraw Em) as [Hlen Hstr].
    assert (Hrm : rm_cells d).
    { destruct (is_cm (ord (d_ap d))) eqn:Ecm.
      - apply small_rm_cells; [exact Ha|exact Hlen|]. cbn [negb orb] in Ec. exact Ec.
      - apply contig_rm_cells. split; [apply Hstr; reflexivity|exact Hlen]. }
    pose proof (window_is_logical σ d Hwf Hrm) as Hl.
    exists (window V σ d). rewrite (Hzl _ Hl). replace (r * c =? r * c) with true by lia.
    split; [reflexivity|]. split; [exact Hl|]. first [reflexivity|apply Hzl; exact Hl].
  - destruct (wf_logical_exists σ d Hwf) as (l & Hl). exists l.
    rewrite (iter_walk_logical σ d l Hwf Hl), (Hzl _ Hl). replace (r * c =? r * c) with true by lia.
    split; [reflexivity|]. split; [exact Hl|]. first [reflexivity|apply Hzl; exact Hl].
Qed.

(* ====================================================================================== *)
(*  3. package native on a contiguous row-major tensor                                     *)
(* ====================================================================================== *)
(* a contiguous row-major tensor: all extents >= 1, default strides, window of exactly size-many
   cells inside its allocation, no pending transpose, row-major and contiguous flags *)
Definition nat_tensor (σ : store V) (d : dense) : Prop :=
  pos_shape (shp (d_ap d)) /\ str (d_ap d) = calc_strides (shp (d_ap d)) /\
  d_len d = size (shp (d_ap d)) /\ d_old d = None /\
  is_cm (ord (d_ap d)) = false /\ is_nc (ord (d_ap d)) = false /\
  0 <= d_off d /\ d_off d + d_len d <= zlen (get_buf σ (d_buf d)).

Lemma nat_tensor_wf σ d : nat_tensor σ d -> wf_dense V σ d /\ contig d.
Proof.
  intros (Hp & Hs & Hl & Ho & Hc & Hn & H0 & H1). split; [|split; assumption].
  split; [|split].
  - unfold wf_win. pose proof (size_pos _ Hp). change (Mem.get_buf V) with get_buf. lia.
  - rewrite Hl. apply (wf_ap_ext _ (mkAP (shp (d_ap d)) (calc_strides (shp (d_ap d))) 0 true));
      [reflexivity|cbn [str]; symmetry; exact Hs|apply wf_ap_rowmajor; exact Hp].
  - intros o E. congruence.
Qed.

Lemma nat_tensor_no_iterator σ d : nat_tensor σ d -> requires_iterator d = false.
Proof.
  intros (Hp & _ & Hl & Ho & _ & Hn & _). pose proof (size_pos _ Hp) as Hsz.
  unfold requires_iterator. destruct (d_len d =? 1) eqn:E1; [reflexivity|].
  rewrite Hn, Ho. cbn [is_some orb]. lia.
Qed.

Lemma nat_tensor_ok σ d n : nat_tensor σ d -> native_ok d n = (length (shp (d_ap d)) =? n)%nat.
Proof.
  intro H. unfold native_ok. rewrite (nat_tensor_no_iterator σ d H).
  destruct H as (_ & _ & _ & _ & Hc & _). rewrite Hc. cbn [negb]. rewrite !andb_true_r. reflexivity.
Qed.

(* n consecutive reads of a list *)
Lemma gather_run (L : list V) : forall (n : nat) p s, 0 <= p + s -> p + s + Z.of_nat n <= zlen L ->
  all_some (map (fun j => zget L (p + j)) (zseq s n)) = Some (firstn n (skipn (Z.to_nat (p + s)) L)).
Proof.
  induction n as [|n IH]; intros p s H0 H1; [reflexivity|].
  cbn [zseq map all_some]. unfold zget at 1. replace (p + s <? 0) with false by lia.
  destruct (skipn (Z.to_nat (p + s)) L) as [|x rest] eqn:E.
  { apply (f_equal (@length _)) in E. rewrite skipn_length in E. unfold zlen in H1. cbn [length] in E. lia. }
  destruct (nth_error_skipn_cons L _ _ _ E) as [Hx Hrest]. rewrite Hx.
  rewrite (IH p (s + 1)) by lia.
  replace (Z.to_nat (p + (s + 1))) with (S (Z.to_nat (p + s))) by lia. rewrite Hrest. reflexivity.
Qed.

(* the header {&data[start], len} of a run inside the window is that run of the window *)
Lemma nat_row_window σ d start len : wf_win V σ d -> 0 <= start -> 0 <= len ->
  start < d_len d -> start + len <= d_len d ->
  nat_row V σ d start len = Some (firstn (Z.to_nat len) (skipn (Z.to_nat start) (window V σ d))).
Proof.
  intros (W0 & W1 & W2) Hs Hl Hlt Hle. unfold nat_row.
  replace ((start <? 0) || (d_len d <=? start)) with false by lia.
  rewrite (map_ext_in _ (fun j => zget (get_buf σ (d_buf d)) ((d_off d + start) + j))).
  2:{ intros j Hj. apply APProofs.zseq_In in Hj. unfold cap_get. replace (start + j <? 0) with false by lia.
      f_equal. lia. }
  change (Mem.get_buf V) with get_buf in W2.
  rewrite gather_run by lia. f_equal. unfold window. change (Mem.get_buf V) with get_buf.
  rewrite skipn_firstn_comm, firstn_firstn, skipn_skipn_add.
  replace (Nat.min (Z.to_nat len) (Z.to_nat (d_len d) - Z.to_nat start)) with (Z.to_nat len) by lia.
  do 2 f_equal. lia.
Qed.

(* rows starting at k*len, k < n, over a window of n*len cells: the window cut into rows *)
Lemma rows_of_contig σ d n len dims : wf_win V σ d -> 1 <= len -> 0 <= n -> d_len d = n * len ->
  rows_of V σ d (map (fun k => k * len) (zseq 0 (Z.to_nat n))) len dims
  = NRows V dims (chunks (length (window V σ d)) (Z.to_nat len) (window V σ d)).
Proof.
  intros Hw Hlen Hn Hd. pose proof (window_length V σ d Hw) as Hwl. unfold zlen in Hwl.
  unfold rows_of. rewrite map_map.
  rewrite (all_some_map _ (fun k => firstn (Z.to_nat len) (skipn (Z.to_nat (k * len)) (window V σ d)))).
  2:{ intros k Hk. apply APProofs.zseq_In in Hk. apply nat_row_window; [exact Hw|nia|lia|nia|nia]. }
  f_equal.
  rewrite (chunks_seq (Z.to_nat len) ltac:(lia) (Z.to_nat n)); [| |].
  - rewrite zseq0_seq, map_map. apply map_ext. intro k. do 2 f_equal.
    rewrite Z2Nat.inj_mul, Nat2Z.id by lia. reflexivity.
  - rewrite <- Z2Nat.inj_mul by lia. lia.
  - assert (Z.of_nat (length (window V σ d)) = n * len) by lia.
    assert (n <= n * len) by nia. lia.
Qed.

Lemma flat_rows (nr : nat) (c : Z) : forall (nl : nat) s,
  flat_map (fun i => map (fun j => i * (Z.of_nat nr * c) + j * c) (zseq 0 nr)) (zseq s nl)
  = map (fun k => k * c) (zseq (s * Z.of_nat nr) (nl * nr)).
Proof.
  induction nl as [|nl IH]; intro s; [reflexivity|].
  cbn [zseq flat_map]. rewrite IH. cbn [Nat.mul]. rewrite zseq_app_n, map_app. f_equal.
  - rewrite (zseq_shift0 nr (s * Z.of_nat nr)), map_map. apply map_ext. intro j. ring.
  - do 2 f_equal. lia.
Qed.

Lemma flat_rows0 (b c : Z) (nl : nat) : 0 <= b ->
  flat_map (fun i => map (fun j => i * (b * c) + j * c) (zseq 0 (Z.to_nat b))) (zseq 0 nl)
  = map (fun k => k * c) (zseq 0 (nl * Z.to_nat b)).
Proof.
  intro Hb. pose proof (flat_rows (Z.to_nat b) c nl 0) as H. rewrite Z2Nat.id in H by exact Hb. exact H.
Qed.

(* the rows produced by the SPEC cut *)
Definition cut (len : Z) (l : list V) : list (list V) := chunks (length l) (Z.to_nat len) l.

Lemma cut_spec n len l : 1 <= len -> 0 <= n -> zlen l = n * len ->
  length (cut len l) = Z.to_nat n /\ concat (cut len l) = l /\
  Forall (fun row => zlen row = len) (cut len l) /\
  (forall i j, 0 <= i < n -> 0 <= j < len ->
     nth_error (nth (Z.to_nat i) (cut len l) []) (Z.to_nat j) = nth_error l (Z.to_nat (i * len + j))).
Proof.
  intros Hlen Hn Hl. unfold zlen in Hl. unfold cut.
  assert (Hl' : length l = (Z.to_nat n * Z.to_nat len)%nat) by (rewrite <- Z2Nat.inj_mul by lia; lia).
  assert (Hf : (Z.to_nat n <= length l)%nat) by (assert (n <= n * len) by nia; lia).
  split; [|split; [|split]].
  - rewrite (chunks_seq (Z.to_nat len) ltac:(lia) (Z.to_nat n) _ _ Hl' Hf), map_length, seq_length. reflexivity.
  - apply chunks_concat; lia.
  - rewrite (chunks_seq (Z.to_nat len) ltac:(lia) (Z.to_nat n) _ _ Hl' Hf).
    apply Forall_forall. intros row Hrow. apply in_map_iff in Hrow as (k & <- & Hk). apply in_seq in Hk.
    unfold zlen. rewrite firstn_length, skipn_length.
    assert ((k * Z.to_nat len + Z.to_nat len <= length l)%nat) by nia. lia.
  - intros i j Hi Hj. rewrite (chunks_seq (Z.to_nat len) ltac:(lia) (Z.to_nat n) _ _ Hl' Hf).
    assert (Hrow : nth (Z.to_nat i)
                     (map (fun k => firstn (Z.to_nat len) (skipn (k * Z.to_nat len) l)) (seq 0 (Z.to_nat n))) []
                   = firstn (Z.to_nat len) (skipn (Z.to_nat i * Z.to_nat len) l)).
    { apply nth_error_nth. erewrite map_nth_error; [reflexivity|].
      rewrite (nth_error_nth' _ 0%nat) by (rewrite seq_length; lia). rewrite seq_nth by lia. reflexivity. }
    rewrite Hrow.
    rewrite nth_error_firstn_lt by lia. rewrite nth_error_skipn_add. f_equal.
    rewrite Z2Nat.inj_add, Z2Nat.inj_mul by nia. reflexivity.
Qed.

Lemma native_matrix_contiguous σ d r c : nat_tensor σ d -> shp (d_ap d) = [r; c] ->
  native_matrix V σ d = NRows V [r; c] (cut c (window V σ d)).
Proof.
  intros Hn Hs. pose proof (nat_tensor_wf σ d Hn) as [(Hw & _) _].
  pose proof Hn as (Hp & Hstr & Hl & _). rewrite Hs in Hp, Hl.
  inversion Hp as [|? ? Hr Hp']; subst. inversion Hp' as [|? ? Hc _]; subst.
  unfold native_matrix. rewrite (nat_tensor_ok σ d 2 Hn), Hstr, Hs.
  cbn [length Nat.eqb negb calc_strides size]. rewrite Z.mul_1_r.
  apply rows_of_contig; [exact Hw|lia|lia|]. cbn [size] in Hl. lia.
Qed.

(* A1: Vector / Matrix / Tensor3 on a contiguous row-major tensor of rank 1, 2, 3 *)
Theorem native_conv_window σ d : nat_tensor σ d -> (1 <= length (shp (d_ap d)) <= 3)%nat ->
  native_conv V σ d = NRows V (fst (spec_native V (shp (d_ap d)) (window V σ d)))
                             (snd (spec_native V (shp (d_ap d)) (window V σ d))).
Proof.
  intros Hn Hrank. pose proof (nat_tensor_wf σ d Hn) as [(Hw & _) _].
  pose proof (window_length V σ d Hw) as Hwl.
  pose proof Hn as (Hp & Hstr & Hl & _).
  destruct (shp (d_ap d)) as [|a [|b [|c [|? ?]]]] eqn:Hs; cbn [length] in Hrank; try lia.
  - (* rank 1 *)
    unfold native_conv. rewrite Hs, (nat_tensor_ok σ d 1 Hn), Hs. cbn [length Nat.eqb spec_native fst snd].
    rewrite Hwl. reflexivity.
  - (* rank 2 *)
    unfold native_conv. rewrite Hs. rewrite (native_matrix_contiguous σ d a b Hn Hs). reflexivity.
  - (* rank 3 *)
    inversion Hp as [|? ? Ha Hp']; subst. inversion Hp' as [|? ? Hb Hp'']; subst.
    inversion Hp'' as [|? ? Hc _]; subst.
    unfold native_conv. rewrite Hs, (nat_tensor_ok σ d 3 Hn), Hstr, Hs.
    cbn [length Nat.eqb negb calc_strides size spec_native fst snd]. rewrite !Z.mul_1_r.
    rewrite flat_rows0 by lia.
    rewrite <- Z2Nat.inj_mul by lia. cbn [size] in Hl. rewrite !Z.mul_1_r in Hl.
    apply rows_of_contig; [exact Hw|lia|nia|lia].
Qed.

Theorem native_conv_contiguous σ d : nat_tensor σ d -> (1 <= length (shp (d_ap d)) <= 3)%nat ->
  exists l, l = window V σ d /\ is_logical σ d l /\ zlen l = size (shp (d_ap d)) /\
    native_conv V σ d = NRows V (fst (spec_native V (shp (d_ap d)) l)) (snd (spec_native V (shp (d_ap d)) l)).
Proof.
  intros Hn Hrank. destruct (nat_tensor_wf σ d Hn) as [Hwf Hc]. exists (window V σ d).
  split; [reflexivity|]. split; [apply window_is_logical; [exact Hwf|apply contig_rm_cells; exact Hc]|].
  split; [|apply native_conv_window; assumption].
  destruct Hwf as (Hw & _). rewrite (window_length V σ d Hw). destruct Hc as [_ Hc]. exact Hc.
Qed.

(* what the SPEC cut looks like: dims and rows of spec_native on a list of size-many elements *)
Lemma spec_native_rows sh l : pos_shape sh -> zlen l = size sh ->
  match sh with
  | [] | [_] => spec_native V sh l = ([zlen l], [l])
  | [r; c] => spec_native V sh l = ([r; c], cut c l) /\ zlen l = r * c
  | a :: b :: rest => spec_native V sh l = ([a; b; size rest], cut (size rest) l) /\ zlen l = (a * b) * size rest
  end.
Proof.
  intros Hp Hl. destruct sh as [|a [|b [|c rest]]]; try reflexivity.
  - split; [reflexivity|]. cbn [size] in Hl. lia.
  - split; [reflexivity|]. cbn [size] in Hl |- *. lia.
Qed.

(* the matrix case, element by element through At *)
Theorem native_conv_matrix_at σ t d r c : get_t σ t = Some d -> nat_tensor σ d -> shp (d_ap d) = [r; c] ->
  exists rows, native_conv V σ d = NRows V [r; c] rows /\ length rows = Z.to_nat r /\
    Forall (fun row => zlen row = c) rows /\ concat rows = window V σ d /\
    forall i j, 0 <= i < r -> 0 <= j < c ->
      exists v, m_at V σ t [i; j] = Ok v /\ nth_error (nth (Z.to_nat i) rows []) (Z.to_nat j) = Some v.
Proof.
  intros Ht Hn Hs. destruct (nat_tensor_wf σ d Hn) as [Hwf Hc].
  pose proof Hn as (Hp & _ & Hl & _). rewrite Hs in Hp, Hl.
  inversion Hp as [|? ? Hr Hp']; subst. inversion Hp' as [|? ? Hc' _]; subst.
  pose proof Hwf as (Hw & _). pose proof (window_length V σ d Hw) as Hwl.
  destruct (cut_spec r c (window V σ d)) as (C1 & C2 & C3 & C4); [lia|lia|cbn [size] in Hl; lia|].
  exists (cut c (window V σ d)). split.
  { unfold native_conv. rewrite Hs. apply native_matrix_contiguous; assumption. }
  split; [exact C1|]. split; [exact C3|]. split; [exact C2|].
  intros i j Hi Hj.
  destruct (is_logical_m_at_nth σ t d (window V σ d) [i; j] Ht Hwf) as (v & Em & En).
  { apply window_is_logical; [exact Hwf|apply contig_rm_cells; exact Hc]. }
  { rewrite Hs. cbn [inbox]. lia. }
  exists v. split; [exact Em|]. rewrite C4 by lia. rewrite <- En, Hs. cbn [rk size]. do 2 f_equal. lia.
Qed.

(* the rank-3 case, element by element through At: row i*r + j is the run [i; j; _] *)
Theorem native_conv_tensor3_at σ t d l r c : get_t σ t = Some d -> nat_tensor σ d -> shp (d_ap d) = [l; r; c] ->
  exists rows, native_conv V σ d = NRows V [l; r; c] rows /\ length rows = Z.to_nat (l * r) /\
    Forall (fun row => zlen row = c) rows /\ concat rows = window V σ d /\
    forall i j k, 0 <= i < l -> 0 <= j < r -> 0 <= k < c ->
      exists v, m_at V σ t [i; j; k] = Ok v /\
                nth_error (nth (Z.to_nat (i * r + j)) rows []) (Z.to_nat k) = Some v.
Proof.
  intros Ht Hn Hs. destruct (nat_tensor_wf σ d Hn) as [Hwf Hc].
  pose proof Hn as (Hp & _ & Hl & _). rewrite Hs in Hp, Hl.
  inversion Hp as [|? ? Hl1 Hp']; subst. inversion Hp' as [|? ? Hr1 Hp'']; subst.
  inversion Hp'' as [|? ? Hc1 _]; subst.
  pose proof Hwf as (Hw & _). pose proof (window_length V σ d Hw) as Hwl.
  destruct (cut_spec (l * r) c (window V σ d)) as (C1 & C2 & C3 & C4); [lia|nia|cbn [size] in Hl; lia|].
  exists (cut c (window V σ d)). split.
  { rewrite (native_conv_window σ d Hn) by (rewrite Hs; cbn [length]; lia).
    rewrite Hs. cbn [spec_native fst snd size]. rewrite Z.mul_1_r. reflexivity. }
  split; [exact C1|]. split; [exact C3|]. split; [exact C2|].
  intros i j k Hi Hj Hk.
  destruct (is_logical_m_at_nth σ t d (window V σ d) [i; j; k] Ht Hwf) as (v & Em & En).
  { apply window_is_logical; [exact Hwf|apply contig_rm_cells; exact Hc]. }
  { rewrite Hs. cbn [inbox]. lia. }
  exists v. split; [exact Em|]. rewrite C4 by nia. rewrite <- En, Hs. cbn [rk size]. do 2 f_equal. lia.
Qed.

(* ---- A2: refusals ---- *)
Lemma native_ok_false d n : is_cm (ord (d_ap d)) = true \/ requires_iterator d = true -> native_ok d n = false.
Proof.
  intro H. unfold native_ok.
  destruct (length (shp (d_ap d)) =? n)%nat, (is_cm (ord (d_ap d))), (requires_iterator d);
    try reflexivity; destruct H; discriminate.
Qed.

Lemma native_ok_rank d n : length (shp (d_ap d)) <> n -> native_ok d n = false.
Proof.
  intro H. unfold native_ok. apply Nat.eqb_neq in H. rewrite H. reflexivity.
Qed.

(* a column-major tensor, one that needs an iterator, a scalar, or a tensor of rank >= 4 is refused:
   the native conversions never return the elements in another arrangement *)
Theorem native_conv_refuses σ d :
  is_cm (ord (d_ap d)) = true \/ requires_iterator d = true \/
  length (shp (d_ap d)) = 0%nat \/ (4 <= length (shp (d_ap d)))%nat ->
  native_conv V σ d = NErr V.
Proof.
  intro H.
  assert (Hok : forall n, (1 <= n <= 3)%nat -> length (shp (d_ap d)) = n -> native_ok d n = false).
  { intros n Hn Hlen. destruct H as [H|[H|[H|H]]]; [apply native_ok_false; auto|apply native_ok_false; auto|lia|lia]. }
  unfold native_conv, native_matrix.
  destruct (shp (d_ap d)) as [|a [|b [|c [|e rest]]]] eqn:Hs.
  - rewrite native_ok_rank; [reflexivity|rewrite Hs; discriminate].
  - rewrite (Hok 1%nat); [reflexivity|lia|try rewrite Hs; reflexivity].
  - rewrite (Hok 2%nat); [reflexivity|lia|try rewrite Hs; reflexivity].
  - rewrite (Hok 3%nat); [reflexivity|lia|try rewrite Hs; reflexivity].
  - rewrite native_ok_rank; [reflexivity|rewrite Hs; cbn [length]; lia].
Qed.

Theorem native_matrix_refuses σ d :
  is_cm (ord (d_ap d)) = true \/ requires_iterator d = true -> native_matrix V σ d = NErr V.
Proof. intro H. unfold native_matrix. rewrite native_ok_false by exact H. reflexivity. Qed.

Theorem native_select_refuses σ d axis :
  is_cm (ord (d_ap d)) = true \/ requires_iterator d = true -> native_select V σ d axis = NErr V.
Proof.
  intro H. unfold native_select. destruct (_ && _); [reflexivity|].
  replace (is_cm (ord (d_ap d)) || requires_iterator d) with true; [reflexivity|].
  destruct H as [-> | ->]; [reflexivity|]. symmetry. apply orb_true_r.
Qed.

(* ---- A3: Select ---- *)
Lemma calc_strides_nth : forall sh k, (k < length sh)%nat ->
  nth_error (calc_strides sh) k = Some (size (skipn (k + 1) sh)).
Proof.
  induction sh as [|x sh IH]; intros k Hk; cbn [length] in Hk; [lia|].
  destruct k as [|k]; [reflexivity|]. cbn [calc_strides nth_error Nat.add skipn]. apply IH. lia.
Qed.

Lemma size_firstn_skipn : forall k sh, size (firstn k sh) * size (skipn k sh) = size sh.
Proof.
  induction k as [|k IH]; intros sh; [cbn [firstn skipn size]; lia|].
  destruct sh as [|x sh]; [reflexivity|]. cbn [firstn skipn size]. rewrite <- (IH sh). ring.
Qed.

Lemma pos_shape_firstn_skipn k sh : pos_shape sh -> pos_shape (firstn k sh) /\ pos_shape (skipn k sh).
Proof. intro H. unfold pos_shape in *. apply Forall_app. rewrite firstn_skipn. exact H. Qed.

Theorem native_select_window σ d axis : nat_tensor σ d ->
  0 <= axis < Z.max 1 (zlen (shp (d_ap d))) ->
  native_select V σ d axis = NRows V (fst (spec_select V (shp (d_ap d)) axis (window V σ d)))
                                     (snd (spec_select V (shp (d_ap d)) axis (window V σ d))).
Proof.
  intros Hn Hax. pose proof (nat_tensor_wf σ d Hn) as [(Hw & _) _].
  pose proof (window_length V σ d Hw) as Hwl.
  pose proof Hn as (Hp & Hstr & Hl & _ & Hcm & _).
  unfold native_select, spec_select.
  rewrite Hcm, (nat_tensor_no_iterator σ d Hn). cbn [orb].
  replace ((zlen (shp (d_ap d)) <=? axis) && negb (is_scalar (shp (d_ap d)) && (axis =? 0))) with false.
  2:{ destruct (shp (d_ap d)) as [|x sh']; [cbn [is_scalar zlen length] in *; lia|].
      unfold zlen in *. cbn [length] in *. lia. }
  destruct (zlen (shp (d_ap d)) <=? 1) eqn:E1; [cbn [fst snd]; rewrite Hwl; reflexivity|].
  destruct ((zlen (shp (d_ap d)) =? 2) && (axis =? 0)) eqn:E2.
  - apply andb_true_iff in E2 as [E2 E0].
    destruct (shp (d_ap d)) as [|r [|c [|? ?]]] eqn:Hs; unfold zlen in E2; cbn [length] in E2; try lia.
    rewrite (native_matrix_contiguous σ d r c Hn Hs). replace axis with 0 by lia.
    cbn [Z.to_nat Nat.add firstn skipn size fst snd]. change (Z.to_nat 0 + 1)%nat with 1%nat. cbn [firstn skipn size]. rewrite !Z.mul_1_r. reflexivity.
  - replace (axis <? 0) with false by lia.
    assert (Hk : (Z.to_nat axis < length (shp (d_ap d)))%nat) by (unfold zlen in *; lia).
    rewrite Hstr, (calc_strides_nth _ _ Hk). cbn [fst snd].
    destruct (pos_shape_firstn_skipn (Z.to_nat axis + 1) _ Hp) as [Hpf Hps].
    pose proof (size_pos _ Hpf) as Hu. pose proof (size_pos _ Hps) as Hst.
    apply rows_of_contig; [exact Hw|lia|lia|]. rewrite Hl. symmetry. apply size_firstn_skipn.
Qed.

Theorem native_select_contiguous σ d axis : nat_tensor σ d ->
  0 <= axis < Z.max 1 (zlen (shp (d_ap d))) ->
  exists l, l = window V σ d /\ is_logical σ d l /\ zlen l = size (shp (d_ap d)) /\
    native_select V σ d axis = NRows V (fst (spec_select V (shp (d_ap d)) axis l))
                                       (snd (spec_select V (shp (d_ap d)) axis l)).
Proof.
  intros Hn Hax. destruct (nat_tensor_wf σ d Hn) as [Hwf Hc]. exists (window V σ d).
  split; [reflexivity|]. split; [apply window_is_logical; [exact Hwf|apply contig_rm_cells; exact Hc]|].
  split; [|apply native_select_window; assumption].
  destruct Hwf as (Hw & _). rewrite (window_length V σ d Hw). destruct Hc as [_ Hc]. exact Hc.
Qed.

(* the rows of Select for rank >= 2: size(firstn (axis+1)) rows of length size(skipn (axis+1)) *)
Lemma spec_select_rows sh axis l : pos_shape sh -> zlen l = size sh -> 2 <= zlen sh -> 0 <= axis < zlen sh ->
  let upper := size (firstn (Z.to_nat axis + 1) sh) in
  let len := size (skipn (Z.to_nat axis + 1) sh) in
  spec_select V sh axis l = ([upper; len], cut len l) /\ 1 <= len /\ 1 <= upper /\ zlen l = upper * len.
Proof.
  intros Hp Hl Hr Hax upper len. unfold spec_select. replace (zlen sh <=? 1) with false by lia.
  split; [reflexivity|].
  destruct (pos_shape_firstn_skipn (Z.to_nat axis + 1) _ Hp) as [Hpf Hps].
  pose proof (size_pos _ Hpf). pose proof (size_pos _ Hps).
  split; [assumption|]. split; [assumption|]. rewrite Hl. symmetry. apply size_firstn_skipn.
Qed.

(* ====================================================================================== *)
(*  4. ToMat64 on a registered tensor; the column-major case                               *)
(* ====================================================================================== *)
Theorem to_mat64_registered σ t d r c : get_t σ t = Some d -> wf_dense V σ d ->
  shp (d_ap d) = [r; c] -> raw_sound d ->
  exists l, to_mat64 V σ d = NRows V [r; c] [l] /\ logical V σ t = map (@Ok V) l /\ zlen l = r * c /\
    forall i j, 0 <= i < r -> 0 <= j < c ->
      exists v, m_at V σ t [i; j] = Ok v /\ nth_error l (Z.to_nat (i * c + j)) = Some v.
Proof.
  intros Ht Hwf Hs Hraw. destruct (to_mat64_logical σ d r c Hwf Hs Hraw) as (l & E & Hl & Hz).
  exists l. split; [exact E|]. split; [apply (is_logical_m_at σ t d l Ht Hwf Hl)|]. split; [exact Hz|].
  intros i j Hi Hj.
  destruct (is_logical_m_at_nth σ t d l [i; j] Ht Hwf Hl) as (v & Em & En).
  { rewrite Hs. cbn [inbox]. lia. }
  exists v. split; [exact Em|]. rewrite <- En, Hs. cbn [rk size]. do 2 f_equal. lia.
Qed.

(* a column-major matrix (not vector-shaped, not all-ones) always goes through the flat iterator *)
Theorem to_mat64_colmajor σ d r c : wf_dense V σ d -> shp (d_ap d) = [r; c] ->
  is_cm (ord (d_ap d)) = true -> is_vector [r; c] = false -> is_scalar_equiv [r; c] = false ->
  exists l, to_mat64 V σ d = NRows V [r; c] [l] /\ is_logical σ d l /\ zlen l = r * c /\
    match iter_all (d_ap d) with
    | Some idx => all_some (map (fun i => win_get V σ d i) idx)
    | None => None
    end = Some l.
Proof.
  intros Hwf Hs Hcm Hv Hse. pose proof Hwf as (_ & (Hp & _) & _). pose proof (size_pos _ Hp) as Hsz.
  destruct (wf_logical_exists σ d Hwf) as (l & Hl). exists l.
  assert (Hz : zlen l = r * c).
  { destruct (is_logical_length σ d l Hl) as [E|[E _]]; [|lia]. rewrite E, Hs. cbn [size]. lia. }
  pose proof (iter_walk_logical σ d l Hwf Hl) as Hwalk.
  unfold to_mat64. rewrite Hs, Hcm, Hv, Hse. cbn [negb orb]. rewrite andb_false_r.
  rewrite Hwalk, Hz. replace (r * c =? r * c) with true by lia. auto.
Qed.

(* ====================================================================================== *)
(*  5. column-major tensors: instances of the layout-generic theorems (C16)                *)
(* ====================================================================================== *)
(* a contiguous column-major tensor: shape neither vector-shaped nor all ones (so that
   CalcStridesColMajor gives one stride per axis), default column-major strides, the column-major
   bit, a window of exactly size-many cells inside its allocation, nothing pending *)
Definition cm_tensor (σ : store V) (d : dense) : Prop :=
  pos_shape (shp (d_ap d)) /\ is_scalar_equiv (shp (d_ap d)) = false /\ is_vector (shp (d_ap d)) = false /\
  str (d_ap d) = calc_strides_cm (shp (d_ap d)) /\ is_cm (ord (d_ap d)) = true /\
  d_len d = size (shp (d_ap d)) /\ d_old d = None /\
  0 <= d_off d /\ d_off d + d_len d <= zlen (get_buf σ (d_buf d)).

Lemma cm_strides sh : is_scalar_equiv sh = false -> is_vector sh = false -> calc_strides_cm sh = cm_aux 1 sh.
Proof. intros H1 H2. unfold calc_strides_cm. rewrite H1, H2. reflexivity. Qed.

Lemma cm_aux_nonneg : forall s acc, 0 <= acc -> pos_shape s -> Forall (fun k => 0 <= k) (cm_aux acc s).
Proof.
  induction s as [|x s IH]; intros acc Ha Hp; cbn [cm_aux]; constructor; [exact Ha|].
  inversion Hp as [|? ? Hx Hp']; subst. apply IH; [nia|exact Hp'].
Qed.

Lemma dot_cm sh c : is_scalar_equiv sh = false -> is_vector sh = false ->
  dot (calc_strides_cm sh) c = rank_cm sh c.
Proof. intros H1 H2. rewrite (cm_strides sh H1 H2), dot_cm_aux. lia. Qed.

Lemma wf_ap_colmajor sh o f : pos_shape sh -> is_scalar_equiv sh = false -> is_vector sh = false ->
  wf_ap (size sh) (mkAP sh (calc_strides_cm sh) o f).
Proof.
  intros Hp H1 H2. unfold wf_ap. cbn [shp str].
  split; [exact Hp|]. split; [rewrite (cm_strides sh H1 H2); apply cm_aux_length|].
  split; [rewrite (cm_strides sh H1 H2); apply cm_aux_nonneg; [lia|exact Hp]|]. split.
  - intros c Hc. rewrite (dot_cm sh c H1 H2). apply rank_cm_bound; assumption.
  - intros c c' Hc Hc' E. rewrite !(dot_cm sh _ H1 H2) in E. apply (rank_cm_inj sh); assumption.
Qed.

Lemma wf_dense_cm σ d : cm_tensor σ d -> wf_dense V σ d.
Proof.
  intros (Hp & H1 & H2 & Hs & _ & Hl & Ho & W0 & W1). split; [|split].
  - unfold wf_win. pose proof (size_pos _ Hp). change (Mem.get_buf V) with get_buf. lia.
  - rewrite Hl. apply (wf_ap_ext _ (mkAP (shp (d_ap d)) (calc_strides_cm (shp (d_ap d))) CM true));
      [reflexivity|cbn [str]; symmetry; exact Hs|apply wf_ap_colmajor; assumption].
  - intros o E. congruence.
Qed.

Lemma cm_pos σ d c : cm_tensor σ d -> pos d c = d_off d + rank_cm (shp (d_ap d)) c.
Proof. intros (_ & H1 & H2 & Hs & _). unfold pos. rewrite Hs, (dot_cm _ c H1 H2). reflexivity. Qed.

(* New(WithShape(sh), WithBacking(data), AsFortran(nil)) — ONew with order 1 *)
Theorem wf_dense_colmajor σ sh data σ' t : new_raw V σ true sh data = Ok (σ', t) ->
  pos_shape sh -> is_scalar_equiv sh = false -> is_vector sh = false ->
  exists d, t = length (tens σ) /\ get_t σ' t = Some d /\
    d = mkDense (length (bufs σ)) 0 (zlen data) (mkAP sh (calc_strides_cm sh) CM true) None false /\
    cm_tensor σ' d /\ wf_dense V σ' d /\ window V σ' d = data /\ zlen data = size sh.
Proof.
  intros H Hp H1 H2. unfold new_raw in H.
  assert (Hns : is_scalar sh = false) by (destruct sh; [discriminate H1|reflexivity]).
  rewrite Hns in H. cbn [negb] in H. rewrite andb_true_r in H.
  destruct (zlen data =? size sh) eqn:Ez; [|discriminate]. cbn [negb] in H.
  unfold add_buf, add_t in H. cbn [bufs tens] in H. injection H as <- <-.
  change (is_cm CM) with true. unfold default_strides. change (is_cm CM) with true. cbn iota.
  set (d := mkDense (length (bufs σ)) 0 (zlen data) (mkAP sh (calc_strides_cm sh) CM true) None false).
  set (σ' := mkStore V (bufs σ ++ [data]) (tens σ ++ [d])).
  assert (Hbuf : get_buf σ' (length (bufs σ)) = data).
  { unfold Mem.get_buf, σ'. cbn [bufs]. apply nth_app_last. }
  assert (Hcm : cm_tensor σ' d).
  { unfold cm_tensor, d. cbn [d_ap d_len d_old d_off d_buf shp str ord]. rewrite Hbuf.
    repeat split; try assumption; try reflexivity; lia. }
  exists d. split; [reflexivity|]. split; [unfold Mem.get_t, σ'; cbn [tens]; apply nth_error_app_last|].
  split; [reflexivity|]. split; [exact Hcm|]. split; [apply wf_dense_cm; exact Hcm|]. split; [|lia].
  unfold window. change (Mem.get_buf V) with get_buf. unfold d at 3. cbn [d_buf]. rewrite Hbuf.
  unfold d. cbn [d_off d_len]. change (Z.to_nat 0) with 0%nat. cbn [skipn].
  unfold zlen. rewrite Nat2Z.id. apply firstn_all.
Qed.

(* (i) At / SetAt on a column-major tensor address the cell of column-major rank *)
Theorem cm_at σ t d c : get_t σ t = Some d -> cm_tensor σ d -> inbox (shp (d_ap d)) c ->
  exists v, m_at V σ t c = Ok v /\ cell V σ d c = Some v /\
    bget V σ (d_buf d) (d_off d + rank_cm (shp (d_ap d)) c) = Some v /\
    nth_error (window V σ d) (Z.to_nat (rank_cm (shp (d_ap d)) c)) = Some v.
Proof.
  intros Ht Hcm Hc. pose proof (wf_dense_cm σ d Hcm) as Hwf.
  destruct (m_at_cell V σ t d c Ht Hwf Hc) as (v & Em & Ec & Eb). rewrite (cm_pos σ d c Hcm) in Eb.
  exists v. split; [exact Em|]. split; [exact Ec|]. split; [exact Eb|].
  pose proof Hcm as (Hp & _ & _ & _ & _ & Hl & _). pose proof (rank_cm_bound _ c Hp Hc) as Hr.
  destruct Hwf as (Hw & _). rewrite window_nth by (assumption || lia). exact Eb.
Qed.

Theorem cm_setat σ t d c v : get_t σ t = Some d -> cm_tensor σ d -> inbox (shp (d_ap d)) c ->
  exists σ', m_setat V σ t c v = Ok σ' /\ frame_eq V σ σ' /\ cm_tensor σ' d /\
    m_at V σ' t c = Ok v /\
    (forall c', inbox (shp (d_ap d)) c' -> c' <> c -> m_at V σ' t c' = m_at V σ t c') /\
    bget V σ' (d_buf d) (d_off d + rank_cm (shp (d_ap d)) c) = Some v /\
    (forall b p, (b <> d_buf d \/ p <> d_off d + rank_cm (shp (d_ap d)) c) -> bget V σ' b p = bget V σ b p).
Proof.
  intros Ht Hcm Hc. pose proof (wf_dense_cm σ d Hcm) as Hwf.
  destruct (m_setat_frame V σ t d c v Ht Hwf Hc) as (σ' & Es & Hfr & Hnew & Hoth).
  rewrite (cm_pos σ d c Hcm) in Hnew, Hoth.
  pose proof Hfr as (Ft & Fb & Fl).
  assert (Ht' : get_t σ' t = Some d) by (unfold Mem.get_t in *; rewrite Ft; exact Ht).
  assert (Hcm' : cm_tensor σ' d).
  { unfold cm_tensor in *. change (Mem.get_buf V) with get_buf in Fl. rewrite Fl. exact Hcm. }
  pose proof (wf_dense_cm σ' d Hcm') as Hwf'.
  exists σ'. split; [exact Es|]. split; [exact Hfr|]. split; [exact Hcm'|]. split; [|split; [|split]].
  - destruct (m_at_cell V σ' t d c Ht' Hwf' Hc) as (v' & Em & _ & Eb).
    rewrite (cm_pos σ' d c Hcm') in Eb. rewrite Em. congruence.
  - intros c' Hc' Hne.
    destruct (m_at_cell V σ' t d c' Ht' Hwf' Hc') as (v1 & Em1 & _ & Eb1).
    destruct (m_at_cell V σ t d c' Ht Hwf Hc') as (v0 & Em0 & _ & Eb0).
    rewrite Em1, Em0. f_equal. rewrite (cm_pos σ' d c' Hcm') in Eb1. rewrite (cm_pos σ d c' Hcm) in Eb0.
    rewrite Hoth in Eb1; [congruence|]. right. intro E.
    pose proof Hcm as (Hp & _). apply Hne. apply (rank_cm_inj (shp (d_ap d))); [assumption..|lia].
  - exact Hnew.
  - exact Hoth.
Qed.

(* (v) the flat iterator over a column-major tensor visits the cells in LOGICAL order: the k-th
   offset is the column-major rank of the k-th coordinate, and the walk reads the logical list *)
Theorem cm_iter_logical σ d : cm_tensor σ d ->
  iter_all (d_ap d) = Some (map (rank_cm (shp (d_ap d))) (coords (shp (d_ap d)))) /\
  exists l, is_logical σ d l /\
    all_some (map (fun i => win_get V σ d i) (map (rank_cm (shp (d_ap d))) (coords (shp (d_ap d))))) = Some l.
Proof.
  intro Hcm. pose proof (wf_dense_cm σ d Hcm) as Hwf. pose proof Hwf as (_ & Ha & _).
  pose proof Hcm as (_ & H1 & H2 & Hs & _).
  assert (E : iter_all (d_ap d) = Some (map (rank_cm (shp (d_ap d))) (coords (shp (d_ap d))))).
  { rewrite (iter_all_offsets _ _ Ha). unfold offsets. f_equal. apply map_ext. intro c.
    rewrite Hs. apply dot_cm; assumption. }
  split; [exact E|]. destruct (wf_logical_exists σ d Hwf) as (l & Hl). exists l. split; [exact Hl|].
  pose proof (iter_walk_logical σ d l Hwf Hl) as Hwalk. rewrite E in Hwalk. exact Hwalk.
Qed.

(* (iv) ToMat64 of a column-major matrix *)
Theorem cm_to_mat64 σ t d r c : get_t σ t = Some d -> cm_tensor σ d -> shp (d_ap d) = [r; c] ->
  exists l, to_mat64 V σ d = NRows V [r; c] [l] /\ logical V σ t = map (@Ok V) l /\ zlen l = r * c /\
    forall i j, 0 <= i < r -> 0 <= j < c ->
      exists v, m_at V σ t [i; j] = Ok v /\ nth_error l (Z.to_nat (i * c + j)) = Some v /\
                nth_error (window V σ d) (Z.to_nat (i + r * j)) = Some v.
Proof.
  intros Ht Hcm Hs. pose proof (wf_dense_cm σ d Hcm) as Hwf.
  pose proof Hcm as (_ & H1 & H2 & _ & Hc & _). rewrite Hs in H1, H2.
  destruct (to_mat64_colmajor σ d r c Hwf Hs Hc H2 H1) as (l & E & Hl & Hz & _).
  exists l. split; [exact E|]. split; [apply (is_logical_m_at σ t d l Ht Hwf Hl)|]. split; [exact Hz|].
  intros i j Hi Hj.
  assert (Hin : inbox (shp (d_ap d)) [i; j]) by (rewrite Hs; cbn [inbox]; lia).
  destruct (is_logical_m_at_nth σ t d l [i; j] Ht Hwf Hl Hin) as (v & Em & En).
  exists v. split; [exact Em|]. split.
  - rewrite <- En, Hs. cbn [rk size]. do 2 f_equal. lia.
  - destruct (cm_at σ t d [i; j] Ht Hcm Hin) as (v' & Em' & _ & _ & Ew).
    rewrite Hs in Ew. cbn [rank_cm] in Ew. replace (i + r * j) with (i + r * (j + c * 0)) by lia.
    rewrite Ew. congruence.
Qed.

Lemma same_cell_same_at σ t d c σ' t' d' c' : get_t σ t = Some d -> get_t σ' t' = Some d' ->
  wf_dense V σ d -> wf_dense V σ' d' -> inbox (shp (d_ap d)) c -> inbox (shp (d_ap d')) c' ->
  cell V σ' d' c' = cell V σ d c -> m_at V σ' t' c' = m_at V σ t c.
Proof.
  intros Ht Ht' Hwf Hwf' Hc Hc' E.
  destruct (m_at_cell V σ t d c Ht Hwf Hc) as (v & Em & Ec & _).
  destruct (m_at_cell V σ' t' d' c' Ht' Hwf' Hc') as (v' & Em' & Ec' & _).
  rewrite Em, Em'. congruence.
Qed.

(* (ii) a slice of a column-major tensor is a view whose element c is the source element at the
   sliced coordinate *)
Theorem cm_slice σ t d sl σ' t' : get_t σ t = Some d -> cm_tensor σ d ->
  any_axis slice_count_zero (shp (d_ap d)) sl = false ->
  m_slice V σ t sl = Ok (σ', t') ->
  let sh := shp (d_ap d) in
  exists d', t' = length (tens σ) /\ get_t σ' t' = Some d' /\ get_t σ' t = Some d /\
    d_buf d' = d_buf d /\ d_view d' = true /\ wf_dense V σ' d' /\ cm_tensor σ' d /\
    (d_len d' <> 1 ->
       shp (d_ap d') = drop_all (extents 0 sh sl) (drop_flags (extents 0 sh sl) sl) /\
       forall c, inbox (shp (d_ap d')) c ->
         inbox sh (src_coord sh sl (expand (extents 0 sh sl) sl c)) /\
         m_at V σ' t' c = m_at V σ t (src_coord sh sl (expand (extents 0 sh sl) sl c))) /\
    (d_len d' = 1 ->
       d_ap d' = scalar_ap /\ inbox sh (src_coord sh sl (map (fun _ => 0) sh)) /\
       m_at V σ' t' [] = m_at V σ t (src_coord sh sl (map (fun _ => 0) sh))).
Proof.
  intros Ht Hcm Hz H sh. pose proof (wf_dense_cm σ d Hcm) as Hwf.
  destruct (m_slice_aliases V σ t d sl σ' t' Ht Hwf Hz H)
    as (d' & Et' & Eσ & Hbuf & Hview & Hold & _ & _ & Hwf' & Hgen & Hsc).
  fold sh in Hgen, Hsc.
  assert (Ht' : get_t σ' t' = Some d').
  { rewrite Et', Eσ. unfold Mem.get_t. cbn [tens]. apply nth_error_app_last. }
  assert (Htd : get_t σ' t = Some d).
  { rewrite Eσ. unfold Mem.get_t in *. cbn [tens]. rewrite nth_error_app1; [exact Ht|].
    apply nth_error_Some_lt in Ht. exact Ht. }
  assert (Hgb : forall b, get_buf σ' b = get_buf σ b) by (intro b; rewrite Eσ; reflexivity).
  assert (Hcm' : cm_tensor σ' d) by (unfold cm_tensor in *; rewrite Hgb; exact Hcm).
  assert (Hcell : forall c' c, inbox (shp (d_ap d')) c' -> inbox sh c -> pos d' c' = pos d c ->
                               m_at V σ' t' c' = m_at V σ t c).
  { intros c' c Hc' Hc Hpos. apply (same_cell_same_at σ t d c σ' t' d' c' Ht Ht' Hwf Hwf' Hc Hc').
    rewrite (cell_bget V σ' d' c' Hwf' Hc'), (cell_bget V σ d c Hwf Hc), Hbuf, Hpos.
    unfold bget. rewrite Hgb. reflexivity. }
  exists d'. split; [exact Et'|]. split; [exact Ht'|]. split; [exact Htd|]. split; [exact Hbuf|].
  split; [exact Hview|]. split; [exact Hwf'|]. split; [exact Hcm'|]. split.
  - intro Hne. destruct (Hgen Hne) as (Hshp & Hmap). split; [exact Hshp|].
    intros c Hc. destruct (Hmap c Hc) as (Hin & Hpos). split; [exact Hin|].
    apply Hcell; assumption.
  - intro He. destruct (Hsc He) as (Hap & Hin & Hpos). split; [exact Hap|]. split; [exact Hin|].
    apply Hcell; [rewrite Hap; exact I|exact Hin|exact Hpos].
Qed.

(* (iii) Clone of a column-major tensor: a fresh column-major tensor with the same elements *)
Theorem cm_clone σ t d : get_t σ t = Some d -> cm_tensor σ d ->
  exists σ' d', m_clone V σ t = Ok (σ', length (tens σ)) /\
    get_t σ' (length (tens σ)) = Some d' /\
    d_buf d' = length (bufs σ) /\ d_view d' = false /\ d_ap d' = d_ap d /\
    cm_tensor σ' d' /\ extends V σ σ' /\
    (forall c, inbox (shp (d_ap d)) c -> m_at V σ' (length (tens σ)) c = m_at V σ t c) /\
    logical V σ' (length (tens σ)) = logical V σ t.
Proof.
  intros Ht Hcm. pose proof (wf_dense_cm σ d Hcm) as Hwf.
  destruct (m_clone_fresh_equal V σ t d Ht Hwf)
    as (σ' & d' & Ec & Ht' & Ed' & Hwf' & Hext & Hlb & Hlt & Hcells).
  assert (Hap : d_ap d' = d_ap d) by (rewrite Ed'; reflexivity).
  assert (Hcm' : cm_tensor σ' d').
  { pose proof Hwf' as ((W0 & W1 & W2) & _). change (Mem.get_buf V) with get_buf in W2.
    unfold cm_tensor in *. rewrite Hap. rewrite Ed' in W0, W1, W2 |- *.
    cbn [d_len d_old d_off d_buf] in *.
    destruct Hcm as (Hp & H1 & H2 & Hs & Hc & Hl & Ho & _). repeat split; try assumption; lia. }
  assert (Hat : forall c, inbox (shp (d_ap d)) c -> m_at V σ' (length (tens σ)) c = m_at V σ t c).
  { intros c Hc. apply (same_cell_same_at σ t d c σ' _ d' c Ht Ht' Hwf Hwf' Hc); [rewrite Hap; exact Hc|].
    apply Hcells. exact Hc. }
  exists σ', d'. split; [exact Ec|]. split; [exact Ht'|]. split; [rewrite Ed'; reflexivity|].
  split; [rewrite Ed'; reflexivity|]. split; [exact Hap|]. split; [exact Hcm'|]. split; [exact Hext|].
  split; [exact Hat|].
  unfold logical. change (Mem.get_t V) with get_t. rewrite Ht', Ht, Hap.
  apply map_ext_in. intros c Hc. apply Hat. apply coords_In; [|exact Hc].
  destruct Hcm as (Hp & _). exact Hp.
Qed.

(* Materialize: a column-major tensor that is not a view is returned as it is ... *)
Theorem cm_materialize_noop σ t d : get_t σ t = Some d -> cm_tensor σ d -> d_view d = false ->
  m_materialize V vzero σ t = Ok (σ, t).
Proof.
  intros Ht (_ & _ & _ & _ & _ & _ & Ho & _) Hv. apply (m_materialize_noop V vzero σ t d Ht).
  unfold is_materializable. rewrite Hv, Ho. reflexivity.
Qed.

Lemma copy_dense_iter_diff_order σ dst src :
  has_same_order (ord (d_ap dst)) (ord (d_ap src)) = false ->
  copy_dense_iter V σ dst src = copy_iter V σ dst src.
Proof. intro H. unfold copy_dense_iter. rewrite H, andb_false_r. reflexivity. Qed.

(* ... and a column-major view / lazily transposed tensor is copied, through the iterators, into a
   fresh contiguous ROW-major tensor with the same elements.  No hypothesis on the contiguity flag:
   the data orders differ, so copyDenseIter never takes the raw-copy path. *)
Theorem cm_materialize_fresh_equal σ t d : get_t σ t = Some d -> wf_dense V σ d ->
  is_cm (ord (d_ap d)) = true -> is_materializable d = true ->
  let sh := shp (d_ap d) in
  exists σ' d', m_materialize V vzero σ t = Ok (σ', length (tens σ)) /\
    get_t σ' (length (tens σ)) = Some d' /\
    d' = mkDense (length (bufs σ)) 0 (size sh) (mkAP sh (calc_strides sh) 0 true) None false /\
    wf_dense V σ' d' /\ contig d' /\ extends V σ σ' /\
    (forall c, inbox sh c -> cell V σ' d' c = cell V σ d c) /\
    (forall c, inbox sh c -> m_at V σ' (length (tens σ)) c = m_at V σ t c) /\
    logical V σ' (length (tens σ)) = logical V σ t.
Proof.
  intros Ht Hwf Hcm Hm sh. pose proof Hwf as (Hw & Ha & Ho). pose proof Ha as (Hp & _).
  pose proof (size_pos _ Hp) as Hsz. fold sh in Hsz.
  unfold m_materialize. change (Mem.get_t V σ t) with (get_t σ t). rewrite Ht, Hm. cbn [negb].
  fold sh. replace (if is_scalar sh then 1 else size sh) with (size sh) by (destruct sh; reflexivity).
  unfold add_buf.
  set (nd := mkDense (length (bufs σ)) 0 (size sh) (mkAP sh (calc_strides sh) 0 true) None false).
  set (σ1 := mkStore V (bufs σ ++ [repeat vzero (Z.to_nat (size sh))]) (tens σ)).
  assert (Hnew : get_buf σ1 (length (bufs σ)) = repeat vzero (Z.to_nat (size sh))).
  { unfold Mem.get_buf, σ1. cbn [bufs]. apply nth_app_last. }
  assert (Hext1 : extends V σ σ1).
  { split.
    - intros b Hb. unfold Mem.get_buf, σ1. cbn [bufs]. apply app_nth1. exact Hb.
    - intros t0 d0 H0. exact H0. }
  assert (Hwnd : wf_dense V σ1 nd).
  { split; [|split; [apply wf_ap_rowmajor; exact Hp|discriminate]].
    unfold wf_win, nd. cbn [d_off d_len d_buf]. change (Mem.get_buf V) with get_buf.
    rewrite Hnew, zlen_repeat. lia. }
  assert (Hwd1 : wf_dense V σ1 d) by (apply (extends_wf V σ σ1); assumption).
  pose proof (wf_dense_buf_lt V σ d Hwf) as Hlt.
  assert (Hcn : contig nd) by (split; reflexivity).
  rewrite copy_dense_iter_diff_order.
  2:{ unfold nd. cbn [d_ap ord]. unfold has_same_order. rewrite Hcm. reflexivity. }
  destruct (copy_iter_spec V σ1 nd d Hwnd Hwd1) as (σ2 & E2 & (Hfr & Hoth & Hcells & _)).
  { unfold nd. cbn [d_buf]. lia. }
  { reflexivity. }
  rewrite E2. unfold add_t. destruct Hfr as (Ft & Fb & Fl). rewrite Ft. cbn [tens σ1].
  set (σ' := mkStore V (bufs σ2) (tens σ ++ [nd])).
  exists σ', nd.
  assert (Hbg : forall b p, bget V σ' b p = bget V σ2 b p) by reflexivity.
  assert (Hgb : forall b, get_buf σ' b = get_buf σ2 b) by reflexivity.
  assert (Hwf' : wf_dense V σ' nd).
  { apply (wf_dense_frame V σ1 σ'); [|exact Hwnd]. intro b. change (Mem.get_buf V) with get_buf.
    rewrite Hgb. apply Fl. }
  assert (Hext : extends V σ σ').
  { split.
    - intros b Hb. change (Mem.get_buf V) with get_buf. rewrite Hgb. destruct Hext1 as [H1 _].
      change (Mem.get_buf V) with get_buf in H1. rewrite <- (H1 b Hb).
      assert (Hne : b <> d_buf nd) by (unfold nd; cbn [d_buf]; lia).
      apply nth_error_ext_eq.
      intros k. pose proof (Hoth b (Z.of_nat k) Hne) as Hk. unfold bget, zget in Hk.
      replace (Z.of_nat k <? 0) with false in Hk by lia. rewrite Nat2Z.id in Hk. exact Hk.
    - intros t0 d0 H0. unfold Mem.get_t, σ' in *. cbn [tens]. rewrite nth_error_app1; [exact H0|].
      apply nth_error_Some_lt in H0. exact H0. }
  assert (Ht' : get_t σ' (length (tens σ)) = Some nd).
  { unfold Mem.get_t, σ'. cbn [tens]. apply nth_error_app_last. }
  assert (Hcell : forall c, inbox sh c -> cell V σ' nd c = cell V σ d c).
  { intros c Hc. rewrite (cell_bget V σ' nd c Hwf' Hc), (cell_bget V σ d c Hwf Hc).
    rewrite Hbg. rewrite (Hcells c Hc). apply (extends_bget V σ σ1); assumption. }
  assert (Hat : forall c, inbox sh c -> m_at V σ' (length (tens σ)) c = m_at V σ t c).
  { intros c Hc. apply (same_cell_same_at σ t d c σ' _ nd c Ht Ht' Hwf Hwf' Hc Hc). apply Hcell. exact Hc. }
  split; [reflexivity|]. split; [exact Ht'|].
  split; [reflexivity|]. split; [exact Hwf'|]. split; [exact Hcn|]. split; [exact Hext|].
  split; [exact Hcell|]. split; [exact Hat|].
  unfold logical. change (Mem.get_t V) with get_t. rewrite Ht', Ht.
  apply map_ext_in. intros c Hc. apply Hat. apply coords_In; [exact Hp|exact Hc].
Qed.

(* A1 / A3 on a registered tensor: the conversions return the SPEC cut of the logical elements *)
Theorem native_conv_registered σ t d : get_t σ t = Some d -> nat_tensor σ d ->
  (1 <= length (shp (d_ap d)) <= 3)%nat ->
  exists l, logical V σ t = map (@Ok V) l /\ zlen l = size (shp (d_ap d)) /\
    native_conv V σ d = NRows V (fst (spec_native V (shp (d_ap d)) l)) (snd (spec_native V (shp (d_ap d)) l)).
Proof.
  intros Ht Hn Hr. destruct (native_conv_contiguous σ d Hn Hr) as (l & _ & Hl & Hz & E).
  destruct (nat_tensor_wf σ d Hn) as [Hwf _].
  exists l. split; [apply (is_logical_m_at σ t d l Ht Hwf Hl)|]. split; [exact Hz|exact E].
Qed.

Theorem native_select_registered σ t d axis : get_t σ t = Some d -> nat_tensor σ d ->
  0 <= axis < Z.max 1 (zlen (shp (d_ap d))) ->
  exists l, logical V σ t = map (@Ok V) l /\ zlen l = size (shp (d_ap d)) /\
    native_select V σ d axis = NRows V (fst (spec_select V (shp (d_ap d)) axis l))
                                       (snd (spec_select V (shp (d_ap d)) axis l)).
Proof.
  intros Ht Hn Hax. destruct (native_select_contiguous σ d axis Hn Hax) as (l & _ & Hl & Hz & E).
  destruct (nat_tensor_wf σ d Hn) as [Hwf _].
  exists l. split; [apply (is_logical_m_at σ t d l Ht Hwf Hl)|]. split; [exact Hz|exact E].
Qed.

Theorem native_refuses_colmajor σ d axis : is_cm (ord (d_ap d)) = true ->
  native_conv V σ d = NErr V /\ native_matrix V σ d = NErr V /\ native_select V σ d axis = NErr V.
Proof.
  intro H. split; [apply native_conv_refuses; left; exact H|].
  split; [apply native_matrix_refuses; left; exact H|apply native_select_refuses; left; exact H].
Qed.

End NativeProofs.

(* ====================================================================================== *)
(*  6. the repaired defect of ToMat64 (086c074), on V = Z                                  *)
(* ====================================================================================== *)
(* ToMat64 BEFORE the repair: the raw window for every tensor that is neither a view nor lazily
   transposed, whatever its data order *)
Definition to_mat64_unrepaired {V} (σ : store V) (d : dense) : nres V :=
  match shp (d_ap d) with
  | [r; c] =>
    let data :=
      if negb (is_materializable d) then Some (window V σ d)
      else match iter_all (d_ap d) with
           | Some idx => all_some (map (fun i => win_get V σ d i) idx)
           | None => None
           end in
    match data with
    | Some l => if zlen l =? r * c then NRows V [r; c] [l] else NPanic V
    | None => NPanic V
    end
  | _ => NErr V
  end.

(* New(WithShape(2,3), WithBacking([3 4 5 6 7 8]), AsFortran(nil)) *)
Definition ex_cm_store : store Z :=
  Eval vm_compute in
    match new_raw Z (mkStore Z [] []) true [2; 3] [3; 4; 5; 6; 7; 8] with
    | Ok (s, _) => s
    | _ => mkStore Z [] []
    end.
Definition ex_cm_dense : dense :=
  Eval vm_compute in
    match get_t Z ex_cm_store 0 with
    | Some d => d
    | None => mkDense 0 0 0 (mkAP [] [] 0 true) None false
    end.

Example to_mat64_raw_colmajor_wrong_refuted :
  new_raw Z (mkStore Z [] []) true [2; 3] [3; 4; 5; 6; 7; 8] = Ok (ex_cm_store, 0%nat) /\
  get_t Z ex_cm_store 0 = Some ex_cm_dense /\
  window Z ex_cm_store ex_cm_dense = [3; 4; 5; 6; 7; 8] /\
  logical Z ex_cm_store 0 = map (@Ok Z) [3; 5; 7; 4; 6; 8] /\
  window Z ex_cm_store ex_cm_dense <> [3; 5; 7; 4; 6; 8] /\
  to_mat64_unrepaired ex_cm_store ex_cm_dense = NRows Z [2; 3] [[3; 4; 5; 6; 7; 8]] /\
  to_mat64 Z ex_cm_store ex_cm_dense = NRows Z [2; 3] [[3; 5; 7; 4; 6; 8]].
Proof.
  repeat split; try (vm_compute; reflexivity). vm_compute. discriminate.
Qed.
