(* DotNProofs.v — the general-contraction branch of tensor.Dot (DotN.v: operands of rank >= 3) against
   its SPEC, for ALL stores, shapes, ranks and values:
     1. zdot_nd_safe_refines    safe mode: one-step simulation, derived from RefineProofs3.sim_ZTensorMul
     2. zdot_nd_reuse_refines   WithReuse: the raw copy into a PLAIN reuse tensor followed by setAP
     3. zdot_nd_incr_refines    WithIncr: the product added into the increment tensor (unsafe Add)
     4. dot_nd_dispatch         which pairs of shapes reach the branch
     5. examples (non-vacuity), 6. the reuse gap on a strided view (finding F90) and the corners that
        the side conditions dot_nd_extra_reuse / dot_nd_extra_incr exclude.
     7. zdot_nd_both_refines    WithReuse AND WithIncr: zdot_nd_reuse_refines composed with zstep_sim (Add)
   Final statements: PropC09c.v. *)
From Coq Require Import Lia ZifyBool.
From TV Require Import Base Index AP Iter Mem Spec Guards Run Ops Reduce Shapeops Linalg RunZ DotN.
From TV Require Import IndexProofs IterProofs APProofs OpsProofs OpsProofs2 MemProofs.
From TV Require Import ReduceProofs ReduceProofs2 LinalgProofs ShapeopsProofs RunZProofs.
From TV Require Import RefineProofs RefineProofs2 RefineProofs3.

Arguments Z.mul : simpl never.
Arguments Z.add : simpl never.
Arguments Z.sub : simpl never.
Arguments Z.leb : simpl never.
Arguments Z.ltb : simpl never.
Arguments Z.eqb : simpl never.
Arguments Z.div : simpl never.
Arguments Z.modulo : simpl never.
Arguments Z.min : simpl never.
Arguments Z.of_nat : simpl never.
Arguments Z.to_nat : simpl never.

Local Arguments bufs {V}.
Local Arguments tens {V}.
Local Arguments s_vals {V}.
Local Arguments s_tens {V}.

Local Notation get_buf := (Mem.get_buf Z).
Local Notation get_t := (Mem.get_t Z).
Local Notation set_t := (Mem.set_t Z).
Local Notation sget := (Spec.sget Z).
Local Notation sset := (Spec.sset Z).
Local Notation bget := (MemProofs.bget Z).
Local Notation win_get := (Mem.win_get Z).
Local Notation wf_dense := (MemProofs.wf_dense Z).
Local Notation mcell := (MemProofs.cell Z).
Local Notation R := (RefineProofs.R Z 0).
Local Notation Rphi := (RefineProofs.Rphi Z 0).
Local Notation RM := (RefineProofs.RM Z).
Local Notation ten_ok := (RefineProofs.ten_ok Z).
Local Notation slogical := (Spec.slogical Z 0).

(* ====================================================================================== *)
(*  0. the TensorMul step the branch performs                                              *)
(* ====================================================================================== *)
(* the contraction tensor.Dot asks TensorMul for, as a function of the model state *)
Definition dot_nd_op (σ : store Z) (ta tb : nat) : option zop :=
  match get_t σ ta, get_t σ tb with
  | Some a, Some b =>
    let '(lastA, slB) := dot_nd_axes (shp (d_ap a)) (shp (d_ap b)) in
    Some (ZTensorMul ta tb [lastA] [slB] 0)
  | _, _ => None
  end.

(* the shape of the product: the free axes of a, then those of b *)
Definition dot_nd_rshape (sa sb : list Z) : list Z :=
  let '(lastA, slB) := dot_nd_axes sa sb in
  let fa := map (fun i => znth 0 sa i) (filter (fun i => negb (existsb (Z.eqb i) [lastA])) (zseq 0 (length sa))) in
  let fb := map (fun i => znth 0 sb i) (filter (fun i => negb (existsb (Z.eqb i) [slB])) (zseq 0 (length sb))) in
  match fa ++ fb with [] => [1] | _ => fa ++ fb end.

Lemma spec_tensormul_shape ς x y lastA slB sh vs :
  spec_tensormul_vals Z 0 Z.add Z.mul ς x y [lastA] [slB] = Some (sh, vs) ->
  sh = (let fa := map (fun i => znth 0 (s_shape x) i)
                      (filter (fun i => negb (existsb (Z.eqb i) [lastA])) (zseq 0 (length (s_shape x)))) in
        let fb := map (fun i => znth 0 (s_shape y) i)
                      (filter (fun i => negb (existsb (Z.eqb i) [slB])) (zseq 0 (length (s_shape y)))) in
        match fa ++ fb with [] => [1] | _ => fa ++ fb end).
Proof.
  unfold spec_tensormul_vals. intro H.
  destruct (negb _ || negb _ || negb _); [discriminate H|].
  destruct (negb (list_eqb _ _)); [discriminate H|].
  injection H as H1 _. symmetry. exact H1.
Qed.

(* inside the guards of the TensorMul step: the extents differ and both sides refuse, or the
   product is a fresh row-major tensor related to the SPEC's fresh tensor *)
Lemma dot_nd_core σ ς ta tb a b lastA slB : R σ ς -> RM σ ->
  get_t σ ta = Some a -> get_t σ tb = Some b ->
  zguard σ (ZTensorMul ta tb [lastA] [slB] 0) = GOk ->
  tm_extra σ ta tb [lastA] [slB] = true ->
  exists x y, sget ς ta = Some x /\ sget ς tb = Some y /\
    shp (d_ap a) = s_shape x /\ shp (d_ap b) = s_shape y /\ s_pending x = O /\
    (((znth 0 (shp (d_ap a)) lastA =? znth 0 (shp (d_ap b)) slB) = false /\
      ztensormul σ ta tb [lastA] [slB] = (σ, RErr Z) /\
      spec_tensormul_vals Z 0 Z.add Z.mul ς x y [lastA] [slB] = None)
     \/
     ((znth 0 (shp (d_ap a)) lastA =? znth 0 (shp (d_ap b)) slB) = true /\
      exists σ1 dp sh vs,
        ztensormul σ ta tb [lastA] [slB] = (σ1, RNew Z (length (tens σ))) /\
        tens σ1 = tens σ ++ [dp] /\
        spec_tensormul_vals Z 0 Z.add Z.mul ς x y [lastA] [slB] = Some (sh, vs) /\
        shp (d_ap dp) = sh /\ str (d_ap dp) = calc_strides sh /\ d_old dp = None /\ d_view dp = false /\
        is_cm (ord (d_ap dp)) = false /\ wf_dense σ1 dp /\ (length (bufs σ) <= d_buf dp)%nat /\
        (forall q, (q < length (bufs σ))%nat -> get_buf σ1 q = get_buf σ q) /\
        R σ1 (mkSS Z (s_vals ς ++ vs)
                (s_tens ς ++ [mkSten sh (seq (length (s_vals ς)) (length vs)) None 0 false false])) /\
        RM σ1)).
Proof.
  intros HR HRM Ha Hb Hg He. pose proof HR as (φ & Hφ).
  pose proof He as He0. unfold tm_extra in He. rewrite Ha, Hb in He.
  apply andb_true_iff in He as [He Hncb]. apply andb_true_iff in He as [He Hnca].
  apply andb_true_iff in He as [HinA HinB]. apply negb_true_iff in Hnca, Hncb.
  destruct (axes_in_ok _ _ HinA) as (NdA & RA & FA & NA). destruct (axes_in_ok _ _ HinB) as (NdB & RB & FB & NB).
  destruct (zguard_ZTensorMul σ ta tb [lastA] [slB] 0 a b Ha Hb Hg) as [Ta Tb].
  destruct (R_tensor φ σ ς ta a Hφ Ha) as (x & Hx & Wa & Sa & Lxa & Pa & Hpa & Hca).
  destruct (R_tensor φ σ ς tb b Hφ Hb) as (y & Hy & Wb & Sb & Lxb & Pb & _ & Hcb).
  destruct (tm_ok_rm σ ta a (conj Ha Wa) Ta Hnca) as [Ra Hoa].
  destruct (tm_ok_rm σ tb b (conj Hb Wb) Tb Hncb) as [Rb Hob].
  specialize (Hpa Hoa).
  exists x, y. split; [exact Hx|]. split; [exact Hy|]. split; [exact Sa|]. split; [exact Sb|]. split; [exact Hpa|].
  pose proof (zstep_spec_ZTensorMul ς ta tb [lastA] [slB] 0 x y Hx Hy) as Espec.
  destruct (znth 0 (shp (d_ap a)) lastA =? znth 0 (shp (d_ap b)) slB) eqn:Ek.
  - right. split; [reflexivity|].
    assert (Ek' : exts (shp (d_ap a)) [lastA] = exts (shp (d_ap b)) [slB]).
    { unfold exts. cbn [map]. f_equal. lia. }
    destruct (ztensormul_spec_wf σ ta tb a b [lastA] [slB] Ha Hb Ra Rb NdA NdB RA RB eq_refl Ek')
      as (σ1 & dp & Em & Ht & Sdp & Stdp & Odp & Vdp & Cdp & Bdp & Wdp & Hold & _).
    assert (Hm : zstep_model σ (ZTensorMul ta tb [lastA] [slB] 0) = (σ1, RNew Z (length (tens σ)))) by exact Em.
    destruct (sim_ZTensorMul σ ς ta tb [lastA] [slB] 0 σ1 _ HR HRM Hg He0 Hm) as (ς1 & E1 & HR1 & HRM1).
    rewrite Espec in E1.
    destruct (spec_tensormul_vals Z 0 Z.add Z.mul ς x y [lastA] [slB]) as [[sh vs]|] eqn:Ev; [|discriminate E1].
    rewrite (spec_deliver_safe ς ta x sh vs false Hx Hpa) in E1. injection E1 as E1.
    exists σ1, dp, sh, vs. split; [exact Em|]. split; [exact Ht|]. split; [reflexivity|].
    assert (Hsh : shp (d_ap dp) = sh).
    { destruct HR1 as (φ1 & Hφ1).
      assert (Gp : get_t σ1 (length (tens σ)) = Some dp) by (unfold Mem.get_t; rewrite Ht; apply nth_error_app_last).
      destruct (R_tensor φ1 σ1 ς1 _ dp Hφ1 Gp) as (xp & Hxp & _ & Sp & _).
      pose proof Hφ as (Hlen & _). rewrite <- E1 in Hxp. unfold Spec.sget in Hxp. cbn [s_tens] in Hxp.
      rewrite Hlen, nth_error_app_last in Hxp. injection Hxp as <-. exact Sp. }
    split; [exact Hsh|]. split; [rewrite <- Hsh; exact Stdp|]. split; [exact Odp|]. split; [exact Vdp|].
    split; [exact Cdp|]. split; [exact Wdp|]. split; [rewrite Bdp; lia|]. split; [exact Hold|].
    split; [rewrite E1; exact HR1|exact HRM1].
  - left. split; [reflexivity|].
    assert (Ek' : list_eqb (exts (shp (d_ap a)) [lastA]) (exts (shp (d_ap b)) [slB]) = false).
    { unfold exts. cbn [map list_eqb]. rewrite Ek. reflexivity. }
    pose proof (ztensormul_ext_refuse σ ta tb a b [lastA] [slB] Ha Hb eq_refl FA FB Ek') as Em.
    split; [exact Em|].
    assert (Hm : zstep_model σ (ZTensorMul ta tb [lastA] [slB] 0) = (σ, RErr Z)) by exact Em.
    destruct (sim_ZTensorMul σ ς ta tb [lastA] [slB] 0 σ _ HR HRM Hg He0 Hm) as (ς1 & E1 & _ & _).
    rewrite Espec in E1.
    destruct (spec_tensormul_vals Z 0 Z.add Z.mul ς x y [lastA] [slB]) as [[sh vs]|] eqn:Ev; [|reflexivity].
    rewrite (spec_deliver_safe ς ta x sh vs false Hx Hpa) in E1. discriminate E1.
Qed.

Lemma dot_nd_op_inv σ ta tb o : dot_nd_op σ ta tb = Some o ->
  exists a b, get_t σ ta = Some a /\ get_t σ tb = Some b /\
    o = ZTensorMul ta tb [fst (dot_nd_axes (shp (d_ap a)) (shp (d_ap b)))]
                         [snd (dot_nd_axes (shp (d_ap a)) (shp (d_ap b)))] 0.
Proof.
  unfold dot_nd_op. destruct (get_t σ ta) as [a|]; [|discriminate]. destruct (get_t σ tb) as [b|]; [|discriminate].
  intro H. exists a, b. split; [reflexivity|]. split; [reflexivity|].
  unfold dot_nd_axes in *. cbn [fst snd]. injection H as <-. reflexivity.
Qed.

Lemma zextra3_tm σ ta tb axA axB : zextra3 σ (ZTensorMul ta tb axA axB 0) = true -> tm_extra σ ta tb axA axB = true.
Proof. unfold zextra3. cbn [zhint_ok andb]. intro H. exact H. Qed.

(* ====================================================================================== *)
(*  1. safe mode                                                                           *)
(* ====================================================================================== *)
Theorem zdot_nd_safe_refines σ ς ta tb o σ' r : R σ ς -> RM σ ->
  dot_nd_op σ ta tb = Some o -> zguard σ o = GOk -> zextra3 σ o = true ->
  zdot_nd σ ta tb None = (σ', r) ->
  exists ς', zdot_nd_spec ς ta tb None = Some (ς', r) /\ R σ' ς' /\ RM σ'.
Proof.
  intros HR HRM Ho Hg He H.
  destruct (dot_nd_op_inv σ ta tb o Ho) as (a & b & Ha & Hb & ->).
  apply zextra3_tm in He.
  set (lastA := fst (dot_nd_axes (shp (d_ap a)) (shp (d_ap b)))) in *.
  set (slB := snd (dot_nd_axes (shp (d_ap a)) (shp (d_ap b)))) in *.
  destruct (dot_nd_core σ ς ta tb a b lastA slB HR HRM Ha Hb Hg He)
    as (x & y & Hx & Hy & Sa & Sb & Hpa & Hcase).
  unfold zdot_nd in H. rewrite Ha, Hb in H.
  unfold zdot_nd_spec, zdot_nd_spec_gen. rewrite Hx, Hy, <- Sa, <- Sb.
  rewrite (surjective_pairing (dot_nd_axes (shp (d_ap a)) (shp (d_ap b)))) in H |- *.
  fold lastA slB in H |- *.
  destruct Hcase as [(Ek & Em & Ev)|(Ek & σ1 & dp & sh & vs & Em & Ht & Ev & Sdp & Stdp & Odp & Vdp & Cdp & Wdp & Bdp & Hold & HR1 & HRM1)].
  - rewrite Ek in H. cbn [negb] in H. injection H as <- <-. rewrite Ev.
    exists ς. split; [reflexivity|]. split; [exact HR|exact HRM].
  - rewrite Ek in H. cbn [negb] in H. rewrite Em in H. injection H as <- <-. rewrite Ev.
    rewrite (spec_deliver_safe ς ta x sh vs false Hx Hpa).
    pose proof HR as (φ & Hlen & _). rewrite <- Hlen.
    eexists. split; [reflexivity|]. split; [exact HR1|exact HRM1].
Qed.

(* inside the guards the branch never panics: either the extents differ — tensor.Dot refuses with an
   error, as TensorMul itself would — or TensorMul delivers the product; the panic(err) arm is dead *)
Theorem zdot_nd_guarded_outcome σ ς ta tb o : R σ ς -> RM σ ->
  dot_nd_op σ ta tb = Some o -> zguard σ o = GOk -> zextra3 σ o = true ->
  (zdot_nd σ ta tb None = (σ, RErr Z) /\ zstep_model σ o = (σ, RErr Z)) \/
  (exists σ1, zdot_nd σ ta tb None = (σ1, RNew Z (length (tens σ))) /\
              zstep_model σ o = (σ1, RNew Z (length (tens σ)))).
Proof.
  intros HR HRM Ho Hg He.
  destruct (dot_nd_op_inv σ ta tb o Ho) as (a & b & Ha & Hb & ->).
  apply zextra3_tm in He.
  set (lastA := fst (dot_nd_axes (shp (d_ap a)) (shp (d_ap b)))) in *.
  set (slB := snd (dot_nd_axes (shp (d_ap a)) (shp (d_ap b)))) in *.
  destruct (dot_nd_core σ ς ta tb a b lastA slB HR HRM Ha Hb Hg He)
    as (x & y & Hx & Hy & Sa & Sb & Hpa & Hcase).
  unfold zdot_nd. rewrite Ha, Hb.
  rewrite (surjective_pairing (dot_nd_axes (shp (d_ap a)) (shp (d_ap b)))). fold lastA slB.
  change (zstep_model σ (ZTensorMul ta tb [lastA] [slB] 0)) with (ztensormul σ ta tb [lastA] [slB]).
  destruct Hcase as [(Ek & Em & _)|(Ek & σ1 & dp & sh & vs & Em & _)]; rewrite Ek; cbn [negb].
  - left. split; [reflexivity|exact Em].
  - right. exists σ1. rewrite Em. split; reflexivity.
Qed.

(* ====================================================================================== *)
(*  2. WithReuse                                                                           *)
(* ====================================================================================== *)
(* the fresh product: its window reads the SPEC's values, in row-major order *)
Lemma fresh_tensor_reads (σ : store Z) (ς : sstate Z) (σ1 : store Z) dp sh vs :
  R σ1 (mkSS Z (s_vals ς ++ vs)
          (s_tens ς ++ [mkSten sh (seq (length (s_vals ς)) (length vs)) None 0 false false])) ->
  length (tens σ) = length (s_tens ς) -> tens σ1 = tens σ ++ [dp] ->
  shp (d_ap dp) = sh -> str (d_ap dp) = calc_strides sh ->
  length vs = Z.to_nat (size sh) /\ pos_shape sh /\
  forall j, 0 <= j < size sh -> win_get σ1 dp j = Some (nth (Z.to_nat j) vs 0).
Proof.
  intros (φ1 & Hφ1) Hlen Ht Hsh Hst.
  assert (Gp : get_t σ1 (length (tens σ)) = Some dp) by (unfold Mem.get_t; rewrite Ht; apply nth_error_app_last).
  destruct (R_tensor φ1 σ1 _ _ dp Hφ1 Gp) as (xp & Hxp & _ & _ & Lc & Pp & _ & Hc).
  unfold Spec.sget in Hxp. cbn [s_tens] in Hxp. rewrite Hlen, nth_error_app_last in Hxp. injection Hxp as <-.
  cbn [s_shape s_cells] in Lc, Pp, Hc. rewrite seq_length in Lc.
  split; [exact Lc|]. split; [exact Pp|]. intros j Hj.
  set (c := unrank sh j).
  assert (Hc1 : inbox sh c) by (apply unrank_inbox; [exact Pp|lia]).
  assert (Hr : rank_rm sh c = j) by (apply rank_unrank; [exact Pp|lia]).
  specialize (Hc c Hc1). unfold MemProofs.cell in Hc.
  rewrite Hst, <- rk_dot in Hc. unfold c in Hc at 1. rewrite rk_unrank in Hc by (auto; lia).
  rewrite Hc. f_equal. unfold sval. cbn [s_shape s_cells s_vals]. rewrite Hr.
  rewrite seq_nth by lia. rewrite app_nth2 by lia. f_equal. lia.
Qed.

(* a contiguous plain tensor re-read through another row-major access pattern of the same size names
   the same cells in the same flat order (cf. sim_OReshape_partial) *)
Lemma ten_ok_reap φ σ d x a' sh cm : ten_ok φ σ d x -> d_old d = None ->
  str (d_ap d) = calc_strides (shp (d_ap d)) ->
  shp a' = sh -> str a' = calc_strides sh -> pos_shape sh -> size sh = size (shp (d_ap d)) ->
  ten_ok φ σ (with_ap d a') (mkSten sh (s_cells x) None 0 (s_view x) cm).
Proof.
  intros (Hwf & Hrep & Hv & Hpend & Hcov) Eo Hcontig A1 A2 Hpdims Hsz.
  pose proof Hrep as (Hs & Ha & Hl & Hc). pose proof Ha as (Hps & Hls & Hst & Hbnd & Hainj).
  set (shd := shp (d_ap d)) in *.
  pose proof (size_pos shd Hps) as Hszp.
  assert (Hlen : size shd <= d_len d).
  { assert (Hi : inbox shd (unrank shd (size shd - 1))) by (apply unrank_inbox; [exact Hps|lia]).
    specialize (Hbnd _ Hi). rewrite Hcontig, <- rk_dot, rk_unrank in Hbnd by (auto; lia). lia. }
  assert (Ha2 : wf_ap (d_len d) a').
  { apply (wf_ap_mono (size sh)); [lia|].
    apply (wf_ap_ext _ (mkAP sh (calc_strides sh) 0 true)); [symmetry; exact A1|symmetry; exact A2|].
    apply wf_ap_rowmajor. exact Hpdims. }
  assert (Hposd : forall c, inbox shd c -> pos d c = d_off d + rank_rm shd c).
  { intros c Hi. unfold pos. rewrite Hcontig. fold shd.
    rewrite dot_calc_strides_rank by (apply inbox_length; exact Hi). reflexivity. }
  set (d2 := with_ap d a').
  assert (Hpos2 : forall c, inbox sh c -> pos d2 c = d_off d + rank_rm sh c).
  { intros c Hi. unfold pos, d2, with_ap. cbn [d_off d_ap]. rewrite A2.
    rewrite dot_calc_strides_rank by (apply inbox_length; exact Hi). reflexivity. }
  split; [|split; [|split; [exact Hv|split]]].
  - destruct Hwf as (Hw & _ & _). split; [exact Hw|]. split; [exact Ha2|].
    intros o0 Ho0. unfold d2, with_ap in Ho0. cbn [d_old] in Ho0. congruence.
  - cbn [s_shape s_cells]. split; [exact A1|]. split; [exact Ha2|].
    split; [rewrite Hl, <- Hs, Hsz; reflexivity|].
    intros c Hi. change (d_off d2 + dot (str (d_ap d2)) c) with (pos d2 c). rewrite (Hpos2 c Hi).
    pose proof (rank_rm_bound sh c Hpdims Hi) as Hr.
    set (c0 := unrank shd (rank_rm sh c)).
    assert (Hi0 : inbox shd c0) by (apply unrank_inbox; [exact Hps|lia]).
    assert (Hr0 : rank_rm shd c0 = rank_rm sh c) by (apply rank_unrank; [exact Hps|lia]).
    rewrite <- Hr0, <- (Hposd c0 Hi0). change (d_buf d2) with (d_buf d). unfold pos.
    rewrite Hs in Hi0. rewrite (Hc c0 Hi0). rewrite <- Hs. reflexivity.
  - unfold pend_ok. change (d_old d2) with (d_old d). rewrite Eo. cbn [s_pending s_undo]. split; reflexivity.
  - intros Hnv p k Hk Hr. destruct (Hcov Hnv p k Hk Hr) as (c0 & Hi0 & ->).
    pose proof (rank_rm_bound shd c0 Hps Hi0) as Hr0.
    exists (unrank sh (rank_rm shd c0)).
    assert (Hi : inbox sh (unrank sh (rank_rm shd c0))) by (apply unrank_inbox; [exact Hpdims|lia]).
    split; [change (shp (d_ap d2)) with (shp a'); rewrite A1; exact Hi|].
    rewrite (Hposd c0 Hi0), (Hpos2 _ Hi), rank_unrank by (auto; lia). reflexivity.
Qed.

(* the SPEC's delivery into a reuse tensor that takes the product's shape *)
Lemma spec_deliver_reuse_shape ς ta rr xr sh vs : sget ς rr = Some xr ->
  length vs = length (s_cells xr) -> s_cm xr = false -> s_pending xr = O -> s_undo xr = None ->
  (shape_eq (s_shape xr) sh = true -> s_shape xr = sh) ->
  spec_vals_deliver ς ta sh (map (fun v => Some v) vs) (2, rr) false
  = Some (sset (mkSS Z (write_cells Z (s_vals ς) (s_cells xr) vs) (s_tens ς)) rr
               (mkSten sh (s_cells xr) None 0 (s_view xr) false), RNew Z rr).
Proof.
  intros Hx Hl Hcm Hp Hu Hsoft. unfold spec_vals_deliver. rewrite all_some_map_Some. cbn [fst snd].
  unfold spec_deliver, spec_deliver_gen.
  change (2 =? 0) with false. change (2 =? 1) with false. change (2 =? 2) with true. cbv iota.
  rewrite Hx. replace (length (s_cells xr) =? length vs)%nat with true by (symmetry; apply Nat.eqb_eq; lia).
  cbn [negb]. rewrite Hcm, Hp, Hu. cbn [andb].
  assert (E1 : (if shape_eq (s_shape xr) sh then s_shape xr else sh) = sh).
  { destruct (shape_eq (s_shape xr) sh); [apply Hsoft; reflexivity|reflexivity]. }
  rewrite E1.
  replace (if list_eqb (s_shape xr) sh then @None (list Z * list nat) else None) with (@None (list Z * list nat))
    by (destruct (list_eqb (s_shape xr) sh); reflexivity).
  replace (if list_eqb (s_shape xr) sh then O else O) with O by (destruct (list_eqb (s_shape xr) sh); reflexivity).
  reflexivity.
Qed.

(* what the reuse path needs beyond dot_nd_reuse_plain:
   - the reuse tensor's strides are the row-major strides of its shape      PROOF (R does not carry that a plain
     tensor is stored in row-major order; every constructor of the fragment builds it so)
   - a reuse tensor whose shape is SOFT-equal to the product's ((n) against (n,1) / (1,n)) has exactly the
     product's shape                                                          GAP   zdot_nd_reuse_soft_shape_gap:
     the SPEC's reuse rule lets such a destination keep its own shape, setAP installs the product's *)
Definition dot_nd_extra_reuse (σ : store Z) (ta tb r : nat) : bool :=
  match get_t σ ta, get_t σ tb, get_t σ r with
  | Some a, Some b, Some dr =>
    let rsh := dot_nd_rshape (shp (d_ap a)) (shp (d_ap b)) in
    list_eqb (str (d_ap dr)) (calc_strides (shp (d_ap dr)))
    && (negb (shape_eq (shp (d_ap dr)) rsh) || list_eqb (shp (d_ap dr)) rsh)
  | _, _, _ => false
  end.

(* the number of elements of the product *)
Definition dot_nd_size (σ : store Z) (ta tb : nat) : Z :=
  match get_t σ ta, get_t σ tb with
  | Some a, Some b => size (dot_nd_rshape (shp (d_ap a)) (shp (d_ap b)))
  | _, _ => 0
  end.

Theorem zdot_nd_reuse_refines σ ς ta tb rr o σ' r : R σ ς -> RM σ ->
  dot_nd_op σ ta tb = Some o -> zguard σ o = GOk -> zextra3 σ o = true ->
  dot_nd_reuse_plain σ rr (dot_nd_size σ ta tb) = true ->
  dot_nd_extra_reuse σ ta tb rr = true ->
  (forall xr, sget ς rr = Some xr -> s_cm xr = false) ->
  zdot_nd σ ta tb (Some rr) = (σ', r) ->
  exists ς', zdot_nd_spec ς ta tb (Some rr) = Some (ς', r) /\ R σ' ς' /\ RM σ'.
Proof.
  intros HR HRM Ho Hg He Hplain Hextra Hscm H.
  destruct (dot_nd_op_inv σ ta tb o Ho) as (a & b & Ha & Hb & ->).
  apply zextra3_tm in He.
  set (lastA := fst (dot_nd_axes (shp (d_ap a)) (shp (d_ap b)))) in *.
  set (slB := snd (dot_nd_axes (shp (d_ap a)) (shp (d_ap b)))) in *.
  destruct (dot_nd_core σ ς ta tb a b lastA slB HR HRM Ha Hb Hg He)
    as (x & y & Hx & Hy & Sa & Sb & Hpa & Hcase).
  unfold zdot_nd in H. rewrite Ha, Hb in H.
  unfold zdot_nd_spec, zdot_nd_spec_gen. rewrite Hx, Hy, <- Sa, <- Sb.
  rewrite (surjective_pairing (dot_nd_axes (shp (d_ap a)) (shp (d_ap b)))) in H |- *.
  fold lastA slB in H |- *.
  destruct Hcase as [(Ek & Em & Ev)|(Ek & σ1 & dp & sh & vs & Em & Ht & Ev & Sdp & Stdp & Odp & Vdp & Cdp & Wdp & Bdp & Hold & HR1 & HRM1)].
  { rewrite Ek in H. cbn [negb] in H. injection H as <- <-. rewrite Ev.
    exists ς. split; [reflexivity|]. split; [exact HR|exact HRM]. }
  rewrite Ek in H. cbn [negb] in H. rewrite Em in H. rewrite Ev.
  pose proof HR as (φ & Hφ). pose proof Hφ as (Hlen & _).
  (* the product's shape *)
  assert (Esh : sh = dot_nd_rshape (shp (d_ap a)) (shp (d_ap b))).
  { rewrite (spec_tensormul_shape _ _ _ _ _ _ _ Ev), <- Sa, <- Sb. reflexivity. }
  (* the reuse tensor *)
  unfold dot_nd_reuse_plain in Hplain. unfold dot_nd_extra_reuse in Hextra. unfold dot_nd_size in Hplain.
  rewrite Ha, Hb in Hplain, Hextra. rewrite <- Esh in Hplain, Hextra.
  destruct (get_t σ rr) as [dr|] eqn:Hr; [|discriminate Hplain].
  apply andb_true_iff in Hplain as [Hplain Hszr]. apply andb_true_iff in Hplain as [Hplain Hlr].
  apply andb_true_iff in Hplain as [Hplain Hcmr]. apply andb_true_iff in Hplain as [Hvr Hor].
  apply negb_true_iff in Hvr, Hor, Hcmr.
  assert (Hor' : d_old dr = None) by (destruct (d_old dr); [discriminate Hor|reflexivity]).
  apply andb_true_iff in Hextra as [Hstr Hsoft]. apply list_eqb_true in Hstr.
  destruct (R_tensor φ σ ς rr dr Hφ Hr) as (xr & Hxr & Wr & Sr & Lr & Pr & Hpr & _).
  specialize (Hpr Hor'). specialize (Hscm xr Hxr).
  pose proof Hφ as (_ & _ & _ & Hall). pose proof (Hall rr dr xr Hr Hxr) as Hokr.
  assert (Hur : s_undo xr = None).
  { destruct Hokr as (_ & _ & _ & Hpend & _). unfold pend_ok in Hpend. rewrite Hor' in Hpend. tauto. }
  destruct (fresh_tensor_reads σ ς σ1 dp sh vs HR1 Hlen Ht Sdp Stdp) as (Lvs & Psh & Hwin).
  assert (Hn : d_len dr = size sh) by lia. assert (Hn' : size (shp (d_ap dr)) = size sh) by lia.
  pose proof (size_pos sh Psh) as Hszp.
  (* the store after TensorMul *)
  assert (Hext : extends Z σ σ1).
  { split; [exact Hold|]. intros t d Hd. unfold Mem.get_t in *. rewrite Ht.
    rewrite nth_error_app1; [exact Hd|]. apply nth_error_Some_lt in Hd. exact Hd. }
  assert (Gr1 : get_t σ1 rr = Some dr) by (destruct Hext as [_ Hx']; apply Hx'; exact Hr).
  assert (Gp1 : get_t σ1 (length (tens σ)) = Some dp) by (unfold Mem.get_t; rewrite Ht; apply nth_error_app_last).
  rewrite Gr1, Gp1 in H.
  pose proof (extends_wf Z σ σ1 dr Hext Wr) as Wr1.
  assert (Hldp : size sh <= d_len dp).
  { pose proof Wdp as (_ & (_ & _ & _ & Hbnd & _) & _). rewrite Sdp in Hbnd.
    assert (Hi : inbox sh (unrank sh (size sh - 1))) by (apply unrank_inbox; [exact Psh|lia]).
    specialize (Hbnd _ Hi). rewrite Stdp, <- rk_dot, rk_unrank in Hbnd by (auto; lia). lia. }
  destruct (copy_raw_wrote Z 0 σ1 dr dp (wf_in_buf σ1 dr Wr1) (wf_in_buf σ1 dp Wdp) ltac:(lia) ltac:(lia))
    as (σ2 & Ec & (Ft2 & Flb & Fln & Foth & Fsep & Fout) & Hw & Hnw).
  rewrite Ec in H. injection H as <- <-.
  replace (Z.min (d_len dr) (d_len dp)) with (size sh) in Hw, Hnw by lia.
  (* SPEC side *)
  assert (Lvs' : length vs = length (s_cells xr)) by (rewrite Lr, <- Sr; lia).
  assert (Hsoft' : shape_eq (s_shape xr) sh = true -> s_shape xr = sh).
  { rewrite <- Sr. intro E. rewrite E in Hsoft. cbn [negb orb] in Hsoft. apply list_eqb_true. exact Hsoft. }
  rewrite (spec_deliver_reuse_shape ς ta rr xr sh vs Hxr Lvs' Hscm Hpr Hur Hsoft').
  eexists. split; [reflexivity|].
  (* the buffers: the window of dr now holds vs *)
  set (σm := mkStore Z (bufs σ2) (tens σ)).
  assert (Hct : contig dr) by (split; [exact Hstr|lia]).
  pose proof Wr as ((W0 & W1 & W2) & Wap & _). pose proof Wap as (Hp & Hls & _ & Hbnd & _).
  pose proof (wf_dense_buf_lt Z σ dr Wr) as Hbl.
  assert (Hdw : dest_written σ σm dr vs).
  { split; [reflexivity|]. split; [|split; [|split]].
    - intros k Hk Hne. change (get_buf σ2 k = get_buf σ k). rewrite (Foth k Hne). apply Hold. exact Hk.
    - intros c Hc. pose proof (rank_rm_bound _ _ Hp Hc) as Hrk.
      rewrite (contig_pos dr c Hct), rk_dot, dot_calc_strides_rank by (apply inbox_length; exact Hc).
      change (bget σm (d_buf dr) (d_off dr + rank_rm (shp (d_ap dr)) c))
        with (bget σ2 (d_buf dr) (d_off dr + rank_rm (shp (d_ap dr)) c)).
      rewrite <- (MemProofs.win_get_bget Z σ2 dr) by lia.
      rewrite Hw by lia. apply Hwin. lia.
    - intros i Hi. destruct (Z_le_dec 0 i) as [H0|H0]; [destruct (Z_lt_dec i (d_len dr)) as [H1|H1]|].
      + exfalso. destruct (contig_offset dr i Hct Hp ltac:(lia)) as (c & Hc & Ei & _). apply (Hi c Hc Ei).
      + rewrite !win_get_outside by lia. reflexivity.
      + rewrite !win_get_outside by lia. reflexivity.
    - intros p Hp'. change (bget σ2 (d_buf dr) p = bget σ (d_buf dr) p).
      transitivity (bget σ1 (d_buf dr) p); [apply (Fout p Hp')|].
      apply (extends_bget Z σ σ1 _ _ Hext Hbl). }
  pose proof (Rphi_dest φ σ ς σm rr dr xr vs Hφ Hr Hxr Hdw Lvs') as Hφm.
  set (ςm := mkSS Z (write_cells Z (s_vals ς) (s_cells xr) vs) (s_tens ς)) in *.
  assert (Hrm : get_t σm rr = Some dr) by exact Hr.
  assert (Hxm : sget ςm rr = Some xr) by exact Hxr.
  pose proof Hφm as (_ & _ & _ & Hallm). pose proof (Hallm rr dr xr Hrm Hxm) as Hokm.
  assert (Hok' : ten_ok φ σm (with_ap dr (d_ap dp)) (mkSten sh (s_cells xr) None 0 (s_view xr) false)).
  { apply ten_ok_reap; try assumption. lia. }
  (* the final store *)
  assert (Hσ' : mkStore Z (bufs σ2) (upd (firstn (length (tens σ)) (tens σ2)) rr (with_ap dr (d_ap dp)))
                = set_t σm rr (with_ap dr (d_ap dp))).
  { unfold Mem.set_t, σm. cbn [bufs tens]. f_equal. f_equal. rewrite Ft2, Ht.
    rewrite firstn_app, Nat.sub_diag, firstn_all. cbn [firstn]. apply app_nil_r. }
  rewrite Hσ'. split.
  - exists φ. apply (Rphi_set Z 0 φ σm ςm rr dr xr _ _ Hφm Hrm Hxm Hok').
  - apply RM_set; [apply (RM_tens Z σ σm eq_refl HRM)|]. split; [exact Cdp|].
    intros o0 Ho0. unfold with_ap in Ho0. cbn [d_old] in Ho0. congruence.
Qed.

(* ====================================================================================== *)
(*  3. WithIncr                                                                            *)
(* ====================================================================================== *)
(* what the incr path needs beyond the guards of its two steps: the increment tensor has the product's
   shape (up to Shape.Eq; the guard of the Add step excludes the soft case).  GAP
   zdot_nd_incr_shape_gap: an increment tensor of the right SIZE but another shape is refused by Add
   (an error) where the SPEC's incr rule adds into it *)
Definition dot_nd_extra_incr (σ : store Z) (ta tb i : nat) : bool :=
  match get_t σ ta, get_t σ tb, get_t σ i with
  | Some a, Some b, Some di => shape_eq (shp (d_ap di)) (dot_nd_rshape (shp (d_ap a)) (shp (d_ap b)))
  | _, _, _ => false
  end.

Lemma zf_add x y : zf 0 x y = x + y.
Proof. reflexivity. Qed.

Theorem zdot_nd_incr_refines σ ς ta tb i o σ' r : R σ ς -> RM σ ->
  dot_nd_op σ ta tb = Some o -> zguard σ o = GOk -> zextra3 σ o = true ->
  (forall σ1 p, zdot_nd σ ta tb None = (σ1, RNew Z p) ->
     zguard σ1 (ZBin 0 i p MUnsafe true) = GOk /\ zextra_ok σ1 (ZBin 0 i p MUnsafe true) = true) ->
  dot_nd_extra_incr σ ta tb i = true ->
  zdot_nd_full σ ta tb None (Some i) = (σ', r) ->
  exists ς', zdot_nd_spec_incr ς ta tb i = Some (ς', r) /\ R σ' ς' /\ RM σ'.
Proof.
  intros HR HRM Ho Hg He Hstep Hextra H.
  destruct (dot_nd_op_inv σ ta tb o Ho) as (a & b & Ha & Hb & ->).
  apply zextra3_tm in He.
  set (lastA := fst (dot_nd_axes (shp (d_ap a)) (shp (d_ap b)))) in *.
  set (slB := snd (dot_nd_axes (shp (d_ap a)) (shp (d_ap b)))) in *.
  destruct (dot_nd_core σ ς ta tb a b lastA slB HR HRM Ha Hb Hg He)
    as (x & y & Hx & Hy & Sa & Sb & Hpa & Hcase).
  assert (Hdot : zdot_nd σ ta tb None =
                 if negb (znth 0 (shp (d_ap a)) lastA =? znth 0 (shp (d_ap b)) slB) then (σ, RErr Z)
                 else match ztensormul σ ta tb [lastA] [slB] with
                      | (σ1, RNew _ p) => (σ1, RNew Z p)
                      | (_, RErr _) => (σ, RPanic Z)
                      | (_, r0) => (σ, r0)
                      end).
  { unfold zdot_nd. rewrite Ha, Hb.
    rewrite (surjective_pairing (dot_nd_axes (shp (d_ap a)) (shp (d_ap b)))). fold lastA slB. reflexivity. }
  unfold zdot_nd_full in H.
  unfold zdot_nd_spec_incr, zdot_nd_spec_gen. rewrite Hx, Hy, <- Sa, <- Sb.
  rewrite (surjective_pairing (dot_nd_axes (shp (d_ap a)) (shp (d_ap b)))). fold lastA slB.
  destruct Hcase as [(Ek & Em & Ev)|(Ek & σ1 & dp & sh & vs & Em & Ht & Ev & Sdp & Stdp & Odp & Vdp & Cdp & Wdp & Bdp & Hold & HR1 & HRM1)].
  { rewrite Ek in Hdot. cbn [negb] in Hdot. rewrite Hdot in H. injection H as <- <-. rewrite Ev.
    exists ς. split; [reflexivity|]. split; [exact HR|exact HRM]. }
  rewrite Ek, Em in Hdot. cbn [negb] in Hdot. rewrite Hdot in H. rewrite Ev.
  destruct (Hstep _ _ Hdot) as [Hg1 He1]. clear Hstep.
  set (p := length (tens σ)) in *.
  pose proof HR as (φ & Hφ). pose proof Hφ as (Hlen & _).
  assert (Esh : sh = dot_nd_rshape (shp (d_ap a)) (shp (d_ap b))).
  { rewrite (spec_tensormul_shape _ _ _ _ _ _ _ Ev), <- Sa, <- Sb. reflexivity. }
  unfold dot_nd_extra_incr in Hextra. rewrite Ha, Hb in Hextra. rewrite <- Esh in Hextra.
  destruct (get_t σ i) as [di|] eqn:Hi; [|discriminate Hextra].
  destruct (fresh_tensor_reads σ ς σ1 dp sh vs HR1 Hlen Ht Sdp Stdp) as (Lvs & Psh & Hwin).
  assert (Hext : extends Z σ σ1).
  { split; [exact Hold|]. intros t d Hd. unfold Mem.get_t in *. rewrite Ht.
    rewrite nth_error_app1; [exact Hd|]. apply nth_error_Some_lt in Hd. exact Hd. }
  assert (Gi1 : get_t σ1 i = Some di) by (destruct Hext as [_ Hx']; apply Hx'; exact Hi).
  assert (Gp1 : get_t σ1 p = Some dp) by (unfold Mem.get_t; rewrite Ht; apply nth_error_app_last).
  (* the Add step, as in sim_ZBin_unsafe *)
  set (ς1 := mkSS Z (s_vals ς ++ vs)
               (s_tens ς ++ [mkSten sh (seq (length (s_vals ς)) (length vs)) None 0 false false])) in *.
  pose proof HR1 as (φ1 & Hφ1).
  destruct (ZBin_operands φ1 σ1 ς1 0 i p MUnsafe true di dp Hφ1 Gi1 Gp1 Hg1)
    as (xi1 & yp & Hxi1 & Hyp & Wi1 & Wp1 & Oi & Op & Si1 & Sp1 & Ci & Cp & Li1 & Lp1 & _ & Hshq).
  rewrite Sdp in Hshq. specialize (Hshq Hextra).
  assert (Hov : overlaps di dp = false).
  { unfold zextra_ok in He1. rewrite Gi1, Gp1 in He1. apply negb_true_iff in He1. exact He1. }
  rewrite (zstep_model_ZBin (fun _ => True) (fun _ _ _ => I) σ1 0 i p MUnsafe true di dp Gi1 Gp1 eq_refl Ci Cp) in H.
  set (vs' := map2 (zf 0) (slogical ς1 xi1) (slogical ς1 yp)).
  assert (Hshq' : shp (d_ap di) = shp (d_ap dp)) by (rewrite Sdp; exact Hshq).
  destruct (dest_post_written σ1 di i _ _ vs'
              (dest_post_to_x Z σ1 di i _ _
                 (arith_vv_unsafe_post Z 0 Z.add (zf 0) σ1 i p di dp Gi1 Gp1 Oi Op Hshq' (not_overlaps_sep (fun _ => True) (fun _ _ _ => I) _ _ Hov))) Wi1)
    as (σ2 & Er & Hdw1).
  { intros c Hc'. apply (vals2 (fun _ => True) (fun _ _ _ => I) φ1 σ1 ς1 i p di dp xi1 yp); assumption. }
  rewrite Er in H. cbn [of_oresult] in H. injection H as <- <-.
  (* the increment tensor on both sides *)
  destruct (R_tensor φ σ ς i di Hφ Hi) as (xi & Hxi & Wi & Si & Li & Pi & _ & _).
  assert (Exi : xi1 = xi).
  { unfold Spec.sget, ς1 in Hxi1. cbn [s_tens] in Hxi1. rewrite nth_error_app1 in Hxi1.
    - unfold Spec.sget in Hxi. congruence.
    - apply nth_error_Some_lt in Hxi. exact Hxi. }
  subst xi1.
  assert (Eyp : yp = mkSten sh (seq (length (s_vals ς)) (length vs)) None 0 false false).
  { unfold Spec.sget, ς1 in Hyp. cbn [s_tens] in Hyp. unfold p in Hyp. rewrite Hlen, nth_error_app_last in Hyp.
    congruence. }
  assert (Hshi : s_shape xi = sh) by congruence.
  assert (Lvs' : length vs = length (s_cells xi)) by (rewrite Li, Hshi; exact Lvs).
  rewrite <- Hshi.
  rewrite (spec_deliver_dest ς ta i xi vs false true Hxi Lvs'). fold (incr_vals ς xi vs).
  eexists. split; [reflexivity|].
  set (σm := mkStore Z (bufs σ2) (tens σ)).
  pose proof (wf_dense_buf_lt Z σ di Wi) as Hbl.
  pose proof (wf_dense_buf_lt Z σ1 dp Wdp) as Hblp.
  pose proof Wi as (_ & (Hp & _ & _ & Hbnd & _) & _).
  pose proof Hdw1 as (Ft2 & Hoth2 & Hcells2 & Hnl2 & Hout2).
  assert (Hdw : dest_written σ σm di (incr_vals ς xi vs)).
  { split; [reflexivity|]. split; [|split; [|split]].
    - intros k Hk Hne. change (get_buf σ2 k = get_buf σ k). rewrite (Hoth2 k) by (try exact Hne; lia).
      apply Hold. exact Hk.
    - intros c Hc. change (bget σm (d_buf di) (pos di c)) with (bget σ2 (d_buf di) (pos di c)).
      rewrite (Hcells2 c Hc). f_equal.
      pose proof (rank_rm_bound _ _ Hp Hc) as Hrk. rewrite Si, Hshi in Hrk.
      set (k := Z.to_nat (rank_rm (shp (d_ap di)) c)).
      assert (Hk : (k < length vs)%nat) by (unfold k; rewrite Si, Hshi; lia).
      rewrite incr_vals_nth by (try exact Lvs'; exact Hk).
      assert (Hk1 : (k < length (slogical ς1 xi))%nat) by (rewrite slogical_length; lia).
      assert (Hk2 : (k < length (slogical ς1 yp))%nat)
        by (rewrite slogical_length, Eyp; cbn [s_cells]; rewrite seq_length; exact Hk).
      unfold vs'. rewrite (map2_nth (zf 0) 0 0 0 _ _ k Hk1 Hk2).
      rewrite zf_add. f_equal.
      + destruct (R_cell φ1 σ1 ς1 i di xi c Hφ1 Gi1 Hxi1 Hc) as [E1 _].
        destruct (R_cell φ σ ς i di xi c Hφ Hi Hxi Hc) as [E0 _].
        rewrite (extends_bget Z σ σ1 _ _ Hext Hbl) in E1. fold k in E1, E0. congruence.
      + rewrite Eyp. unfold Spec.slogical. cbn [s_cells]. unfold ς1. cbn [s_vals].
        rewrite (nth_map_lt _ O 0) by (rewrite seq_length; exact Hk).
        rewrite seq_nth by exact Hk. rewrite app_nth2 by lia. f_equal. lia.
    - intros j Hj. transitivity (win_get σ1 di j); [apply (Hnl2 j Hj)|].
      unfold Mem.win_get. rewrite (Hold _ Hbl). reflexivity.
    - intros q Hq. change (bget σ2 (d_buf di) q = bget σ (d_buf di) q).
      rewrite (Hout2 q Hq). apply (extends_bget Z σ σ1 _ _ Hext Hbl). }
  assert (Hσ' : mkStore Z (bufs σ2) (firstn p (tens σ2)) = σm).
  { unfold σm. f_equal. rewrite Ft2, Ht. unfold p.
    rewrite firstn_app, Nat.sub_diag, firstn_all. cbn [firstn]. apply app_nil_r. }
  rewrite Hσ'. split.
  - exists φ. apply (Rphi_dest φ σ ς σm i di xi _ Hφ Hi Hxi Hdw). apply incr_vals_length. exact Lvs'.
  - apply (RM_tens Z σ σm eq_refl HRM).
Qed.

(* ====================================================================================== *)
(*  4. which pairs of shapes reach the branch                                              *)
(* ====================================================================================== *)
Lemma dot_nd_dispatch_switch sa sb :
  dot_nd_dispatch sa sb =
  negb (is_scalar sa) && negb (is_scalar sb) &&
  negb ((is_vector sa || (length sa =? 2)%nat) && (is_vector sb || (length sb =? 2)%nat)).
Proof.
  unfold dot_nd_dispatch.
  destruct (is_scalar sa), (is_scalar sb), (is_vector sa), (length sa =? 2)%nat; reflexivity.
Qed.

Lemma vec_or_mat_rank (s : list Z) :
  is_vector s || (length s =? 2)%nat = ((length s =? 1)%nat || (length s =? 2)%nat).
Proof.
  unfold is_vector, is_colvec, is_rowvec.
  destruct s as [|a [|b [|c s]]]; cbn [length Nat.eqb orb andb]; try reflexivity.
  rewrite !orb_true_r. reflexivity.
Qed.

(* the branch is reached exactly by two non-scalar operands one of which has rank >= 3 *)
Theorem dot_nd_dispatch_iff sa sb :
  dot_nd_dispatch sa sb = true <->
  (1 <= length sa /\ 1 <= length sb /\ (3 <= length sa \/ 3 <= length sb))%nat.
Proof.
  rewrite dot_nd_dispatch_switch, !vec_or_mat_rank. unfold is_scalar.
  destruct sa as [|a1 [|a2 [|a3 sa]]]; destruct sb as [|b1 [|b2 [|b3 sb]]];
    cbn [length Nat.eqb negb andb orb]; split; intro H; try discriminate H; try reflexivity; try lia.
Qed.

Corollary dot_nd_dispatch_rank3_l sa sb : (3 <= length sa)%nat -> sb <> [] -> dot_nd_dispatch sa sb = true.
Proof. intros Ha Hb. apply dot_nd_dispatch_iff. destruct sb; [congruence|]. cbn [length]. lia. Qed.

Corollary dot_nd_dispatch_rank3_r sa sb : sa <> [] -> (3 <= length sb)%nat -> dot_nd_dispatch sa sb = true.
Proof. intros Ha Hb. apply dot_nd_dispatch_iff. destruct sa; [congruence|]. cbn [length]. lia. Qed.

Corollary dot_nd_dispatch_low_ranks sa sb : (length sa <= 2)%nat -> (length sb <= 2)%nat -> dot_nd_dispatch sa sb = false.
Proof.
  intros Ha Hb. destruct (dot_nd_dispatch sa sb) eqn:E; [|reflexivity].
  apply dot_nd_dispatch_iff in E. lia.
Qed.

Corollary dot_nd_dispatch_scalar sa sb : sa = [] \/ sb = [] -> dot_nd_dispatch sa sb = false.
Proof.
  intros H. destruct (dot_nd_dispatch sa sb) eqn:E; [|reflexivity].
  apply dot_nd_dispatch_iff in E. destruct H as [-> | ->]; cbn [length] in E; lia.
Qed.

(* the product shape in closed form: a's shape without its last axis, then b's without its
   second-to-last (a vector b contributes nothing) *)
Lemma free_extents (l1 l2 : list Z) (y : Z) :
  map (fun i => znth 0 (l1 ++ y :: l2) i)
      (filter (fun i => negb (existsb (Z.eqb i) [zlen l1])) (zseq 0 (length (l1 ++ y :: l2))))
  = l1 ++ l2.
Proof.
  rewrite (filter_ext _ (fun i => negb (i =? 0 + Z.of_nat (length l1)))).
  2:{ intro i. cbn [existsb]. rewrite orb_false_r. unfold zlen. reflexivity. }
  rewrite app_length. cbn [length]. rewrite (filter_neq_zseq (length l1) (length l2) 0), map_app. f_equal.
  - pose proof (map_znth_zseq 0 [] l1 (y :: l2)) as H. cbn [app] in H. exact H.
  - pose proof (map_znth_zseq 0 (l1 ++ [y]) l2 []) as H. rewrite app_nil_r, <- app_assoc in H. cbn [app] in H.
    replace (zlen (l1 ++ [y])) with (0 + Z.of_nat (length l1) + 1) in H
      by (unfold zlen; rewrite app_length; cbn [length]; lia).
    exact H.
Qed.

Theorem dot_nd_rshape_nd (pa : list Z) (ka : Z) (pb : list Z) (kb m : Z) :
  dot_nd_rshape (pa ++ [ka]) (pb ++ [kb; m]) = pa ++ pb ++ [m].
Proof.
  unfold dot_nd_rshape, dot_nd_axes. cbv beta iota zeta.
  assert (E1 : zlen (pa ++ [ka]) - 1 = zlen pa) by (unfold zlen; rewrite app_length; cbn [length]; lia).
  assert (E2 : (if 2 <=? zlen (pb ++ [kb; m]) then zlen (pb ++ [kb; m]) - 2 else 0) = zlen pb).
  { unfold zlen. rewrite app_length. cbn [length]. destruct (2 <=? _) eqn:E; lia. }
  rewrite E1, E2, (free_extents pa [] ka), (free_extents pb [m] kb), app_nil_r.
  destruct (pa ++ pb ++ [m]) eqn:E; [|reflexivity].
  exfalso. apply app_eq_nil in E as [_ E]. apply app_eq_nil in E as [_ E]. discriminate E.
Qed.

Theorem dot_nd_rshape_vec (pa : list Z) (ka kb : Z) : pa <> [] -> dot_nd_rshape (pa ++ [ka]) [kb] = pa.
Proof.
  intro Hne. unfold dot_nd_rshape, dot_nd_axes. cbv beta iota zeta.
  assert (E1 : zlen (pa ++ [ka]) - 1 = zlen pa) by (unfold zlen; rewrite app_length; cbn [length]; lia).
  assert (E2 : (if 2 <=? zlen [kb] then zlen [kb] - 2 else 0) = zlen (@nil Z)) by reflexivity.
  rewrite E1, E2, (free_extents pa [] ka). change [kb] with ([] ++ kb :: []) at 1 2. rewrite (free_extents [] [] kb).
  rewrite !app_nil_r. destruct pa; [congruence|reflexivity].
Qed.

(* the product shape on the two typical forms *)
Example dot_nd_rshape_examples :
  dot_nd_rshape [2; 3; 4] [4] = [2; 3] /\ dot_nd_rshape [2; 3; 4] [5; 4; 6] = [2; 3; 5; 6] /\
  dot_nd_rshape [7; 4] [2; 5; 4; 6] = [7; 2; 5; 6] /\ dot_nd_rshape [3; 1; 2] [2] = [3; 1].
Proof. vm_compute. repeat split. Qed.

(* ====================================================================================== *)
(*  5. non-vacuity: concrete stores inside the hypotheses                                  *)
(* ====================================================================================== *)
(* a history from the empty state inside the guards ends in related states *)
Lemma history_related ops : forallb zin_fragment3 ops = true -> zguards_ok3 (empty_store Z) ops ->
  exists ς, zrun_spec ops (empty_sstate Z) = Some (ς, snd (zrun_model ops (empty_store Z))) /\
            R (fst (zrun_model ops (empty_store Z))) ς /\ RM (fst (zrun_model ops (empty_store Z))).
Proof. intros Hf Hg. apply (zhistory_sim3 ops _ _ (R_empty Z 0) (RM_empty Z) Hf Hg). Qed.

Definition spec_state_of (ops : list zop) : sstate Z :=
  match zrun_spec ops (empty_sstate Z) with Some (ς, _) => ς | None => empty_sstate Z end.

Lemma history_related' ops : forallb zin_fragment3 ops = true -> zguards_ok3 (empty_store Z) ops ->
  R (fst (zrun_model ops (empty_store Z))) (spec_state_of ops) /\ RM (fst (zrun_model ops (empty_store Z))).
Proof.
  intros Hf Hg. destruct (history_related ops Hf Hg) as (ς & E & HR & HRM).
  unfold spec_state_of. rewrite E. split; assumption.
Qed.

Definition dotn_A24 : list Z := [1;2;3;4;5;6;7;8;9;10;11;12;13;14;15;16;17;18;19;20;21;22;23;24].

(* a = (2,3,4) holding 1..24, b = (4) holding 2..5, and a third tensor of six elements in shape (3,2) *)
Definition dotn_ops : list zop :=
  [ZBase (ONew Z 0 [2; 3; 4] dotn_A24); ZBase (ONew Z 0 [4] [2; 3; 4; 5]); ZBase (ONew Z 0 [3; 2] [9; 9; 9; 9; 9; 9])].
Definition dotn_σ : store Z := fst (zrun_model dotn_ops (empty_store Z)).
Definition dotn_ς : sstate Z := spec_state_of dotn_ops.

Lemma dotn_related : R dotn_σ dotn_ς /\ RM dotn_σ.
Proof. apply history_related'; vm_compute; repeat split. Qed.

(* safe mode: the hypotheses of zdot_nd_safe_refines hold and the outcome is the product *)
Example zdot_nd_safe_example :
  R dotn_σ dotn_ς /\ RM dotn_σ /\
  dot_nd_dispatch [2; 3; 4] [4] = true /\
  dot_nd_op dotn_σ 0 1 = Some (ZTensorMul 0 1 [2] [0] 0) /\
  zguard dotn_σ (ZTensorMul 0 1 [2] [0] 0) = GOk /\ zextra3 dotn_σ (ZTensorMul 0 1 [2] [0] 0) = true /\
  (let '(σ', r) := zdot_nd dotn_σ 0 1 None in
   r = RNew Z 3 /\ logical Z σ' 3 = map Ok [40; 96; 152; 208; 264; 320] /\
   option_map (fun d => shp (d_ap d)) (get_t σ' 3) = Some [2; 3]) /\
  match zdot_nd_spec dotn_ς 0 1 None with
  | Some (ς', r) => r = RNew Z 3 /\ obs_spec Z 0 ς' 3 = ([2; 3], [40; 96; 152; 208; 264; 320])
  | None => False
  end.
Proof.
  split; [apply dotn_related|]. split; [apply dotn_related|]. vm_compute. repeat split.
Qed.

(* WithReuse into the plain (3,2) tensor: the hypotheses of zdot_nd_reuse_refines hold; the reuse tensor
   then reads exactly the product in the product's shape, the operands are unchanged, nothing is left over *)
Example zdot_nd_reuse_example :
  R dotn_σ dotn_ς /\ RM dotn_σ /\
  dot_nd_op dotn_σ 0 1 = Some (ZTensorMul 0 1 [2] [0] 0) /\
  zguard dotn_σ (ZTensorMul 0 1 [2] [0] 0) = GOk /\ zextra3 dotn_σ (ZTensorMul 0 1 [2] [0] 0) = true /\
  dot_nd_size dotn_σ 0 1 = 6 /\
  dot_nd_reuse_plain dotn_σ 2 (dot_nd_size dotn_σ 0 1) = true /\ dot_nd_extra_reuse dotn_σ 0 1 2 = true /\
  (forall xr, sget dotn_ς 2 = Some xr -> s_cm xr = false) /\
  (let '(σ', r) := zdot_nd dotn_σ 0 1 (Some 2%nat) in
   r = RNew Z 2 /\ length (tens σ') = 3%nat /\
   option_map (fun d => shp (d_ap d)) (get_t σ' 2) = Some [2; 3] /\
   map (logical Z σ') [0; 1; 2]%nat
   = [map Ok dotn_A24; map Ok [2; 3; 4; 5]; map Ok [40; 96; 152; 208; 264; 320]]) /\
  match zdot_nd_spec dotn_ς 0 1 (Some 2%nat) with
  | Some (ς', r) =>
    r = RNew Z 2 /\
    map (obs_spec Z 0 ς') [0; 1; 2]%nat
    = [([2; 3; 4], dotn_A24); ([4], [2; 3; 4; 5]); ([2; 3], [40; 96; 152; 208; 264; 320])]
  | None => False
  end.
Proof.
  split; [apply dotn_related|]. split; [apply dotn_related|].
  split; [vm_compute; reflexivity|]. split; [vm_compute; reflexivity|]. split; [vm_compute; reflexivity|].
  split; [vm_compute; reflexivity|]. split; [vm_compute; reflexivity|]. split; [vm_compute; reflexivity|].
  split; [intros xr Hx; vm_compute in Hx; injection Hx as <-; reflexivity|].
  vm_compute. repeat split.
Qed.

(* WithIncr into a (2,3) tensor holding 100..600 *)
Definition dotn_ops_incr : list zop :=
  [ZBase (ONew Z 0 [2; 3; 4] dotn_A24); ZBase (ONew Z 0 [4] [2; 3; 4; 5]);
   ZBase (ONew Z 0 [2; 3] [100; 200; 300; 400; 500; 600])].
Definition dotn_σi : store Z := fst (zrun_model dotn_ops_incr (empty_store Z)).
Definition dotn_ςi : sstate Z := spec_state_of dotn_ops_incr.

Lemma dotn_related_incr : R dotn_σi dotn_ςi /\ RM dotn_σi.
Proof. apply history_related'; vm_compute; repeat split. Qed.

Example zdot_nd_incr_example :
  R dotn_σi dotn_ςi /\ RM dotn_σi /\
  dot_nd_op dotn_σi 0 1 = Some (ZTensorMul 0 1 [2] [0] 0) /\
  zguard dotn_σi (ZTensorMul 0 1 [2] [0] 0) = GOk /\ zextra3 dotn_σi (ZTensorMul 0 1 [2] [0] 0) = true /\
  (forall σ1 p, zdot_nd dotn_σi 0 1 None = (σ1, RNew Z p) ->
     zguard σ1 (ZBin 0 2 p MUnsafe true) = GOk /\ zextra_ok σ1 (ZBin 0 2 p MUnsafe true) = true) /\
  dot_nd_extra_incr dotn_σi 0 1 2 = true /\
  (let '(σ', r) := zdot_nd_full dotn_σi 0 1 None (Some 2%nat) in
   r = RNew Z 2 /\ length (tens σ') = 3%nat /\
   map (logical Z σ') [0; 1; 2]%nat
   = [map Ok dotn_A24; map Ok [2; 3; 4; 5]; map Ok [140; 296; 452; 608; 764; 920]]) /\
  match zdot_nd_spec_incr dotn_ςi 0 1 2 with
  | Some (ς', r) =>
    r = RNew Z 2 /\
    map (obs_spec Z 0 ς') [0; 1; 2]%nat
    = [([2; 3; 4], dotn_A24); ([4], [2; 3; 4; 5]); ([2; 3], [140; 296; 452; 608; 764; 920])]
  | None => False
  end.
Proof.
  split; [apply dotn_related_incr|]. split; [apply dotn_related_incr|].
  split; [vm_compute; reflexivity|]. split; [vm_compute; reflexivity|]. split; [vm_compute; reflexivity|].
  split.
  { intros σ1 p Hd.
    assert (E : snd (zdot_nd dotn_σi 0 1 None) = RNew Z 3) by (vm_compute; reflexivity).
    assert (E2 : snd (zdot_nd dotn_σi 0 1 None) = RNew Z p) by (rewrite Hd; reflexivity).
    assert (E1 : fst (zdot_nd dotn_σi 0 1 None) = σ1) by (rewrite Hd; reflexivity).
    rewrite E in E2. injection E2 as <-. rewrite <- E1. vm_compute. split; reflexivity. }
  split; [vm_compute; reflexivity|].
  vm_compute. repeat split.
Qed.

(* ====================================================================================== *)
(*  6. outside the side conditions: where MODEL and SPEC part                               *)
(* ====================================================================================== *)
(* F90: the reuse tensor is a strided view (every second cell of a 12-element tensor).  copyDense writes
   the product into the first six RAW cells of the view's window and setAP installs the product's access
   pattern: the reuse tensor itself then reads the product, but the tensor it is a view of holds the
   product in its first six cells, where the SPEC (the view's own cells receive the product) says every
   second cell.  Equal outcomes, different contents. *)
Definition dotn_ops_view : list zop :=
  [ZBase (ONew Z 0 [2; 3; 4] dotn_A24); ZBase (ONew Z 0 [4] [2; 3; 4; 5]);
   ZBase (ONew Z 0 [12] [0; 0; 0; 0; 0; 0; 0; 0; 0; 0; 0; 0]); ZBase (OSlice Z 2 [Some (0, 12, 2)] [6])].
Definition dotn_σv : store Z := fst (zrun_model dotn_ops_view (empty_store Z)).
Definition dotn_ςv : sstate Z := spec_state_of dotn_ops_view.

Lemma dotn_related_view : R dotn_σv dotn_ςv /\ RM dotn_σv.
Proof. apply history_related'; vm_compute; repeat split. Qed.

Theorem zdot_nd_reuse_strided_gap :
  R dotn_σv dotn_ςv /\ RM dotn_σv /\
  dot_nd_op dotn_σv 0 1 = Some (ZTensorMul 0 1 [2] [0] 0) /\
  zguard dotn_σv (ZTensorMul 0 1 [2] [0] 0) = GOk /\ zextra3 dotn_σv (ZTensorMul 0 1 [2] [0] 0) = true /\
  dot_nd_reuse_plain dotn_σv 3 (dot_nd_size dotn_σv 0 1) = false /\
  (let '(σ', r) := zdot_nd dotn_σv 0 1 (Some 3%nat) in
   r = RNew Z 3 /\
   logical Z σ' 3 = map Ok [40; 96; 152; 208; 264; 320] /\
   logical Z σ' 2 = map Ok [40; 96; 152; 208; 264; 320; 0; 0; 0; 0; 0; 0]) /\
  match zdot_nd_spec dotn_ςv 0 1 (Some 3%nat) with
  | Some (ς', r) =>
    r = RNew Z 3 /\
    obs_spec Z 0 ς' 3 = ([2; 3], [40; 96; 152; 208; 264; 320]) /\
    obs_spec Z 0 ς' 2 = ([12], [40; 0; 96; 0; 152; 0; 208; 0; 264; 0; 320; 0])
  | None => False
  end.
Proof.
  split; [apply dotn_related_view|]. split; [apply dotn_related_view|]. vm_compute. repeat split.
Qed.

(* the clause of dot_nd_extra_reuse on SOFT-equal shapes is a real gap: a = (3,1,2), b = (2), product (3,1),
   reuse tensor of shape (3): plain in the sense of dot_nd_reuse_plain; setAP gives it the shape (3,1), the
   SPEC's reuse rule lets a vector destination keep its own shape (3).  Equal outcomes and contents,
   different shapes. *)
Definition dotn_ops_soft : list zop :=
  [ZBase (ONew Z 0 [3; 1; 2] [1; 2; 3; 4; 5; 6]); ZBase (ONew Z 0 [2] [10; 1]); ZBase (ONew Z 0 [3] [0; 0; 0])].
Definition dotn_σs : store Z := fst (zrun_model dotn_ops_soft (empty_store Z)).
Definition dotn_ςs : sstate Z := spec_state_of dotn_ops_soft.

Lemma dotn_related_soft : R dotn_σs dotn_ςs /\ RM dotn_σs.
Proof. apply history_related'; vm_compute; repeat split. Qed.

Theorem zdot_nd_reuse_soft_shape_gap :
  R dotn_σs dotn_ςs /\ RM dotn_σs /\
  dot_nd_op dotn_σs 0 1 = Some (ZTensorMul 0 1 [2] [0] 0) /\
  zguard dotn_σs (ZTensorMul 0 1 [2] [0] 0) = GOk /\ zextra3 dotn_σs (ZTensorMul 0 1 [2] [0] 0) = true /\
  dot_nd_reuse_plain dotn_σs 2 (dot_nd_size dotn_σs 0 1) = true /\ dot_nd_extra_reuse dotn_σs 0 1 2 = false /\
  (let '(σ', r) := zdot_nd dotn_σs 0 1 (Some 2%nat) in
   r = RNew Z 2 /\ logical Z σ' 2 = map Ok [12; 34; 56] /\
   option_map (fun d => shp (d_ap d)) (get_t σ' 2) = Some [3; 1]) /\
  match zdot_nd_spec dotn_ςs 0 1 (Some 2%nat) with
  | Some (ς', r) => r = RNew Z 2 /\ obs_spec Z 0 ς' 2 = ([3], [12; 34; 56])
  | None => False
  end.
Proof.
  split; [apply dotn_related_soft|]. split; [apply dotn_related_soft|]. vm_compute. repeat split.
Qed.

(* dot_nd_extra_incr is a real gap: an increment tensor of the product's SIZE but of shape (3,2) instead of
   (2,3).  Both steps are inside their guards; Add refuses (an error, nothing changes) where the SPEC's incr
   rule adds the product into the increment tensor. *)
Theorem zdot_nd_incr_shape_gap :
  R dotn_σ dotn_ς /\ RM dotn_σ /\
  zguard dotn_σ (ZTensorMul 0 1 [2] [0] 0) = GOk /\ zextra3 dotn_σ (ZTensorMul 0 1 [2] [0] 0) = true /\
  (let σ1 := fst (zdot_nd dotn_σ 0 1 None) in
   snd (zdot_nd dotn_σ 0 1 None) = RNew Z 3 /\
   zguard σ1 (ZBin 0 2 3 MUnsafe true) = GOk /\ zextra_ok σ1 (ZBin 0 2 3 MUnsafe true) = true) /\
  dot_nd_extra_incr dotn_σ 0 1 2 = false /\
  (let '(σ', r) := zdot_nd_full dotn_σ 0 1 None (Some 2%nat) in
   r = RErr Z /\ logical Z σ' 2 = map Ok [9; 9; 9; 9; 9; 9]) /\
  match zdot_nd_spec_incr dotn_ς 0 1 2 with
  | Some (ς', r) => r = RNew Z 2 /\ obs_spec Z 0 ς' 2 = ([2; 3], [49; 105; 161; 217; 273; 329])
  | None => False
  end.
Proof.
  split; [apply dotn_related|]. split; [apply dotn_related|]. vm_compute. repeat split.
Qed.

(* ====================================================================================== *)
(*  the side conditions, unfolded (for PropC09c.v)                                         *)
(* ====================================================================================== *)
Lemma dot_nd_op_unfold σ ta tb :
  dot_nd_op σ ta tb =
  match get_t σ ta, get_t σ tb with
  | Some a, Some b =>
    Some (ZTensorMul ta tb [fst (dot_nd_axes (shp (d_ap a)) (shp (d_ap b)))]
                           [snd (dot_nd_axes (shp (d_ap a)) (shp (d_ap b)))] 0)
  | _, _ => None
  end.
Proof. unfold dot_nd_op. destruct (get_t σ ta), (get_t σ tb); reflexivity. Qed.

Lemma dot_nd_size_unfold σ ta tb :
  dot_nd_size σ ta tb =
  match get_t σ ta, get_t σ tb with
  | Some a, Some b => size (dot_nd_rshape (shp (d_ap a)) (shp (d_ap b)))
  | _, _ => 0
  end.
Proof. reflexivity. Qed.

Lemma dot_nd_extra_reuse_unfold σ ta tb r :
  dot_nd_extra_reuse σ ta tb r =
  match get_t σ ta, get_t σ tb, get_t σ r with
  | Some a, Some b, Some dr =>
    list_eqb (str (d_ap dr)) (calc_strides (shp (d_ap dr)))
    && (negb (shape_eq (shp (d_ap dr)) (dot_nd_rshape (shp (d_ap a)) (shp (d_ap b))))
        || list_eqb (shp (d_ap dr)) (dot_nd_rshape (shp (d_ap a)) (shp (d_ap b))))
  | _, _, _ => false
  end.
Proof. reflexivity. Qed.

Lemma dot_nd_extra_incr_unfold σ ta tb i :
  dot_nd_extra_incr σ ta tb i =
  match get_t σ ta, get_t σ tb, get_t σ i with
  | Some a, Some b, Some di => shape_eq (shp (d_ap di)) (dot_nd_rshape (shp (d_ap a)) (shp (d_ap b)))
  | _, _, _ => false
  end.
Proof. reflexivity. Qed.

(* ====================================================================================== *)
(*  7. WithReuse AND WithIncr: the product is delivered into the reuse tensor, which the     *)
(*     package-level Add (unsafe) then adds into the increment tensor                       *)
(* ====================================================================================== *)
(* composition of zdot_nd_reuse_refines with RefineProofs2.zstep_sim for the Add step.  Unlike
   zdot_nd_incr_refines no shape condition between the increment tensor and the product is needed:
   zdot_nd_spec_both runs the SPEC's own Add step, which refuses unequal shapes as the MODEL does
   (zdot_nd_both_shape_example) *)
Lemma zdot_nd_reuse_out σ ta tb rr σ1 p : zdot_nd σ ta tb (Some rr) = (σ1, RNew Z p) -> p = rr.
Proof.
  unfold zdot_nd. intro H.
  repeat match type of H with
  | (let '(_, _) := ?x in _) = _ => destruct x
  | (if ?x then _ else _) = _ => destruct x
  | match ?x with _ => _ end = _ => destruct x
  end; try discriminate H; injection H; congruence.
Qed.

Theorem zdot_nd_both_refines σ ς ta tb rr i o σ' out : R σ ς -> RM σ ->
  dot_nd_op σ ta tb = Some o -> zguard σ o = GOk -> zextra3 σ o = true ->
  dot_nd_reuse_plain σ rr (dot_nd_size σ ta tb) = true ->
  dot_nd_extra_reuse σ ta tb rr = true ->
  (forall xr, sget ς rr = Some xr -> s_cm xr = false) ->
  (forall σ1, zdot_nd σ ta tb (Some rr) = (σ1, RNew Z rr) ->
     zguard σ1 (ZBin 0 i rr MUnsafe true) = GOk /\ zextra_ok σ1 (ZBin 0 i rr MUnsafe true) = true) ->
  zdot_nd_full σ ta tb (Some rr) (Some i) = (σ', out) ->
  exists ς', zdot_nd_spec_both ς ta tb rr i = Some (ς', out) /\ R σ' ς' /\ RM σ'.
Proof.
  intros HR HRM Ho Hg He Hplain Hextra Hscm Hstep H.
  unfold zdot_nd_full in H.
  destruct (zdot_nd σ ta tb (Some rr)) as [σ1 r1] eqn:Ed.
  destruct (zdot_nd_reuse_refines σ ς ta tb rr o σ1 r1 HR HRM Ho Hg He Hplain Hextra Hscm Ed)
    as (ς1 & Es & HR1 & HRM1).
  unfold zdot_nd_spec in Es. unfold zdot_nd_spec_both. rewrite Es.
  destruct r1 as [| v | p | |]; try (injection H as <- <-; exists ς1; auto).
  pose proof (zdot_nd_reuse_out σ ta tb rr σ1 p Ed) as ->.
  destruct (Hstep σ1 eq_refl) as [Hg2 He2].
  destruct (zstep_model σ1 (ZBin 0 i rr MUnsafe true)) as [σ2 r2] eqn:E2.
  injection H as <- <-.
  apply (zstep_sim σ1 ς1 (ZBin 0 i rr MUnsafe true) σ2 r2 HR1 HRM1 eq_refl Hg2 He2 E2).
Qed.

(* WithReuse into a (2,3) tensor of zeros AND WithIncr into a (2,3) tensor holding 100..600 *)
Definition dotn_ops_both : list zop :=
  [ZBase (ONew Z 0 [2; 3; 4] dotn_A24); ZBase (ONew Z 0 [4] [2; 3; 4; 5]);
   ZBase (ONew Z 0 [2; 3] [0; 0; 0; 0; 0; 0]); ZBase (ONew Z 0 [2; 3] [100; 200; 300; 400; 500; 600])].
Definition dotn_σb : store Z := fst (zrun_model dotn_ops_both (empty_store Z)).
Definition dotn_ςb : sstate Z := spec_state_of dotn_ops_both.

Lemma dotn_related_both : R dotn_σb dotn_ςb /\ RM dotn_σb.
Proof. apply history_related'; vm_compute; repeat split. Qed.

Example zdot_nd_both_example :
  R dotn_σb dotn_ςb /\ RM dotn_σb /\
  dot_nd_op dotn_σb 0 1 = Some (ZTensorMul 0 1 [2] [0] 0) /\
  zguard dotn_σb (ZTensorMul 0 1 [2] [0] 0) = GOk /\ zextra3 dotn_σb (ZTensorMul 0 1 [2] [0] 0) = true /\
  dot_nd_size dotn_σb 0 1 = 6 /\
  dot_nd_reuse_plain dotn_σb 2 (dot_nd_size dotn_σb 0 1) = true /\ dot_nd_extra_reuse dotn_σb 0 1 2 = true /\
  (forall xr, sget dotn_ςb 2 = Some xr -> s_cm xr = false) /\
  (forall σ1, zdot_nd dotn_σb 0 1 (Some 2%nat) = (σ1, RNew Z 2) ->
     zguard σ1 (ZBin 0 3 2 MUnsafe true) = GOk /\ zextra_ok σ1 (ZBin 0 3 2 MUnsafe true) = true) /\
  (let '(σ', r) := zdot_nd_full dotn_σb 0 1 (Some 2%nat) (Some 3%nat) in
   r = RNew Z 3 /\ length (tens σ') = 4%nat /\
   option_map (fun d => shp (d_ap d)) (get_t σ' 2) = Some [2; 3] /\
   map (logical Z σ') [0; 1; 2; 3]%nat
   = [map Ok dotn_A24; map Ok [2; 3; 4; 5]; map Ok [40; 96; 152; 208; 264; 320];
      map Ok [140; 296; 452; 608; 764; 920]]) /\
  match zdot_nd_spec_both dotn_ςb 0 1 2 3 with
  | Some (ς', r) =>
    r = RNew Z 3 /\
    map (obs_spec Z 0 ς') [0; 1; 2; 3]%nat
    = [([2; 3; 4], dotn_A24); ([4], [2; 3; 4; 5]); ([2; 3], [40; 96; 152; 208; 264; 320]);
       ([2; 3], [140; 296; 452; 608; 764; 920])]
  | None => False
  end.
Proof.
  split; [apply dotn_related_both|]. split; [apply dotn_related_both|].
  split; [vm_compute; reflexivity|]. split; [vm_compute; reflexivity|]. split; [vm_compute; reflexivity|].
  split; [vm_compute; reflexivity|]. split; [vm_compute; reflexivity|]. split; [vm_compute; reflexivity|].
  split; [intros xr Hx; vm_compute in Hx; injection Hx as <-; reflexivity|].
  split.
  { intros σ1 Hd.
    assert (E1 : fst (zdot_nd dotn_σb 0 1 (Some 2%nat)) = σ1) by (rewrite Hd; reflexivity).
    rewrite <- E1. vm_compute. split; reflexivity. }
  vm_compute. repeat split.
Qed.

(* no dot_nd_extra_incr here: an increment tensor of shape (3,2) (dotn_σ's third tensor as increment tensor,
   a fourth (2,3) tensor as reuse tensor) is refused by the Add step on BOTH sides; the reuse tensor holds
   the product, the increment tensor is unchanged *)
Definition dotn_ops_both_sh : list zop :=
  [ZBase (ONew Z 0 [2; 3; 4] dotn_A24); ZBase (ONew Z 0 [4] [2; 3; 4; 5]);
   ZBase (ONew Z 0 [2; 3] [0; 0; 0; 0; 0; 0]); ZBase (ONew Z 0 [3; 2] [100; 200; 300; 400; 500; 600])].
Definition dotn_σbs : store Z := fst (zrun_model dotn_ops_both_sh (empty_store Z)).
Definition dotn_ςbs : sstate Z := spec_state_of dotn_ops_both_sh.

Lemma dotn_related_both_sh : R dotn_σbs dotn_ςbs /\ RM dotn_σbs.
Proof. apply history_related'; vm_compute; repeat split. Qed.

Example zdot_nd_both_shape_example :
  R dotn_σbs dotn_ςbs /\ RM dotn_σbs /\
  (let σ1 := fst (zdot_nd dotn_σbs 0 1 (Some 2%nat)) in
   snd (zdot_nd dotn_σbs 0 1 (Some 2%nat)) = RNew Z 2 /\
   zguard σ1 (ZBin 0 3 2 MUnsafe true) = GOk /\ zextra_ok σ1 (ZBin 0 3 2 MUnsafe true) = true) /\
  (let '(σ', r) := zdot_nd_full dotn_σbs 0 1 (Some 2%nat) (Some 3%nat) in
   r = RErr Z /\
   map (logical Z σ') [2; 3]%nat = [map Ok [40; 96; 152; 208; 264; 320]; map Ok [100; 200; 300; 400; 500; 600]]) /\
  match zdot_nd_spec_both dotn_ςbs 0 1 2 3 with
  | Some (ς', r) =>
    r = RErr Z /\
    map (obs_spec Z 0 ς') [2; 3]%nat
    = [([2; 3], [40; 96; 152; 208; 264; 320]); ([3; 2], [100; 200; 300; 400; 500; 600])]
  | None => False
  end.
Proof.
  split; [apply dotn_related_both_sh|]. split; [apply dotn_related_both_sh|]. vm_compute. repeat split.
Qed.
