(* C17Query.v — compiled only when an obligation of PropC17.v fails: names the kernels and
   dispatch rows that no longer satisfy each check, so that the search for a failing input can
   aim at the public operations that reach them. *)
From Coq Require Import String.
From TV Require Import Base Kernel KernelTable.

Definition bad_canonical := map k_name (filter (fun k => negb (canonicalb k || in_untemplated k || in_exceptions k)) kernels).
Definition bad_exceptions := map k_name (filter (fun k => negb (if in_exceptions k then deviantb k && negb (canonicalb k) else true)) kernels).
Definition bad_named := map k_name (filter (fun k => negb (well_namedb k)) kernels).
Definition bad_opaque := map k_name (filter (fun k => existsb stmt_has_opaque (k_body k)) kernels).
Definition bad_dispatch := map (fun d => (d_method d, d_tcase d, d_sel d, d_kernel d)) (filter (fun d => negb (dispatch_okb d)) dispatch).
Definition bad_dispatch_err := map (fun d => (d_method d, d_tcase d, d_sel d, d_kernel d)) (filter (fun d => negb (dispatch_err_okb kernels d)) dispatch).
Definition flags := (uniformb kernels, classes_consistentb kernels, templates_usedb kernels,
                     (2000 <? Z.of_nat (length kernels))%Z).
Eval vm_compute in ("FLAGS uniform,classes,templates_used,nonempty"%string, flags).
Eval vm_compute in ("BAD_CANONICAL"%string, bad_canonical).
Eval vm_compute in ("BAD_EXCEPTIONS"%string, bad_exceptions).
Eval vm_compute in ("BAD_NAMED"%string, bad_named).
Eval vm_compute in ("BAD_OPAQUE"%string, bad_opaque).
Eval vm_compute in ("BAD_DISPATCH"%string, bad_dispatch).
Eval vm_compute in ("BAD_DISPATCH_ERR"%string, bad_dispatch_err).
