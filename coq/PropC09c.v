(* PropC09c.v — C09 for the LAST branch of tensor.Dot (defaultengine_linalg.go): operands that are neither
   scalars nor a vector/matrix pair are contracted over a's last and b's second-to-last axis by
   TensorMul; WithReuse copies the product into the reuse tensor (copyDense + setAP), WithIncr adds it
   into the increment tensor (Add, unsafe).  MODEL: DotN.zdot_nd / zdot_nd_full; SPEC: DotN.zdot_nd_spec /
   zdot_nd_spec_incr.  For ALL stores, shapes, ranks and values: inside the guards of the steps the
   branch performs (RunZ.zguard, strengthened by RefineProofs3.zextra3 / RefineProofs2.zextra_ok) and the
   named side conditions below, the SPEC is defined, gives the SAME outcome, and the states stay related
   (R: same shapes and logical contents, tensor by tensor, aliasing included; RM: row-major).
   Final statements only; the proofs are in DotNProofs.v. *)
From Coq Require Import List ZArith Lia Bool.
From TV Require Import Base Index AP Iter Mem Spec Guards Run Ops Linalg RunZ DotN.
From TV Require Import MemProofs RefineProofs RefineProofs2 RefineProofs3 DotNProofs.
Import ListNotations.

(* ---- the step the branch performs, and the product shape ---- *)
(* the TensorMul step tensor.Dot asks for, as a function of the model state *)
Theorem C09c_dot_nd_op : forall (σ : store Z) (ta tb : nat),
  dot_nd_op σ ta tb =
  match get_t Z σ ta, get_t Z σ tb with
  | Some a, Some b =>
    Some (ZTensorMul ta tb [fst (dot_nd_axes (shp (d_ap a)) (shp (d_ap b)))]
                           [snd (dot_nd_axes (shp (d_ap a)) (shp (d_ap b)))] 0)
  | _, _ => None
  end.
Proof. exact dot_nd_op_unfold. Qed.
Print Assumptions C09c_dot_nd_op.

(* the product shape (DotNProofs.dot_nd_rshape = the shape the SPEC's contraction has) in closed form:
   a.shape[:-1] ++ b.shape without its second-to-last axis ... *)
Theorem C09c_dot_nd_rshape_nd : forall (pa : list Z) (ka : Z) (pb : list Z) (kb m : Z),
  dot_nd_rshape (pa ++ [ka]) (pb ++ [kb; m]) = pa ++ pb ++ [m].
Proof. exact dot_nd_rshape_nd. Qed.
Print Assumptions C09c_dot_nd_rshape_nd.

(* ... and a.shape[:-1] for a vector b *)
Theorem C09c_dot_nd_rshape_vec : forall (pa : list Z) (ka kb : Z),
  pa <> [] -> dot_nd_rshape (pa ++ [ka]) [kb] = pa.
Proof. exact dot_nd_rshape_vec. Qed.
Print Assumptions C09c_dot_nd_rshape_vec.

(* ---- (4) which pairs of shapes reach the branch: two non-scalars one of which has rank >= 3 ---- *)
Theorem C09c_dot_nd_dispatch_iff : forall sa sb : list Z,
  dot_nd_dispatch sa sb = true <->
  (1 <= length sa /\ 1 <= length sb /\ (3 <= length sa \/ 3 <= length sb))%nat.
Proof. exact dot_nd_dispatch_iff. Qed.
Print Assumptions C09c_dot_nd_dispatch_iff.

(* the Go switch, read literally *)
Theorem C09c_dot_nd_dispatch_switch : forall sa sb : list Z,
  dot_nd_dispatch sa sb =
  negb (is_scalar sa) && negb (is_scalar sb) &&
  negb ((is_vector sa || (length sa =? 2)%nat) && (is_vector sb || (length sb =? 2)%nat)).
Proof. exact dot_nd_dispatch_switch. Qed.
Print Assumptions C09c_dot_nd_dispatch_switch.

Theorem C09c_dot_nd_dispatch_rank3 : forall sa sb : list Z,
  ((3 <= length sa)%nat -> sb <> [] -> dot_nd_dispatch sa sb = true) /\
  (sa <> [] -> (3 <= length sb)%nat -> dot_nd_dispatch sa sb = true) /\
  ((length sa <= 2)%nat -> (length sb <= 2)%nat -> dot_nd_dispatch sa sb = false).
Proof.
  exact (fun sa sb => conj (dot_nd_dispatch_rank3_l sa sb)
                        (conj (dot_nd_dispatch_rank3_r sa sb) (dot_nd_dispatch_low_ranks sa sb))).
Qed.
Print Assumptions C09c_dot_nd_dispatch_rank3.

(* ---- (1) safe mode ---- *)
(* no side condition beyond the guards of the TensorMul step.  Extents that differ are refused with an
   error on both sides; otherwise the product is a fresh tensor *)
Theorem C09c_zdot_nd_safe_refines :
  forall (σ : store Z) (ς : sstate Z) (ta tb : nat) (o : zop) (σ' : store Z) (r : outcome Z),
  R Z 0 σ ς -> RM Z σ ->
  dot_nd_op σ ta tb = Some o -> zguard σ o = GOk -> zextra3 σ o = true ->
  zdot_nd σ ta tb None = (σ', r) ->
  exists ς', zdot_nd_spec ς ta tb None = Some (ς', r) /\ R Z 0 σ' ς' /\ RM Z σ'.
Proof. exact zdot_nd_safe_refines. Qed.
Print Assumptions C09c_zdot_nd_safe_refines.

(* inside those guards the branch never panics: the extents differ and tensor.Dot refuses (as TensorMul
   itself would), or TensorMul delivers a new tensor — the panic(err) arm is dead *)
Theorem C09c_zdot_nd_guarded_outcome :
  forall (σ : store Z) (ς : sstate Z) (ta tb : nat) (o : zop),
  R Z 0 σ ς -> RM Z σ ->
  dot_nd_op σ ta tb = Some o -> zguard σ o = GOk -> zextra3 σ o = true ->
  (zdot_nd σ ta tb None = (σ, RErr Z) /\ zstep_model σ o = (σ, RErr Z)) \/
  (exists σ1, zdot_nd σ ta tb None = (σ1, RNew Z (length (tens Z σ))) /\
              zstep_model σ o = (σ1, RNew Z (length (tens Z σ)))).
Proof. exact zdot_nd_guarded_outcome. Qed.
Print Assumptions C09c_zdot_nd_guarded_outcome.

(* ---- (2) WithReuse ---- *)
(* the number of elements of the product; the extra side condition *)
Theorem C09c_dot_nd_size : forall (σ : store Z) (ta tb : nat),
  dot_nd_size σ ta tb =
  match get_t Z σ ta, get_t Z σ tb with
  | Some a, Some b => size (dot_nd_rshape (shp (d_ap a)) (shp (d_ap b)))
  | _, _ => 0
  end.
Proof. exact dot_nd_size_unfold. Qed.
Print Assumptions C09c_dot_nd_size.

(* beyond dot_nd_reuse_plain: row-major strides (a restriction of the PROOF: R does not carry that a plain
   tensor is stored in row-major order), and a reuse tensor whose shape is SOFT-equal to the product's
   ((n) against (n,1) / (1,n)) has exactly the product's shape (a real GAP: C09c_zdot_nd_reuse_soft_shape_gap) *)
Theorem C09c_dot_nd_extra_reuse : forall (σ : store Z) (ta tb r : nat),
  dot_nd_extra_reuse σ ta tb r =
  match get_t Z σ ta, get_t Z σ tb, get_t Z σ r with
  | Some a, Some b, Some dr =>
    list_eqb (str (d_ap dr)) (calc_strides (shp (d_ap dr)))
    && (negb (shape_eq (shp (d_ap dr)) (dot_nd_rshape (shp (d_ap a)) (shp (d_ap b))))
        || list_eqb (shp (d_ap dr)) (dot_nd_rshape (shp (d_ap a)) (shp (d_ap b))))
  | _, _, _ => false
  end.
Proof. exact dot_nd_extra_reuse_unfold. Qed.
Print Assumptions C09c_dot_nd_extra_reuse.

(* a PLAIN reuse tensor of the product's size (any shape; it may even be one of the operands or share
   their storage): the reuse tensor then reads exactly the product, in the product's shape, and every
   other tensor's logical contents are what the SPEC says (R).  The hypothesis on s_cm is about the SPEC
   state only (R does not track the SPEC's column-major flag; RM does on the model side). *)
Theorem C09c_zdot_nd_reuse_refines :
  forall (σ : store Z) (ς : sstate Z) (ta tb rr : nat) (o : zop) (σ' : store Z) (r : outcome Z),
  R Z 0 σ ς -> RM Z σ ->
  dot_nd_op σ ta tb = Some o -> zguard σ o = GOk -> zextra3 σ o = true ->
  dot_nd_reuse_plain σ rr (dot_nd_size σ ta tb) = true ->
  dot_nd_extra_reuse σ ta tb rr = true ->
  (forall xr, sget Z ς rr = Some xr -> s_cm xr = false) ->
  zdot_nd σ ta tb (Some rr) = (σ', r) ->
  exists ς', zdot_nd_spec ς ta tb (Some rr) = Some (ς', r) /\ R Z 0 σ' ς' /\ RM Z σ'.
Proof. exact zdot_nd_reuse_refines. Qed.
Print Assumptions C09c_zdot_nd_reuse_refines.

(* ---- (3) WithIncr ---- *)
(* beyond the guards of the two steps: the increment tensor has the product's shape (a real GAP:
   C09c_zdot_nd_incr_shape_gap) *)
Theorem C09c_dot_nd_extra_incr : forall (σ : store Z) (ta tb i : nat),
  dot_nd_extra_incr σ ta tb i =
  match get_t Z σ ta, get_t Z σ tb, get_t Z σ i with
  | Some a, Some b, Some di => shape_eq (shp (d_ap di)) (dot_nd_rshape (shp (d_ap a)) (shp (d_ap b)))
  | _, _, _ => false
  end.
Proof. exact dot_nd_extra_incr_unfold. Qed.
Print Assumptions C09c_dot_nd_extra_incr.

Theorem C09c_zdot_nd_incr_refines :
  forall (σ : store Z) (ς : sstate Z) (ta tb i : nat) (o : zop) (σ' : store Z) (r : outcome Z),
  R Z 0 σ ς -> RM Z σ ->
  dot_nd_op σ ta tb = Some o -> zguard σ o = GOk -> zextra3 σ o = true ->
  (forall σ1 p, zdot_nd σ ta tb None = (σ1, RNew Z p) ->
     zguard σ1 (ZBin 0 i p MUnsafe true) = GOk /\ zextra_ok σ1 (ZBin 0 i p MUnsafe true) = true) ->
  dot_nd_extra_incr σ ta tb i = true ->
  zdot_nd_full σ ta tb None (Some i) = (σ', r) ->
  exists ς', zdot_nd_spec_incr ς ta tb i = Some (ς', r) /\ R Z 0 σ' ς' /\ RM Z σ'.
Proof. exact zdot_nd_incr_refines. Qed.
Print Assumptions C09c_zdot_nd_incr_refines.

(* ---- (5) non-vacuity: concrete stores inside the hypotheses ---- *)
Example C09c_dot_nd_rshape_examples :
  dot_nd_rshape [2; 3; 4] [4] = [2; 3] /\ dot_nd_rshape [2; 3; 4] [5; 4; 6] = [2; 3; 5; 6] /\
  dot_nd_rshape [7; 4] [2; 5; 4; 6] = [7; 2; 5; 6] /\ dot_nd_rshape [3; 1; 2] [2] = [3; 1].
Proof. exact dot_nd_rshape_examples. Qed.
Print Assumptions C09c_dot_nd_rshape_examples.

(* dotn_σ / dotn_ς: the MODEL / SPEC states after New (2,3,4) holding 1..24, New (4) holding 2..5 and
   New (3,2) holding nines *)
Example C09c_zdot_nd_safe_example :
  R Z 0 dotn_σ dotn_ς /\ RM Z dotn_σ /\
  dot_nd_dispatch [2; 3; 4] [4] = true /\
  dot_nd_op dotn_σ 0 1 = Some (ZTensorMul 0 1 [2] [0] 0) /\
  zguard dotn_σ (ZTensorMul 0 1 [2] [0] 0) = GOk /\ zextra3 dotn_σ (ZTensorMul 0 1 [2] [0] 0) = true /\
  (let '(σ', r) := zdot_nd dotn_σ 0 1 None in
   r = RNew Z 3 /\ logical Z σ' 3 = map Ok [40; 96; 152; 208; 264; 320] /\
   option_map (fun d => shp (d_ap d)) (get_t Z σ' 3) = Some [2; 3]) /\
  match zdot_nd_spec dotn_ς 0 1 None with
  | Some (ς', r) => r = RNew Z 3 /\ obs_spec Z 0 ς' 3 = ([2; 3], [40; 96; 152; 208; 264; 320])
  | None => False
  end.
Proof. exact zdot_nd_safe_example. Qed.
Print Assumptions C09c_zdot_nd_safe_example.

(* WithReuse into the plain (3,2) tensor: it then reads the product in the shape (2,3); the operands are
   unchanged; the product's own struct is gone *)
Example C09c_zdot_nd_reuse_example :
  R Z 0 dotn_σ dotn_ς /\ RM Z dotn_σ /\
  dot_nd_op dotn_σ 0 1 = Some (ZTensorMul 0 1 [2] [0] 0) /\
  zguard dotn_σ (ZTensorMul 0 1 [2] [0] 0) = GOk /\ zextra3 dotn_σ (ZTensorMul 0 1 [2] [0] 0) = true /\
  dot_nd_size dotn_σ 0 1 = 6 /\
  dot_nd_reuse_plain dotn_σ 2 (dot_nd_size dotn_σ 0 1) = true /\ dot_nd_extra_reuse dotn_σ 0 1 2 = true /\
  (forall xr, sget Z dotn_ς 2 = Some xr -> s_cm xr = false) /\
  (let '(σ', r) := zdot_nd dotn_σ 0 1 (Some 2%nat) in
   r = RNew Z 2 /\ length (tens Z σ') = 3%nat /\
   option_map (fun d => shp (d_ap d)) (get_t Z σ' 2) = Some [2; 3] /\
   map (logical Z σ') [0; 1; 2]%nat
   = [map Ok dotn_A24; map Ok [2; 3; 4; 5]; map Ok [40; 96; 152; 208; 264; 320]]) /\
  match zdot_nd_spec dotn_ς 0 1 (Some 2%nat) with
  | Some (ς', r) =>
    r = RNew Z 2 /\
    map (obs_spec Z 0 ς') [0; 1; 2]%nat
    = [([2; 3; 4], dotn_A24); ([4], [2; 3; 4; 5]); ([2; 3], [40; 96; 152; 208; 264; 320])]
  | None => False
  end.
Proof. exact zdot_nd_reuse_example. Qed.
Print Assumptions C09c_zdot_nd_reuse_example.

(* WithIncr into a (2,3) tensor holding 100..600 (dotn_σi / dotn_ςi) *)
Example C09c_zdot_nd_incr_example :
  R Z 0 dotn_σi dotn_ςi /\ RM Z dotn_σi /\
  dot_nd_op dotn_σi 0 1 = Some (ZTensorMul 0 1 [2] [0] 0) /\
  zguard dotn_σi (ZTensorMul 0 1 [2] [0] 0) = GOk /\ zextra3 dotn_σi (ZTensorMul 0 1 [2] [0] 0) = true /\
  (forall σ1 p, zdot_nd dotn_σi 0 1 None = (σ1, RNew Z p) ->
     zguard σ1 (ZBin 0 2 p MUnsafe true) = GOk /\ zextra_ok σ1 (ZBin 0 2 p MUnsafe true) = true) /\
  dot_nd_extra_incr dotn_σi 0 1 2 = true /\
  (let '(σ', r) := zdot_nd_full dotn_σi 0 1 None (Some 2%nat) in
   r = RNew Z 2 /\ length (tens Z σ') = 3%nat /\
   map (logical Z σ') [0; 1; 2]%nat
   = [map Ok dotn_A24; map Ok [2; 3; 4; 5]; map Ok [140; 296; 452; 608; 764; 920]]) /\
  match zdot_nd_spec_incr dotn_ςi 0 1 2 with
  | Some (ς', r) =>
    r = RNew Z 2 /\
    map (obs_spec Z 0 ς') [0; 1; 2]%nat
    = [([2; 3; 4], dotn_A24); ([4], [2; 3; 4; 5]); ([2; 3], [140; 296; 452; 608; 764; 920])]
  | None => False
  end.
Proof. exact zdot_nd_incr_example. Qed.
Print Assumptions C09c_zdot_nd_incr_example.

(* ---- (6) outside the side conditions: where MODEL and SPEC part ---- *)
(* F90 (dotn_σv / dotn_ςv: a, b as above, a 12-element tensor of zeros and the view [0:12:2] of it as
   reuse tensor): copyDense writes the product into the first six RAW cells of the view's window, then
   setAP installs the product's access pattern.  The reuse tensor reads the product on both sides; the
   tensor it is a view of holds the product in its first six cells, the SPEC says every second cell.
   Equal outcomes, different contents. *)
Theorem C09c_zdot_nd_reuse_strided_gap :
  R Z 0 dotn_σv dotn_ςv /\ RM Z dotn_σv /\
  dot_nd_op dotn_σv 0 1 = Some (ZTensorMul 0 1 [2] [0] 0) /\
  zguard dotn_σv (ZTensorMul 0 1 [2] [0] 0) = GOk /\ zextra3 dotn_σv (ZTensorMul 0 1 [2] [0] 0) = true /\
  dot_nd_reuse_plain dotn_σv 3 (dot_nd_size dotn_σv 0 1) = false /\
  (let '(σ', r) := zdot_nd dotn_σv 0 1 (Some 3%nat) in
   r = RNew Z 3 /\
   logical Z σ' 3 = map Ok [40; 96; 152; 208; 264; 320] /\
   logical Z σ' 2 = map Ok [40; 96; 152; 208; 264; 320; 0; 0; 0; 0; 0; 0]) /\
  match zdot_nd_spec dotn_ςv 0 1 (Some 3%nat) with
  | Some (ς', r) =>
    r = RNew Z 3 /\
    obs_spec Z 0 ς' 3 = ([2; 3], [40; 96; 152; 208; 264; 320]) /\
    obs_spec Z 0 ς' 2 = ([12], [40; 0; 96; 0; 152; 0; 208; 0; 264; 0; 320; 0])
  | None => False
  end.
Proof. exact zdot_nd_reuse_strided_gap. Qed.
Print Assumptions C09c_zdot_nd_reuse_strided_gap.

(* the soft-shape clause of dot_nd_extra_reuse is a real gap (dotn_σs / dotn_ςs: a = (3,1,2), b = (2),
   product (3,1), reuse tensor of shape (3)): setAP gives the reuse tensor the shape (3,1), the SPEC's
   reuse rule lets a vector destination keep its own shape (3) *)
Theorem C09c_zdot_nd_reuse_soft_shape_gap :
  R Z 0 dotn_σs dotn_ςs /\ RM Z dotn_σs /\
  dot_nd_op dotn_σs 0 1 = Some (ZTensorMul 0 1 [2] [0] 0) /\
  zguard dotn_σs (ZTensorMul 0 1 [2] [0] 0) = GOk /\ zextra3 dotn_σs (ZTensorMul 0 1 [2] [0] 0) = true /\
  dot_nd_reuse_plain dotn_σs 2 (dot_nd_size dotn_σs 0 1) = true /\ dot_nd_extra_reuse dotn_σs 0 1 2 = false /\
  (let '(σ', r) := zdot_nd dotn_σs 0 1 (Some 2%nat) in
   r = RNew Z 2 /\ logical Z σ' 2 = map Ok [12; 34; 56] /\
   option_map (fun d => shp (d_ap d)) (get_t Z σ' 2) = Some [3; 1]) /\
  match zdot_nd_spec dotn_ςs 0 1 (Some 2%nat) with
  | Some (ς', r) => r = RNew Z 2 /\ obs_spec Z 0 ς' 2 = ([3], [12; 34; 56])
  | None => False
  end.
Proof. exact zdot_nd_reuse_soft_shape_gap. Qed.
Print Assumptions C09c_zdot_nd_reuse_soft_shape_gap.

(* dot_nd_extra_incr is a real gap (dotn_σ: the increment tensor has the product's SIZE but the shape
   (3,2) instead of (2,3)): both steps are inside their guards; Add refuses with an error and nothing
   changes, where the SPEC's incr rule adds the product into the increment tensor *)
Theorem C09c_zdot_nd_incr_shape_gap :
  R Z 0 dotn_σ dotn_ς /\ RM Z dotn_σ /\
  zguard dotn_σ (ZTensorMul 0 1 [2] [0] 0) = GOk /\ zextra3 dotn_σ (ZTensorMul 0 1 [2] [0] 0) = true /\
  (let σ1 := fst (zdot_nd dotn_σ 0 1 None) in
   snd (zdot_nd dotn_σ 0 1 None) = RNew Z 3 /\
   zguard σ1 (ZBin 0 2 3 MUnsafe true) = GOk /\ zextra_ok σ1 (ZBin 0 2 3 MUnsafe true) = true) /\
  dot_nd_extra_incr dotn_σ 0 1 2 = false /\
  (let '(σ', r) := zdot_nd_full dotn_σ 0 1 None (Some 2%nat) in
   r = RErr Z /\ logical Z σ' 2 = map Ok [9; 9; 9; 9; 9; 9]) /\
  match zdot_nd_spec_incr dotn_ς 0 1 2 with
  | Some (ς', r) => r = RNew Z 2 /\ obs_spec Z 0 ς' 2 = ([2; 3], [49; 105; 161; 217; 273; 329])
  | None => False
  end.
Proof. exact zdot_nd_incr_shape_gap. Qed.
Print Assumptions C09c_zdot_nd_incr_shape_gap.

(* ---- (7) WithReuse AND WithIncr together ---- *)
(* MODEL: DotN.zdot_nd_full σ ta tb (Some rr) (Some i); SPEC: DotN.zdot_nd_spec_both (the product is delivered
   into the reuse tensor, then the SPEC's own unsafe Add step adds the reuse tensor into the increment
   tensor, which is returned).  Hypotheses: those of C09c_zdot_nd_reuse_refines, and the guard / zextra_ok
   of the Add step in the store the reuse part returns.  NO shape condition between the increment tensor
   and the product (no dot_nd_extra_incr): the SPEC here is an Add step, which refuses unequal shapes
   as the MODEL's Add does (C09c_zdot_nd_both_shape_example) *)
Theorem C09c_zdot_nd_both_refines :
  forall (σ : store Z) (ς : sstate Z) (ta tb rr i : nat) (o : zop) (σ' : store Z) (out : outcome Z),
  R Z 0 σ ς -> RM Z σ ->
  dot_nd_op σ ta tb = Some o -> zguard σ o = GOk -> zextra3 σ o = true ->
  dot_nd_reuse_plain σ rr (dot_nd_size σ ta tb) = true ->
  dot_nd_extra_reuse σ ta tb rr = true ->
  (forall xr, sget Z ς rr = Some xr -> s_cm xr = false) ->
  (forall σ1, zdot_nd σ ta tb (Some rr) = (σ1, RNew Z rr) ->
     zguard σ1 (ZBin 0 i rr MUnsafe true) = GOk /\ zextra_ok σ1 (ZBin 0 i rr MUnsafe true) = true) ->
  zdot_nd_full σ ta tb (Some rr) (Some i) = (σ', out) ->
  exists ς', zdot_nd_spec_both ς ta tb rr i = Some (ς', out) /\ R Z 0 σ' ς' /\ RM Z σ'.
Proof. exact zdot_nd_both_refines. Qed.
Print Assumptions C09c_zdot_nd_both_refines.

(* the only tensor a successful reuse part returns is the reuse tensor itself (so the Add step of
   zdot_nd_full is the step ZBin 0 i rr MUnsafe true of the hypothesis above) *)
Theorem C09c_zdot_nd_reuse_out : forall (σ : store Z) (ta tb rr : nat) (σ1 : store Z) (p : nat),
  zdot_nd σ ta tb (Some rr) = (σ1, RNew Z p) -> p = rr.
Proof. exact zdot_nd_reuse_out. Qed.
Print Assumptions C09c_zdot_nd_reuse_out.

(* non-vacuity (dotn_σb / dotn_ςb: a, b as above, a (2,3) tensor of zeros as reuse tensor, a (2,3) tensor
   holding 100..600 as increment tensor): the reuse tensor ends as the product, the increment tensor as
   100..600 plus the product, and is returned; nothing is left over *)
Example C09c_zdot_nd_both_example :
  R Z 0 dotn_σb dotn_ςb /\ RM Z dotn_σb /\
  dot_nd_op dotn_σb 0 1 = Some (ZTensorMul 0 1 [2] [0] 0) /\
  zguard dotn_σb (ZTensorMul 0 1 [2] [0] 0) = GOk /\ zextra3 dotn_σb (ZTensorMul 0 1 [2] [0] 0) = true /\
  dot_nd_size dotn_σb 0 1 = 6 /\
  dot_nd_reuse_plain dotn_σb 2 (dot_nd_size dotn_σb 0 1) = true /\ dot_nd_extra_reuse dotn_σb 0 1 2 = true /\
  (forall xr, sget Z dotn_ςb 2 = Some xr -> s_cm xr = false) /\
  (forall σ1, zdot_nd dotn_σb 0 1 (Some 2%nat) = (σ1, RNew Z 2) ->
     zguard σ1 (ZBin 0 3 2 MUnsafe true) = GOk /\ zextra_ok σ1 (ZBin 0 3 2 MUnsafe true) = true) /\
  (let '(σ', r) := zdot_nd_full dotn_σb 0 1 (Some 2%nat) (Some 3%nat) in
   r = RNew Z 3 /\ length (tens Z σ') = 4%nat /\
   option_map (fun d => shp (d_ap d)) (get_t Z σ' 2) = Some [2; 3] /\
   map (logical Z σ') [0; 1; 2; 3]%nat
   = [map Ok dotn_A24; map Ok [2; 3; 4; 5]; map Ok [40; 96; 152; 208; 264; 320];
      map Ok [140; 296; 452; 608; 764; 920]]) /\
  match zdot_nd_spec_both dotn_ςb 0 1 2 3 with
  | Some (ς', r) =>
    r = RNew Z 3 /\
    map (obs_spec Z 0 ς') [0; 1; 2; 3]%nat
    = [([2; 3; 4], dotn_A24); ([4], [2; 3; 4; 5]); ([2; 3], [40; 96; 152; 208; 264; 320]);
       ([2; 3], [140; 296; 452; 608; 764; 920])]
  | None => False
  end.
Proof. exact zdot_nd_both_example. Qed.
Print Assumptions C09c_zdot_nd_both_example.

(* why no shape condition is needed (dotn_σbs / dotn_ςbs: the increment tensor has the shape (3,2)): the Add
   step is inside its guards and is refused with an error on BOTH sides; the reuse tensor holds the product,
   the increment tensor is unchanged *)
Example C09c_zdot_nd_both_shape_example :
  R Z 0 dotn_σbs dotn_ςbs /\ RM Z dotn_σbs /\
  (let σ1 := fst (zdot_nd dotn_σbs 0 1 (Some 2%nat)) in
   snd (zdot_nd dotn_σbs 0 1 (Some 2%nat)) = RNew Z 2 /\
   zguard σ1 (ZBin 0 3 2 MUnsafe true) = GOk /\ zextra_ok σ1 (ZBin 0 3 2 MUnsafe true) = true) /\
  (let '(σ', r) := zdot_nd_full dotn_σbs 0 1 (Some 2%nat) (Some 3%nat) in
   r = RErr Z /\
   map (logical Z σ') [2; 3]%nat = [map Ok [40; 96; 152; 208; 264; 320]; map Ok [100; 200; 300; 400; 500; 600]]) /\
  match zdot_nd_spec_both dotn_ςbs 0 1 2 3 with
  | Some (ς', r) =>
    r = RErr Z /\
    map (obs_spec Z 0 ς') [2; 3]%nat
    = [([2; 3], [40; 96; 152; 208; 264; 320]); ([3; 2], [100; 200; 300; 400; 500; 600])]
  | None => False
  end.
Proof. exact zdot_nd_both_shape_example. Qed.
Print Assumptions C09c_zdot_nd_both_shape_example.
