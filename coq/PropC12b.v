(* PropC12b.v — C12, mapped functions through Dense.Apply (= StdEng.Map), V := Z.
   Only statements; every proof is `exact <lemma of RunZProofs>`.
   MODEL: RunZ.zstep_model, case ZApply code a m (f = zun code).
   proved: safe mode (plain and materialisable operands), unsafe mode;
   refuted: reuse / incr destinations (the function is applied to the destination's contents). *)
From TV Require Import Base Index AP Iter Mem Spec Guards Run Ops Reduce Shapeops Linalg RunZ
     IndexProofs IterProofs APProofs MemProofs OpsProofs LinalgProofs ReduceProofs RunZProofs.

(* Dense.Apply(f) in SAFE mode (StdEng.Map: Materialize() of a view / lazily transposed operand, Clone() of
   a plain one, then f in place on the copy): a FRESH tensor — new index |tens σ|, new allocation — of the
   operand's shape with f(a[c]) at every coordinate; the tensor table only grows by the result, every old
   allocation is unchanged (so a is).  apply_operand σ da =
     plain (not materialisable) and OpsProofs.wf_dense, or
     materialisable and MemProofs.wf_dense with sound contiguity flag and more than one element.
   (cell = the logical element through the tensor's own strides.) *)
Theorem C12_zapply_safe_pointwise :
  forall (σ : store Z) (code : Z) (a : nat) (da : dense),
  get_t Z σ a = Some da ->
  apply_operand σ da ->
  exists (σ' : store Z) (d' : dense),
    zstep_model σ (ZApply code a MSafe) = (σ', RNew Z (length (tens Z σ))) /\
    tens Z σ' = tens Z σ ++ [d'] /\
    shp (d_ap d') = shp (d_ap da) /\
    d_buf d' = length (bufs Z σ) /\
    (forall (c : list Z) (x : Z),
     inbox (shp (d_ap da)) c -> cell Z σ da c = Some x -> cell Z σ' d' c = Some (zun code x)) /\
    (forall k : nat, (k < length (bufs Z σ))%nat -> get_buf Z σ' k = get_buf Z σ k).
Proof. exact zapply_safe_pointwise. Qed.
Print Assumptions C12_zapply_safe_pointwise.

(* UNSAFE mode: in place.  Exactly a's logical cells are replaced by their image; the tensor table, every
   other allocation, every window that does not overlap a's, the non-logical cells of a's window and the
   rest of a's allocation are unchanged *)
Theorem C12_zapply_unsafe :
  forall (σ : store Z) (code : Z) (a : nat) (da : dense),
  get_t Z σ a = Some da ->
  wf_dense Z σ da ->
  exists σ' : store Z,
    zstep_model σ (ZApply code a MUnsafe) = (σ', RNew Z a) /\
    tens Z σ' = tens Z σ /\
    length (bufs Z σ') = length (bufs Z σ) /\
    (forall (c : list Z) (x : Z),
     inbox (shp (d_ap da)) c -> cell Z σ da c = Some x -> cell Z σ' da c = Some (zun code x)) /\
    (forall k : nat, k <> d_buf da -> get_buf Z σ' k = get_buf Z σ k) /\
    (forall (E : dense) (i : Z), sep da E -> win_get Z σ' E i = win_get Z σ E i) /\
    (forall i : Z,
     (forall c : list Z, inbox (shp (d_ap da)) c -> i <> dot (str (d_ap da)) c) ->
     win_get Z σ' da i = win_get Z σ da i) /\
    (forall p : Z,
     ~ d_off da <= p < d_off da + d_len da -> peek Z σ' (d_buf da) p = peek Z σ (d_buf da) p).
Proof. exact zapply_unsafe. Qed.
Print Assumptions C12_zapply_unsafe.

(* REFUTED for reuse / incr destinations: Map applies the function to the DESTINATION's own old contents and
   never reads the operand.  σ_apply: tensor 0 = [[1 2][3 4]], tensor 1 = [[10 20][30 40]].
   Apply(neg, WithReuse(1)) leaves -10 -20 -30 -40 in tensor 1 (the property demands -1 -2 -3 -4);
   Apply(square, WithIncr(1)) leaves 10+10^2, 20+20^2, ... (the property demands 10+1, 20+4, 30+9, 40+16) *)
Example C12_zapply_reuse_reads_destination_refuted :
  logical Z σ_apply 0 = [Ok 1; Ok 2; Ok 3; Ok 4] /\
  snd (zstep_model σ_apply (ZApply 0 0 (MReuse 1))) = RNew Z 1 /\
  logical Z (fst (zstep_model σ_apply (ZApply 0 0 (MReuse 1)))) 1 =
  [Ok (-10); Ok (-20); Ok (-30); Ok (-40)] /\
  logical Z (fst (zstep_model σ_apply (ZApply 0 0 (MReuse 1)))) 0 = [Ok 1; Ok 2; Ok 3; Ok 4] /\
  snd (zstep_model σ_apply (ZApply 1 0 (MIncr 1))) = RNew Z 1 /\
  logical Z (fst (zstep_model σ_apply (ZApply 1 0 (MIncr 1)))) 1 = [Ok 110; Ok 420; Ok 930; Ok 1640].
Proof. exact zapply_reuse_reads_destination_refuted. Qed.
Print Assumptions C12_zapply_reuse_reads_destination_refuted.

(* ====================================================================================== *)
(* NON-VACUITY: apply_operand holds for a plain tensor and for a lazily transposed one, and the model
   gives the expected numbers.  (1) square of [[1 2][3 4]] (tensor 0 of σ_apply);
   (2) square of T() of the 2x3 matrix 1..6, i.e. of [[1 4][2 5][3 6]] read through the pending
   transpose: the fresh result holds 1 16 4 25 9 36, the operand still reads 1 4 2 5 3 6 *)
(* ====================================================================================== *)
Example C12b_apply_example :
  (let σ := σ_apply in
   let r := zstep_model σ (ZApply 1 0 MSafe) in
   (exists da, get_t Z σ 0 = Some da /\ is_materializable da = false /\ apply_operand σ da) /\
   snd r = RNew Z 2 /\
   logical Z (fst r) 2 = [Ok 1; Ok 4; Ok 9; Ok 16] /\
   logical Z (fst r) 0 = [Ok 1; Ok 2; Ok 3; Ok 4] /\ firstn 2 (bufs Z (fst r)) = bufs Z σ) /\
  (let σ := Neg.st1 (m_T Z (Neg.st2 (new_raw Z Neg.e0 false [2; 3] [1; 2; 3; 4; 5; 6])) 0 []) in
   let r := zstep_model σ (ZApply 1 0 MSafe) in
   (exists da, get_t Z σ 0 = Some da /\ is_materializable da = true /\ apply_operand σ da) /\
   logical Z σ 0 = [Ok 1; Ok 4; Ok 2; Ok 5; Ok 3; Ok 6] /\
   snd r = RNew Z 1 /\
   logical Z (fst r) 1 = [Ok 1; Ok 16; Ok 4; Ok 25; Ok 9; Ok 36] /\
   logical Z (fst r) 0 = [Ok 1; Ok 4; Ok 2; Ok 5; Ok 3; Ok 6] /\ firstn 1 (bufs Z (fst r)) = bufs Z σ).
Proof.
  split.
  - split; [|vm_compute; repeat split].
    eexists. split; [reflexivity|]. split; [reflexivity|]. left. split; [reflexivity|].
    apply OpsProofs.wf_denseb_sound. vm_compute. reflexivity.
  - split; [|vm_compute; repeat split].
    eexists. split; [reflexivity|]. split; [reflexivity|]. right. split; [reflexivity|].
    split; [apply MemProofs.wf_denseb_sound; vm_compute; reflexivity|].
    split; [intro H; vm_compute in H; discriminate|vm_compute; reflexivity].
Qed.
Print Assumptions C12b_apply_example.
