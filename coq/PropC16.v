(* PropC16.v — C16 "Column-major tensors are the same arrays as their row-major counterparts".
   The theorems of C01-C05 are stated for arbitrary strides and for both data orders; the
   statements below are their column-major instances, plus refutation witnesses (computed on the
   MODEL, which the correspondence ties to /repo) for the operations that DO return a different
   arrangement today. *)
From TV Require Import Base Index AP Iter Mem Spec Guards Run Ops Reduce Shapeops Linalg RunZ
     IndexProofs IterProofs APProofs.

(* element access over column-major default strides reads the element of column-major rank *)
Theorem C16_addressing : forall (V : Type) (data : list V) s c,
  pos_shape s -> inbox s c -> zlen data = size s ->
  exists v, nth_error data (Z.to_nat (rank_cm s c)) = Some v /\
            window_at data s (calc_strides_cm s) c = Ok v.
Proof. exact @window_at_colmajor. Qed.
Print Assumptions C16_addressing.

(* iteration is in LOGICAL (row-major coordinate) order whatever the strides are: in particular
   over column-major strides *)
Theorem C16_iteration_is_logical : forall s,
  pos_shape s -> length (calc_strides_cm s) = length s ->
  iter_all (mkAP s (calc_strides_cm s) CM true)
  = Some (map (fun c => dot (calc_strides_cm s) c) (coords s)).
Proof. intros s Hp Hl. apply (iter_all_spec (mkAP s (calc_strides_cm s) CM true)); assumption. Qed.
Print Assumptions C16_iteration_is_logical.

(* the stride list of a column-major tensor has one entry per axis exactly when the shape is not
   vector-shaped / all-ones: the guard of every slicing / transposition / iteration theorem *)
Theorem C16_colmajor_strides_fit : forall s,
  is_scalar_equiv s = false -> is_vector s = false -> length (calc_strides_cm s) = length s.
Proof.
  intros s H1 H2. unfold calc_strides_cm. rewrite H1, H2. apply cm_aux_length.
Qed.
Print Assumptions C16_colmajor_strides_fit.

(* --- refutation witnesses: MODEL (= the code, by correspondence) against SPEC --- *)
Definition run_both (ops : list zop) : list (res Z) * list Z :=
  let σ := fold_left (fun σ o => fst (zstep_model σ o)) ops (empty_store Z) in
  let ς := fold_left (fun ς o => match ς with
                                 | Some x => match zstep_spec x o with Some (x', _) => Some x' | None => None end
                                 | None => None end) ops (Some (empty_sstate Z)) in
  let last := (length (tens Z σ) - 1)%nat in
  (logical Z σ last,
   match ς with Some x => snd (obs_spec Z 0 x last) | None => [] end).

(* F8: a comparison of two column-major operands returns the result permuted *)
Theorem C16_cmp_colmajor_refuted :
  let ops := [ZBase (ONew Z 1 [2; 3] [1; 2; 3; 4; 5; 6]); ZBase (ONew Z 1 [2; 3] [6; 5; 4; 3; 2; 1]);
              ZCmp 0 0 1 false CSafe true] in
  fst (run_both ops) = map (@Ok Z) [0; 0; 0; 1; 1; 1] /\ snd (run_both ops) = [0; 0; 1; 0; 1; 1].
Proof. vm_compute. split; reflexivity. Qed.
Print Assumptions C16_cmp_colmajor_refuted.

(* F37: physical transposition of a column-major tensor changes its logical contents *)
Theorem C16_transpose_colmajor_refuted :
  let ops := [ZBase (ONew Z 1 [2; 3] [0; 1; 2; 3; 4; 5]); ZBase (OT Z 0 []); ZBase (OTranspose Z 0)] in
  fst (run_both ops) <> map (@Ok Z) (snd (run_both ops)).
Proof. vm_compute. discriminate. Qed.
Print Assumptions C16_transpose_colmajor_refuted.

(* and on the same programs with ROW-major operands MODEL and SPEC agree *)
Example C16_rowmajor_agrees :
  let ops1 := [ZBase (ONew Z 0 [2; 3] [1; 2; 3; 4; 5; 6]); ZBase (ONew Z 0 [2; 3] [6; 5; 4; 3; 2; 1]);
               ZCmp 0 0 1 false CSafe true] in
  let ops2 := [ZBase (ONew Z 0 [2; 3] [0; 1; 2; 3; 4; 5]); ZBase (OT Z 0 []); ZBase (OTranspose Z 0)] in
  fst (run_both ops1) = map (@Ok Z) (snd (run_both ops1)) /\
  fst (run_both ops2) = map (@Ok Z) (snd (run_both ops2)).
Proof. vm_compute. split; reflexivity. Qed.
