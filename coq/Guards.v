(* Guards.v — the boolean hypotheses under which the refinement theorems hold, as executable
   functions.  The driver evaluates the same functions to classify every generated case: a case
   whose guards all hold lies inside the theorem domain (MODEL = SPEC is a theorem there); the
   first failing guard names the finding class the case belongs to. *)
From TV Require Import Base Index AP Iter Mem.

Inductive gclass :=
| GOk                      (* all guards hold *)
| GStridesShort            (* len(strides) < len(shape): column-major vectors / all-ones shapes *)
| GEmptyRange              (* a ranged axis selects no entry (start = clamped end) *)
| GLeadFloor               (* stepped range on axis 0 whose step does not divide its extent *)
| GWindowOne               (* one-element window: collapses to a scalar, dropping un-sliced axes *)
| GNegStep                 (* negative step: not rejected, treated like step 1 *)
| GEmptyTensor             (* a zero-length axis / empty window *)
| GSliceOfTransposed       (* slice of a lazily transposed tensor flagged contiguous *)
| GColMajor                (* column-major operand on a path that ignores the data order *)
| GPendingTranspose        (* a lazy transpose is already pending *)
| GView                    (* operand is a view *)
| GVectorAxes              (* vector-shaped operand with explicit axes *)
| GBadAxes                 (* axes that are not a permutation *)
| GFlagUnsound             (* flagged contiguous (no iterator needed) although strides are not the default ones *)
| GLenOne                  (* an operand (or destination) window of length one: the isScalar paths of the dispatch *)
| GDestRefused             (* reuse/incr destination whose window length differs from the result size (strided view) *)
| GDestAlias               (* reuse/incr destination shares storage with an operand *)
| GOrderMix                (* column-major operand or destination *)
| GScalarLeftView          (* scalar-on-left comparison over a tensor that needs an iterator *)
| GShapeSoft               (* shapes equal only up to the (n) / (n,1) / (1,n) identification *)
| GModeUnsupported         (* option mode the operation mishandles (MinBetween/MaxBetween unsafe, incr) *)
| GScalarShaped            (* rank-0 tensor operand (package functions route it to the scalar form) *)
| GReduceDefault           (* a reduction step through the "default" kernel (neither first nor last axis) with axis <> 1 and extent <> 2 *)
| GFlatRawWindow           (* whole-tensor (all-axes) reduction over the raw storage window of a tensor whose window is not its logical content *)
| GShapeMisfit             (* operands whose shapes do not fit the operation *)
| GAliasedStorage          (* data is physically moved under other live tensors that view the same storage *)
| GLateRefusal             (* Reshape refuses only in sanity(), after the new shape has been installed *)
| GApplyDest               (* Apply/Map with a reuse or incr destination maps the DESTINATION's contents *)
| GOther.

Definition slice_count_zero (s : slice) (dim : Z) : bool :=
  match s with
  | None => false
  | Some (st, en, sp) => check_slice st en sp dim && (Z.min en dim <=? st)
  end.

Fixpoint any_axis (f : slice -> Z -> bool) (shape : list Z) (sl : list slice) : bool :=
  match shape with
  | [] => false
  | d :: shape' => f (match sl with [] => None | s :: _ => s end) d || any_axis f shape' (tl sl)
  end.

Definition slice_neg_step (s : slice) (dim : Z) : bool :=
  match s with Some (_, _, sp) => sp <? 0 | None => false end.

Definition lead_floor (shape : list Z) (sl : list slice) : bool :=
  match shape, sl with
  | d :: _, Some (st, en, sp) :: _ =>
    check_slice st en sp d && (1 <? sp) && negb (Z.rem (Z.min en d - st) sp =? 0)
  | _, _ => false
  end.

(* all axes carry a non-nil slice (then a one-element window may legitimately drop them all) *)
Fixpoint all_sliced (shape : list Z) (sl : list slice) : bool :=
  match shape with
  | [] => true
  | _ :: shape' => match sl with Some _ :: sl' => all_sliced shape' sl' | _ => false end
  end.

Definition guard_slice (a : ap) (len : Z) (sl : list slice) : gclass :=
  if negb (pos_shapeb (shp a)) then GEmptyTensor
  else if (length (str a) <? length (shp a))%nat then GStridesShort
  else if any_axis slice_neg_step (shp a) sl then GNegStep
  else if any_axis slice_count_zero (shp a) sl then GEmptyRange
  else if lead_floor (shp a) sl then GLeadFloor
  else
    match ap_S a len sl with
    | Ok (_, s, e) => if (e - s =? 1) && negb (all_sliced (shp a) sl) then GWindowOne else GOk
    | _ => GOk
    end.

(* the contiguity flag is sound: a tensor that claims not to need an iterator really is stored in
   its logical order with default strides over exactly its window *)
Definition flag_soundb (d : dense) : bool :=
  requires_iterator d
  || (list_eqb (str (d_ap d)) (default_strides (ord (d_ap d)) (shp (d_ap d)))
      && (d_len d =? size (shp (d_ap d)))).

Definition guard_read (d : dense) : gclass :=
  if negb (pos_shapeb (shp (d_ap d))) || (d_len d <=? 0) then GEmptyTensor
  else if (length (str (d_ap d)) <? length (shp (d_ap d)))%nat then GStridesShort
  else if negb (flag_soundb d) then GFlagUnsound
  else GOk.

(* transposition family *)
Definition is_perm_axes (axes : list Z) (n : nat) : bool :=
  match axes with
  | [] => true
  | _ => (length axes =? n)%nat && forallb (fun i => existsb (Z.eqb i) axes) (zseq 0 n)
  end.

Definition guard_T (d : dense) (axes : list Z) : gclass :=
  match guard_read d with
  | GOk | GFlagUnsound =>
    if negb (is_perm_axes axes (length (shp (d_ap d)))) then GBadAxes
    else if is_some (d_old d) then GPendingTranspose
    else if is_vector (shp (d_ap d)) && negb (allones (str (d_ap d))) then GVectorAxes
    else GOk
  | g => g
  end.

(* physical transposition moves data through the iterator into the head of the window and
   installs default strides of the tensor's order *)
Definition guard_transpose (d : dense) : gclass :=
  match guard_read d with
  | GOk | GFlagUnsound =>
    if negb (is_some (d_old d)) then GOk
    else if is_cm (ord (d_ap d)) then GColMajor
    else if d_view d || is_nc (ord (d_ap d)) then GView
    else GOk
  | g => g
  end.

Definition guard_safeT (d : dense) (axes : list Z) : gclass :=
  match guard_read d with
  | GOk | GFlagUnsound =>
    if negb (is_perm_axes axes (length (shp (d_ap d)))) then GBadAxes
    else if is_vector (shp (d_ap d)) && negb (allones (str (d_ap d))) then GVectorAxes
    else GOk
  | g => g
  end.

(* Copy(dst, src): the raw path is taken when neither side needs an iterator, whatever their
   data orders *)
Definition guard_copy (dst src : dense) : gclass :=
  match guard_read dst, guard_read src with
  | GOk, GOk =>
    if negb (requires_iterator dst) && negb (requires_iterator src)
       && negb (has_same_order (ord (d_ap dst)) (ord (d_ap src))) then GColMajor
    else GOk
  | GOk, g => g
  | g, _ => g
  end.

(* elementwise operations: operands [ops] (tensor operands in order), optional destination *)
Definition overlaps (x y : dense) : bool :=
  Nat.eqb (d_buf x) (d_buf y)
  && (d_off x <? d_off y + d_len y) && (d_off y <? d_off x + d_len x).

Definition guard_elementwise (ops : list dense) (dst : option dense) (rsize : Z) (rshape : list Z) : gclass :=
  let bad := filter (fun d => match guard_read d with GOk => false | _ => true end) ops in
  match bad with
  | d :: _ => guard_read d
  | [] =>
    if existsb (fun d => is_scalar (shp (d_ap d))) ops then GScalarShaped
    else if existsb (fun d => d_len d =? 1) ops || match dst with Some d => d_len d =? 1 | None => false end then GLenOne
    else match dst with
         | Some d =>
           if negb (d_len d =? rsize) || (d_view d && negb (list_eqb (shp (d_ap d)) rshape)) then GDestRefused
           else if existsb (overlaps d) ops then GDestAlias
           else if is_cm (ord (d_ap d)) || existsb (fun x => is_cm (ord (d_ap x))) ops then GOrderMix
           else match guard_read d with GOk => GOk | g => g end
         | None =>
           if existsb (fun x => is_cm (ord (d_ap x))) ops then GOrderMix else GOk
         end
  end.

(* does the axis loop of reduce() go through reduceDefault with an axis other than 1 and a reduced
   extent other than 2 (finding F34)? *)
Fixpoint remove_nth_z (n : nat) (l : list Z) : list Z :=
  match l, n with
  | [], _ => []
  | _ :: r, O => r
  | x :: r, S n' => x :: remove_nth_z n' r
  end.
Fixpoint uses_bad_default (axes : list Z) (reduced : Z) (sh : list Z) : bool :=
  match axes with
  | [] => false
  | ax :: rest =>
    let axis := ax - reduced in
    let last := zlen sh - 1 in
    ((0 <? axis) && (axis <? last) && negb (axis =? 1) && negb (znth 0 sh axis =? 2))
    || uses_bad_default rest (reduced + 1) (remove_nth_z (Z.to_nat axis) sh)
  end.
