(* PropC07.v — C07 "Operation options: safe is pure, unsafe / reuse / incr write only their
   destination".  Only statements; every proof is `exact <lemma of OpsProofs>`.
   MODEL: Ops.handle_reuse (handleFuncOpts), clone_tmp / finish_new (safe), eng_arith_vv with the
   modes MSafe | MUnsafe | MReuse r | MIncr r, eng_unary; kernels k_recv / k_incr / k_iter_incr and
   storage.CopyIter (copy_seq).
   V, vadd (the element type's +) and the total scalar operation f are arbitrary.
   Vocabulary: see PropC06.v.  peek σ b p = cell p of allocation b.
   Guards: operands wf_dense (1 < d_len, row-major, flag soundness), plain shape equality, NO
   ALIASING between destination and operands (unsafe: sep a b; reuse / incr: the destination lives
   in an allocation of its own), destination contiguous (requires_iterator = false) of equal shape. *)
From TV Require Import Base Index AP Iter Mem Spec Ops IndexProofs IterProofs APProofs OpsProofs.

(* ---- safe: a fresh tensor in a fresh allocation; nothing that existed before is touched ---- *)
Theorem C07_safe_pure : forall (V : Type) (vzero : V) (vadd f : V -> V -> V)
    (σ : store V) (ta tb : nat) (a b : dense),
  get_t V σ ta = Some a -> get_t V σ tb = Some b -> wf_dense V σ a -> wf_dense V σ b ->
  shp (d_ap a) = shp (d_ap b) ->
  exists σ' d',
    eng_arith_vv V vzero vadd (gf V f) σ ta tb MSafe = (σ', OOk (length (tens V σ))) /\
    get_t V σ' (length (tens V σ)) = Some d' /\
    tens V σ' = tens V σ ++ [d'] /\                        (* all old tensors: same metadata *)
    d_ap d' = d_ap a /\ d_buf d' = length (bufs V σ) /\      (* the result: a's AP, a NEW allocation *)
    (forall c, inbox (shp (d_ap a)) c -> cell V σ' d' c = lift2 V f (cell V σ a c) (cell V σ b c)) /\
    (forall k, (k < length (bufs V σ))%nat -> get_buf V σ' k = get_buf V σ k) /\   (* every old buffer *)
    firstn (length (tens V σ)) (tens V σ') = tens V σ.
Proof. exact arith_vv_safe_fresh. Qed.
Print Assumptions C07_safe_pure.

(* ---- unsafe: the returned tensor IS the first operand; only its logical cells are written ---- *)
Theorem C07_unsafe_dest : forall (V : Type) (vzero : V) (vadd f : V -> V -> V)
    (σ : store V) (ta tb : nat) (a b : dense),
  get_t V σ ta = Some a -> get_t V σ tb = Some b -> wf_dense V σ a -> wf_dense V σ b ->
  shp (d_ap a) = shp (d_ap b) -> sep a b ->
  exists σ',
    eng_arith_vv V vzero vadd (gf V f) σ ta tb MUnsafe = (σ', OOk ta) /\
    tens V σ' = tens V σ /\ length (bufs V σ') = length (bufs V σ) /\
    (forall c xa xb, inbox (shp (d_ap a)) c -> cell V σ a c = Some xa -> cell V σ b c = Some xb ->
                     cell V σ' a c = Some (f xa xb)) /\
    (* b, and every tensor window that does not overlap a, keeps its content *)
    (forall E i, sep a E -> win_get V σ' E i = win_get V σ E i) /\
    (forall k, k <> d_buf a -> get_buf V σ' k = get_buf V σ k) /\
    (* written positions are logical cells of a *)
    (forall i, (forall c, inbox (shp (d_ap a)) c -> i <> dot (str (d_ap a)) c) ->
               win_get V σ' a i = win_get V σ a i) /\
    (forall p, ~ (d_off a <= p < d_off a + d_len a) -> peek V σ' (d_buf a) p = peek V σ (d_buf a) p).
Proof. exact arith_vv_unsafe_dest. Qed.
Print Assumptions C07_unsafe_dest.

(* ---- reuse: the returned tensor IS the reuse tensor and holds the safe-mode values ---- *)
Theorem C07_reuse_dest : forall (V : Type) (vzero : V) (vadd f : V -> V -> V)
    (σ : store V) (ta tb r : nat) (a b rdn : dense),
  get_t V σ ta = Some a -> get_t V σ tb = Some b -> get_t V σ r = Some rdn ->
  wf_dense V σ a -> wf_dense V σ b -> wf_dense V σ rdn -> requires_iterator rdn = false ->
  shp (d_ap a) = shp (d_ap b) -> shp (d_ap rdn) = shp (d_ap a) ->
  d_buf rdn <> d_buf a -> d_buf rdn <> d_buf b ->
  exists σ',
    eng_arith_vv V vzero vadd (gf V f) σ ta tb (MReuse r) = (σ', OOk r) /\
    tens V σ' = tens V σ /\ length (bufs V σ') = length (bufs V σ) /\
    (forall c xa xb, inbox (shp (d_ap a)) c -> cell V σ a c = Some xa -> cell V σ b c = Some xb ->
                     cell V σ' rdn c = Some (f xa xb)) /\
    (forall k, k <> d_buf rdn -> get_buf V σ' k = get_buf V σ k) /\       (* operands and all the rest *)
    (forall E i, sep rdn E -> win_get V σ' E i = win_get V σ E i) /\
    (forall p, ~ (d_off rdn <= p < d_off rdn + d_len rdn) -> peek V σ' (d_buf rdn) p = peek V σ (d_buf rdn) p).
Proof. exact arith_vv_reuse_dest. Qed.
Print Assumptions C07_reuse_dest.

(* ---- incr: the result is ADDED (the element type's +) to the incr tensor ---- *)
Theorem C07_incr_dest : forall (V : Type) (vzero : V) (vadd f : V -> V -> V)
    (σ : store V) (ta tb r : nat) (a b rdn : dense),
  get_t V σ ta = Some a -> get_t V σ tb = Some b -> get_t V σ r = Some rdn ->
  wf_dense V σ a -> wf_dense V σ b -> wf_dense V σ rdn -> requires_iterator rdn = false ->
  shp (d_ap a) = shp (d_ap b) -> shp (d_ap rdn) = shp (d_ap a) ->
  d_buf rdn <> d_buf a -> d_buf rdn <> d_buf b ->
  exists σ',
    eng_arith_vv V vzero vadd (gf V f) σ ta tb (MIncr r) = (σ', OOk r) /\
    tens V σ' = tens V σ /\ length (bufs V σ') = length (bufs V σ) /\
    (forall c o xa xb, inbox (shp (d_ap a)) c ->
       cell V σ rdn c = Some o -> cell V σ a c = Some xa -> cell V σ b c = Some xb ->
       cell V σ' rdn c = Some (vadd o (f xa xb))) /\
    (forall k, k <> d_buf rdn -> get_buf V σ' k = get_buf V σ k) /\
    (forall E i, sep rdn E -> win_get V σ' E i = win_get V σ E i) /\
    (forall p, ~ (d_off rdn <= p < d_off rdn + d_len rdn) -> peek V σ' (d_buf rdn) p = peek V σ (d_buf rdn) p).
Proof. exact arith_vv_incr_dest. Qed.
Print Assumptions C07_incr_dest.

(* ---- the values delivered agree across the modes ---- *)
Theorem C07_modes_agree : forall (V : Type) (vzero : V) (vadd f : V -> V -> V)
    (σ : store V) (ta tb r : nat) (a b rdn : dense),
  get_t V σ ta = Some a -> get_t V σ tb = Some b -> get_t V σ r = Some rdn ->
  wf_dense V σ a -> wf_dense V σ b -> wf_dense V σ rdn -> requires_iterator rdn = false ->
  shp (d_ap a) = shp (d_ap b) -> shp (d_ap rdn) = shp (d_ap a) ->
  d_buf rdn <> d_buf a -> d_buf rdn <> d_buf b -> sep a b ->
  exists σs ds σu σr σi,
    eng_arith_vv V vzero vadd (gf V f) σ ta tb MSafe = (σs, OOk (length (tens V σ))) /\
    get_t V σs (length (tens V σ)) = Some ds /\
    eng_arith_vv V vzero vadd (gf V f) σ ta tb MUnsafe = (σu, OOk ta) /\
    eng_arith_vv V vzero vadd (gf V f) σ ta tb (MReuse r) = (σr, OOk r) /\
    eng_arith_vv V vzero vadd (gf V f) σ ta tb (MIncr r) = (σi, OOk r) /\
    forall c, inbox (shp (d_ap a)) c ->
      exists v, cell V σs ds c = Some v /\ cell V σu a c = Some v /\ cell V σr rdn c = Some v /\
        forall o, cell V σ rdn c = Some o -> cell V σi rdn c = Some (vadd o v).
Proof. exact modes_agree. Qed.
Print Assumptions C07_modes_agree.

(* ---- unary operations, unsafe: in place, only the logical cells of the operand ---- *)
Theorem C07_unary_unsafe_dest : forall (V : Type) (vzero : V) (vadd : V -> V -> V) (u : V -> V)
    (σ : store V) (ta : nat) (a : dense),
  get_t V σ ta = Some a -> wf_dense V σ a ->
  exists σ',
    eng_unary V vzero vadd u σ ta MUnsafe = (σ', OOk ta) /\
    tens V σ' = tens V σ /\ length (bufs V σ') = length (bufs V σ) /\
    (forall c, inbox (shp (d_ap a)) c -> cell V σ' a c = lift1 V u (cell V σ a c)) /\
    (forall k, k <> d_buf a -> get_buf V σ' k = get_buf V σ k) /\
    (forall E i, sep a E -> win_get V σ' E i = win_get V σ E i) /\
    (forall i, (forall c, inbox (shp (d_ap a)) c -> i <> dot (str (d_ap a)) c) ->
               win_get V σ' a i = win_get V σ a i) /\
    (forall p, ~ (d_off a <= p < d_off a + d_len a) -> peek V σ' (d_buf a) p = peek V σ (d_buf a) p).
Proof. exact unary_unsafe_post. Qed.
Print Assumptions C07_unary_unsafe_dest.

(* ---- the kernels behind reuse / incr ---- *)
Theorem C07_kernel_recv : forall (V : Type) (vzero : V) (vadd f : V -> V -> V) (σ : store V) (a b r : dense) (e : bool),
  in_buf V σ a -> in_buf V σ b -> in_buf V σ r -> sep r a -> sep r b ->
  d_len r <= d_len a -> d_len r <= d_len b ->
  exists l σ', k_recv V σ a b r = Some l /\ run_asgs V vzero vadd (gf V f) σ l e = Some (σ', e) /\
    frame_ok V σ σ' r /\
    (forall i x y, 0 <= i < d_len r -> win_get V σ a i = Some x -> win_get V σ b i = Some y ->
                   win_get V σ' r i = Some (f x y)).
Proof. exact k_recv_spec. Qed.
Print Assumptions C07_kernel_recv.

Theorem C07_kernel_incr : forall (V : Type) (vzero : V) (vadd f : V -> V -> V) (σ : store V) (a b inc : dense) (e : bool),
  in_buf V σ a -> in_buf V σ b -> in_buf V σ inc -> sep inc a -> sep inc b ->
  d_len a <= d_len b -> d_len a <= d_len inc ->
  exists l σ', k_incr V σ a b inc = Some l /\ run_asgs V vzero vadd (gf V f) σ l e = Some (σ', e) /\
    frame_ok V σ σ' inc /\
    (forall i x y o, win_get V σ a i = Some x -> win_get V σ b i = Some y -> win_get V σ inc i = Some o ->
                     win_get V σ' inc i = Some (vadd o (f x y))) /\
    (forall i, d_len a <= i -> win_get V σ' inc i = win_get V σ inc i).
Proof. exact k_incr_spec. Qed.
Print Assumptions C07_kernel_incr.

Theorem C07_kernel_iter_incr : forall (V : Type) (vzero : V) (vadd f : V -> V -> V) (σ : store V)
    (a b inc : dense) (ai bi ii : list Z) (e : bool),
  in_buf V σ a -> in_buf V σ b -> in_buf V σ inc -> sep inc a -> sep inc b -> NoDup ii ->
  (forall i, In i ai -> 0 <= i < d_len a) -> (forall j, In j bi -> 0 <= j < d_len b) ->
  (forall k, In k ii -> 0 <= k < d_len inc) ->
  exists σ', run_asgs V vzero vadd (gf V f) σ (k_iter_incr V a b inc ai bi ii) e = Some (σ', e) /\
    frame_ok V σ σ' inc /\
    (forall i j k x y o, In (i, j, k) (zip3 ai bi ii) ->
       win_get V σ a i = Some x -> win_get V σ b j = Some y -> win_get V σ inc k = Some o ->
       win_get V σ' inc k = Some (vadd o (f x y))) /\
    (forall k, ~ In k (map snd (zip3 ai bi ii)) -> win_get V σ' inc k = win_get V σ inc k).
Proof. exact k_iter_incr_spec. Qed.
Print Assumptions C07_kernel_iter_incr.

(* ---- unary operations, reuse: the returned tensor IS the reuse tensor ---- *)
Theorem C07_unary_reuse_dest : forall (V : Type) (vzero : V) (vadd : V -> V -> V) (u : V -> V)
    (σ : store V) (ta r : nat) (a rdn : dense),
  get_t V σ ta = Some a -> get_t V σ r = Some rdn ->
  wf_dense V σ a -> wf_dense V σ rdn -> requires_iterator rdn = false ->
  shp (d_ap rdn) = shp (d_ap a) -> d_buf rdn <> d_buf a ->
  exists σ',
    eng_unary V vzero vadd u σ ta (MReuse r) = (σ', OOk r) /\
    tens V σ' = tens V σ /\ length (bufs V σ') = length (bufs V σ) /\
    (forall c, inbox (shp (d_ap rdn)) c -> cell V σ' rdn c = lift1 V u (cell V σ a c)) /\
    (forall k, k <> d_buf rdn -> get_buf V σ' k = get_buf V σ k) /\
    (forall E i, sep rdn E -> win_get V σ' E i = win_get V σ E i) /\
    (forall i, (forall c, inbox (shp (d_ap rdn)) c -> i <> dot (str (d_ap rdn)) c) ->
               win_get V σ' rdn i = win_get V σ rdn i) /\
    (forall p, ~ (d_off rdn <= p < d_off rdn + d_len rdn) -> peek V σ' (d_buf rdn) p = peek V σ (d_buf rdn) p).
Proof. exact unary_reuse_post. Qed.
Print Assumptions C07_unary_reuse_dest.

(* ---- unary operations, incr: u of the operand is ADDED into the incr tensor.  The engine maps a
        CLONE of the operand; the clone stays behind as a temporary in a NEW allocation (index
        >= length (bufs σ)); every allocation that existed before, except the destination's, is
        unchanged ---- *)
Theorem C07_unary_incr_dest : forall (V : Type) (vzero : V) (vadd : V -> V -> V) (u : V -> V)
    (σ : store V) (ta r : nat) (a rdn : dense),
  get_t V σ ta = Some a -> get_t V σ r = Some rdn ->
  wf_dense V σ a -> wf_dense V σ rdn -> requires_iterator rdn = false ->
  shp (d_ap rdn) = shp (d_ap a) -> d_buf rdn <> d_buf a ->
  exists σ',
    eng_unary V vzero vadd u σ ta (MIncr r) = (σ', OOk r) /\
    tens V σ' = tens V σ /\ (length (bufs V σ) <= length (bufs V σ'))%nat /\
    (forall c, inbox (shp (d_ap rdn)) c -> cell V σ' rdn c = lift_acc V vadd u (cell V σ rdn c) (cell V σ a c)) /\
    (forall k, (k < length (bufs V σ))%nat -> k <> d_buf rdn -> get_buf V σ' k = get_buf V σ k) /\
    (forall i, (forall c, inbox (shp (d_ap rdn)) c -> i <> dot (str (d_ap rdn)) c) ->
               win_get V σ' rdn i = win_get V σ rdn i) /\
    (forall p, ~ (d_off rdn <= p < d_off rdn + d_len rdn) -> peek V σ' (d_buf rdn) p = peek V σ (d_buf rdn) p).
Proof. exact unary_incr_post. Qed.
Print Assumptions C07_unary_incr_dest.

(* ---- scalar forms, unsafe: the tensor operand is overwritten in place, operand order kept; the
        one-element header of the Go scalar is a temporary in a NEW allocation.  Guard: the shape is
        not the scalar shape () (a ()-shaped tensor over a longer window is rewritten whole) ---- *)
Theorem C07_scalar_unsafe_left_dest : forall (V : Type) (vzero : V) (vadd f : V -> V -> V)
    (σ : store V) (tt : nat) (t : dense) (s : V),
  get_t V σ tt = Some t -> wf_dense V σ t -> shp (d_ap t) <> [] ->
  exists σ',
    eng_arith_scalar V vzero vadd (gf V f) σ tt s true MUnsafe = (σ', OOk tt) /\
    tens V σ' = tens V σ /\ (length (bufs V σ) <= length (bufs V σ'))%nat /\
    (forall c, inbox (shp (d_ap t)) c -> cell V σ' t c = lift_l V f s (cell V σ t c)) /\
    (forall k, (k < length (bufs V σ))%nat -> k <> d_buf t -> get_buf V σ' k = get_buf V σ k) /\
    (forall i, (forall c, inbox (shp (d_ap t)) c -> i <> dot (str (d_ap t)) c) ->
               win_get V σ' t i = win_get V σ t i) /\
    (forall p, ~ (d_off t <= p < d_off t + d_len t) -> peek V σ' (d_buf t) p = peek V σ (d_buf t) p).
Proof. exact arith_scalar_unsafe_left_post. Qed.
Print Assumptions C07_scalar_unsafe_left_dest.

Theorem C07_scalar_unsafe_right_dest : forall (V : Type) (vzero : V) (vadd f : V -> V -> V)
    (σ : store V) (tt : nat) (t : dense) (s : V),
  get_t V σ tt = Some t -> wf_dense V σ t -> shp (d_ap t) <> [] ->
  exists σ',
    eng_arith_scalar V vzero vadd (gf V f) σ tt s false MUnsafe = (σ', OOk tt) /\
    tens V σ' = tens V σ /\ (length (bufs V σ) <= length (bufs V σ'))%nat /\
    (forall c, inbox (shp (d_ap t)) c -> cell V σ' t c = lift_r V f s (cell V σ t c)) /\
    (forall k, (k < length (bufs V σ))%nat -> k <> d_buf t -> get_buf V σ' k = get_buf V σ k) /\
    (forall i, (forall c, inbox (shp (d_ap t)) c -> i <> dot (str (d_ap t)) c) ->
               win_get V σ' t i = win_get V σ t i) /\
    (forall p, ~ (d_off t <= p < d_off t + d_len t) -> peek V σ' (d_buf t) p = peek V σ (d_buf t) p).
Proof. exact arith_scalar_unsafe_right_post. Qed.
Print Assumptions C07_scalar_unsafe_right_dest.

(* C07_all_families_partial.  FULL INTENDED STATEMENT (DESIGN §C07): safe_pure / unsafe_dest /
   reuse_dest / incr_dest / modes_agree for EVERY modelled operation family — also
   eng_arith_scalar (reuse / incr), eng_cmp_vv / eng_cmp_scalar (unsafe / reuse), eng_minmax_vv —
   and reuse_alias_ok (the reuse tensor aliasing an operand).
   Proved: tensor-tensor arithmetic in all four modes; unary in all four modes (safe in PropC12);
   scalar forms safe (PropC06) and unsafe; comparisons safe (PropC11).
   Not done: the engine-level unfolding of the remaining families (their kernels k_incr_vs,
   k_incr_sv, k_ret_sv ... are instances of the same schema lemma of OpsProofs).  A reuse tensor
   aliasing an operand is outside the no-aliasing hypothesis (GDestAlias guard). *)

(* ---- non-vacuity: the store of PropC06 (2x3, lazily transposed 3x2, 2x3 destination) ---- *)
Definition exσ : store Z :=
  mkStore Z [[1; 2; 3; 4; 5; 6]; [10; 20; 30; 40; 50; 60]; [100; 200; 300; 400; 500; 600]]
            [mkDense 0 0 6 (mkAP [2; 3] [3; 1] 0 true) None false;
             mkDense 1 0 6 (mkAP [2; 3] [1; 2] 4 true) (Some (mkAP [3; 2] [2; 1] 0 true)) false;
             mkDense 2 0 6 (mkAP [2; 3] [3; 1] 0 true) None false].

Example C07_example :
  exists a b r,
    get_t Z exσ 0 = Some a /\ get_t Z exσ 1 = Some b /\ get_t Z exσ 2 = Some r /\
    wf_dense Z exσ a /\ wf_dense Z exσ b /\ wf_dense Z exσ r /\ requires_iterator r = false /\
    shp (d_ap a) = shp (d_ap b) /\ shp (d_ap r) = shp (d_ap a) /\
    d_buf r <> d_buf a /\ d_buf r <> d_buf b /\ sep a b /\
    (* a - bT in the four modes (iterator path) *)
    (let res := eng_arith_vv Z 0 Z.add (gf Z Z.sub) exσ 0 1 MUnsafe in
     snd res = OOk 0%nat /\ logical Z (fst res) 0 = map Ok [-9; -28; -47; -16; -35; -54] /\
     get_buf Z (fst res) 1 = get_buf Z exσ 1 /\ get_buf Z (fst res) 2 = get_buf Z exσ 2) /\
    (let res := eng_arith_vv Z 0 Z.add (gf Z Z.sub) exσ 0 1 (MReuse 2) in
     snd res = OOk 2%nat /\ logical Z (fst res) 2 = map Ok [-9; -28; -47; -16; -35; -54] /\
     get_buf Z (fst res) 0 = get_buf Z exσ 0 /\ get_buf Z (fst res) 1 = get_buf Z exσ 1) /\
    (let res := eng_arith_vv Z 0 Z.add (gf Z Z.sub) exσ 0 1 (MIncr 2) in
     snd res = OOk 2%nat /\ logical Z (fst res) 2 = map Ok [91; 172; 253; 384; 465; 546] /\
     get_buf Z (fst res) 0 = get_buf Z exσ 0 /\ get_buf Z (fst res) 1 = get_buf Z exσ 1) /\
    (* raw path (two contiguous operands): r - a, unsafe *)
    (let res := eng_arith_vv Z 0 Z.add (gf Z Z.sub) exσ 2 0 MUnsafe in
     snd res = OOk 2%nat /\ logical Z (fst res) 2 = map Ok [99; 198; 297; 396; 495; 594] /\
     get_buf Z (fst res) 0 = get_buf Z exσ 0) /\
    (* unary u x = x * x - 1 of the transposed operand into r: reuse and incr *)
    (let res := eng_unary Z 0 Z.add (fun x => x * x - 1) exσ 1 (MReuse 2) in
     snd res = OOk 2%nat /\ logical Z (fst res) 2 = map Ok [99; 899; 2499; 399; 1599; 3599] /\
     get_buf Z (fst res) 1 = get_buf Z exσ 1) /\
    (let res := eng_unary Z 0 Z.add (fun x => x * x - 1) exσ 1 (MIncr 2) in
     snd res = OOk 2%nat /\ logical Z (fst res) 2 = map Ok [199; 1099; 2799; 799; 2099; 4199] /\
     get_buf Z (fst res) 1 = get_buf Z exσ 1) /\
    (* scalar forms, unsafe, on the transposed operand: bT - 1 and 1 - bT *)
    (let res := eng_arith_scalar Z 0 Z.add (gf Z Z.sub) exσ 1 1 true MUnsafe in
     snd res = OOk 1%nat /\ logical Z (fst res) 1 = map Ok [9; 29; 49; 19; 39; 59] /\
     get_buf Z (fst res) 0 = get_buf Z exσ 0) /\
    (let res := eng_arith_scalar Z 0 Z.add (gf Z Z.sub) exσ 1 1 false MUnsafe in
     snd res = OOk 1%nat /\ logical Z (fst res) 1 = map Ok [-9; -29; -49; -19; -39; -59] /\
     get_buf Z (fst res) 0 = get_buf Z exσ 0).
Proof.
  do 3 eexists. do 3 (split; [reflexivity|]).
  do 3 (split; [apply wf_denseb_sound; vm_compute; reflexivity|]).
  split; [reflexivity|]. split; [reflexivity|]. split; [reflexivity|].
  split; [vm_compute; congruence|]. split; [vm_compute; congruence|].
  split; [left; vm_compute; congruence|].
  repeat split; vm_compute; reflexivity.
Qed.

(* The no-aliasing guard is necessary: two views of ONE allocation, a = buf[1:5], b = buf[0:4]
   (both otherwise well-formed); unsafe a - b reads cells of b that the loop has already
   overwritten: the result is [1; 3; 5; 11], not the coordinate-wise [1; 2; 4; 8]. *)
Example C07_no_aliasing_guard_needed :
  let a := mkDense 0 1 4 (mkAP [4] [1] 0 true) None true in
  let b := mkDense 0 0 4 (mkAP [4] [1] 0 true) None true in
  let σ := mkStore Z [[1; 2; 4; 8; 16]] [a; b] in
  wf_denseb Z σ a = true /\ wf_denseb Z σ b = true /\
  logical Z σ 0 = map Ok [2; 4; 8; 16] /\ logical Z σ 1 = map Ok [1; 2; 4; 8] /\
  let res := eng_arith_vv Z 0 Z.add (gf Z Z.sub) σ 0 1 MUnsafe in
  snd res = OOk 0%nat /\ logical Z (fst res) 0 = map Ok [1; 3; 5; 11].
Proof. vm_compute. repeat split; reflexivity. Qed.
