(* Masked.v — MODEL of the mask machinery of *Dense (property C15):
     dense.go            mask, maskIsSoft, IsMasked, makeMask, ResetMask, HardenMask/SoftenMask,
                         MaskFromSlice([]bool), SetMask, Clone (mask part: array.go copyDense)
     dense_maskcmp_methods.go   MaskedEqual ... MaskedInside/Outside/Values.  The file is GENERATED
                         from ONE template (genlib2/dense_maskedmethods.go): every method and every
                         element type has the same body up to the comparison expression, so the
                         model is ONE function [k_pred] parameterised by the element predicate.
     dense_mask_inspection.go   MaskedReduce, doMaskCt/doNonMaskCt/doMaskAny/doMaskAll,
                         FlatNotMaskedContiguous, FlatMaskedContiguous, FlatNotMaskedEdges,
                         FlatMaskedEdges, ClumpMasked, ClumpUnmasked
     dense_mask_filling.go      Filled, FilledInplace
     dense_matop.go      T (lazy), Slice (mask window), MaskAt
     dense_matop_memmove.go + defaultengine_matop_transpose.go   Transpose, transposeMask
     dense_views.go + array.go  Materialize (copyDenseIter: the mask is copied raw)
     internal/execution/generic_arith_vv.go  <Op>Iter kernels (NextValidity of both operands)
   A masked tensor VALUE: access pattern, backed-up pattern of a pending lazy transpose, view flag,
   data window, mask window ([] = none), soft flag.  The iterators are those of Iter.v.
   The second half is the SPEC: direct definitions on the logical array (row-major lists).
   No proofs here. *)
From TV Require Import Base Index AP Iter Mem Serial.
Local Open Scope Z_scope.

Definition kmap2 {A B C} (f : A -> B -> C) (la : list A) (lb : list B) : list C :=
  map (fun p => f (fst p) (snd p)) (combine la lb).

(* Go's s[i:j] on a window (bounds are checked by the callers) *)
Definition ksub {A} (l : list A) (s e : Z) : list A :=
  firstn (Z.to_nat (e - s)) (skipn (Z.to_nat s) l).

Section Masked.
Variable V : Type.
Variable vzero : V.

Record mten := mkMT {
  mt_ap : ap; mt_old : option ap; mt_view : bool;
  mt_data : list V; mt_mask : list bool; mt_soft : bool
}.

Definition mt_len (t : mten) : Z := zlen (mt_data t).              (* t.len() = array.Len() *)
Definition mt_size (t : mten) : Z := size (shp (mt_ap t)).          (* t.Size() = shape.TotalSize() *)
Definition k_is_masked (t : mten) : bool := zlen (mt_mask t) =? mt_len t.   (* IsMasked *)

Definition with_mask (t : mten) (m : list bool) : mten :=
  mkMT (mt_ap t) (mt_old t) (mt_view t) (mt_data t) m (mt_soft t).
Definition with_data (t : mten) (d : list V) : mten :=
  mkMT (mt_ap t) (mt_old t) (mt_view t) d (mt_mask t) (mt_soft t).
Definition with_soft (t : mten) (s : bool) : mten :=                (* SoftenMask / HardenMask *)
  mkMT (mt_ap t) (mt_old t) (mt_view t) (mt_data t) (mt_mask t) s.

(* SetMask: no length check (commented out in the source) *)
Definition k_setmask (t : mten) (m : list bool) : mten := with_mask t m.

(* makeMask: a mask of shape.TotalSize() entries (NOT len()), all false: whatever the previous
   length/capacity was, the slice ends up with that length and is memset to false *)
Definition k_make_mask (t : mten) : list bool := repeat false (Z.to_nat (mt_size t)).

(* ResetMask(val...) *)
Definition k_reset (t : mten) (v : bool) : mten :=
  let m := if k_is_masked t then mt_mask t else k_make_mask t in
  with_mask t (map (fun _ => v) m).

(* MaskFromSlice([]bool): makeMask unconditionally, then copy(t.mask, m) *)
Definition k_mask_from_slice (t : mten) (m : list bool) : mten :=
  with_mask t (copy_prefix (k_make_mask t) m).

(* MaskFromDense(tts...) with one argument whose mask is [bm] (IsMasked [b_masked]):
     if numMasked < 1 { return }
     if len(t.mask) < t.DataSize() { t.makeMask() }          (DataSize() is 0 for a scalar)
     for j := range t.mask { t.mask[j] = t.mask[j] || tt.mask[j%n] } *)
Fixpoint or_cyclic (m : list bool) (bm : list bool) (j : Z) : list bool :=
  match m with
  | [] => []
  | x :: r => (x || znth false bm (j mod zlen bm)) :: or_cyclic r bm (j + 1)
  end.
Definition k_mask_from_dense (t : mten) (b_masked : bool) (bm : list bool) : mten :=
  if negb b_masked then t else
  let ds := if is_scalar (shp (mt_ap t)) then 0 else mt_len t in
  let m := if zlen (mt_mask t) <? ds then k_make_mask t else mt_mask t in
  with_mask t (or_cyclic m bm 0).

(* ---- the masking predicates (one template) ----
     if !t.IsMasked() { t.makeMask() }
     switch kind { case K: data := t.Ks(); mask := t.mask; x := val1.(K) ...
       if t.maskIsSoft { for i := range data { mask[i] = p(data[i]) } }
       else            { for i := range data { mask[i] = mask[i] || p(data[i]) } } }
   [data] is the whole window (len() cells); mask[i] past the mask is an index panic; kinds
   without a case (bool, complex, and non-floats never get there for MaskedValues) fall through
   the switch after makeMask. *)
Fixpoint pred_loop (soft : bool) (p : V -> bool) (data : list V) (mask : list bool) : option (list bool) :=
  match data with
  | [] => Some mask
  | a :: data' =>
    match mask with
    | [] => None
    | m :: mask' =>
      match pred_loop soft p data' mask' with
      | Some r => Some ((if soft then p a else m || p a) :: r)
      | None => None
      end
    end
  end.

Definition k_pred (float_only is_float has_case : bool) (p : V -> bool) (t : mten) : res mten :=
  if float_only && negb is_float then Err else          (* MaskedValues: "Can only do ... with floating point types" *)
  let mask := if k_is_masked t then mt_mask t else k_make_mask t in
  if negb has_case then Ok (with_mask t mask) else
  match pred_loop (mt_soft t) p (mt_data t) mask with
  | Some m' => Ok (with_mask t m')
  | None => Panic
  end.

(* the nine generated forms; veq/vlt/vle are Go's ==, <, <= of the element type and vwithin is
   math.Abs(float64(a-x)) <= delta, delta = 1e-8 or atol + rtol*|x| *)
Variable veq vlt vle : V -> V -> bool.
Variable vwithin : V -> V -> V -> option V -> bool.
Inductive mpred :=
| PEq (x : V) | PNe (x : V) | PGt (x : V) | PGe (x : V) | PLt (x : V) | PLe (x : V)
| PInside (x y : V) | POutside (x y : V) | PValues (x rtol : V) (atol : option V).
Definition pred_fn (q : mpred) (a : V) : bool :=
  match q with
  | PEq x => veq a x
  | PNe x => negb (veq a x)
  | PGt x => vlt x a
  | PGe x => vle x a
  | PLt x => vlt a x
  | PLe x => vle a x
  | PInside x y => vle x a && vle a y
  | POutside x y => vlt a x || vlt y a
  | PValues x r at_ => vwithin a x r at_
  end.
Definition pred_float_only (q : mpred) : bool := match q with PValues _ _ _ => true | _ => false end.
Definition k_masked (is_float has_case : bool) (q : mpred) (t : mten) : res mten :=
  k_pred (pred_float_only q) is_float has_case (pred_fn q) t.

(* ---- iterators: IteratorFromDense(t) is a FlatMaskedIterator when t.IsMasked() ---- *)
Record mit := mkMit { mi_masked : bool; mi_mask : list bool; mi_it : fiter }.
Definition k_miter (t : mten) : mit := mkMit (k_is_masked t) (mt_mask t) (new_iter (mt_ap t)).
Definition mit_with (m : mit) (it : fiter) : mit := mkMit (mi_masked m) (mi_mask m) it.
Definition mit_fuel (m : mit) : nat := S (S (Z.to_nat (it_size (mi_it m)))).

(* NextValid (want_masked = false) / NextInvalid (true): (index, err == nil) *)
Definition mit_next (want_masked : bool) (m : mit) : mit * res (Z * bool) :=
  if mi_masked m && negb (zlen (mi_mask m) =? 0) then
    match miter_seek (mit_fuel m) want_masked (mi_mask m) (mi_it m) 0 with
    | (it', Ok (i, _, found)) => (mit_with m it', Ok (i, found))
    | (it', _) => (mit_with m it', Panic)
    end
  else if want_masked then
    (m, Ok (fst (flat_next_invalid (mi_it m)), false))      (* always noopError, nothing advances *)
  else
    match flat_next_valid (mi_it m) with
    | (it', (i, _, e), false) => (mit_with m it', Ok (i, negb e))
    | (it', _, true) => (mit_with m it', Panic)
    end.

(* NextValidity *)
Definition mit_next_validity (m : mit) : mit * res (Z * bool) :=
  match miter_next_validity (if mi_masked m then mi_mask m else []) (mi_it m) with
  | (it', r) => (mit_with m it', r)
  end.

(* ---- doMaskCt / doNonMaskCt / doMaskAny / doMaskAll ---- *)
Fixpoint count_invalid (fuel : nat) (m : mit) (acc : Z) : res Z :=
  match fuel with
  | O => Panic
  | S f =>
    match mit_next true m with
    | (m', Ok (_, true)) => count_invalid f m' (acc + 1)
    | (_, Ok (_, false)) => Ok acc
    | (_, Err) => Err
    | (_, Panic) => Panic
    end
  end.

Definition count_true (m : list bool) : Z := zlen (filter (fun b => b) m).

Definition do_mask_ct (t : mten) : res Z :=
  if negb (k_is_masked t) then Ok 0 else
  if zlen (mt_mask t) =? mt_size t then Ok (count_true (mt_mask t))
  else let m := k_miter t in count_invalid (mit_fuel m) m 0.

Definition do_nonmask_ct (t : mten) : res Z :=
  if negb (k_is_masked t) then Ok (mt_size t) else
  res_map (fun c => mt_size t - c) (do_mask_ct t).

Definition do_mask_all (t : mten) : res bool :=
  if negb (k_is_masked t) then Ok false else
  if zlen (mt_mask t) =? mt_size t then Ok (forallb (fun b => b) (mt_mask t))
  else match mit_next false (k_miter t) with
       | (_, Ok (i, _)) => Ok (i =? -1)
       | (_, Err) => Err
       | (_, Panic) => Panic
       end.

Definition do_mask_any (t : mten) : res bool :=
  if negb (k_is_masked t) then Ok false else
  if zlen (mt_mask t) =? mt_size t then Ok (existsb (fun b => b) (mt_mask t))
  else match mit_next true (k_miter t) with
       | (_, Ok (i, _)) => Ok (negb (i =? -1))
       | (_, Err) => Err
       | (_, Panic) => Panic
       end.

Inductive redfn := RCount | RNonCount | RAny | RAll.
Inductive redval := RVInt (z : Z) | RVBool (b : bool).
Definition do_red (f : redfn) (t : mten) : res redval :=
  match f with
  | RCount => res_map RVInt (do_mask_ct t)
  | RNonCount => res_map RVInt (do_nonmask_ct t)
  | RAny => res_map RVBool (do_mask_any t)
  | RAll => res_map RVBool (do_mask_all t)
  end.
Definition red_zero (f : redfn) : redval :=
  match f with RCount | RNonCount => RVInt 0 | _ => RVBool false end.

(* ---- Dense.Slice: AP.S, the data window and (only when IsMasked) the mask window; the view is
   a fresh Dense: hard, no pending transpose ---- *)
Definition k_slice (t : mten) (sl : list slice) : res mten :=
  match ap_S (mt_ap t) (mt_len t) sl with
  | Ok (a', s, e) =>
    if (s <? 0) || (e <? s) || (mt_len t <? e) then Panic else
    Ok (mkMT a' None true (ksub (mt_data t) s e)
             (if k_is_masked t then ksub (mt_mask t) s e else []) false)
  | Err => Err
  | Panic => Panic
  end.

(* ---- MaskedReduce(t, retType, fn, axis...) ----
     if len(axis) == 0 || t.IsVector() { return fn(t) }
     if ax >= t.Dims() { return -1 }
     slices[ax] = makeRS(0, 0); tt, _ := t.Slice(slices...); ts := tt.( *Dense)   (nil => panic)
     retVal := NewDense(retType, ts.shape); it := NewIterator(retVal.Info())
     for _, err := it.Next(); err == nil; _, err = it.Next() {
        coord := it.Coord()        <- the track AFTER the step: the NEXT coordinate
        slices[d] = makeRS(coord[k], coord[k]+1) (d != ax), nil (d == ax)
        tt, _ = t.Slice(slices...); ts = tt.( *Dense); retVal.SetAt(fn(ts), coord...) }  *)
Inductive redres := RScalar (v : redval) | RTensor (shape : list Z) (vals : list redval).

Fixpoint red_slices (d : nat) (dims : nat) (ax : nat) (coord : list Z) : option (list slice) :=
  match dims with
  | O => Some []
  | S n =>
    if Nat.eqb d ax then
      match red_slices (S d) n ax coord with Some r => Some (None :: r) | None => None end
    else
      match coord with
      | [] => None                                     (* coord[k] out of range *)
      | c :: coord' =>
        match red_slices (S d) n ax coord' with Some r => Some (Some (c, c + 1, 1) :: r) | None => None end
      end
  end.

Fixpoint red_loop (f : redfn) (t : mten) (ax : nat) (rsh rst : list Z)
         (tr : list (Z * list Z)) (acc : list redval) : res (list redval) :=
  match tr with
  | [] => Ok acc
  | (_, coord) :: rest =>
    match red_slices 0 (length (shp (mt_ap t))) ax coord with
    | None => Panic
    | Some sl =>
      match k_slice t sl with
      | Ok ts =>
        match do_red f ts with
        | Ok v =>
          (* retVal.SetAt(v, coord...): a returned error is dropped *)
          match at_index rsh rst coord with
          | Ok j => match zset acc j v with
                    | Some acc' => red_loop f t ax rsh rst rest acc'
                    | None => Panic
                    end
          | Err => red_loop f t ax rsh rst rest acc
          | Panic => Panic
          end
        | _ => Panic
        end
      | _ => Panic                                     (* tt == nil: tt.( *Dense) panics *)
      end
    end
  end.

Definition k_reduce (f : redfn) (t : mten) (axis : option Z) : res redres :=
  match axis with
  | None => res_map RScalar (do_red f t)
  | Some ax =>
    if is_vector (shp (mt_ap t)) then res_map RScalar (do_red f t) else
    if zlen (shp (mt_ap t)) <=? ax then Ok (RScalar (RVInt (-1))) else
    if ax <? 0 then Panic else
    let dims := length (shp (mt_ap t)) in
    let probe := upd (repeat (None : slice) dims) (Z.to_nat ax) (Some (0, 0, 1)) in
    match k_slice t probe with
    | Ok ts =>
      let rsh := shp (mt_ap ts) in
      let rst := calc_strides rsh in
      let n := if is_scalar rsh then 1 else size rsh in
      match trace_of (mkAP rsh rst 0 true) with
      | None => Panic
      | Some tr =>
        match red_loop f t (Z.to_nat ax) rsh rst tr (repeat (red_zero f) (Z.to_nat n)) with
        | Ok vals => Ok (RTensor rsh vals)
        | Err => Err
        | Panic => Panic
        end
      end
    | _ => Panic
    end
  end.

(* ---- FlatNotMaskedContiguous (start_masked = false) / FlatMaskedContiguous (true);
   ClumpUnmasked / ClumpMasked are aliases ---- *)
Fixpoint runs_loop (fuel : nat) (start_masked : bool) (sz : Z) (m : mit) : res (list (Z * Z)) :=
  match fuel with
  | O => Panic
  | S f =>
    match mit_next start_masked m with
    | (m1, Ok (start, true)) =>
      match mit_next (negb start_masked) m1 with
      | (m2, Ok (e, _)) =>
        match runs_loop f start_masked sz m2 with
        | Ok r => Ok ((start, if e =? -1 then sz else e) :: r)
        | Err => Err
        | Panic => Panic
        end
      | (_, _) => Panic
      end
    | (_, Ok (_, false)) => Ok []
    | (_, _) => Panic
    end
  end.
Definition k_runs (start_masked : bool) (t : mten) : res (list (Z * Z)) :=
  let m := k_miter t in runs_loop (mit_fuel m) start_masked (mt_size t) m.

(* ---- FlatNotMaskedEdges (false) / FlatMaskedEdges (true) ---- *)
Definition k_edges (want_masked : bool) (t : mten) : res (Z * Z) :=
  if negb (k_is_masked t) then Ok (0, mt_size t - 1) else
  let m := k_miter t in
  match iter_set_dir (mi_it m) false with
  | Ok it1 =>
    match mit_next want_masked (mit_with m it1) with
    | (m1, Ok (start, true)) =>
      match iter_set_dir (mi_it m1) true with
      | Ok it2 =>
        match mit_next want_masked (mit_with m1 it2) with
        | (_, Ok (e, _)) => Ok (start, e)
        | (_, _) => Panic
        end
      | _ => Panic
      end
    | (_, Ok (_, false)) => Ok (-1, -1)
    | (_, _) => Panic
    end
  | _ => Panic
  end.

(* ---- Clone: AP and old AP cloned, a copy of the window, copyDense copies the mask only when
   the source IsMasked; maskIsSoft and viewOf are not carried over ---- *)
Definition k_clone (t : mten) : mten :=
  mkMT (mt_ap t) (mt_old t) false (mt_data t) (if k_is_masked t then mt_mask t else []) false.

(* ---- Filled / FilledInplace: [t] supplies IsMasked and the masked runs, [tc] is written ---- *)
Fixpoint fill_runs (tc : mten) (rl : list (Z * Z)) : res unit :=
  match rl with
  | [] => Ok tt
  | (s, e) :: r =>
    (* tt, err := tc.Slice(nil, rs); if err != nil { ts := tt.( *Dense); ts.Memset(fillval) } *)
    match k_slice tc [None; Some (s, e, 1)] with
    | Ok _ => fill_runs tc r
    | _ => Panic
    end
  end.

Fixpoint fill_loop (fuel : nat) (m : mit) (data : list V) (fv : V) : res (list V) :=
  match fuel with
  | O => Panic
  | S f =>
    match mit_next true m with
    | (m', Ok (i, true)) =>
      match zset data i fv with
      | Some d' => fill_loop f m' d' fv
      | None => Panic
      end
    | (_, Ok (_, false)) => Ok data
    | (_, _) => Panic
    end
  end.

Definition fill_body (t tc : mten) (fv : V) : res mten :=
  if negb (k_is_masked t) then Ok tc else
  let sh := shp (mt_ap tc) in
  if is_scalar sh then
    match mt_mask tc with
    | true :: _ => match zset (mt_data tc) 0 fv with Some d => Ok (with_data tc d) | None => Panic end
    | false :: _ => Ok tc
    | [] => Panic
    end
  else
    (* (row and column vectors take this path too since the fix of the inverted err test) *)
    let m := k_miter tc in
    match fill_loop (mit_fuel m) m (mt_data tc) fv with
    | Ok d => Ok (with_data tc d)
    | Err => Err
    | Panic => Panic
    end.
Definition k_filled (t : mten) (fv : V) : res mten := fill_body t (k_clone t) fv.
Definition k_filled_inplace (t : mten) (fv : V) : res mten := fill_body t t fv.

(* ---- Transpose (physical): transposeMask then the data, both gathered through a plain iterator
   over the transposed pattern; string tensors take denseTransposeString BEFORE transposeMask ---- *)
Fixpoint gather {A} (l : list A) (idx : list Z) : option (list A) :=
  match idx with
  | [] => Some []
  | i :: r => match zget l i, gather l r with
              | Some v, Some g => Some (v :: g)
              | _, _ => None
              end
  end.

Definition k_transpose (is_string : bool) (t : mten) : res mten :=
  match mt_old t with
  | None => Ok t
  | Some _ =>
    let a := mt_ap t in
    if is_scalar (shp a) then Ok t else
    let exp := default_strides (ord a) (shp a) in
    let a' := mkAP (shp a) (copy_prefix (str a) exp) (ord a) (fin a) in
    if is_vector (shp a) then Ok (mkMT a' None (mt_view t) (mt_data t) (mt_mask t) (mt_soft t)) else
    match iter_all a with
    | None => Panic
    | Some idx =>
      let mask' : option (list bool) :=
        (* (string tensors move their mask too since the fix f218ec0: transposeMask runs first) *)
        if negb (k_is_masked t) then Some (mt_mask t) else
        (* tmp := make([]bool, len(orig)); tmp[j] = orig[i]; copy(orig, tmp) *)
        match gather (mt_mask t) idx with
        | Some g => if zlen (mt_mask t) <? zlen g then None
                    else Some (g ++ repeat false (length (mt_mask t) - length g))
        | None => None
        end in
      match mask', gather (mt_data t) idx with
      | Some m', Some tmp => Ok (mkMT a' None (mt_view t) (copy_prefix (mt_data t) tmp) m' (mt_soft t))
      | _, _ => Panic
      end
    end
  end.

(* ---- T (lazy): the mask is not touched; a second, different T first transposes physically ---- *)
Definition k_ut (t : mten) : mten :=
  match mt_old t with
  | Some o => mkMT o None (mt_view t) (mt_data t) (mt_mask t) (mt_soft t)
  | None => t
  end.

Definition k_T (is_string : bool) (t : mten) (axes : list Z) : res mten :=
  match ap_T (mt_ap t) axes with
  | TErr => Err
  | TNoop => Ok t
  | TPanic => Panic
  | TOk transform _ =>
    match mt_old t with
    | None => Ok (mkMT transform (Some (mt_ap t)) (mt_view t) (mt_data t) (mt_mask t) (mt_soft t))
    | Some o =>
      if is_vector (shp (mt_ap t)) then Ok (k_ut t) else
      match prefix_eqb (shp transform) (shp o) with
      | None => Panic
      | Some true => Ok (k_ut t)
      | Some false =>
        match k_transpose is_string t with
        | Ok t' => Ok (mkMT transform (Some (mt_ap t')) (mt_view t') (mt_data t') (mt_mask t') (mt_soft t'))
        | Err => Err
        | Panic => Panic
        end
      end
    end
  end.

(* ---- Materialize: a fresh row-major tensor; copyDenseIter copies the mask RAW (when the source
   IsMasked) and the data through plain iterators ---- *)
Definition k_requires_iterator (t : mten) : bool :=
  if mt_len t =? 1 then false
  else is_nc (ord (mt_ap t)) || is_some (mt_old t) || k_is_masked t.

Fixpoint copy_cells (dst src : list V) (di si : list Z) : option (list V) :=
  match di, si with
  | i :: di', j :: si' =>
    match zget src j with
    | Some v => match zset dst i v with
                | Some dst' => copy_cells dst' src di' si'
                | None => None
                end
    | None => None
    end
  | _, _ => Some dst
  end.

Definition k_materialize (t : mten) : res mten :=
  if negb (mt_view t || is_some (mt_old t)) then Ok t else
  let sh := shp (mt_ap t) in
  let n := if is_scalar sh then 1 else size sh in
  let dap := mkAP sh (calc_strides sh) 0 true in
  let d0 := repeat vzero (Z.to_nat n) in
  let dmask := if k_is_masked t then mt_mask t else [] in
  let dst0 := mkMT dap None false d0 [] false in
  if negb (k_requires_iterator dst0) && negb (k_requires_iterator t)
     && has_same_order (ord dap) (ord (mt_ap t))
  then Ok (mkMT dap None false (copy_prefix d0 (mt_data t)) dmask false)
  else
    match iter_all dap, iter_all (mt_ap t) with
    | Some di, Some si =>
      match copy_cells d0 (mt_data t) di si with
      | Some d => Ok (mkMT dap None false d dmask false)
      | None => Panic
      end
    | _, _ => Panic
    end.

(* ---- MaskAt / At over the logical box ---- *)
Definition k_maskat (t : mten) (c : list Z) : res bool :=
  if negb (k_is_masked t) then Ok false else
  if negb (length c =? length (shp (mt_ap t)))%nat then Err else
  match ltoi (shp (mt_ap t)) (str (mt_ap t)) c with
  | Ok i => match zget (mt_mask t) i with Some b => Ok b | None => Panic end
  | Err => Err
  | Panic => Panic
  end.
Definition k_logical_mask (t : mten) : list (res bool) := map (k_maskat t) (coords (shp (mt_ap t))).
Definition k_logical (t : mten) : list (res V) :=
  map (window_at (mt_data t) (shp (mt_ap t)) (str (mt_ap t))) (coords (shp (mt_ap t))).

(* ---- masked iteration: NextValidity until exhaustion: (offset, valid) ---- *)
Fixpoint validity_loop (fuel : nat) (m : mit) : res (list (Z * bool)) :=
  match fuel with
  | O => Panic
  | S f =>
    match mit_next_validity m with
    | (m', Ok p) => match validity_loop f m' with
                    | Ok r => Ok (p :: r)
                    | Err => Err
                    | Panic => Panic
                    end
    | (_, Err) => Ok []
    | (_, Panic) => Panic
    end
  end.
Definition k_validity (t : mten) : res (list (Z * bool)) :=
  let m := k_miter t in validity_loop (mit_fuel m) m.

(* ---- safe elementwise binary operation a.Op(b) on same-shape operands (StdEng.Add & co.):
     useIter = a.RequiresIterator() || b.RequiresIterator() || different data order
     retVal = a.Clone(); OpIter(retVal.data, b.data, ait, bit): a[i] = f a[i] b[j] only where both
     NextValidity answers are valid; without iterators the raw vector kernel runs over the
     windows (b is re-sliced to len(a): a shorter b panics) ---- *)
Variable vop : V -> V -> V.

Fixpoint binop_loop (fuel : nat) (ma mb : mit) (da db : list V) : res (list V) :=
  match fuel with
  | O => Panic
  | S f =>
    match mit_next_validity ma with
    | (ma', Ok (i, vi)) =>
      match mit_next_validity mb with
      | (mb', Ok (j, vj)) =>
        if vi && vj then
          match zget da i, zget db j with
          | Some x, Some y =>
            match zset da i (vop x y) with
            | Some da' => binop_loop f ma' mb' da' db
            | None => Panic
            end
          | _, _ => Panic
          end
        else binop_loop f ma' mb' da db
      | (_, Err) => Ok da
      | (_, Panic) => Panic
      end
    | (_, Err) => Ok da
    | (_, Panic) => Panic
    end
  end.

Fixpoint binop_vs_loop (fuel : nat) (ma : mit) (da : list V) (y : V) : res (list V) :=
  match fuel with
  | O => Panic
  | S f =>
    match mit_next_validity ma with
    | (ma', Ok (i, vi)) =>
      if vi then
        match zget da i with
        | Some x => match zset da i (vop x y) with
                    | Some da' => binop_vs_loop f ma' da' y
                    | None => Panic
                    end
        | None => Panic
        end
      else binop_vs_loop f ma' da y
    | (_, Err) => Ok da
    | (_, Panic) => Panic
    end
  end.

(* E.OpIter(dataX, dataB, xit, bit) with its dispatch on "scalars" (headers of length one):
     both of length one: the vector kernel on the two cells (masks ignored);
     only x: OpIterSV writes into b's data, x keeps its value;
     only b: OpIterVS over x's valid cells; otherwise the validity-aware loop *)
Definition op_iter (dx : list V) (mx : mit) (b : mten) : res (list V) :=
  match dx, mt_data b with
  | [x], [y] => Ok [vop x y]
  | [x], _ => Ok dx
  | _, [y] => binop_vs_loop (mit_fuel mx) mx dx y
  | _, _ => binop_loop (mit_fuel mx) mx (k_miter b) dx (mt_data b)
  end.

Definition use_iter (a b : mten) (r : option mten) : bool :=
  k_requires_iterator a || k_requires_iterator b
  || negb (has_same_order (ord (mt_ap a)) (ord (mt_ap b)))
  || match r with
     | Some r => k_requires_iterator r
                 || negb (has_same_order (ord (mt_ap a)) (ord (mt_ap r)))
                 || negb (has_same_order (ord (mt_ap b)) (ord (mt_ap r)))
     | None => false
     end.

(* safe: retVal = a.Clone() *)
Definition k_binop (a b : mten) : res mten :=
  let r := k_clone a in
  if use_iter a b None then
    match op_iter (mt_data r) (k_miter a) b with
    | Ok d => Ok (with_data r d)
    | Err => Err
    | Panic => Panic
    end
  else
    if mt_len b <? mt_len a then Panic
    else Ok (with_data r (kmap2 vop (mt_data a) (mt_data b))).

(* UseUnsafe(): the same kernels write into a itself *)
Definition k_binop_unsafe (a b : mten) : res mten :=
  if use_iter a b None then
    match op_iter (mt_data a) (k_miter a) b with
    | Ok d => Ok (with_data a d)
    | Err => Err
    | Panic => Panic
    end
  else
    if mt_len b <? mt_len a then Panic
    else Ok (with_data a (kmap2 vop (mt_data a) (mt_data b))).

(* WithReuse(r), r of the operands' shape: with iterators  storage.CopyIter(r, a) through PLAIN
   Next on both (every element of a, masked or not), then OpIter(r, b, r's iterator, bit);
   without: the Recv vector kernel *)
Definition k_binop_reuse (a b r : mten) : res mten :=
  if use_iter a b (Some r) then
    match iter_all (mt_ap r), iter_all (mt_ap a) with
    | Some di, Some si =>
      match copy_cells (mt_data r) (mt_data a) di si with
      | Some d0 =>
        match op_iter d0 (k_miter r) b with
        | Ok d => Ok (with_data r d)
        | Err => Err
        | Panic => Panic
        end
      | None => Panic
      end
    | _, _ => Panic
    end
  else
    if (mt_len a <? mt_len r) || (mt_len b <? mt_len r) then Panic
    else Ok (with_data r (firstn (length (mt_data r)) (kmap2 vop (mt_data a) (mt_data b)))).

(* WithIncr(r): incr[k] += a[i] op b[j] where all three NextValidity answers are valid
   (operands longer than one cell: the length-one dispatch is F52) *)
Variable vadd : V -> V -> V.
Fixpoint incr_loop (fuel : nat) (ma mb mr : mit) (da db dr : list V) : res (list V) :=
  match fuel with
  | O => Panic
  | S f =>
    match mit_next_validity ma with
    | (ma', Ok (i, vi)) =>
      match mit_next_validity mb with
      | (mb', Ok (j, vj)) =>
        match mit_next_validity mr with
        | (mr', Ok (k, vk)) =>
          if vi && vj && vk then
            match zget da i, zget db j, zget dr k with
            | Some x, Some y, Some z =>
              match zset dr k (vadd z (vop x y)) with
              | Some dr' => incr_loop f ma' mb' mr' da db dr'
              | None => Panic
              end
            | _, _, _ => Panic
            end
          else incr_loop f ma' mb' mr' da db dr
        | (_, Err) => Ok dr
        | (_, Panic) => Panic
        end
      | (_, Err) => Ok dr
      | (_, Panic) => Panic
      end
    | (_, Err) => Ok dr
    | (_, Panic) => Panic
    end
  end.

Definition k_binop_incr (a b r : mten) : res mten :=
  if use_iter a b (Some r) then
    let ma := k_miter a in
    match incr_loop (mit_fuel ma) ma (k_miter b) (k_miter r) (mt_data a) (mt_data b) (mt_data r) with
    | Ok d => Ok (with_data r d)
    | Err => Err
    | Panic => Panic
    end
  else
    if (mt_len a <? mt_len r) || (mt_len b <? mt_len r) then Panic
    else Ok (with_data r (kmap2 vadd (mt_data r) (kmap2 vop (mt_data a) (mt_data b)))).

End Masked.

(* element tokens are integers: the comparison instances used by the correspondence driver for
   every numeric element type (strings compare lexicographically; the driver passes its own) *)
Definition z_within (a x rtol : Z) (atol : option Z) : bool :=
  Z.abs (a - x) <=? match atol with None => 0 | Some t => t + rtol * Z.abs x end.

(* ======================= SPEC =======================
   The logical array: a shape and the row-major lists of its elements and of its mask bits
   (an unmasked tensor = all bits false). *)
Section MaskSpec.
Variable V : Type.

(* a masking predicate marks exactly the elements satisfying it; soft: replaces, hard: adds *)
Definition ks_pred (soft : bool) (p : V -> bool) (d : list V) (m : list bool) : list bool :=
  if soft then map p d else kmap2 orb m (map p d).

Definition ks_count (m : list bool) : Z := Z.of_nat (count_occ bool_dec m true).
Definition ks_noncount (m : list bool) : Z := Z.of_nat (count_occ bool_dec m false).
Definition ks_any (m : list bool) : bool := existsb (fun b => b) m.
Definition ks_all (m : list bool) : bool := forallb (fun b => b) m.

(* per-axis: the result has the shape without that axis; entry c' folds the lane through c' *)
Definition ks_insert_at {A} (k : nat) (x : A) (c : list A) : list A := firstn k c ++ x :: skipn k c.
Definition ks_remove_at {A} (k : nat) (s : list A) : list A := firstn k s ++ skipn (S k) s.
Definition ks_lane {A} (dflt : A) (shape : list Z) (ax : nat) (m : list A) (c' : list Z) : list A :=
  map (fun k => nth (Z.to_nat (rank_rm shape (ks_insert_at ax k c'))) m dflt)
      (zseq 0 (Z.to_nat (nth ax shape 0))).
Definition ks_reduce_axis {X} (f : list bool -> X) (shape : list Z) (ax : nat) (m : list bool)
  : list Z * list X :=
  (ks_remove_at ax shape, map (fun c' => f (ks_lane false shape ax m c')) (coords (ks_remove_at ax shape))).

(* maximal runs [s, e) of bits equal to [want] in the row-major flattening *)
Fixpoint ks_runs_from (want : bool) (m : list bool) (i : Z) (open : option Z) : list (Z * Z) :=
  match m with
  | [] => match open with Some s => [(s, i)] | None => [] end
  | b :: r =>
    if Bool.eqb b want then
      ks_runs_from want r (i + 1) (match open with Some s => Some s | None => Some i end)
    else
      match open with
      | Some s => (s, i) :: ks_runs_from want r (i + 1) None
      | None => ks_runs_from want r (i + 1) None
      end
  end.
Definition ks_runs (want : bool) (m : list bool) : list (Z * Z) := ks_runs_from want m 0 None.

(* first and last flat index whose bit is [want]; (-1, -1) when there is none *)
Fixpoint ks_first (want : bool) (m : list bool) (i : Z) : Z :=
  match m with
  | [] => -1
  | b :: r => if Bool.eqb b want then i else ks_first want r (i + 1)
  end.
Fixpoint ks_last (want : bool) (m : list bool) (i : Z) (acc : Z) : Z :=
  match m with
  | [] => acc
  | b :: r => ks_last want r (i + 1) (if Bool.eqb b want then i else acc)
  end.
Definition ks_edges (want : bool) (m : list bool) : Z * Z := (ks_first want m 0, ks_last want m 0 (-1)).

(* filling replaces exactly the masked elements *)
Definition ks_fill (fv : V) (d : list V) (m : list bool) : list V :=
  kmap2 (fun v (b : bool) => if b then fv else v) d m.

(* masked iteration visits the elements in logical order; valid = not masked *)
Definition ks_validity (d : list V) (m : list bool) : list (V * bool) := combine d (map negb m).

(* transposition by [axes] ([] = reversal): new shape = shape[axes]; the entry at c is the source
   entry at the coordinate c' with c'[axes[i]] = c[i] *)
Fixpoint ks_index_of (j : Z) (axes : list Z) (i : Z) : Z :=
  match axes with
  | [] => 0
  | a :: r => if a =? j then i else ks_index_of j r (i + 1)
  end.
Definition ks_axes (dims : nat) (axes : list Z) : list Z :=
  match axes with [] => rev_axes dims | _ => axes end.
Definition ks_T_shape (axes shape : list Z) : list Z := permute 0 (ks_axes (length shape) axes) shape.
Definition ks_T {A} (dflt : A) (axes shape : list Z) (l : list A) : list A :=
  let ax := ks_axes (length shape) axes in
  map (fun c => let c' := map (fun j => znth 0 c (ks_index_of j ax 0)) (zseq 0 (length shape)) in
                nth (Z.to_nat (rank_rm shape c')) l dflt)
      (coords (ks_T_shape axes shape)).

(* slicing: per axis the selected indices; the entry of the view is the source entry there *)
Fixpoint stepped (s step : Z) (n : nat) : list Z :=
  match n with O => [] | S n' => s :: stepped (s + step) step n' end.
Definition ks_sel (sl : slice) (sz : Z) : list Z :=
  match sl with
  | None => zseq 0 (Z.to_nat sz)
  | Some (s, e, st) =>
    let e' := Z.min e sz in
    if st <=? 1 then zseq s (Z.to_nat (e' - s))
    else stepped s st (Z.to_nat ((e' - s + st - 1) / st))
  end.
Fixpoint ks_sels (shape : list Z) (sls : list slice) : list (list Z) :=
  match shape with
  | [] => []
  | sz :: shape' => ks_sel (match sls with [] => None | s :: _ => s end) sz :: ks_sels shape' (tl sls)
  end.
Fixpoint ks_product (sels : list (list Z)) : list (list Z) :=
  match sels with
  | [] => [[]]
  | s :: r => flat_map (fun x => map (cons x) (ks_product r)) s
  end.
(* axes of extent one that were given a slice are dropped *)
Fixpoint ks_slice_shape (sels : list (list Z)) (sls : list slice) : list Z :=
  match sels with
  | [] => []
  | s :: r =>
    let rest := ks_slice_shape r (tl sls) in
    match sls with
    | Some _ :: _ => if (length s =? 1)%nat then rest else zlen s :: rest
    | _ => zlen s :: rest
    end
  end.
Definition ks_slice {A} (dflt : A) (shape : list Z) (sls : list slice) (l : list A) : list Z * list A :=
  let sels := ks_sels shape sls in
  (ks_slice_shape sels sls,
   map (fun c => nth (Z.to_nat (rank_rm shape c)) l dflt) (ks_product sels)).

End MaskSpec.
