(* RefineProofs2.v — the history refinement of RefineProofs.v extended to the VALUE-LEVEL operation
   language RunZ.zop: the MODEL interpreter RunZ.zstep_model and the SPEC interpreter RunZ.zstep_spec,
   run side by side over a history of structural operations (the fragment of RefineProofs.v, plus
   RollAxis, tensor.Transpose and — with one more invariant — Reshape) and ELEMENTWISE operations
   (ZBin / ZBinS / ZUn in the option modes safe / unsafe / reuse / incr, ZCmp safe / unsafe / reuse,
   ZCmpS safe), can never disagree where the guards hold.
   The per-operation facts about the engine come from OpsProofs.v / OpsProofs2.v (fresh_post,
   dest_post, cmp_post ...); this file connects them with the simulation relation R:
     1.  Rphi_fresh    a fresh result tensor in an allocation of its own (every safe mode)
     2.  Rphi_dest     a destination overwritten in place (unsafe / reuse / incr)
     3.  guards -> OpsProofs.wf_dense of the operands
     4.  the structure of a safe-mode result (clone of the operand / NewDense), which the
         statements of OpsProofs.v do not expose
     5.-12. the SPEC side of the delivery; one lemma sim_Z<op>_<mode> per operation and mode
     13. ORollAxis, OApiTranspose
     then zstep_sim, zhistory_refines, the guard gaps, and OReshape in histories (SRM). *)
From Coq Require Import Lia ZifyBool.
From TV Require Import Base Index AP Iter Mem Spec Guards Run Ops Reduce Shapeops Linalg RunZ.
From TV Require Import IndexProofs IterProofs APProofs OpsProofs OpsProofs2 MemProofs RefineProofs.

Arguments Z.mul : simpl never.
Arguments Z.add : simpl never.
Arguments Z.sub : simpl never.
Arguments Z.leb : simpl never.
Arguments Z.ltb : simpl never.
Arguments Z.eqb : simpl never.
Arguments Z.div : simpl never.
Arguments Z.modulo : simpl never.
Arguments Z.min : simpl never.
Arguments Z.of_nat : simpl never.
Arguments Z.to_nat : simpl never.

Local Arguments bufs {V}.
Local Arguments tens {V}.
Local Arguments s_vals {V}.
Local Arguments s_tens {V}.

Local Notation get_buf := (Mem.get_buf Z).
Local Notation get_t := (Mem.get_t Z).
Local Notation set_t := (Mem.set_t Z).
Local Notation sget := (Spec.sget Z).
Local Notation sset := (Spec.sset Z).
Local Notation bget := (MemProofs.bget Z).
Local Notation win_get := (Mem.win_get Z).
Local Notation wf_dense := (MemProofs.wf_dense Z).
Local Notation owf := (OpsProofs.wf_dense Z).
Local Notation ocell := (OpsProofs.cell Z).
Local Notation R := (RefineProofs.R Z 0).
Local Notation Rphi := (RefineProofs.Rphi Z 0).
Local Notation RM := (RefineProofs.RM Z).
Local Notation ten_ok := (RefineProofs.ten_ok Z).
Local Notation slogical := (Spec.slogical Z 0).

(* ====================================================================================== *)
(*  0. small facts                                                                         *)
(* ====================================================================================== *)
Lemma bget_range σ b p v : bget σ b p = Some v -> 0 <= p < zlen (get_buf σ b).
Proof. apply (OpsProofs.peek_some_range Z). Qed.

Lemma bget_some σ b p : 0 <= p < zlen (get_buf σ b) -> exists v, bget σ b p = Some v.
Proof. apply (OpsProofs.peek_range_some Z). Qed.

(* the offset of a logical cell, decidably *)
Lemma logical_dec (a : ap) (i : Z) : pos_shape (shp a) ->
  {c | inbox (shp a) c /\ i = dot (str a) c} + {forall c, inbox (shp a) c -> i <> dot (str a) c}.
Proof.
  intro Hp.
  destruct (find (fun c => dot (str a) c =? i) (coords (shp a))) as [c|] eqn:E.
  - left. exists c. apply find_some in E as [Hin Hc]. split; [apply (MemProofs.coords_In _ _ Hp); exact Hin|lia].
  - right. intros c Hc Hi. apply (MemProofs.coords_In _ _ Hp) in Hc.
    pose proof (find_none _ _ E c Hc) as Hn. cbv beta in Hn. lia.
Qed.

(* a tensor of a related pair of states: its logical elements are the SPEC's *)
Lemma R_cell φ σ ς t d x c : Rphi φ σ ς -> get_t σ t = Some d -> sget ς t = Some x ->
  inbox (shp (d_ap d)) c ->
  bget σ (d_buf d) (pos d c) = Some (nth (Z.to_nat (rank_rm (shp (d_ap d)) c)) (slogical ς x) 0) /\
  (Z.to_nat (rank_rm (shp (d_ap d)) c) < length (s_cells x))%nat.
Proof.
  intros (_ & Hval & _ & Hall) Ht Hx Hc.
  destruct (Hall t d x Ht Hx) as (_ & (Hs & Ha & Hl & Hcell) & _).
  pose proof Ha as (Hp & _). pose proof (rank_rm_bound _ _ Hp Hc) as Hr.
  rewrite Hs in Hc, Hp, Hr |- *. specialize (Hcell c Hc). fold (pos d c) in Hcell.
  destruct (Hval _ _ _ Hcell) as [_ Hb]. rewrite Hb. split; [|lia].
  unfold Spec.slogical. rewrite (nth_map_lt _ O 0) by lia. reflexivity.
Qed.

Lemma ocell_bget σ d c : wf_dense σ d -> inbox (shp (d_ap d)) c -> ocell σ d c = bget σ (d_buf d) (pos d c).
Proof. intros Hwf Hc. apply (MemProofs.cell_bget Z σ d c Hwf Hc). Qed.

(* ====================================================================================== *)
(*  1. a FRESH result tensor in an allocation of its own (every safe mode)                 *)
(* ====================================================================================== *)
Lemma Rphi_alloc_at φ σ ς σ' nb d' newvals x' (ψ : Z -> option nat) :
  Rphi φ σ ς ->
  (forall k, (k < length (bufs σ))%nat -> get_buf σ' k = get_buf σ k) ->
  tens σ' = tens σ ++ [d'] -> (length (bufs σ) <= nb)%nat ->
  let ς' := mkSS Z (s_vals ς ++ newvals) (s_tens ς ++ [x']) in
  let φ' := fun b p => if Nat.eqb b nb then ψ p else φ b p in
  (forall p k, ψ p = Some k ->
     (length (s_vals ς) <= k < length (s_vals ς) + length newvals)%nat /\
     bget σ' nb p = Some (nth (k - length (s_vals ς)) newvals 0)) ->
  (forall p p' k, ψ p = Some k -> ψ p' = Some k -> p = p') ->
  ten_ok φ' σ' d' x' ->
  Rphi φ' σ' ς'.
Proof.
  intros (Hlen & Hval & Hinj & Hall) Hbufs Htens Hnb ς' φ' Hψ Hψi Hnew.
  assert (Hold : forall b p k, φ b p = Some k -> (b < length (bufs σ))%nat).
  { intros b p k H. destruct (Hval b p k H) as [_ Hb]. apply (bget_buf_lt _ _ _ _ _ Hb). }
  assert (Hext : extends Z σ σ').
  { split; [exact Hbufs|]. intros t d H. unfold Mem.get_t in *. rewrite Htens.
    rewrite nth_error_app1; [exact H|]. apply nth_error_Some_lt in H. exact H. }
  split; [unfold ς'; cbn [s_tens]; rewrite Htens, !app_length; cbn [length]; lia|].
  split; [|split].
  - intros b p k H. unfold φ' in H. destruct (Nat.eqb_spec b nb) as [->|Hne].
    + destruct (Hψ p k H) as [Hk Hz]. unfold ς'. cbn [s_vals]. rewrite app_length. split; [lia|].
      rewrite Hz. f_equal. rewrite app_nth2 by lia. reflexivity.
    + destruct (Hval b p k H) as [Hk Hb]. unfold ς'. cbn [s_vals]. rewrite app_length. split; [lia|].
      rewrite (extends_bget Z σ σ' b p Hext (Hold b p k H)).
      rewrite app_nth1 by exact Hk. exact Hb.
  - intros b p b' p' k H1 H2. unfold φ' in H1, H2.
    destruct (Nat.eqb_spec b nb) as [->|Hne]; destruct (Nat.eqb_spec b' nb) as [->|Hne'].
    + split; [reflexivity|]. apply (Hψi p p' k H1 H2).
    + destruct (Hψ p k H1) as [Hk _]. destruct (Hval b' p' k H2) as [Hk' _]. lia.
    + destruct (Hψ p' k H2) as [Hk _]. destruct (Hval b p k H1) as [Hk' _]. lia.
    + apply (Hinj b p b' p' k H1 H2).
  - intros t d x Ht Hx. unfold Mem.get_t in Ht. rewrite Htens in Ht.
    unfold Spec.sget, ς' in Hx. cbn [s_tens] in Hx.
    apply nth_error_app_snoc in Ht as [[Hlt Ht]|[-> ->]];
      apply nth_error_app_snoc in Hx as [[Hlt' Hx]|[Hx ->]]; try lia.
    + specialize (Hall t d x Ht Hx). pose proof Hall as (Hwf & _).
      pose proof (wf_dense_buf_lt Z σ d Hwf) as Hb.
      apply (ten_ok_ext Z φ φ' σ σ'); [|apply (extends_wf Z σ σ' d Hext Hwf)|exact Hall].
      intro p. unfold φ'. destruct (Nat.eqb_spec (d_buf d) nb); [lia|reflexivity].
    + exact Hnew.
Qed.

(* the new tensor d' (not a view, nothing pending) holds vs, in row-major order of its shape *)
Lemma Rphi_fresh φ σ ς σ' d' vs cm :
  Rphi φ σ ς ->
  (forall k, (k < length (bufs σ))%nat -> get_buf σ' k = get_buf σ k) ->
  tens σ' = tens σ ++ [d'] -> (length (bufs σ) <= d_buf d')%nat ->
  wf_dense σ' d' -> d_view d' = false -> d_old d' = None ->
  length vs = Z.to_nat (size (shp (d_ap d'))) ->
  (forall c, inbox (shp (d_ap d')) c ->
     bget σ' (d_buf d') (pos d' c) = Some (nth (Z.to_nat (rank_rm (shp (d_ap d')) c)) vs 0)) ->
  exists φ', Rphi φ' σ'
    (mkSS Z (s_vals ς ++ vs)
       (s_tens ς ++ [mkSten (shp (d_ap d')) (seq (length (s_vals ς)) (length vs)) None 0 false cm])).
Proof.
  intros Hφ Hbufs Htens Hnb Hwf Hv Ho Hl Hcells.
  set (sh := shp (d_ap d')) in *. set (n0 := length (s_vals ς)).
  pose proof Hwf as (Hw & Ha & _). pose proof Ha as (Hp & Hls & _ & Hbnd & Hinj). fold sh in Hp, Hbnd, Hinj.
  set (ψ := fun p : Z =>
    match find (fun c => pos d' c =? p) (coords sh) with
    | Some c => Some (n0 + Z.to_nat (rank_rm sh c))%nat
    | None => None
    end).
  assert (Hψ : forall p k, ψ p = Some k ->
            exists c, inbox sh c /\ pos d' c = p /\ k = (n0 + Z.to_nat (rank_rm sh c))%nat).
  { intros p k Hk. unfold ψ in Hk. destruct (find _ (coords sh)) as [c|] eqn:E; [|discriminate].
    injection Hk as <-. apply find_some in E as [Hin Hc]. exists c.
    split; [apply (MemProofs.coords_In _ _ Hp); exact Hin|]. split; [lia|reflexivity]. }
  assert (Hψc : forall c, inbox sh c -> ψ (pos d' c) = Some (n0 + Z.to_nat (rank_rm sh c))%nat).
  { intros c Hc. unfold ψ. destruct (find _ (coords sh)) as [c'|] eqn:E.
    - apply find_some in E as [Hin Hc']. apply (MemProofs.coords_In _ _ Hp) in Hin.
      assert (c' = c) by (apply Hinj; [exact Hin|exact Hc|unfold pos in Hc'; lia]). subst. reflexivity.
    - apply (MemProofs.coords_In _ _ Hp) in Hc. pose proof (find_none _ _ E c Hc) as Hn. cbv beta in Hn. lia. }
  exists (fun b p => if Nat.eqb b (d_buf d') then ψ p else φ b p).
  apply (Rphi_alloc_at φ σ ς σ' (d_buf d') d' vs _ ψ Hφ Hbufs Htens Hnb).
  - intros p k Hk. destruct (Hψ p k Hk) as (c & Hc & <- & ->).
    pose proof (rank_rm_bound sh c Hp Hc) as Hr. fold n0. split; [lia|].
    replace (n0 + Z.to_nat (rank_rm sh c) - n0)%nat with (Z.to_nat (rank_rm sh c)) by lia.
    apply Hcells. exact Hc.
  - intros p p' k H1 H2. destruct (Hψ p k H1) as (c & Hc & <- & ->). destruct (Hψ p' _ H2) as (c' & Hc' & <- & E).
    pose proof (rank_rm_bound sh c Hp Hc). pose proof (rank_rm_bound sh c' Hp Hc').
    assert (c' = c); [|subst; reflexivity].
    rewrite <- (unrank_rank sh c Hp Hc), <- (unrank_rank sh c' Hp Hc'). f_equal. lia.
  - split; [exact Hwf|]. split; [|split; [cbn [s_view]; congruence|split]].
    + cbn [s_shape s_cells]. split; [reflexivity|]. split; [exact Ha|].
      split; [rewrite seq_length; exact Hl|].
      intros c Hc. rewrite Nat.eqb_refl. fold (pos d' c). rewrite (Hψc c Hc).
      pose proof (rank_rm_bound sh c Hp Hc) as Hr. rewrite seq_nth by lia. reflexivity.
    + unfold pend_ok. rewrite Ho. cbn [s_pending s_undo]. split; reflexivity.
    + intros _ p k Hk _. rewrite Nat.eqb_refl in Hk. destruct (Hψ p k Hk) as (c & Hc & Hpc & _).
      exists c. split; [exact Hc|symmetry; exact Hpc].
Qed.

(* ====================================================================================== *)
(*  2. a DESTINATION tensor overwritten in place (unsafe / reuse / incr)                   *)
(* ====================================================================================== *)
(* like Rphi_frame, but the store may have grown by engine temporaries (new allocations) *)
Lemma Rphi_frame_x φ σ ς σ' vals' :
  Rphi φ σ ς -> tens σ' = tens σ ->
  (forall t d, get_t σ t = Some d -> wf_dense σ d -> wf_dense σ' d) ->
  length vals' = length (s_vals ς) ->
  (forall b p k, φ b p = Some k -> bget σ' b p = Some (nth k vals' 0)) ->
  Rphi φ σ' (mkSS Z vals' (s_tens ς)).
Proof.
  intros (Hlen & Hval & Hinj & Hall) Ft Hwf Hvl Hnew.
  split; [cbn [s_tens]; congruence|]. split; [|split; [exact Hinj|]].
  - intros b p k Hk. cbn [s_vals]. destruct (Hval b p k Hk) as [Hk' _]. split; [lia|apply Hnew; exact Hk].
  - intros t d x Ht Hx. unfold Mem.get_t in Ht. rewrite Ft in Ht.
    change (sget ς t = Some x) in Hx. specialize (Hall t d x Ht Hx).
    apply (ten_ok_ext Z φ φ σ σ'); [reflexivity| |exact Hall].
    destruct Hall as (Hw & _). apply (Hwf t d Ht Hw).
Qed.

(* what an in-place elementwise write does (the common content of OpsProofs.dest_post and
   dest_post_x): the logical cells of D receive vs, nothing else that existed before changes *)
Definition dest_written (σ σ' : store Z) (D : dense) (vs : list Z) : Prop :=
  tens σ' = tens σ /\
  (forall k, (k < length (bufs σ))%nat -> k <> d_buf D -> get_buf σ' k = get_buf σ k) /\
  (forall c, inbox (shp (d_ap D)) c ->
     bget σ' (d_buf D) (pos D c) = Some (nth (Z.to_nat (rank_rm (shp (d_ap D)) c)) vs 0)) /\
  (forall i, (forall c, inbox (shp (d_ap D)) c -> i <> dot (str (d_ap D)) c) -> win_get σ' D i = win_get σ D i) /\
  (forall p, ~ (d_off D <= p < d_off D + d_len D) -> bget σ' (d_buf D) p = bget σ (d_buf D) p).

Lemma dest_written_bget σ σ' D vs b p : wf_dense σ D -> dest_written σ σ' D vs ->
  (b < length (bufs σ))%nat ->
  (forall c, inbox (shp (d_ap D)) c -> b = d_buf D -> p <> pos D c) ->
  bget σ' b p = bget σ b p.
Proof.
  intros Hwf (Ft & Hoth & Hcells & Hnl & Hout) Hb Hnc.
  destruct (Nat.eq_dec b (d_buf D)) as [->|Hne]; [|unfold MemProofs.bget; rewrite Hoth by assumption; reflexivity].
  destruct (Z_le_dec (d_off D) p) as [H1|H1]; [|apply Hout; lia].
  destruct (Z_lt_dec p (d_off D + d_len D)) as [H2|H2]; [|apply Hout; lia].
  replace p with (d_off D + (p - d_off D)) by lia.
  rewrite <- !(win_get_bget Z) by lia. apply Hnl.
  intros c Hc Hi. apply (Hnc c Hc eq_refl). unfold pos. lia.
Qed.

Lemma dest_written_wf σ σ' D vs d : wf_dense σ D -> dest_written σ σ' D vs ->
  wf_dense σ d -> wf_dense σ' d.
Proof.
  intros HwD Hdw (Hw & Ha & Ho). split; [|split; assumption].
  pose proof (wf_dense_buf_lt Z σ d (conj Hw (conj Ha Ho))) as Hb.
  pose proof Hdw as (Ft & Hoth & Hcells & Hnl & Hout).
  destruct Hw as (W0 & W1 & W2). split; [exact W0|]. split; [exact W1|].
  destruct (Nat.eq_dec (d_buf d) (d_buf D)) as [E|Hne]; [|rewrite Hoth by assumption; exact W2].
  rewrite E in *. clear E.
  assert (Hle : zlen (get_buf σ (d_buf D)) <= zlen (get_buf σ' (d_buf D))).
  { destruct (Z_le_dec (zlen (get_buf σ (d_buf D))) 0) as [Hz|Hz]; [unfold zlen in *; lia|].
    set (p := zlen (get_buf σ (d_buf D)) - 1).
    destruct (bget_some σ (d_buf D) p ltac:(lia)) as [v Hv].
    assert (exists v', bget σ' (d_buf D) p = Some v') as [v' Hv'].
    { pose proof HwD as (_ & (Hp & _) & _).
      destruct (Z_le_dec (d_off D) p) as [H1|H1]; [|exists v; rewrite Hout by lia; exact Hv].
      destruct (Z_lt_dec p (d_off D + d_len D)) as [H2|H2]; [|exists v; rewrite Hout by lia; exact Hv].
      destruct (logical_dec (d_ap D) (p - d_off D) Hp) as [(c & Hc & Hi)|Hn].
      - eexists. replace p with (pos D c) by (unfold pos; lia). apply Hcells. exact Hc.
      - exists v. replace p with (d_off D + (p - d_off D)) by lia.
        rewrite <- (win_get_bget Z) by lia. rewrite (Hnl _ Hn), (win_get_bget Z) by lia.
        replace (d_off D + (p - d_off D)) with p by lia. exact Hv. }
    apply bget_range in Hv'. lia. }
  lia.
Qed.

Lemma Rphi_dest φ σ ς σ' t D x vs :
  Rphi φ σ ς -> get_t σ t = Some D -> sget ς t = Some x ->
  dest_written σ σ' D vs -> length vs = length (s_cells x) ->
  Rphi φ σ' (mkSS Z (write_cells Z (s_vals ς) (s_cells x) vs) (s_tens ς)).
Proof.
  intros Hφ Ht Hx Hdw Hlv. pose proof Hφ as (_ & Hval & Hinj & Hall).
  destruct (Hall t D x Ht Hx) as (HwD & Hrep & _).
  pose proof Hrep as (Hs & Ha & Hl & Hc). pose proof Ha as (Hp & _). rewrite Hs in Hp.
  pose proof (rep_idx_inj φ D (d_ap D) (s_shape x) (s_cells x) Hinj Hrep) as Hidx.
  assert (Hnd : NoDup (s_cells x)) by (apply (NoDup_nth _ O); exact Hidx).
  assert (Hbound : forall k, In k (s_cells x) -> (k < length (s_vals ς))%nat).
  { intros k Hk. destruct (In_nth_rank _ _ k Hp Hl Hk) as (c & Hc1 & <-).
    destruct (Hval _ _ _ (Hc c Hc1)) as [Hlt _]. exact Hlt. }
  destruct (write_cells_nth Z 0 (s_cells x) (s_vals ς) vs (eq_sym Hlv) Hnd Hbound) as (W1 & W2 & W3).
  cbn zeta in W1, W2, W3.
  pose proof Hdw as (Ft & Hoth & Hcells & Hnl & Hout).
  apply (Rphi_frame_x φ σ ς σ'); [exact Hφ|exact Ft| |exact W1|].
  - intros t0 d0 _ Hw0. apply (dest_written_wf σ σ' D vs d0 HwD Hdw Hw0).
  - intros b p k Hk. destruct (in_dec Nat.eq_dec k (s_cells x)) as [Hin|Hnin].
    + destruct (In_nth_rank _ _ k Hp Hl Hin) as (c & Hc1 & Ek).
      pose proof (Hc c Hc1) as F. rewrite Ek in F. destruct (Hinj _ _ _ _ _ Hk F) as [-> ->].
      fold (pos D c). assert (Hc1' : inbox (shp (d_ap D)) c) by (rewrite Hs; exact Hc1).
      rewrite (Hcells c Hc1'). rewrite <- Ek. pose proof (rank_rm_bound _ _ Hp Hc1) as Hrk.
      rewrite W2 by lia. rewrite Hs. reflexivity.
    + rewrite (W3 k Hnin). destruct (Hval _ _ _ Hk) as [_ Bk]. rewrite <- Bk.
      apply (dest_written_bget σ σ' D vs b p HwD Hdw (bget_buf_lt _ _ _ _ _ Bk)).
      intros c Hc1 -> ->. rewrite Hs in Hc1. pose proof (Hc c Hc1) as F. fold (pos D c) in F.
      apply Hnin. replace k with (nth (Z.to_nat (rank_rm (s_shape x) c)) (s_cells x) O) by congruence.
      apply (rep_cell_in φ D (d_ap D)); assumption.
Qed.

(* ====================================================================================== *)
(*  3. what the guards give: operands well formed in the sense of OpsProofs                *)
(* ====================================================================================== *)
Lemma owf_of σ d : wf_dense σ d -> guard_read d = GOk -> is_cm (ord (d_ap d)) = false ->
  d_len d <> 1 -> owf σ d.
Proof.
  intros (Hw & Ha & _) Hg Hcm Hn1. pose proof Ha as (Hp & Hl & _ & Hb & Hinj).
  assert (Hpos : 0 < d_len d).
  { unfold guard_read in Hg. destruct (negb (pos_shapeb (shp (d_ap d))) || (d_len d <=? 0)) eqn:E; [discriminate|]. lia. }
  constructor.
  - exact Hp.
  - exact Hl.
  - apply (MemProofs.offsets_NoDup (d_len d)). exact Ha.
  - intros o Ho. unfold offsets in Ho. apply in_map_iff in Ho as (c & <- & Hc).
    apply Hb. apply (MemProofs.coords_In _ _ Hp). exact Hc.
  - destruct Hw as (W0 & W1 & W2). split; assumption.
  - lia.
  - exact Hcm.
  - intro Hri. apply (guard_read_contig d Hg Hcm Hri).
Qed.

Lemma existsb_false {A} (f : A -> bool) l : existsb f l = false -> forall x, In x l -> f x = false.
Proof.
  intros H x Hx. destruct (f x) eqn:E; [|reflexivity].
  assert (existsb f l = true) by (apply existsb_exists; exists x; auto). congruence.
Qed.

Lemma guard_elementwise_ok ops dst rsize rshape : guard_elementwise ops dst rsize rshape = GOk ->
  (forall d, In d ops -> guard_read d = GOk /\ is_scalar (shp (d_ap d)) = false /\ d_len d <> 1 /\
                         is_cm (ord (d_ap d)) = false) /\
  match dst with
  | None => True
  | Some r => d_len r <> 1 /\ d_len r = rsize /\ (d_view r = true -> shp (d_ap r) = rshape) /\
              (forall d, In d ops -> overlaps r d = false) /\
              is_cm (ord (d_ap r)) = false /\ guard_read r = GOk
  end.
Proof.
  unfold guard_elementwise. intro H.
  destruct (filter _ ops) as [|d0 l0] eqn:Ef.
  - assert (Hgr : forall d, In d ops -> guard_read d = GOk).
    { intros d Hd. destruct (guard_read d) eqn:E; [reflexivity|..];
        (assert (Hin : In d (filter (fun d => match guard_read d with GOk => false | _ => true end) ops))
           by (apply filter_In; split; [exact Hd|rewrite E; reflexivity]);
         rewrite Ef in Hin; destruct Hin). }
    destruct (existsb (fun d => is_scalar (shp (d_ap d))) ops) eqn:E1; [discriminate|].
    destruct (existsb (fun d => d_len d =? 1) ops || match dst with Some d => d_len d =? 1 | None => false end) eqn:E2;
      [discriminate|].
    apply orb_false_iff in E2 as [E2 E2'].
    destruct dst as [r|].
    + destruct (negb (d_len r =? rsize) || (d_view r && negb (list_eqb (shp (d_ap r)) rshape))) eqn:E3; [discriminate|].
      destruct (existsb (overlaps r) ops) eqn:E4; [discriminate|].
      destruct (is_cm (ord (d_ap r)) || existsb (fun x => is_cm (ord (d_ap x))) ops) eqn:E5; [discriminate|].
      apply orb_false_iff in E5 as [E5 E5']. apply orb_false_iff in E3 as [E3 E3'].
      split.
      * intros d Hd. split; [apply Hgr; exact Hd|]. split; [apply (existsb_false _ _ E1 d Hd)|].
        split; [pose proof (existsb_false _ _ E2 d Hd) as Q; cbv beta in Q; lia|apply (existsb_false _ _ E5' d Hd)].
      * split; [lia|]. split; [lia|]. split.
        { intro Hv. rewrite Hv in E3'. cbn [andb] in E3'. apply negb_false_iff in E3'.
          apply list_eqb_true in E3'. exact E3'. }
        split; [intros d Hd; apply (existsb_false _ _ E4 d Hd)|]. split; [exact E5|].
        destruct (guard_read r); try discriminate H; reflexivity.
    + destruct (existsb (fun x => is_cm (ord (d_ap x))) ops) eqn:E5; [discriminate|].
      split; [|exact I].
      intros d Hd. split; [apply Hgr; exact Hd|]. split; [apply (existsb_false _ _ E1 d Hd)|].
      split; [pose proof (existsb_false _ _ E2 d Hd) as Q; cbv beta in Q; lia|apply (existsb_false _ _ E5 d Hd)].
  - exfalso.
    assert (Hin : In d0 (filter (fun d => match guard_read d with GOk => false | _ => true end) ops))
      by (rewrite Ef; left; reflexivity).
    apply filter_In in Hin as [_ Hin]. rewrite H in Hin. discriminate.
Qed.

Definition dst_of (σ : store Z) (m : mode) : option dense :=
  match m with MReuse r | MIncr r => get_t σ r | _ => None end.

(* zguard, unfolded once per operation *)
Lemma zguard_ZBin σ code a b m api da db : get_t σ a = Some da -> get_t σ b = Some db ->
  zguard σ (ZBin code a b m api) = GOk ->
  guard_elementwise [da; db] (dst_of σ m) (size (shp (d_ap da))) (shp (d_ap da)) = GOk /\
  (negb (list_eqb (shp (d_ap da)) (shp (d_ap db))) && shape_eq (shp (d_ap da)) (shp (d_ap db))) = false.
Proof.
  intros Ha Hb H. unfold zguard in H. cbn [flat_map] in H. rewrite Ha, Hb in H. cbn [app] in H.
  destruct ((6 <=? code) && _) eqn:E0; [discriminate|]. unfold dst_of.
  destruct (guard_elementwise _ _ _ _) eqn:Eg; try discriminate H.
  destruct (negb _ && shape_eq _ _) eqn:Es; [discriminate|]. auto.
Qed.

Lemma zguard_ZUn σ code a m da : get_t σ a = Some da ->
  zguard σ (ZUn code a m) = GOk ->
  guard_elementwise [da] (dst_of σ m) (size (shp (d_ap da))) (shp (d_ap da)) = GOk.
Proof.
  intros Ha H. unfold zguard in H. cbn [flat_map] in H. rewrite Ha in H. cbn [app] in H. exact H.
Qed.

Lemma zguard_ZBinS σ code t s lft m d : get_t σ t = Some d ->
  zguard σ (ZBinS code t s lft m) = GOk ->
  guard_elementwise [d] (dst_of σ m) (size (shp (d_ap d))) (shp (d_ap d)) = GOk.
Proof.
  intros Ha H. unfold zguard in H. cbn [flat_map] in H. rewrite Ha in H. cbn [app] in H. unfold dst_of.
  destruct (guard_elementwise _ _ _ _) eqn:Eg; try discriminate H. reflexivity.
Qed.

(* an operand of an elementwise operation inside the guard *)
Lemma operand_facts φ σ ς t d ops dst rsize rshape :
  Rphi φ σ ς -> get_t σ t = Some d ->
  guard_elementwise ops dst rsize rshape = GOk -> In d ops ->
  exists x, sget ς t = Some x /\ wf_dense σ d /\ owf σ d /\ shp (d_ap d) = s_shape x /\
            length (s_cells x) = Z.to_nat (size (s_shape x)) /\ is_scalar (shp (d_ap d)) = false /\
            (d_old d = None -> s_pending x = O).
Proof.
  intros Hφ Ht Hg Hin. destruct (get_sget Z 0 φ σ ς t d Hφ Ht) as [x Hx]. exists x.
  pose proof Hφ as (_ & _ & _ & Hall). destruct (Hall t d x Ht Hx) as (Hwf & (Hs & _ & Hl & _) & _ & Hpend & _).
  destruct (guard_elementwise_ok _ _ _ _ Hg) as [Hops _]. destruct (Hops d Hin) as (G1 & G2 & G3 & G4).
  split; [exact Hx|]. split; [exact Hwf|]. split; [apply owf_of; assumption|]. split; [exact Hs|].
  split; [exact Hl|]. split; [exact G2|].
  intro Ho. unfold pend_ok in Hpend. rewrite Ho in Hpend. tauto.
Qed.

(* ====================================================================================== *)
(*  4. the structure of a safe-mode result: a clone of the first operand                   *)
(* ====================================================================================== *)
Definition clone_dense (nb : nat) (a : dense) : dense := mkDense nb 0 (d_len a) (d_ap a) (d_old a) false.

Definition same_lens (σ σ' : store Z) : Prop :=
  tens σ' = tens σ /\ forall b, length (get_buf σ' b) = length (get_buf σ b).

Lemma same_lens_refl σ : same_lens σ σ.
Proof. split; reflexivity. Qed.

Lemma same_lens_trans σ1 σ2 σ3 : same_lens σ1 σ2 -> same_lens σ2 σ3 -> same_lens σ1 σ3.
Proof. intros [T1 L1] [T2 L2]. split; [congruence|]. intro b. rewrite L2, L1. reflexivity. Qed.

Lemma run_asgs_lens g σ l e σ' e' : run_asgs Z 0 Z.add g σ l e = Some (σ', e') -> same_lens σ σ'.
Proof. intro H. apply (run_asgs_frame Z 0 Z.add) in H as (Ht & _ & Hl & _). split; assumption. Qed.

Lemma run_opt_lens g σ l σ' e' : run_opt Z 0 Z.add g σ l = Some (σ', e') -> same_lens σ σ'.
Proof. destruct l as [l|]; cbn [run_opt]; [apply run_asgs_lens|discriminate]. Qed.

Lemma drop_err_inv (r : option (store Z * bool)) σ' e' : drop_err Z r = Some (σ', e') ->
  exists e, r = Some (σ', e).
Proof. destruct r as [[σ1 e]|]; cbn [drop_err]; [|discriminate]. intro H. injection H as <- <-. eauto. Qed.

Lemma e_plain_lens g σ a b σ' e' : e_plain Z 0 Z.add g σ a b = Some (σ', e') -> same_lens σ σ'.
Proof.
  unfold e_plain. intro H.
  destruct (isS a && negb (isS b)).
  { destruct (hd0 Z σ a); [apply (run_asgs_lens _ _ _ _ _ _ H)|discriminate]. }
  destruct (negb (isS a) && isS b).
  { destruct (hd0 Z σ b); [apply (run_asgs_lens _ _ _ _ _ _ H)|discriminate]. }
  destruct (isS a && isS b).
  - apply drop_err_inv in H as [e H]. apply (run_opt_lens _ _ _ _ _ H).
  - apply (run_opt_lens _ _ _ _ _ H).
Qed.

Lemma e_iter_lens g σ a b ai bi σ' e' : e_iter Z 0 Z.add g σ a b ai bi = Some (σ', e') -> same_lens σ σ'.
Proof.
  unfold e_iter. intro H. apply drop_err_inv in H as [e H].
  destruct (isS a && isS b); [apply (run_opt_lens _ _ _ _ _ H)|].
  destruct (isS a).
  { destruct (hd0 Z σ a); [apply (run_asgs_lens _ _ _ _ _ _ H)|discriminate]. }
  destruct (isS b).
  { destruct (hd0 Z σ b); [apply (run_asgs_lens _ _ _ _ _ _ H)|discriminate]. }
  apply (run_asgs_lens _ _ _ _ _ _ H).
Qed.

Lemma finish_new_inv (Rr : option (store Z * bool)) σ2 rt σ' t : finish_new Z Rr σ2 rt = (σ', OOk t) ->
  exists σ3, Rr = Some (σ3, false) /\ σ' = mkStore Z (bufs σ3) (tens σ3 ++ [rt]) /\ t = length (tens σ3).
Proof.
  unfold finish_new, add_t. destruct Rr as [[σ3 [|]]|]; intro H; try discriminate H.
  injection H as <- <-. exists σ3. auto.
Qed.

(* the result of `finish_new R σ2 rt` where (σ2, rt) is a clone of a and R keeps allocation sizes *)
Lemma clone_finish_struct σ0 a σ2 rt σx (Rr : option (store Z * bool)) σ' t :
  clone_tmp Z σ0 a = (σ2, rt) -> in_buf Z σ0 a -> 0 <= d_len a ->
  (forall σ3 e, Rr = Some (σ3, e) -> same_lens σ2 σ3) ->
  finish_new Z Rr σx rt = (σ', OOk t) ->
  tens σ' = tens σ0 ++ [clone_dense (length (bufs σ0)) a] /\ t = length (tens σ0) /\
  d_len a <= zlen (get_buf σ' (length (bufs σ0))).
Proof.
  intros Ec Hin Hl HR H.
  destruct (clone_tmp_spec Z σ0 a σ2 rt Ec Hin Hl) as (-> & Ht2 & _ & _ & [_ Hin2] & _).
  apply finish_new_inv in H as (σ3 & -> & -> & ->). destruct (HR σ3 false eq_refl) as [Ht3 Hl3].
  cbn [tens]. rewrite Ht3, Ht2. split; [reflexivity|]. split; [reflexivity|].
  cbn [d_off d_len d_buf] in Hin2. unfold zlen in *. change (Mem.get_buf Z (mkStore Z (bufs σ3) (tens σ0 ++ [mkDense (length (bufs σ0)) 0 (d_len a) (d_ap a) (d_old a) false])) (length (bufs σ0))) with (get_buf σ3 (length (bufs σ0))).
  rewrite Hl3. lia.
Qed.

Lemma vv_safe_struct g σ ta tb a b σ' t :
  get_t σ ta = Some a -> get_t σ tb = Some b -> shp (d_ap a) = shp (d_ap b) ->
  is_cm (ord (d_ap a)) = false -> is_cm (ord (d_ap b)) = false -> in_buf Z σ a -> 0 <= d_len a ->
  eng_arith_vv Z 0 Z.add g σ ta tb MSafe = (σ', OOk t) ->
  tens σ' = tens σ ++ [clone_dense (length (bufs σ)) a] /\ t = length (tens σ) /\
  d_len a <= zlen (get_buf σ' (length (bufs σ))).
Proof.
  intros Ha Hb Hsh Hca Hcb Hin Hl H.
  rewrite (eng_arith_vv_safe_unfold Z 0 Z.add g σ ta tb a b Ha Hb Hsh Hca Hcb) in H.
  destruct (clone_tmp Z σ a) as [σ2 rt] eqn:Ec.
  destruct (requires_iterator a || requires_iterator b).
  - destruct (all_iter a) as [ai|]; [|discriminate]. destruct (all_iter b) as [bi|]; [|discriminate].
    eapply (clone_finish_struct σ a σ2 rt σ2 _ σ' t Ec Hin Hl); [|exact H].
    intros σ3 e E. apply (e_iter_lens _ _ _ _ _ _ _ _ E).
  - eapply (clone_finish_struct σ a σ2 rt σ2 _ σ' t Ec Hin Hl); [|exact H].
    intros σ3 e E. apply (e_plain_lens _ _ _ _ _ _ E).
Qed.

(* ====================================================================================== *)
(*  5. the SPEC side of the delivery of a list of values                                   *)
(* ====================================================================================== *)
Lemma all_some_map_Some {A} (l : list A) : all_some (map (fun v => Some v) l) = Some l.
Proof. induction l as [|v l IH]; [reflexivity|]. unfold all_some in *. cbn [map fold_right]. rewrite IH. reflexivity. Qed.

Lemma map2_length {A B C} (f : A -> B -> C) : forall l1 l2, length l1 = length l2 ->
  length (map2 f l1 l2) = length l1.
Proof. induction l1 as [|x l1 IH]; intros [|y l2] H; cbn [map2 length] in *; try lia. rewrite IH by lia. reflexivity. Qed.

Lemma map2_nth {A B C} (f : A -> B -> C) da db dc : forall l1 l2 j, (j < length l1)%nat -> (j < length l2)%nat ->
  nth j (map2 f l1 l2) dc = f (nth j l1 da) (nth j l2 db).
Proof.
  induction l1 as [|x l1 IH]; intros [|y l2] [|j] H1 H2; cbn [map2 length nth] in *; try lia; [reflexivity|]. apply IH; lia.
Qed.

Lemma map2_map_Some {A B C} (f : A -> B -> C) : forall l1 l2,
  map2 (fun p q => Some (f p q)) l1 l2 = map (fun v => Some v) (map2 f l1 l2).
Proof. induction l1 as [|x l1 IH]; intros [|y l2]; cbn; try reflexivity. rewrite IH. reflexivity. Qed.

Lemma slogical_length ς x : length (slogical ς x) = length (s_cells x).
Proof. unfold Spec.slogical. apply map_length. Qed.

Lemma spec_deliver_safe ς ta x sh vs cm : sget ς ta = Some x -> s_pending x = O ->
  spec_vals_deliver ς ta sh (map (fun v => Some v) vs) (0, O) cm
  = Some (mkSS Z (s_vals ς ++ vs)
            (s_tens ς ++ [mkSten sh (seq (length (s_vals ς)) (length vs)) None 0 false cm]),
          RNew Z (length (s_tens ς))).
Proof.
  intros Hx Hp. unfold spec_vals_deliver. rewrite all_some_map_Some. cbn [fst snd].
  unfold spec_deliver, spec_deliver_gen. change (0 =? 0) with true. cbv iota.
  unfold s_alloc, s_add. rewrite Hx, Hp. cbn [Nat.eqb s_vals s_tens]. reflexivity.
Qed.

Lemma spec_deliver_unsafe ς ta x sh vs cm : sget ς ta = Some x -> length vs = length (s_cells x) ->
  spec_vals_deliver ς ta sh (map (fun v => Some v) vs) (1, O) cm
  = Some (mkSS Z (write_cells Z (s_vals ς) (s_cells x) vs) (s_tens ς), RNew Z ta).
Proof.
  intros Hx Hl. unfold spec_vals_deliver. rewrite all_some_map_Some. cbn [fst snd].
  unfold spec_deliver, spec_deliver_gen. change (1 =? 0) with false. change (1 =? 1) with true. cbv iota.
  rewrite Hx. replace (length (s_cells x) =? length vs)%nat with true by (symmetry; apply Nat.eqb_eq; lia).
  reflexivity.
Qed.

Lemma sten_eta x : mkSten (s_shape x) (s_cells x) (s_undo x) (s_pending x) (s_view x) (s_cm x) = x.
Proof. destruct x; reflexivity. Qed.

(* reuse (mode 2) / incr (mode 3) into a destination of the result's shape *)
Lemma spec_deliver_dest ς ta r xr vs cm (incr : bool) : sget ς r = Some xr -> length vs = length (s_cells xr) ->
  spec_vals_deliver ς ta (s_shape xr) (map (fun v => Some v) vs) (if incr then 3 else 2, r) cm
  = Some (mkSS Z (write_cells Z (s_vals ς) (s_cells xr)
                    (if incr then map (fun p => Z.add (nth (fst p) (s_vals ς) 0) (snd p)) (combine (s_cells xr) vs)
                     else vs)) (s_tens ς), RNew Z r).
Proof.
  intros Hx Hl. unfold spec_vals_deliver. rewrite all_some_map_Some. cbn [fst snd].
  unfold spec_deliver, spec_deliver_gen.
  replace ((if incr then 3 else 2) =? 0) with false by (destruct incr; reflexivity).
  replace ((if incr then 3 else 2) =? 1) with false by (destruct incr; reflexivity).
  replace ((if incr then 3 else 2) =? 2) with (negb incr) by (destruct incr; reflexivity).
  cbv iota. rewrite Hx.
  replace (length (s_cells xr) =? length vs)%nat with true by (symmetry; apply Nat.eqb_eq; lia).
  cbn [negb]. rewrite shape_eq_refl. cbn [negb andb].
  replace (list_eqb (s_shape xr) (s_shape xr)) with true by (symmetry; apply list_eqb_true; reflexivity).
  cbv iota. rewrite andb_false_r. rewrite sten_eta.
  set (vals := if negb incr then vs else _).
  assert (Ev : vals = if incr then map (fun p => Z.add (nth (fst p) (s_vals ς) 0) (snd p)) (combine (s_cells xr) vs) else vs)
    by (unfold vals; destruct incr; reflexivity).
  rewrite Ev. rewrite (sset_id Z _ r xr); [reflexivity|exact Hx].
Qed.

(* ====================================================================================== *)
(*  an invariant of the MODEL's tensor table, tensor by tensor: all that the elementwise steps   *)
(*  need is that a new row-major tensor with nothing pending satisfies it.                      *)
(*  RefineProofs.RM is TInv rowmajor; TInv (fun _ => True) is no invariant at all.              *)
(* ====================================================================================== *)
Section TensorInvariant.
Variable P : dense -> Prop.
Hypothesis HP : forall d, is_cm (ord (d_ap d)) = false -> d_old d = None -> P d.

Definition TInv (σ : store Z) : Prop := forall t d, get_t σ t = Some d -> P d.

Lemma TI_tens σ σ' : tens σ' = tens σ -> TInv σ -> TInv σ'.
Proof. intros E H t d Ht. apply (H t). unfold Mem.get_t in *. rewrite <- E. exact Ht. Qed.

(* ====================================================================================== *)
(*  6. assembling a safe-mode step                                                         *)
(* ====================================================================================== *)
Lemma TI_app σ σ' d' : tens σ' = tens σ ++ [d'] -> TInv σ -> P d' -> TInv σ'.
Proof.
  intros Ht H Hd t d Hg. unfold Mem.get_t in Hg. rewrite Ht in Hg.
  apply nth_error_app_snoc in Hg as [[_ Hg]|[_ ->]]; [apply (H t); exact Hg|exact Hd].
Qed.

Lemma sim_fresh σ ς σ' ta a x nb vs cm :
  R σ ς -> TInv σ -> get_t σ ta = Some a -> sget ς ta = Some x -> d_old a = None ->
  is_cm (ord (d_ap a)) = false ->
  (forall k, (k < length (bufs σ))%nat -> get_buf σ' k = get_buf σ k) ->
  tens σ' = tens σ ++ [clone_dense nb a] -> (length (bufs σ) <= nb)%nat -> d_len a <= zlen (get_buf σ' nb) ->
  length vs = length (s_cells x) ->
  (forall c, inbox (shp (d_ap a)) c ->
     ocell σ' (clone_dense nb a) c = Some (nth (Z.to_nat (rank_rm (shp (d_ap a)) c)) vs 0)) ->
  exists ς', spec_vals_deliver ς ta (s_shape x) (map (fun v => Some v) vs) (0, O) cm
             = Some (ς', RNew Z (length (tens σ))) /\ R σ' ς' /\ TInv σ'.
Proof.
  intros (φ & Hφ) HRM Ha Hx Ho Hcma Hbufs Htens Hnb Hzl Hlv Hcells.
  pose proof Hφ as (Hlen & _ & _ & Hall).
  destruct (Hall ta a x Ha Hx) as (Hwf & (Hs & Hap & Hl & _) & _ & Hpend & _).
  assert (Hp0 : s_pending x = O) by (unfold pend_ok in Hpend; rewrite Ho in Hpend; tauto).
  rewrite (spec_deliver_safe ς ta x (s_shape x) vs cm Hx Hp0). rewrite <- Hlen.
  eexists. split; [reflexivity|].
  set (d' := clone_dense nb a) in *.
  assert (Hwf' : wf_dense σ' d').
  { destruct Hwf as ((W0 & W1 & W2) & _ & _). split; [|split].
    - unfold wf_win, d', clone_dense. cbn [d_off d_len d_buf]. lia.
    - exact Hap.
    - intros o Eo. unfold d', clone_dense in Eo. cbn [d_old] in Eo. congruence. }
  split.
  - destruct (Rphi_fresh φ σ ς σ' d' vs cm Hφ Hbufs Htens Hnb Hwf' eq_refl Ho) as (φ' & Hφ').
    + unfold d', clone_dense. cbn [d_ap]. rewrite Hlv, Hl, Hs. reflexivity.
    + intros c Hc. rewrite <- (ocell_bget σ' d' c Hwf' Hc). apply Hcells. exact Hc.
    + exists φ'. unfold d', clone_dense in Hφ'. cbn [d_ap] in Hφ'. rewrite Hs in Hφ'. exact Hφ'.
  - apply (TI_app σ σ' d' Htens HRM). apply HP; [exact Hcma|exact Ho].
Qed.

(* ====================================================================================== *)
(*  7. ZBin (tensor-tensor arithmetic)                                                     *)
(* ====================================================================================== *)
(* the total arithmetic codes: + - * and the integer power; / and % have a zero-divisor branch
   (CZero / CPanic) on which the SPEC is silent; min / max (codes 6, 7) go through another engine *)
Definition code_tot (code : Z) : bool := (code =? 0) || (code =? 1) || (code =? 2) || (code =? 5).
Definition zf (code : Z) (x y : Z) : Z := match zbin code x y with CV _ v => v | _ => 0 end.

Lemma zbin_tot code : code_tot code = true -> zbin code = gf Z (zf code).
Proof.
  unfold code_tot. intro H. assert (Hc : code = 0 \/ code = 1 \/ code = 2 \/ code = 5) by lia.
  destruct Hc as [->|[->|[->| ->]]]; reflexivity.
Qed.

Lemma zstep_model_ZBin σ code a b m api da db : get_t σ a = Some da -> get_t σ b = Some db ->
  code_tot code = true -> is_scalar (shp (d_ap da)) = false -> is_scalar (shp (d_ap db)) = false ->
  zstep_model σ (ZBin code a b m api) = of_oresult σ (eng_arith_vv Z 0 Z.add (gf Z (zf code)) σ a b m).
Proof.
  intros Ha Hb Hc Hsa Hsb. unfold zstep_model. rewrite (zbin_tot code Hc).
  replace (6 <=? code) with false by (unfold code_tot in Hc; lia).
  destruct api; [|reflexivity]. unfold api_arith. rewrite Ha, Hb, Hsa, Hsb. reflexivity.
Qed.

Lemma zstep_spec_ZBin ς code a b m api x y : sget ς a = Some x -> sget ς b = Some y ->
  code_tot code = true ->
  zstep_spec ς (ZBin code a b m api)
  = if negb (shape_eq (s_shape x) (s_shape y)) then Some (ς, RErr Z)
    else spec_vals_deliver ς a (s_shape x)
           (map (fun v => Some v) (map2 (zf code) (slogical ς x) (slogical ς y))) (mode_code m) (s_cm x).
Proof.
  intros Hx Hy Hc. unfold zstep_spec. rewrite Hx, Hy. rewrite (zbin_tot code Hc).
  replace (6 <=? code) with false by (unfold code_tot in Hc; lia).
  rewrite <- map2_map_Some. reflexivity.
Qed.

Lemma eng_arith_vv_shape_err g σ ta tb m a b : get_t σ ta = Some a -> get_t σ tb = Some b ->
  shape_eq (shp (d_ap a)) (shp (d_ap b)) = false ->
  eng_arith_vv Z 0 Z.add g σ ta tb m = (σ, OErrR).
Proof. intros Ha Hb E. unfold eng_arith_vv. rewrite Ha, Hb, E. reflexivity. Qed.

(* the values of a coordinate-wise binary operation, on both sides *)
Lemma vals2 φ σ ς ta tb a b x y f c : Rphi φ σ ς ->
  get_t σ ta = Some a -> get_t σ tb = Some b -> sget ς ta = Some x -> sget ς tb = Some y ->
  wf_dense σ a -> wf_dense σ b -> shp (d_ap a) = shp (d_ap b) -> inbox (shp (d_ap a)) c ->
  OpsProofs.lift2 Z f (ocell σ a c) (ocell σ b c)
  = Some (nth (Z.to_nat (rank_rm (shp (d_ap a)) c)) (map2 f (slogical ς x) (slogical ς y)) 0).
Proof.
  intros Hφ Ha Hb Hx Hy Wa Wb Hsh Hc.
  assert (Hc' : inbox (shp (d_ap b)) c) by (rewrite <- Hsh; exact Hc).
  rewrite (ocell_bget σ a c Wa Hc), (ocell_bget σ b c Wb Hc').
  destruct (R_cell φ σ ς ta a x c Hφ Ha Hx Hc) as [Ea La].
  destruct (R_cell φ σ ς tb b y c Hφ Hb Hy Hc') as [Eb Lb].
  rewrite Ea, Eb. cbn [OpsProofs.lift2]. rewrite <- Hsh. rewrite <- Hsh in Lb.
  rewrite (map2_nth f 0 0 0) by (rewrite slogical_length; lia). reflexivity.
Qed.

(* the operands of a ZBin step inside the guard: either the shapes are equal, or the step is refused
   by both sides *)
Lemma ZBin_operands φ σ ς code a b m api da db : Rphi φ σ ς ->
  get_t σ a = Some da -> get_t σ b = Some db -> zguard σ (ZBin code a b m api) = GOk ->
  exists x y, sget ς a = Some x /\ sget ς b = Some y /\ wf_dense σ da /\ wf_dense σ db /\ owf σ da /\ owf σ db /\
    shp (d_ap da) = s_shape x /\ shp (d_ap db) = s_shape y /\
    is_scalar (shp (d_ap da)) = false /\ is_scalar (shp (d_ap db)) = false /\
    length (s_cells x) = Z.to_nat (size (s_shape x)) /\ length (s_cells y) = Z.to_nat (size (s_shape y)) /\
    (d_old da = None -> s_pending x = O) /\
    (shape_eq (shp (d_ap da)) (shp (d_ap db)) = true -> shp (d_ap da) = shp (d_ap db)).
Proof.
  intros Hφ Ha Hb Hg. destruct (zguard_ZBin σ code a b m api da db Ha Hb Hg) as [Hge Hsoft].
  destruct (operand_facts φ σ ς a da _ _ _ _ Hφ Ha Hge ltac:(left; reflexivity))
    as (x & Hx & Wa & Oa & Sa & La & Ca & Pa).
  destruct (operand_facts φ σ ς b db _ _ _ _ Hφ Hb Hge ltac:(right; left; reflexivity))
    as (y & Hy & Wb & Ob & Sb & Lb & Cb & Pb).
  exists x, y. repeat (split; [assumption|]).
  intro E. rewrite E, andb_true_r in Hsoft. apply negb_false_iff in Hsoft. apply list_eqb_true in Hsoft. exact Hsoft.
Qed.

Lemma sim_ZBin_refused σ ς code a b m api da db x y σ' r : R σ ς -> TInv σ ->
  get_t σ a = Some da -> get_t σ b = Some db -> sget ς a = Some x -> sget ς b = Some y ->
  shp (d_ap da) = s_shape x -> shp (d_ap db) = s_shape y -> code_tot code = true ->
  is_scalar (shp (d_ap da)) = false -> is_scalar (shp (d_ap db)) = false ->
  shape_eq (shp (d_ap da)) (shp (d_ap db)) = false ->
  zstep_model σ (ZBin code a b m api) = (σ', r) ->
  exists ς', zstep_spec ς (ZBin code a b m api) = Some (ς', r) /\ R σ' ς' /\ TInv σ'.
Proof.
  intros HR HRM Ha Hb Hx Hy Sa Sb Hc Ca Cb E H.
  rewrite (zstep_model_ZBin σ code a b m api da db Ha Hb Hc Ca Cb) in H.
  rewrite (eng_arith_vv_shape_err _ σ a b m da db Ha Hb E) in H. cbn [of_oresult] in H. injection H as <- <-.
  rewrite (zstep_spec_ZBin ς code a b m api x y Hx Hy Hc). rewrite <- Sa, <- Sb, E. cbn [negb].
  exists ς. auto.
Qed.

Lemma sim_ZBin_safe σ ς code a b api da db σ' r : R σ ς -> TInv σ -> code_tot code = true ->
  get_t σ a = Some da -> get_t σ b = Some db -> d_old da = None ->
  zguard σ (ZBin code a b MSafe api) = GOk ->
  zstep_model σ (ZBin code a b MSafe api) = (σ', r) ->
  exists ς', zstep_spec ς (ZBin code a b MSafe api) = Some (ς', r) /\ R σ' ς' /\ TInv σ'.
Proof.
  intros HR HRM Hc Ha Hb Ho Hg H. pose proof HR as (φ & Hφ).
  destruct (ZBin_operands φ σ ς code a b MSafe api da db Hφ Ha Hb Hg)
    as (x & y & Hx & Hy & Wa & Wb & Oa & Ob & Sa & Sb & Ca & Cb & La & Lb & Pa & Hsh).
  destruct (shape_eq (shp (d_ap da)) (shp (d_ap db))) eqn:E;
    [|apply (sim_ZBin_refused σ ς code a b MSafe api da db x y σ' r); assumption].
  specialize (Hsh eq_refl).
  rewrite (zstep_model_ZBin σ code a b MSafe api da db Ha Hb Hc Ca Cb) in H.
  destruct (arith_vv_safe_fresh Z 0 Z.add (zf code) σ a b da db Ha Hb Oa Ob Hsh)
    as (σ1 & d' & Er & Hg' & Ht' & Hap & Hbuf & Hv & Hbufs & _).
  rewrite Er in H. cbn [of_oresult] in H. injection H as <- <-.
  destruct (vv_safe_struct _ σ a b da db σ1 _ Ha Hb Hsh (OpsProofs.wf_rm _ _ _ Oa) (OpsProofs.wf_rm _ _ _ Ob)
              (OpsProofs.wf_win _ _ _ Oa) ltac:(pose proof (OpsProofs.wf_big _ _ _ Oa); lia) Er) as (Ht1 & _ & Hzl).
  assert (d' = clone_dense (length (bufs σ)) da).
  { rewrite Ht1 in Ht'. apply app_inv_head in Ht'. congruence. }
  subst d'.
  rewrite (zstep_spec_ZBin ς code a b MSafe api x y Hx Hy Hc). rewrite <- Sa, <- Sb, E. cbn [negb mode_code].
  rewrite Sa.
  apply (sim_fresh σ ς σ1 a da x (length (bufs σ)) _ (s_cm x) HR HRM Ha Hx Ho (OpsProofs.wf_rm _ _ _ Oa) Hbufs Ht1 (le_n _) Hzl).
  - rewrite map2_length; rewrite !slogical_length; [reflexivity|]. rewrite La, Lb. congruence.
  - intros c Hc'. rewrite (Hv c Hc'). apply (vals2 φ σ ς a b da db x y); assumption.
Qed.

(* ====================================================================================== *)
(*  8. ZUn and ZBinS, safe mode                                                            *)
(* ====================================================================================== *)
Lemma vals1 φ σ ς ta a x (u : Z -> Z) c : Rphi φ σ ς ->
  get_t σ ta = Some a -> sget ς ta = Some x -> wf_dense σ a -> inbox (shp (d_ap a)) c ->
  match ocell σ a c with Some v => Some (u v) | None => None end
  = Some (nth (Z.to_nat (rank_rm (shp (d_ap a)) c)) (map u (slogical ς x)) 0).
Proof.
  intros Hφ Ha Hx Wa Hc. rewrite (ocell_bget σ a c Wa Hc).
  destruct (R_cell φ σ ς ta a x c Hφ Ha Hx Hc) as [Ea La]. rewrite Ea.
  rewrite (nth_map_lt u 0 0) by (rewrite slogical_length; lia). reflexivity.
Qed.

Lemma un_safe_struct u σ ta a σ' t : get_t σ ta = Some a -> in_buf Z σ a -> 0 <= d_len a ->
  eng_unary Z 0 Z.add u σ ta MSafe = (σ', OOk t) ->
  tens σ' = tens σ ++ [clone_dense (length (bufs σ)) a] /\ t = length (tens σ) /\
  d_len a <= zlen (get_buf σ' (length (bufs σ))).
Proof.
  intros Ha Hin Hl H. rewrite (eng_unary_safe_unfold Z 0 Z.add u σ ta a Ha) in H.
  destruct (clone_tmp Z σ a) as [σ2 rt] eqn:Ec.
  destruct (requires_iterator a).
  - destruct (all_iter a) as [ai|]; [|discriminate].
    eapply (clone_finish_struct σ a σ2 rt σ2 _ σ' t Ec Hin Hl); [|exact H].
    intros σ3 e E. apply (run_asgs_lens _ _ _ _ _ _ E).
  - eapply (clone_finish_struct σ a σ2 rt σ2 _ σ' t Ec Hin Hl); [|exact H].
    intros σ3 e E. apply (run_asgs_lens _ _ _ _ _ _ E).
Qed.

Lemma zstep_spec_ZUn ς code a m x : sget ς a = Some x ->
  zstep_spec ς (ZUn code a m)
  = spec_vals_deliver ς a (s_shape x) (map (fun v => Some v) (map (zun code) (slogical ς x))) (mode_code m) (s_cm x).
Proof. intro Hx. unfold zstep_spec. rewrite Hx, map_map. reflexivity. Qed.

Lemma sim_ZUn_safe σ ς code a da σ' r : R σ ς -> TInv σ ->
  get_t σ a = Some da -> d_old da = None ->
  zguard σ (ZUn code a MSafe) = GOk ->
  zstep_model σ (ZUn code a MSafe) = (σ', r) ->
  exists ς', zstep_spec ς (ZUn code a MSafe) = Some (ς', r) /\ R σ' ς' /\ TInv σ'.
Proof.
  intros HR HRM Ha Ho Hg H. pose proof HR as (φ & Hφ).
  pose proof (zguard_ZUn σ code a MSafe da Ha Hg) as Hge.
  destruct (operand_facts φ σ ς a da _ _ _ _ Hφ Ha Hge ltac:(left; reflexivity))
    as (x & Hx & Wa & Oa & Sa & La & Ca & Pa).
  unfold zstep_model in H.
  destruct (unary_safe_fresh Z 0 Z.add (zun code) σ a da Ha Oa)
    as (σ1 & d' & Er & Hg' & Ht' & Hap & Hbuf & Hv & Hbufs & _).
  rewrite Er in H. cbn [of_oresult] in H. injection H as <- <-.
  destruct (un_safe_struct _ σ a da σ1 _ Ha (OpsProofs.wf_win _ _ _ Oa)
              ltac:(pose proof (OpsProofs.wf_big _ _ _ Oa); lia) Er) as (Ht1 & _ & Hzl).
  assert (d' = clone_dense (length (bufs σ)) da).
  { rewrite Ht1 in Ht'. apply app_inv_head in Ht'. congruence. }
  subst d'.
  rewrite (zstep_spec_ZUn ς code a MSafe x Hx). cbn [mode_code].
  apply (sim_fresh σ ς σ1 a da x (length (bufs σ)) _ (s_cm x) HR HRM Ha Hx Ho (OpsProofs.wf_rm _ _ _ Oa) Hbufs Ht1 (le_n _) Hzl).
  - rewrite map_length, slogical_length. reflexivity.
  - intros c Hc'. rewrite (Hv c Hc'). apply (vals1 φ σ ς a da x); assumption.
Qed.

(* ---- the scalar forms ---- *)
Definition zfs (code s : Z) (lft : bool) (v : Z) : Z := if lft then zf code v s else zf code s v.

Lemma zstep_model_ZBinS σ code t s lft m : code_tot code = true ->
  zstep_model σ (ZBinS code t s lft m) = of_oresult σ (eng_arith_scalar Z 0 Z.add (gf Z (zf code)) σ t s lft m).
Proof.
  intro Hc. unfold zstep_model. rewrite (zbin_tot code Hc).
  replace (6 <=? code) with false by (unfold code_tot in Hc; lia). reflexivity.
Qed.

Lemma zstep_spec_ZBinS ς code t s lft m x : sget ς t = Some x -> code_tot code = true ->
  zstep_spec ς (ZBinS code t s lft m)
  = spec_vals_deliver ς t (s_shape x) (map (fun v => Some v) (map (zfs code s lft) (slogical ς x))) (mode_code m) (s_cm x).
Proof.
  intros Hx Hc. unfold zstep_spec. rewrite Hx, map_map, (zbin_tot code Hc). f_equal.
  apply map_ext. intro v. unfold zfs. destruct lft; reflexivity.
Qed.

Lemma frame_eq_lens σ σ' : frame_eq Z σ σ' -> same_lens σ σ'.
Proof. intros (Ht & _ & Hl). split; [exact Ht|]. intro b. specialize (Hl b). unfold zlen in Hl. lia. Qed.

Lemma scalar_safe_struct g σ tt t s lft σ' n : get_t σ tt = Some t -> owf σ t ->
  eng_arith_scalar Z 0 Z.add g σ tt s lft MSafe = (σ', OOk n) ->
  tens σ' = tens σ ++ [clone_dense (S (length (bufs σ))) t] /\ n = length (tens σ) /\
  d_len t <= zlen (get_buf σ' (S (length (bufs σ)))).
Proof.
  intros Ht W H.
  rewrite (eng_arith_scalar_safe_unfold Z 0 Z.add g σ tt t s lft _ Ht (OpsProofs.wf_all_iter Z σ t W)) in H.
  assert (W2 : owf (sc_store Z σ s) t) by (apply (OpsProofs.wf_dense_ext Z σ); [apply sc_store_buf|exact W]).
  pose proof (OpsProofs.wf_win _ _ _ W2) as Hin. pose proof (OpsProofs.wf_big _ _ _ W) as Hbig.
  assert (Hlb : length (bufs (sc_store Z σ s)) = S (length (bufs σ)))
    by (unfold sc_store; cbn [bufs]; rewrite app_length; cbn [length]; lia).
  assert (Htn : tens (sc_store Z σ s) = tens σ) by reflexivity.
  rewrite <- Hlb, <- Htn.
  destruct (clone_tmp Z (sc_store Z σ s) t) as [σ3 rt] eqn:Ec.
  destruct (if is_scalar (shp (d_ap t)) then false else requires_iterator t).
  - destruct lft.
    + eapply (clone_finish_struct _ t σ3 rt σ3 _ σ' n Ec Hin ltac:(lia)); [|exact H].
      intros σ4 e E. apply (e_iter_lens _ _ _ _ _ _ _ _ E).
    + eapply (clone_finish_struct _ t σ3 rt σ3 _ σ' n Ec Hin ltac:(lia)); [|exact H].
      intros σ4 e E. apply (e_iter_lens _ _ _ _ _ _ _ _ E).
  - destruct lft.
    + eapply (clone_finish_struct _ t σ3 rt σ3 _ σ' n Ec Hin ltac:(lia)); [|exact H].
      intros σ4 e E. apply (e_plain_lens _ _ _ _ _ _ E).
    + destruct (hd0 Z σ3 (sc_hdr Z σ)) as [sv|]; [|discriminate].
      destruct (win_fill Z σ3 rt (idxs (d_len rt)) sv) as [σ4|] eqn:Ef; [|discriminate].
      eapply (clone_finish_struct _ t σ3 rt σ4 _ σ' n Ec Hin ltac:(lia)); [|exact H].
      intros σ5 e E. apply (same_lens_trans σ3 σ4 σ5).
      * apply frame_eq_lens. apply (win_fill_frame Z rt sv _ _ _ Ef).
      * apply (e_plain_lens _ _ _ _ _ _ E).
Qed.

Lemma sim_ZBinS_safe σ ς code t s lft d σ' r : R σ ς -> TInv σ -> code_tot code = true ->
  get_t σ t = Some d -> d_old d = None ->
  zguard σ (ZBinS code t s lft MSafe) = GOk ->
  zstep_model σ (ZBinS code t s lft MSafe) = (σ', r) ->
  exists ς', zstep_spec ς (ZBinS code t s lft MSafe) = Some (ς', r) /\ R σ' ς' /\ TInv σ'.
Proof.
  intros HR HRM Hc Ha Ho Hg H. pose proof HR as (φ & Hφ).
  pose proof (zguard_ZBinS σ code t s lft MSafe d Ha Hg) as Hge.
  destruct (operand_facts φ σ ς t d _ _ _ _ Hφ Ha Hge ltac:(left; reflexivity))
    as (x & Hx & Wa & Oa & Sa & La & Ca & Pa).
  rewrite (zstep_model_ZBinS σ code t s lft MSafe Hc) in H.
  assert (Hpost : fresh_post1 Z σ d (eng_arith_scalar Z 0 Z.add (gf Z (zf code)) σ t s lft MSafe)
                    (fun c => match ocell σ d c with Some v => Some (zfs code s lft v) | None => None end)).
  { destruct lft.
    - apply (arith_scalar_safe_left_fresh Z 0 Z.add (zf code) σ t d s Ha Oa).
    - apply (arith_scalar_safe_right_fresh Z 0 Z.add (zf code) σ t d s Ha Oa). }
  destruct Hpost as (σ1 & d' & Er & Hg' & Hs' & Hv & Hbufs & _ & _).
  rewrite Er in H. cbn [of_oresult] in H. injection H as <- <-.
  destruct (scalar_safe_struct _ σ t d s lft σ1 _ Ha Oa Er) as (Ht1 & _ & Hzl).
  assert (d' = clone_dense (S (length (bufs σ))) d).
  { unfold Mem.get_t in Hg'. rewrite Ht1, nth_error_app2, Nat.sub_diag in Hg' by lia. cbn [nth_error] in Hg'. congruence. }
  subst d'.
  rewrite (zstep_spec_ZBinS ς code t s lft MSafe x Hx Hc). cbn [mode_code].
  apply (sim_fresh σ ς σ1 t d x (S (length (bufs σ))) _ (s_cm x) HR HRM Ha Hx Ho (OpsProofs.wf_rm _ _ _ Oa) Hbufs Ht1 ltac:(lia) Hzl).
  - rewrite map_length, slogical_length. reflexivity.
  - intros c Hc'. rewrite (Hv c Hc'). apply (vals1 φ σ ς t d x); assumption.
Qed.

(* ====================================================================================== *)
(*  9. unsafe mode: the first operand is overwritten                                       *)
(* ====================================================================================== *)
Lemma dest_post_written σ D tD res val vs : OpsProofs.dest_post_x Z σ D tD res val -> wf_dense σ D ->
  (forall c, inbox (shp (d_ap D)) c -> val c = Some (nth (Z.to_nat (rank_rm (shp (d_ap D)) c)) vs 0)) ->
  exists σ', res = (σ', OOk tD) /\ dest_written σ σ' D vs.
Proof.
  intros (σ' & Er & Ht & _ & Hv & Hoth & Hnl & Hout) Hwf Hval. exists σ'. split; [exact Er|].
  split; [exact Ht|]. split; [exact Hoth|]. split; [|split; [exact Hnl|exact Hout]].
  intros c Hc. rewrite <- (Hval c Hc), <- (Hv c Hc).
  pose proof Hwf as (_ & (_ & _ & _ & Hb & _) & _). unfold pos, OpsProofs.cell.
  symmetry. apply (win_get_bget Z). apply Hb. exact Hc.
Qed.

Lemma sim_dest σ ς σ' tD D xD vs : R σ ς -> TInv σ -> get_t σ tD = Some D -> sget ς tD = Some xD ->
  dest_written σ σ' D vs -> length vs = length (s_cells xD) ->
  R σ' (mkSS Z (write_cells Z (s_vals ς) (s_cells xD) vs) (s_tens ς)) /\ TInv σ'.
Proof.
  intros (φ & Hφ) HRM Ht Hx Hdw Hl. split.
  - exists φ. apply (Rphi_dest φ σ ς σ' tD D xD vs Hφ Ht Hx Hdw Hl).
  - destruct Hdw as (Ft & _). apply (TI_tens σ σ' Ft HRM).
Qed.

Lemma not_overlaps_sep x y : overlaps x y = false -> sep x y.
Proof.
  unfold overlaps, sep. intro H. destruct (Nat.eqb_spec (d_buf x) (d_buf y)) as [E|E]; [|left; exact E].
  right. cbn [andb] in H. lia.
Qed.

Lemma sim_ZBin_unsafe σ ς code a b api da db σ' r : R σ ς -> TInv σ -> code_tot code = true ->
  get_t σ a = Some da -> get_t σ b = Some db -> overlaps da db = false ->
  zguard σ (ZBin code a b MUnsafe api) = GOk ->
  zstep_model σ (ZBin code a b MUnsafe api) = (σ', r) ->
  exists ς', zstep_spec ς (ZBin code a b MUnsafe api) = Some (ς', r) /\ R σ' ς' /\ TInv σ'.
Proof.
  intros HR HRM Hc Ha Hb Hov Hg H. pose proof HR as (φ & Hφ).
  destruct (ZBin_operands φ σ ς code a b MUnsafe api da db Hφ Ha Hb Hg)
    as (x & y & Hx & Hy & Wa & Wb & Oa & Ob & Sa & Sb & Ca & Cb & La & Lb & Pa & Hsh).
  destruct (shape_eq (shp (d_ap da)) (shp (d_ap db))) eqn:E;
    [|apply (sim_ZBin_refused σ ς code a b MUnsafe api da db x y σ' r); assumption].
  specialize (Hsh eq_refl).
  rewrite (zstep_model_ZBin σ code a b MUnsafe api da db Ha Hb Hc Ca Cb) in H.
  set (vs := map2 (zf code) (slogical ς x) (slogical ς y)).
  destruct (dest_post_written σ da a _ _ vs
              (dest_post_to_x Z σ da a _ _
                 (arith_vv_unsafe_post Z 0 Z.add (zf code) σ a b da db Ha Hb Oa Ob Hsh (not_overlaps_sep _ _ Hov))) Wa)
    as (σ1 & Er & Hdw).
  { intros c Hc'. apply (vals2 φ σ ς a b da db x y); assumption. }
  rewrite Er in H. cbn [of_oresult] in H. injection H as <- <-.
  assert (Hlv : length vs = length (s_cells x)).
  { unfold vs. rewrite map2_length; rewrite !slogical_length; [reflexivity|]. rewrite La, Lb. congruence. }
  rewrite (zstep_spec_ZBin ς code a b MUnsafe api x y Hx Hy Hc). rewrite <- Sa, <- Sb, E. cbn [negb mode_code].
  fold vs. rewrite (spec_deliver_unsafe ς a x _ vs _ Hx Hlv).
  eexists. split; [reflexivity|]. apply (sim_dest σ ς σ1 a da x vs HR HRM Ha Hx Hdw Hlv).
Qed.

Lemma sim_ZUn_unsafe σ ς code a da σ' r : R σ ς -> TInv σ -> get_t σ a = Some da ->
  zguard σ (ZUn code a MUnsafe) = GOk ->
  zstep_model σ (ZUn code a MUnsafe) = (σ', r) ->
  exists ς', zstep_spec ς (ZUn code a MUnsafe) = Some (ς', r) /\ R σ' ς' /\ TInv σ'.
Proof.
  intros HR HRM Ha Hg H. pose proof HR as (φ & Hφ).
  pose proof (zguard_ZUn σ code a MUnsafe da Ha Hg) as Hge.
  destruct (operand_facts φ σ ς a da _ _ _ _ Hφ Ha Hge ltac:(left; reflexivity))
    as (x & Hx & Wa & Oa & Sa & La & Ca & Pa).
  unfold zstep_model in H.
  set (vs := map (zun code) (slogical ς x)).
  destruct (dest_post_written σ da a _ _ vs
              (dest_post_to_x Z σ da a _ _ (unary_unsafe_post Z 0 Z.add (zun code) σ a da Ha Oa)) Wa)
    as (σ1 & Er & Hdw).
  { intros c Hc'. apply (vals1 φ σ ς a da x); assumption. }
  rewrite Er in H. cbn [of_oresult] in H. injection H as <- <-.
  assert (Hlv : length vs = length (s_cells x)) by (unfold vs; rewrite map_length, slogical_length; reflexivity).
  rewrite (zstep_spec_ZUn ς code a MUnsafe x Hx). cbn [mode_code]. fold vs.
  rewrite (spec_deliver_unsafe ς a x _ vs _ Hx Hlv).
  eexists. split; [reflexivity|]. apply (sim_dest σ ς σ1 a da x vs HR HRM Ha Hx Hdw Hlv).
Qed.

Lemma is_scalar_false_ne (s : list Z) : is_scalar s = false -> s <> [].
Proof. destruct s; [discriminate|discriminate]. Qed.

Lemma sim_ZBinS_unsafe σ ς code t s lft d σ' r : R σ ς -> TInv σ -> code_tot code = true ->
  get_t σ t = Some d ->
  zguard σ (ZBinS code t s lft MUnsafe) = GOk ->
  zstep_model σ (ZBinS code t s lft MUnsafe) = (σ', r) ->
  exists ς', zstep_spec ς (ZBinS code t s lft MUnsafe) = Some (ς', r) /\ R σ' ς' /\ TInv σ'.
Proof.
  intros HR HRM Hc Ha Hg H. pose proof HR as (φ & Hφ).
  pose proof (zguard_ZBinS σ code t s lft MUnsafe d Ha Hg) as Hge.
  destruct (operand_facts φ σ ς t d _ _ _ _ Hφ Ha Hge ltac:(left; reflexivity))
    as (x & Hx & Wa & Oa & Sa & La & Ca & Pa).
  rewrite (zstep_model_ZBinS σ code t s lft MUnsafe Hc) in H.
  set (vs := map (zfs code s lft) (slogical ς x)).
  assert (Hpost : dest_post_x Z σ d t (eng_arith_scalar Z 0 Z.add (gf Z (zf code)) σ t s lft MUnsafe)
                    (fun c => match ocell σ d c with Some v => Some (zfs code s lft v) | None => None end)).
  { destruct lft.
    - apply (arith_scalar_unsafe_left_post Z 0 Z.add (zf code) σ t d s Ha Oa (is_scalar_false_ne _ Ca)).
    - apply (arith_scalar_unsafe_right_post Z 0 Z.add (zf code) σ t d s Ha Oa (is_scalar_false_ne _ Ca)). }
  destruct (dest_post_written σ d t _ _ vs Hpost Wa) as (σ1 & Er & Hdw).
  { intros c Hc'. apply (vals1 φ σ ς t d x); assumption. }
  rewrite Er in H. cbn [of_oresult] in H. injection H as <- <-.
  assert (Hlv : length vs = length (s_cells x)) by (unfold vs; rewrite map_length, slogical_length; reflexivity).
  rewrite (zstep_spec_ZBinS ς code t s lft MUnsafe x Hx Hc). cbn [mode_code]. fold vs.
  rewrite (spec_deliver_unsafe ς t x _ vs _ Hx Hlv).
  eexists. split; [reflexivity|]. apply (sim_dest σ ς σ1 t d x vs HR HRM Ha Hx Hdw Hlv).
Qed.

(* ====================================================================================== *)
(*  10. reuse / incr: a destination tensor of the operands' shape                          *)
(* ====================================================================================== *)
Definition incr_vals (ς : sstate Z) (xr : sten) (vs : list Z) : list Z :=
  map (fun p => Z.add (nth (fst p) (s_vals ς) 0) (snd p)) (combine (s_cells xr) vs).

Lemma incr_vals_length ς xr vs : length vs = length (s_cells xr) -> length (incr_vals ς xr vs) = length (s_cells xr).
Proof. intro H. unfold incr_vals. rewrite map_length, combine_length. lia. Qed.

Lemma incr_vals_nth ς xr vs j : length vs = length (s_cells xr) -> (j < length vs)%nat ->
  nth j (incr_vals ς xr vs) 0 = nth j (slogical ς xr) 0 + nth j vs 0.
Proof.
  intros Hl Hj. unfold incr_vals.
  rewrite (nth_map_lt _ (O, 0) 0) by (rewrite combine_length; lia).
  rewrite combine_nth by lia. cbn [fst snd].
  unfold Spec.slogical. rewrite (nth_map_lt _ O 0) by lia. reflexivity.
Qed.

(* the destination of a reuse / incr step inside the guard *)
Lemma dest_facts φ σ ς r rdn ops rsize rshape :
  Rphi φ σ ς -> get_t σ r = Some rdn ->
  guard_elementwise ops (Some rdn) rsize rshape = GOk ->
  exists xr, sget ς r = Some xr /\ wf_dense σ rdn /\ owf σ rdn /\ shp (d_ap rdn) = s_shape xr /\
             length (s_cells xr) = Z.to_nat (size (s_shape xr)) /\ d_len rdn = rsize /\
             (forall d, In d ops -> overlaps rdn d = false).
Proof.
  intros Hφ Ht Hg. destruct (get_sget Z 0 φ σ ς r rdn Hφ Ht) as [x Hx]. exists x.
  pose proof Hφ as (_ & _ & _ & Hall). destruct (Hall r rdn x Ht Hx) as (Hwf & (Hs & _ & Hl & _) & _).
  destruct (guard_elementwise_ok _ _ _ _ Hg) as [_ (G1 & G2 & _ & G4 & G5 & G6)].
  split; [exact Hx|]. split; [exact Hwf|]. split; [apply owf_of; assumption|]. auto.
Qed.

Lemma vals_acc φ σ ς r rdn xr vs (v : option Z) c : Rphi φ σ ς ->
  get_t σ r = Some rdn -> sget ς r = Some xr -> wf_dense σ rdn -> inbox (shp (d_ap rdn)) c ->
  length vs = length (s_cells xr) ->
  v = Some (nth (Z.to_nat (rank_rm (shp (d_ap rdn)) c)) vs 0) ->
  match ocell σ rdn c, v with Some o, Some w => Some (Z.add o w) | _, _ => None end
  = Some (nth (Z.to_nat (rank_rm (shp (d_ap rdn)) c)) (incr_vals ς xr vs) 0).
Proof.
  intros Hφ Hr Hx Wr Hc Hl ->. rewrite (ocell_bget σ rdn c Wr Hc).
  destruct (R_cell φ σ ς r rdn xr c Hφ Hr Hx Hc) as [Er Lr]. rewrite Er.
  rewrite incr_vals_nth by lia. reflexivity.
Qed.

(* the SPEC and the relation after a write of vs (reuse) or an accumulation of vs (incr) into r *)
Lemma sim_dest_mode σ ς σ' ta r rdn xr sh vs cm (incr : bool) : R σ ς -> TInv σ ->
  get_t σ r = Some rdn -> sget ς r = Some xr -> sh = s_shape xr -> length vs = length (s_cells xr) ->
  dest_written σ σ' rdn (if incr then incr_vals ς xr vs else vs) ->
  exists ς', spec_vals_deliver ς ta sh (map (fun v => Some v) vs) (if incr then 3 else 2, r) cm
             = Some (ς', RNew Z r) /\ R σ' ς' /\ TInv σ'.
Proof.
  intros HR HRM Hr Hx -> Hl Hdw. rewrite (spec_deliver_dest ς ta r xr vs cm incr Hx Hl).
  eexists. split; [reflexivity|]. fold (incr_vals ς xr vs).
  apply (sim_dest σ ς σ' r rdn xr _ HR HRM Hr Hx Hdw).
  destruct incr; [apply incr_vals_length; exact Hl|exact Hl].
Qed.

Definition mode_incr (m : mode) : bool := match m with MIncr _ => true | _ => false end.

Lemma sim_ZBin_dest σ ς code a b m r api da db rdn σ' res : R σ ς -> TInv σ -> code_tot code = true ->
  (m = MReuse r \/ m = MIncr r) ->
  get_t σ a = Some da -> get_t σ b = Some db -> get_t σ r = Some rdn ->
  shp (d_ap rdn) = shp (d_ap da) -> d_buf rdn <> d_buf da -> d_buf rdn <> d_buf db ->
  requires_iterator rdn = false ->
  zguard σ (ZBin code a b m api) = GOk ->
  zstep_model σ (ZBin code a b m api) = (σ', res) ->
  exists ς', zstep_spec ς (ZBin code a b m api) = Some (ς', res) /\ R σ' ς' /\ TInv σ'.
Proof.
  intros HR HRM Hc Hm Ha Hb Hr Hshr Hba Hbb Hri Hg H. pose proof HR as (φ & Hφ).
  destruct (ZBin_operands φ σ ς code a b m api da db Hφ Ha Hb Hg)
    as (x & y & Hx & Hy & Wa & Wb & Oa & Ob & Sa & Sb & Ca & Cb & La & Lb & Pa & Hsh).
  destruct (shape_eq (shp (d_ap da)) (shp (d_ap db))) eqn:E;
    [|apply (sim_ZBin_refused σ ς code a b m api da db x y σ' res); assumption].
  specialize (Hsh eq_refl).
  destruct (zguard_ZBin σ code a b m api da db Ha Hb Hg) as [Hge _].
  assert (Hdst : dst_of σ m = Some rdn) by (destruct Hm as [-> | ->]; exact Hr).
  rewrite Hdst in Hge.
  destruct (dest_facts φ σ ς r rdn _ _ _ Hφ Hr Hge) as (xr & Hxr & Wr & Or & Sr & Lr & _ & _).
  rewrite (zstep_model_ZBin σ code a b m api da db Ha Hb Hc Ca Cb) in H.
  set (vs := map2 (zf code) (slogical ς x) (slogical ς y)).
  assert (Hlv : length vs = length (s_cells xr)).
  { unfold vs. rewrite map2_length; rewrite !slogical_length; [|rewrite La, Lb; congruence].
    rewrite La, Lr. congruence. }
  assert (Hv2 : forall c, inbox (shp (d_ap rdn)) c ->
            OpsProofs.lift2 Z (zf code) (ocell σ da c) (ocell σ db c)
            = Some (nth (Z.to_nat (rank_rm (shp (d_ap rdn)) c)) vs 0)).
  { intros c Hc'. rewrite Hshr in Hc' |- *. apply (vals2 φ σ ς a b da db x y); assumption. }
  rewrite (zstep_spec_ZBin ς code a b m api x y Hx Hy Hc). rewrite <- Sa, <- Sb, E. cbn [negb]. fold vs.
  assert (Hshx : shp (d_ap da) = s_shape xr) by congruence.
  destruct Hm as [-> | ->].
  - destruct (dest_post_written σ rdn r _ _ vs
                (dest_post_to_x Z σ rdn r _ _
                   (arith_vv_reuse_post Z 0 Z.add (zf code) σ a b r da db rdn Ha Hb Hr Oa Ob Or Hri Hsh Hshr Hba Hbb)) Wr)
      as (σ1 & Er & Hdw); [exact Hv2|].
    rewrite Er in H. cbn [of_oresult] in H. injection H as <- <-. cbn [mode_code].
    apply (sim_dest_mode σ ς σ1 a r rdn xr _ vs _ false HR HRM Hr Hxr Hshx Hlv Hdw).
  - destruct (dest_post_written σ rdn r _ _ (incr_vals ς xr vs)
                (dest_post_to_x Z σ rdn r _ _
                   (arith_vv_incr_post Z 0 Z.add (zf code) σ a b r da db rdn Ha Hb Hr Oa Ob Or Hri Hsh Hshr Hba Hbb)) Wr)
      as (σ1 & Er & Hdw).
    { intros c Hc'. unfold OpsProofs.lift3.
      rewrite <- (vals_acc φ σ ς r rdn xr vs _ c Hφ Hr Hxr Wr Hc' Hlv (Hv2 c Hc')).
      unfold OpsProofs.lift2. destruct (ocell σ rdn c), (ocell σ da c), (ocell σ db c); reflexivity. }
    rewrite Er in H. cbn [of_oresult] in H. injection H as <- <-. cbn [mode_code].
    apply (sim_dest_mode σ ς σ1 a r rdn xr _ vs _ true HR HRM Hr Hxr Hshx Hlv Hdw).
Qed.

Lemma sim_ZUn_dest σ ς code a m r da rdn σ' res : R σ ς -> TInv σ ->
  (m = MReuse r \/ m = MIncr r) ->
  get_t σ a = Some da -> get_t σ r = Some rdn ->
  shp (d_ap rdn) = shp (d_ap da) -> d_buf rdn <> d_buf da -> requires_iterator rdn = false ->
  zguard σ (ZUn code a m) = GOk ->
  zstep_model σ (ZUn code a m) = (σ', res) ->
  exists ς', zstep_spec ς (ZUn code a m) = Some (ς', res) /\ R σ' ς' /\ TInv σ'.
Proof.
  intros HR HRM Hm Ha Hr Hshr Hba Hri Hg H. pose proof HR as (φ & Hφ).
  pose proof (zguard_ZUn σ code a m da Ha Hg) as Hge.
  destruct (operand_facts φ σ ς a da _ _ _ _ Hφ Ha Hge ltac:(left; reflexivity))
    as (x & Hx & Wa & Oa & Sa & La & Ca & Pa).
  assert (Hdst : dst_of σ m = Some rdn) by (destruct Hm as [-> | ->]; exact Hr).
  rewrite Hdst in Hge.
  destruct (dest_facts φ σ ς r rdn _ _ _ Hφ Hr Hge) as (xr & Hxr & Wr & Or & Sr & Lr & _ & _).
  unfold zstep_model in H.
  set (vs := map (zun code) (slogical ς x)).
  assert (Hlv : length vs = length (s_cells xr)).
  { unfold vs. rewrite map_length, slogical_length, La, Lr. congruence. }
  assert (Hv1 : forall c, inbox (shp (d_ap rdn)) c ->
            match ocell σ da c with Some v => Some (zun code v) | None => None end
            = Some (nth (Z.to_nat (rank_rm (shp (d_ap rdn)) c)) vs 0)).
  { intros c Hc'. rewrite Hshr in Hc' |- *. apply (vals1 φ σ ς a da x); assumption. }
  rewrite (zstep_spec_ZUn ς code a m x Hx). fold vs.
  assert (Hshx : s_shape x = s_shape xr) by congruence.
  destruct Hm as [-> | ->].
  - destruct (dest_post_written σ rdn r _ _ vs
                (dest_post_to_x Z σ rdn r _ _
                   (unary_reuse_post Z 0 Z.add (zun code) σ a r da rdn Ha Hr Oa Or Hri Hshr Hba)) Wr)
      as (σ1 & Er & Hdw); [exact Hv1|].
    rewrite Er in H. cbn [of_oresult] in H. injection H as <- <-. cbn [mode_code].
    apply (sim_dest_mode σ ς σ1 a r rdn xr _ vs _ false HR HRM Hr Hxr Hshx Hlv Hdw).
  - destruct (dest_post_written σ rdn r _ _ (incr_vals ς xr vs)
                (unary_incr_post Z 0 Z.add (zun code) σ a r da rdn Ha Hr Oa Or Hri Hshr Hba) Wr)
      as (σ1 & Er & Hdw).
    { intros c Hc'. unfold OpsProofs.lift_acc.
      rewrite <- (vals_acc φ σ ς r rdn xr vs _ c Hφ Hr Hxr Wr Hc' Hlv (Hv1 c Hc')).
      destruct (ocell σ rdn c), (ocell σ da c); reflexivity. }
    rewrite Er in H. cbn [of_oresult] in H. injection H as <- <-. cbn [mode_code].
    apply (sim_dest_mode σ ς σ1 a r rdn xr _ vs _ true HR HRM Hr Hxr Hshx Hlv Hdw).
Qed.

Lemma sim_ZBinS_dest σ ς code t s lft m r d rdn σ' res : R σ ς -> TInv σ -> code_tot code = true ->
  (m = MReuse r \/ m = MIncr r) ->
  get_t σ t = Some d -> get_t σ r = Some rdn -> shp (d_ap rdn) = shp (d_ap d) ->
  zguard σ (ZBinS code t s lft m) = GOk ->
  zstep_model σ (ZBinS code t s lft m) = (σ', res) ->
  exists ς', zstep_spec ς (ZBinS code t s lft m) = Some (ς', res) /\ R σ' ς' /\ TInv σ'.
Proof.
  intros HR HRM Hc Hm Ha Hr Hshr Hg H. pose proof HR as (φ & Hφ).
  pose proof (zguard_ZBinS σ code t s lft m d Ha Hg) as Hge.
  destruct (operand_facts φ σ ς t d _ _ _ _ Hφ Ha Hge ltac:(left; reflexivity))
    as (x & Hx & Wa & Oa & Sa & La & Ca & Pa).
  assert (Hdst : dst_of σ m = Some rdn) by (destruct Hm as [-> | ->]; exact Hr).
  rewrite Hdst in Hge.
  destruct (dest_facts φ σ ς r rdn _ _ _ Hφ Hr Hge) as (xr & Hxr & Wr & Or & Sr & Lr & Hsz & Hov).
  assert (Hsep : sep rdn d) by (apply not_overlaps_sep; apply Hov; left; reflexivity).
  assert (Hfull : d_len rdn = size (shp (d_ap rdn))) by (rewrite Hshr; exact Hsz).
  rewrite (zstep_model_ZBinS σ code t s lft m Hc) in H.
  set (vs := map (zfs code s lft) (slogical ς x)).
  assert (Hlv : length vs = length (s_cells xr)).
  { unfold vs. rewrite map_length, slogical_length, La, Lr. congruence. }
  assert (Hv1 : forall c, inbox (shp (d_ap rdn)) c ->
            match ocell σ d c with Some v => Some (zfs code s lft v) | None => None end
            = Some (nth (Z.to_nat (rank_rm (shp (d_ap rdn)) c)) vs 0)).
  { intros c Hc'. rewrite Hshr in Hc' |- *. apply (vals1 φ σ ς t d x); assumption. }
  rewrite (zstep_spec_ZBinS ς code t s lft m x Hx Hc). fold vs.
  assert (Hshx : s_shape x = s_shape xr) by congruence.
  destruct Hm as [-> | ->].
  - assert (Hpost : dest_post_x Z σ rdn r (eng_arith_scalar Z 0 Z.add (gf Z (zf code)) σ t s lft (MReuse r))
                      (fun c => match ocell σ d c with Some v => Some (zfs code s lft v) | None => None end)).
    { destruct lft.
      - apply (arith_scalar_reuse_left_post Z 0 Z.add (zf code) σ t d s r rdn Ha Hr Oa Or Hfull Hshr Hsep).
      - apply (arith_scalar_reuse_right_post Z 0 Z.add (zf code) σ t d s r rdn Ha Hr Oa Or Hfull Hshr Hsep). }
    destruct (dest_post_written σ rdn r _ _ vs Hpost Wr) as (σ1 & Er & Hdw); [exact Hv1|].
    rewrite Er in H. cbn [of_oresult] in H. injection H as <- <-. cbn [mode_code].
    apply (sim_dest_mode σ ς σ1 t r rdn xr _ vs _ false HR HRM Hr Hxr Hshx Hlv Hdw).
  - assert (Hpost : dest_post_x Z σ rdn r (eng_arith_scalar Z 0 Z.add (gf Z (zf code)) σ t s lft (MIncr r))
                      (fun c => match ocell σ rdn c, ocell σ d c with
                                | Some o, Some v => Some (Z.add o (zfs code s lft v)) | _, _ => None end)).
    { destruct lft.
      - apply (arith_scalar_incr_left_post Z 0 Z.add (zf code) σ t d s r rdn Ha Hr Oa Or Hfull Hshr Hsep).
      - apply (arith_scalar_incr_right_post Z 0 Z.add (zf code) σ t d s r rdn Ha Hr Oa Or Hfull Hshr Hsep). }
    destruct (dest_post_written σ rdn r _ _ (incr_vals ς xr vs) Hpost Wr) as (σ1 & Er & Hdw).
    { intros c Hc'.
      rewrite <- (vals_acc φ σ ς r rdn xr vs _ c Hφ Hr Hxr Wr Hc' Hlv (Hv1 c Hc')).
      destruct (ocell σ rdn c), (ocell σ d c); reflexivity. }
    rewrite Er in H. cbn [of_oresult] in H. injection H as <- <-. cbn [mode_code].
    apply (sim_dest_mode σ ς σ1 t r rdn xr _ vs _ true HR HRM Hr Hxr Hshx Hlv Hdw).
Qed.

(* ====================================================================================== *)
(*  11. ZCmp (tensor-tensor comparison): results 1 / 0                                     *)
(* ====================================================================================== *)
Definition zc (code : Z) (x y : Z) : Z := match zcmp code x y with CV _ v => v | _ => 0 end.

Lemma zcmp_gf code : zcmp code = gf Z (zc code).
Proof. reflexivity. Qed.

(* ---- more operations that keep the tensor table and the allocation sizes ---- *)
Lemma copy_seq_lens σ dst sr di si σ' : copy_iter_idx Z σ dst sr di si = Some σ' -> same_lens σ σ'.
Proof.
  unfold copy_iter_idx. rewrite (copy_seq_as_asgs Z 0 Z.add).
  destruct (run_asgs Z 0 Z.add _ σ _ false) as [[σ1 e]|] eqn:E; cbn [option_map fst]; [|discriminate].
  intro H. injection H as <-. apply (run_asgs_lens _ _ _ _ _ _ E).
Qed.

Lemma copy_hdr_lens σ dst sr σ' : copy_hdr Z σ dst sr = Some σ' -> same_lens σ σ'.
Proof.
  unfold copy_hdr, copy_raw. destruct (win_scatter Z σ dst _ _) as [σ1|] eqn:E; [|discriminate].
  intro H. injection H as <-. rewrite (win_scatter_as_asgs Z 0 Z.add) in E.
  destruct (run_asgs Z 0 Z.add _ σ _ false) as [[σ2 e]|] eqn:E2; cbn [option_map fst] in E; [|discriminate].
  injection E as <-. apply (run_asgs_lens _ _ _ _ _ _ E2).
Qed.

Lemma e_ret_lens g σ a b ret σ' e' : fst (e_ret Z 0 Z.add g σ a b ret) = Some (σ', e') -> same_lens σ σ'.
Proof.
  unfold e_ret. destruct (_ && isS ret); cbn [fst]; [intro H; injection H as <- _; apply same_lens_refl|].
  intro H. destruct (isS a && negb (isS b)).
  { destruct (hd0 Z σ a); [apply (run_asgs_lens _ _ _ _ _ _ H)|discriminate]. }
  destruct (negb (isS a) && isS b).
  { destruct (hd0 Z σ b); [apply (run_asgs_lens _ _ _ _ _ _ H)|discriminate]. }
  apply (run_opt_lens _ _ _ _ _ H).
Qed.

Lemma e_ret_iter_lens g σ a b ret ai bi ri σ' e' :
  fst (e_ret_iter Z 0 Z.add g σ a b ret ai bi ri) = Some (σ', e') -> same_lens σ σ'.
Proof.
  unfold e_ret_iter. destruct (_ && isS ret); cbn [fst]; [intro H; injection H as <- _; apply same_lens_refl|].
  intro H. destruct (isS a && isS b); [apply (run_opt_lens _ _ _ _ _ H)|].
  destruct (isS a).
  { destruct (hd0 Z σ a); [apply (run_asgs_lens _ _ _ _ _ _ H)|discriminate]. }
  destruct (isS b).
  { destruct (hd0 Z σ b); [apply (run_asgs_lens _ _ _ _ _ _ H)|discriminate]. }
  apply (run_asgs_lens _ _ _ _ _ _ H).
Qed.

Lemma finish_inv (Rr : option (store Z * bool)) σ0 ret σ' t : finish Z Rr σ0 ret = (σ', OOk t) ->
  Rr = Some (σ', false) /\ t = ret.
Proof.
  unfold finish. destruct Rr as [[σ3 [|]]|]; intro H; try discriminate H. injection H as <- <-. auto.
Qed.

Lemma finish2_inv (Rr : option (store Z * bool) * bool) σ0 ret σ' t : finish2 Z Rr σ0 ret = (σ', OOk t) ->
  fst Rr = Some (σ', false) /\ t = ret.
Proof.
  unfold finish2. destruct (snd Rr).
  - destruct (fst Rr) as [[? ?]|]; discriminate.
  - apply finish_inv.
Qed.

(* a result tensor made by NewDense, after operations that keep the allocation sizes *)
Lemma nd_struct σ0 sh σ' : 0 <= size sh -> same_lens (nd_store Z 0 σ0 sh) σ' ->
  tens σ' = tens σ0 ++ [nd_dense Z σ0 sh] /\ size sh <= zlen (get_buf σ' (length (bufs σ0))).
Proof.
  intros Hs [Ht Hl]. split; [rewrite Ht; reflexivity|].
  unfold zlen. rewrite Hl. unfold nd_store. rewrite (OpsProofs.get_buf_app_new Z), repeat_length. lia.
Qed.

Lemma cmp_vv_safe_struct g σ ta tb a b same0 σ' t :
  get_t σ ta = Some a -> get_t σ tb = Some b -> shp (d_ap a) = shp (d_ap b) ->
  is_scalar (shp (d_ap a)) = false ->
  is_cm (ord (d_ap a)) = false -> is_cm (ord (d_ap b)) = false -> 0 <= size (shp (d_ap a)) ->
  eng_cmp_vv Z 0 Z.add g σ ta tb same0 CSafe = (σ', OOk t) ->
  tens σ' = tens σ ++ [nd_dense Z σ (shp (d_ap a))] /\ size (shp (d_ap a)) <= zlen (get_buf σ' (length (bufs σ))).
Proof.
  intros Ha Hb Hsh Hsc Hca Hcb Hsz H.
  rewrite (eng_cmp_vv_safe_unfold Z 0 Z.add g σ ta tb a b same0 Ha Hb Hsh Hsc Hca Hcb) in H. cbv zeta in H.
  apply (nd_struct σ (shp (d_ap a)) σ' Hsz).
  destruct (requires_iterator a || requires_iterator b).
  - destruct (all_iter a) as [ai|]; [|discriminate]. destruct (all_iter b) as [bi|]; [|discriminate].
    destruct (all_iter (nd_dense Z σ (shp (d_ap a)))) as [ri|]; [|discriminate].
    destruct same0.
    + destruct (copy_iter_idx Z _ _ a ri ai) as [σ3|] eqn:Ec; [|discriminate].
      apply finish_inv in H as [H _].
      apply (same_lens_trans _ σ3 _ (copy_seq_lens _ _ _ _ _ _ Ec) (e_iter_lens _ _ _ _ _ _ _ _ H)).
    + apply finish2_inv in H as [H _]. apply (e_ret_iter_lens _ _ _ _ _ _ _ _ _ _ H).
  - destruct same0.
    + destruct (copy_hdr Z _ _ a) as [σ3|] eqn:Ec; [|discriminate].
      apply finish_inv in H as [H _].
      apply (same_lens_trans _ σ3 _ (copy_hdr_lens _ _ _ _ Ec) (e_plain_lens _ _ _ _ _ _ H)).
    + apply finish2_inv in H as [H _]. apply (e_ret_lens _ _ _ _ _ _ _ H).
Qed.

(* assembling a safe-mode step whose result is any fresh tensor d' of the operand's shape *)
Lemma sim_fresh_gen σ ς σ' ta a x d' vs cm :
  R σ ς -> TInv σ -> get_t σ ta = Some a -> sget ς ta = Some x -> d_old a = None ->
  (forall k, (k < length (bufs σ))%nat -> get_buf σ' k = get_buf σ k) ->
  tens σ' = tens σ ++ [d'] -> (length (bufs σ) <= d_buf d')%nat ->
  wf_dense σ' d' -> d_view d' = false -> d_old d' = None -> shp (d_ap d') = shp (d_ap a) ->
  is_cm (ord (d_ap d')) = false ->
  length vs = length (s_cells x) ->
  (forall c, inbox (shp (d_ap a)) c -> ocell σ' d' c = Some (nth (Z.to_nat (rank_rm (shp (d_ap a)) c)) vs 0)) ->
  exists ς', spec_vals_deliver ς ta (s_shape x) (map (fun v => Some v) vs) (0, O) cm
             = Some (ς', RNew Z (length (tens σ))) /\ R σ' ς' /\ TInv σ'.
Proof.
  intros (φ & Hφ) HRM Ha Hx Ho Hbufs Htens Hnb Hwf' Hv' Ho' Hsh' Hcm' Hlv Hcells.
  pose proof Hφ as (Hlen & _ & _ & Hall).
  destruct (Hall ta a x Ha Hx) as (Hwf & (Hs & Hap & Hl & _) & _ & Hpend & _).
  assert (Hp0 : s_pending x = O) by (unfold pend_ok in Hpend; rewrite Ho in Hpend; tauto).
  rewrite (spec_deliver_safe ς ta x (s_shape x) vs cm Hx Hp0). rewrite <- Hlen.
  eexists. split; [reflexivity|]. split.
  - destruct (Rphi_fresh φ σ ς σ' d' vs cm Hφ Hbufs Htens Hnb Hwf' Hv' Ho') as (φ' & Hφ').
    + rewrite Hsh', Hlv, Hl, Hs. reflexivity.
    + intros c Hc. rewrite <- (ocell_bget σ' d' c Hwf' Hc). rewrite Hsh' in Hc |- *. apply Hcells. exact Hc.
    + exists φ'. rewrite Hsh', Hs in Hφ'. exact Hφ'.
  - apply (TI_app σ σ' d' Htens HRM). apply HP; assumption.
Qed.

Definition cdst_of (σ : store Z) (m : cmode) : option dense :=
  match m with CReuse r | CIncr r => get_t σ r | _ => None end.

Lemma zguard_ZCmp σ code a b same m api da db : get_t σ a = Some da -> get_t σ b = Some db ->
  zguard σ (ZCmp code a b same m api) = GOk ->
  guard_elementwise [da; db] (cdst_of σ m) (size (shp (d_ap da))) (shp (d_ap da)) = GOk /\
  (negb (list_eqb (shp (d_ap da)) (shp (d_ap db))) && shape_eq (shp (d_ap da)) (shp (d_ap db))) = false /\
  (forall r, m <> CIncr r).
Proof.
  intros Ha Hb H. unfold zguard in H. cbn [flat_map] in H. rewrite Ha, Hb in H. cbn [app] in H. unfold cdst_of.
  destruct (guard_elementwise _ _ _ _) eqn:Eg; try discriminate H.
  destruct (negb _ && shape_eq _ _) eqn:Es; [discriminate|]. split; [reflexivity|]. split; [reflexivity|].
  intros r ->. discriminate H.
Qed.

Lemma zstep_model_ZCmp σ code a b same m api da db : get_t σ a = Some da -> get_t σ b = Some db ->
  is_scalar (shp (d_ap da)) = false -> is_scalar (shp (d_ap db)) = false ->
  zstep_model σ (ZCmp code a b same m api) = of_oresult σ (eng_cmp_vv Z 0 Z.add (gf Z (zc code)) σ a b same m).
Proof.
  intros Ha Hb Hsa Hsb. unfold zstep_model. rewrite (zcmp_gf code).
  destruct api; [|reflexivity]. unfold api_cmp. rewrite Ha, Hb, Hsa, Hsb. reflexivity.
Qed.

Lemma zstep_spec_ZCmp ς code a b same m api x y : sget ς a = Some x -> sget ς b = Some y ->
  zstep_spec ς (ZCmp code a b same m api)
  = if negb (shape_eq (s_shape x) (s_shape y)) then Some (ς, RErr Z)
    else spec_vals_deliver ς a (s_shape x)
           (map (fun v => Some v) (map2 (zc code) (slogical ς x) (slogical ς y))) (cmode_code m) false.
Proof.
  intros Hx Hy. unfold zstep_spec. rewrite Hx, Hy. rewrite <- map2_map_Some. reflexivity.
Qed.

Lemma eng_cmp_vv_shape_err g σ ta tb same m a b : get_t σ ta = Some a -> get_t σ tb = Some b ->
  shape_eq (shp (d_ap a)) (shp (d_ap b)) = false ->
  eng_cmp_vv Z 0 Z.add g σ ta tb same m = (σ, OErrR).
Proof. intros Ha Hb E. unfold eng_cmp_vv. rewrite Ha, Hb, E. reflexivity. Qed.

Lemma ZCmp_operands φ σ ς code a b same m api da db : Rphi φ σ ς ->
  get_t σ a = Some da -> get_t σ b = Some db -> zguard σ (ZCmp code a b same m api) = GOk ->
  exists x y, sget ς a = Some x /\ sget ς b = Some y /\ wf_dense σ da /\ wf_dense σ db /\ owf σ da /\ owf σ db /\
    shp (d_ap da) = s_shape x /\ shp (d_ap db) = s_shape y /\
    is_scalar (shp (d_ap da)) = false /\ is_scalar (shp (d_ap db)) = false /\
    length (s_cells x) = Z.to_nat (size (s_shape x)) /\ length (s_cells y) = Z.to_nat (size (s_shape y)) /\
    (shape_eq (shp (d_ap da)) (shp (d_ap db)) = true -> shp (d_ap da) = shp (d_ap db)).
Proof.
  intros Hφ Ha Hb Hg. destruct (zguard_ZCmp σ code a b same m api da db Ha Hb Hg) as (Hge & Hsoft & _).
  destruct (operand_facts φ σ ς a da _ _ _ _ Hφ Ha Hge ltac:(left; reflexivity))
    as (x & Hx & Wa & Oa & Sa & La & Ca & Pa).
  destruct (operand_facts φ σ ς b db _ _ _ _ Hφ Hb Hge ltac:(right; left; reflexivity))
    as (y & Hy & Wb & Ob & Sb & Lb & Cb & Pb).
  exists x, y. repeat (split; [assumption|]).
  intro E. rewrite E, andb_true_r in Hsoft. apply negb_false_iff in Hsoft. apply list_eqb_true in Hsoft. exact Hsoft.
Qed.

Lemma sim_ZCmp_refused σ ς code a b same m api da db x y σ' r : R σ ς -> TInv σ ->
  get_t σ a = Some da -> get_t σ b = Some db -> sget ς a = Some x -> sget ς b = Some y ->
  shp (d_ap da) = s_shape x -> shp (d_ap db) = s_shape y ->
  is_scalar (shp (d_ap da)) = false -> is_scalar (shp (d_ap db)) = false ->
  shape_eq (shp (d_ap da)) (shp (d_ap db)) = false ->
  zstep_model σ (ZCmp code a b same m api) = (σ', r) ->
  exists ς', zstep_spec ς (ZCmp code a b same m api) = Some (ς', r) /\ R σ' ς' /\ TInv σ'.
Proof.
  intros HR HRM Ha Hb Hx Hy Sa Sb Ca Cb E H.
  rewrite (zstep_model_ZCmp σ code a b same m api da db Ha Hb Ca Cb) in H.
  rewrite (eng_cmp_vv_shape_err _ σ a b same m da db Ha Hb E) in H. cbn [of_oresult] in H. injection H as <- <-.
  rewrite (zstep_spec_ZCmp ς code a b same m api x y Hx Hy). rewrite <- Sa, <- Sb, E. cbn [negb].
  exists ς. auto.
Qed.

Lemma nd_dense_wf σ' nb sh : pos_shape sh -> size sh <= zlen (get_buf σ' nb) ->
  wf_dense σ' (mkDense nb 0 (size sh) (mkAP sh (calc_strides sh) 0 true) None false).
Proof.
  intros Hp Hz. pose proof (size_pos sh Hp). split; [|split].
  - unfold wf_win. cbn [d_off d_len d_buf]. lia.
  - cbn [d_len d_ap]. apply wf_ap_rowmajor. exact Hp.
  - intros o Eo. discriminate Eo.
Qed.

Lemma sim_ZCmp_safe σ ς code a b same api da db σ' r : R σ ς -> TInv σ ->
  get_t σ a = Some da -> get_t σ b = Some db -> d_old da = None -> 1 < size (shp (d_ap da)) ->
  zguard σ (ZCmp code a b same CSafe api) = GOk ->
  zstep_model σ (ZCmp code a b same CSafe api) = (σ', r) ->
  exists ς', zstep_spec ς (ZCmp code a b same CSafe api) = Some (ς', r) /\ R σ' ς' /\ TInv σ'.
Proof.
  intros HR HRM Ha Hb Ho Hsz Hg H. pose proof HR as (φ & Hφ).
  destruct (ZCmp_operands φ σ ς code a b same CSafe api da db Hφ Ha Hb Hg)
    as (x & y & Hx & Hy & Wa & Wb & Oa & Ob & Sa & Sb & Ca & Cb & La & Lb & Hsh).
  destruct (shape_eq (shp (d_ap da)) (shp (d_ap db))) eqn:E;
    [|apply (sim_ZCmp_refused σ ς code a b same CSafe api da db x y σ' r); assumption].
  specialize (Hsh eq_refl).
  rewrite (zstep_model_ZCmp σ code a b same CSafe api da db Ha Hb Ca Cb) in H.
  destruct (cmp_vv_safe_post Z 0 Z.add (zc code) σ a b da db same Ha Hb Oa Ob Hsh Hsz)
    as (σ1 & d' & Er & Hg' & Ht' & Hsd & _ & _ & _ & _ & Hv & Hbufs & _).
  rewrite Er in H. cbn [of_oresult] in H. injection H as <- <-.
  destruct (cmp_vv_safe_struct _ σ a b da db same σ1 _ Ha Hb Hsh Ca (OpsProofs.wf_rm _ _ _ Oa) (OpsProofs.wf_rm _ _ _ Ob)
              ltac:(lia) Er) as (Ht1 & Hzl).
  assert (d' = nd_dense Z σ (shp (d_ap da))).
  { rewrite Ht1 in Ht'. apply app_inv_head in Ht'. congruence. }
  subst d'.
  rewrite (zstep_spec_ZCmp ς code a b same CSafe api x y Hx Hy). rewrite <- Sa, <- Sb, E. cbn [negb cmode_code].
  rewrite Sa.
  apply (sim_fresh_gen σ ς σ1 a da x (nd_dense Z σ (shp (d_ap da))) _ false HR HRM Ha Hx Ho Hbufs Ht1);
    try reflexivity.
  - apply nd_dense_wf; [apply (OpsProofs.wf_pos _ _ _ Oa)|exact Hzl].
  - rewrite map2_length; rewrite !slogical_length; [reflexivity|]. rewrite La, Lb. congruence.
  - intros c Hc'. rewrite (Hv c Hc'). apply (vals2 φ σ ς a b da db x y); assumption.
Qed.

Lemma sim_ZCmp_unsafe σ ς code a b same api da db σ' r : R σ ς -> TInv σ ->
  get_t σ a = Some da -> get_t σ b = Some db -> overlaps da db = false ->
  zguard σ (ZCmp code a b same CUnsafe api) = GOk ->
  zstep_model σ (ZCmp code a b same CUnsafe api) = (σ', r) ->
  exists ς', zstep_spec ς (ZCmp code a b same CUnsafe api) = Some (ς', r) /\ R σ' ς' /\ TInv σ'.
Proof.
  intros HR HRM Ha Hb Hov Hg H. pose proof HR as (φ & Hφ).
  destruct (ZCmp_operands φ σ ς code a b same CUnsafe api da db Hφ Ha Hb Hg)
    as (x & y & Hx & Hy & Wa & Wb & Oa & Ob & Sa & Sb & Ca & Cb & La & Lb & Hsh).
  destruct (shape_eq (shp (d_ap da)) (shp (d_ap db))) eqn:E;
    [|apply (sim_ZCmp_refused σ ς code a b same CUnsafe api da db x y σ' r); assumption].
  specialize (Hsh eq_refl).
  rewrite (zstep_model_ZCmp σ code a b same CUnsafe api da db Ha Hb Ca Cb) in H.
  set (vs := map2 (zc code) (slogical ς x) (slogical ς y)).
  destruct (dest_post_written σ da a _ _ vs
              (dest_post_to_x Z σ da a _ _
                 (cmp_vv_unsafe_post Z 0 Z.add (zc code) σ a b da db same Ha Hb Oa Ob Hsh (not_overlaps_sep _ _ Hov))) Wa)
    as (σ1 & Er & Hdw).
  { intros c Hc'. apply (vals2 φ σ ς a b da db x y); assumption. }
  rewrite Er in H. cbn [of_oresult] in H. injection H as <- <-.
  assert (Hlv : length vs = length (s_cells x)).
  { unfold vs. rewrite map2_length; rewrite !slogical_length; [reflexivity|]. rewrite La, Lb. congruence. }
  rewrite (zstep_spec_ZCmp ς code a b same CUnsafe api x y Hx Hy). rewrite <- Sa, <- Sb, E. cbn [negb cmode_code].
  fold vs. rewrite (spec_deliver_unsafe ς a x _ vs _ Hx Hlv).
  eexists. split; [reflexivity|]. apply (sim_dest σ ς σ1 a da x vs HR HRM Ha Hx Hdw Hlv).
Qed.

Lemma sim_ZCmp_reuse σ ς code a b same r api da db rdn σ' res : R σ ς -> TInv σ ->
  get_t σ a = Some da -> get_t σ b = Some db -> get_t σ r = Some rdn ->
  shp (d_ap rdn) = shp (d_ap da) ->
  zguard σ (ZCmp code a b same (CReuse r) api) = GOk ->
  zstep_model σ (ZCmp code a b same (CReuse r) api) = (σ', res) ->
  exists ς', zstep_spec ς (ZCmp code a b same (CReuse r) api) = Some (ς', res) /\ R σ' ς' /\ TInv σ'.
Proof.
  intros HR HRM Ha Hb Hr Hshr Hg H. pose proof HR as (φ & Hφ).
  destruct (ZCmp_operands φ σ ς code a b same (CReuse r) api da db Hφ Ha Hb Hg)
    as (x & y & Hx & Hy & Wa & Wb & Oa & Ob & Sa & Sb & Ca & Cb & La & Lb & Hsh).
  destruct (shape_eq (shp (d_ap da)) (shp (d_ap db))) eqn:E;
    [|apply (sim_ZCmp_refused σ ς code a b same (CReuse r) api da db x y σ' res); assumption].
  specialize (Hsh eq_refl).
  destruct (zguard_ZCmp σ code a b same (CReuse r) api da db Ha Hb Hg) as (Hge & _ & _).
  cbn [cdst_of] in Hge. rewrite Hr in Hge.
  destruct (dest_facts φ σ ς r rdn _ _ _ Hφ Hr Hge) as (xr & Hxr & Wr & Or & Sr & Lr & Hsz & Hov).
  assert (Hfull : d_len rdn = size (shp (d_ap rdn))) by (rewrite Hshr; exact Hsz).
  rewrite (zstep_model_ZCmp σ code a b same (CReuse r) api da db Ha Hb Ca Cb) in H.
  set (vs := map2 (zc code) (slogical ς x) (slogical ς y)).
  assert (Hlv : length vs = length (s_cells xr)).
  { unfold vs. rewrite map2_length; rewrite !slogical_length; [|rewrite La, Lb; congruence].
    rewrite La, Lr. congruence. }
  destruct (dest_post_written σ rdn r _ _ vs
              (dest_post_to_x Z σ rdn r _ _
                 (cmp_vv_reuse_dest Z 0 Z.add (zc code) σ a b r da db rdn same Ha Hb Hr Oa Ob Or Hfull Hsh Hshr
                    (not_overlaps_sep _ _ (Hov da ltac:(left; reflexivity)))
                    (not_overlaps_sep _ _ (Hov db ltac:(right; left; reflexivity))))) Wr)
    as (σ1 & Er & Hdw).
  { intros c Hc'. rewrite Hshr in Hc' |- *. apply (vals2 φ σ ς a b da db x y); assumption. }
  rewrite Er in H. cbn [of_oresult] in H. injection H as <- <-.
  rewrite (zstep_spec_ZCmp ς code a b same (CReuse r) api x y Hx Hy). rewrite <- Sa, <- Sb, E. cbn [negb cmode_code].
  fold vs. assert (Hshx : shp (d_ap da) = s_shape xr) by congruence.
  apply (sim_dest_mode σ ς σ1 a r rdn xr _ vs _ false HR HRM Hr Hxr Hshx Hlv Hdw).
Qed.

(* ====================================================================================== *)
(*  12. ZCmpS (tensor-scalar comparison), safe mode                                        *)
(* ====================================================================================== *)
Definition zcs (code s : Z) (lft : bool) (v : Z) : Z := if lft then zc code v s else zc code s v.

Lemma zguard_ZCmpS σ code t s lft same m d : get_t σ t = Some d ->
  zguard σ (ZCmpS code t s lft same m) = GOk ->
  guard_elementwise [d] (cdst_of σ m) (size (shp (d_ap d))) (shp (d_ap d)) = GOk /\
  (lft = false -> requires_iterator d = false).
Proof.
  intros Ha H. unfold zguard in H. cbn [flat_map] in H. rewrite Ha in H. cbn [app existsb] in H. unfold cdst_of.
  destruct (guard_elementwise _ _ _ _) eqn:Eg; try discriminate H. split; [reflexivity|].
  intros ->. cbn [negb andb] in H. rewrite orb_false_r in H. destruct (requires_iterator d); [discriminate H|reflexivity].
Qed.

Lemma zstep_spec_ZCmpS ς code t s lft same m x : sget ς t = Some x ->
  zstep_spec ς (ZCmpS code t s lft same m)
  = spec_vals_deliver ς t (s_shape x) (map (fun v => Some v) (map (zcs code s lft) (slogical ς x))) (cmode_code m) false.
Proof.
  intros Hx. unfold zstep_spec. rewrite Hx, map_map. f_equal.
  apply map_ext. intro v. unfold zcs. destruct lft; reflexivity.
Qed.

Lemma cmp_scalar_safe_struct g σ tt t s lft same0 σ' n : get_t σ tt = Some t ->
  is_scalar (shp (d_ap t)) = false -> isS t = false -> 0 <= size (shp (d_ap t)) ->
  eng_cmp_scalar Z 0 Z.add g σ tt s lft same0 CSafe = (σ', OOk n) ->
  tens σ' = tens σ ++ [nd_dense Z (sc_store Z σ s) (shp (d_ap t))] /\
  size (shp (d_ap t)) <= zlen (get_buf σ' (S (length (bufs σ)))).
Proof.
  intros Ht Hsc HS Hsz H.
  assert (Hlb : length (bufs (sc_store Z σ s)) = S (length (bufs σ)))
    by (unfold sc_store; cbn [bufs]; rewrite app_length; cbn [length]; lia).
  rewrite <- Hlb. change (tens σ) with (tens (sc_store Z σ s)).
  apply (nd_struct (sc_store Z σ s) (shp (d_ap t)) σ' Hsz).
  destruct same0.
  - rewrite (eng_cmp_scalar_same_unfold Z 0 Z.add g σ tt t s lft Ht Hsc HS) in H.
    rewrite (eng_minmax_scalar_safe_unfold Z 0 Z.add g σ tt t s lft Ht Hsc) in H. cbv zeta in H.
    destruct (requires_iterator t).
    + destruct (all_iter t) as [ti|]; [|discriminate].
      destruct (all_iter (nd_dense Z (sc_store Z σ s) (shp (d_ap t)))) as [ri|]; [|discriminate].
      destruct (copy_iter_idx Z _ _ t ri ti) as [σ4|] eqn:Ec; [|discriminate].
      destruct lft; apply finish_inv in H as [H _];
        apply (same_lens_trans _ σ4 _ (copy_seq_lens _ _ _ _ _ _ Ec) (e_iter_lens _ _ _ _ _ _ _ _ H)).
    + destruct (copy_hdr Z _ _ t) as [σ4|] eqn:Ec; [|discriminate].
      destruct (lft || (d_len t =? 1)); apply finish_inv in H as [H _];
        apply (same_lens_trans _ σ4 _ (copy_hdr_lens _ _ _ _ Ec) (e_plain_lens _ _ _ _ _ _ H)).
  - rewrite (eng_cmp_scalar_bool_unfold Z 0 Z.add g σ tt t s lft Ht Hsc) in H. cbv zeta in H.
    destruct (requires_iterator t).
    + destruct (all_iter t) as [ti|]; [|discriminate].
      destruct (all_iter (nd_dense Z (sc_store Z σ s) (shp (d_ap t)))) as [ri|]; [|discriminate].
      destruct lft; apply finish2_inv in H as [H _]; apply (e_ret_iter_lens _ _ _ _ _ _ _ _ _ _ H).
    + destruct lft; apply finish2_inv in H as [H _]; apply (e_ret_lens _ _ _ _ _ _ _ H).
Qed.

Lemma sim_ZCmpS_safe σ ς code t s lft same d σ' r : R σ ς -> TInv σ ->
  get_t σ t = Some d -> d_old d = None -> 1 < size (shp (d_ap d)) ->
  zguard σ (ZCmpS code t s lft same CSafe) = GOk ->
  zstep_model σ (ZCmpS code t s lft same CSafe) = (σ', r) ->
  exists ς', zstep_spec ς (ZCmpS code t s lft same CSafe) = Some (ς', r) /\ R σ' ς' /\ TInv σ'.
Proof.
  intros HR HRM Ha Ho Hsz Hg H. pose proof HR as (φ & Hφ).
  destruct (zguard_ZCmpS σ code t s lft same CSafe d Ha Hg) as [Hge Hri].
  destruct (operand_facts φ σ ς t d _ _ _ _ Hφ Ha Hge ltac:(left; reflexivity))
    as (x & Hx & Wa & Oa & Sa & La & Ca & Pa).
  unfold zstep_model in H. rewrite (zcmp_gf code) in H.
  assert (Hpost : cmp_post1 Z σ d (eng_cmp_scalar Z 0 Z.add (gf Z (zc code)) σ t s lft same CSafe)
                    (fun c => match ocell σ d c with Some v => Some (zcs code s lft v) | None => None end)).
  { destruct lft.
    - apply (cmp_scalar_safe_left_post Z 0 Z.add (zc code) σ t d s same Ha Oa Hsz).
    - apply (cmp_scalar_safe_right_post Z 0 Z.add (zc code) σ t d s same Ha Oa Hsz).
      intros _. apply (OpsProofs.wf_flag _ _ _ Oa (Hri eq_refl)). }
  destruct Hpost as (σ1 & d' & Er & Hg' & _ & _ & _ & _ & _ & Hv & Hbufs & _).
  rewrite Er in H. cbn [of_oresult] in H. injection H as <- <-.
  destruct (cmp_scalar_safe_struct _ σ t d s lft same σ1 _ Ha Ca (OpsProofs.wf_isS _ _ _ Oa) ltac:(lia) Er) as (Ht1 & Hzl).
  assert (d' = nd_dense Z (sc_store Z σ s) (shp (d_ap d))).
  { unfold Mem.get_t in Hg'. rewrite Ht1, nth_error_app2, Nat.sub_diag in Hg' by lia. cbn [nth_error] in Hg'. congruence. }
  subst d'.
  assert (Hlb : length (bufs (sc_store Z σ s)) = S (length (bufs σ)))
    by (unfold sc_store; cbn [bufs]; rewrite app_length; cbn [length]; lia).
  rewrite (zstep_spec_ZCmpS ς code t s lft same CSafe x Hx). cbn [cmode_code].
  apply (sim_fresh_gen σ ς σ1 t d x (nd_dense Z (sc_store Z σ s) (shp (d_ap d))) _ false HR HRM Ha Hx Ho Hbufs Ht1);
    try reflexivity.
  - unfold nd_dense. cbn [d_buf]. lia.
  - unfold nd_dense. rewrite Hlb. apply nd_dense_wf; [apply (OpsProofs.wf_pos _ _ _ Oa)|exact Hzl].
  - rewrite map_length, slogical_length. reflexivity.
  - intros c Hc'. rewrite (Hv c Hc'). apply (vals1 φ σ ς t d x); assumption.
Qed.

End TensorInvariant.

Lemma rowmajor_new d : is_cm (ord (d_ap d)) = false -> d_old d = None -> rowmajor d.
Proof. intros Hcm Ho. split; [exact Hcm|]. intros o Eo. congruence. Qed.

(* ====================================================================================== *)
(*  13. two more structural operations: ORollAxis and OApiTranspose                        *)
(* ====================================================================================== *)
Local Notation step_model := (Run.step_model Z 0).
Local Notation step_spec := (Run.step_spec Z 0).
Local Notation guard_op := (Run.guard_op Z).

(* ---- the axes of RollAxis are a permutation ---- *)
Lemma filter_ne_length axis : forall n a,
  length (filter (fun i => negb (i =? axis)) (zseq a n))
  = if (a <=? axis) && (axis <? a + Z.of_nat n) then (n - 1)%nat else n.
Proof.
  induction n as [|n IH]; intro a; cbn [zseq filter].
  - replace ((a <=? axis) && (axis <? a + Z.of_nat 0)) with false by lia. reflexivity.
  - destruct (Z.eq_dec a axis) as [->|Hne].
    + replace (negb (axis =? axis)) with false by lia. rewrite (IH (axis + 1)).
      replace ((axis + 1 <=? axis) && (axis <? axis + 1 + Z.of_nat n)) with false by lia.
      replace ((axis <=? axis) && (axis <? axis + Z.of_nat (S n))) with true by lia. lia.
    + replace (negb (a =? axis)) with true by lia. cbn [length]. rewrite (IH (a + 1)).
      destruct ((a + 1 <=? axis) && (axis <? a + 1 + Z.of_nat n)) eqn:E.
      * replace ((a <=? axis) && (axis <? a + Z.of_nat (S n))) with true by lia. lia.
      * replace ((a <=? axis) && (axis <? a + Z.of_nat (S n))) with false by lia. reflexivity.
Qed.

Lemma roll_axes_perm (n : nat) axis start : 0 <= axis < Z.of_nat n -> 0 <= start < Z.of_nat n ->
  is_perm_axes (roll_axes (Z.of_nat n) axis start) n = true.
Proof.
  intros Ha Hs. unfold roll_axes. rewrite Nat2Z.id.
  set (without := filter (fun i => negb (i =? axis)) (zseq 0 n)).
  assert (Hlw : length without = (n - 1)%nat).
  { unfold without. rewrite filter_ne_length. replace ((0 <=? axis) && (axis <? 0 + Z.of_nat n)) with true by lia.
    reflexivity. }
  set (axes := firstn (Z.to_nat start) without ++ [axis] ++ skipn (Z.to_nat start) without).
  assert (Hlen : length axes = n).
  { unfold axes. rewrite !app_length, firstn_length, skipn_length. cbn [length]. lia. }
  assert (Hin : forall i, In i (zseq 0 n) -> In i axes).
  { intros i Hi. unfold axes. destruct (Z.eq_dec i axis) as [->|Hne].
    - apply in_or_app. right. left. reflexivity.
    - assert (Hw : In i without) by (apply filter_In; split; [exact Hi|lia]).
      rewrite <- (firstn_skipn (Z.to_nat start) without) in Hw. apply in_app_or in Hw as [Hw|Hw].
      + apply in_or_app. left. exact Hw.
      + apply in_or_app. right. right. exact Hw. }
  unfold is_perm_axes. destruct axes as [|a0 axes'] eqn:Ea; [cbn [length] in Hlen; lia|].
  rewrite Hlen, Nat.eqb_refl. cbn [andb]. apply forallb_forall. intros i Hi.
  apply existsb_exists. exists i. split; [apply Hin; exact Hi|lia].
Qed.

Lemma guard_read_ok_or_unsound d :
  pos_shape (shp (d_ap d)) -> 0 < d_len d -> length (str (d_ap d)) = length (shp (d_ap d)) ->
  guard_read d = GOk \/ guard_read d = GFlagUnsound.
Proof.
  intros Hp Hl Hs. unfold guard_read. rewrite (pos_shape_complete _ Hp).
  replace (d_len d <=? 0) with false by lia. cbn [negb orb].
  replace (length (str (d_ap d)) <? length (shp (d_ap d)))%nat with false by (symmetry; apply Nat.ltb_ge; lia).
  destruct (flag_soundb d); [left|right]; reflexivity.
Qed.

Definition rollaxis_guard_facts (d : dense) (safe : bool) : Prop :=
  (guard_read d = GOk \/ guard_read d = GFlagUnsound) /\
  (safe = false -> d_old d = None) /\
  is_vector (shp (d_ap d)) && negb (allones (str (d_ap d))) = false.

Lemma guard_ORollAxis σ t axis start safe d : get_t σ t = Some d ->
  guard_op σ (ORollAxis Z t axis start safe) = GOk -> rollaxis_guard_facts d safe.
Proof.
  intros Ht Hg. unfold Run.guard_op in Hg. rewrite Ht in Hg. unfold rollaxis_guard_facts.
  assert (G : (guard_read d = GOk \/ guard_read d = GFlagUnsound) /\
              (if negb safe && is_some (d_old d) then GPendingTranspose
               else if is_vector (shp (d_ap d)) && negb (allones (str (d_ap d))) then GVectorAxes else GOk) = GOk)
    by (destruct (guard_read d); try discriminate Hg; auto).
  destruct G as [G1 G2]. split; [exact G1|].
  destruct (negb safe && is_some (d_old d)) eqn:E1; [discriminate G2|].
  destruct (is_vector _ && negb _) eqn:E2; [discriminate G2|]. split; [|reflexivity].
  intros ->. cbn [negb andb] in E1. destruct (d_old d); [discriminate E1|reflexivity].
Qed.

Lemma guard_T_of d axes : (guard_read d = GOk \/ guard_read d = GFlagUnsound) ->
  is_perm_axes axes (length (shp (d_ap d))) = true -> d_old d = None ->
  is_vector (shp (d_ap d)) && negb (allones (str (d_ap d))) = false -> guard_T d axes = GOk.
Proof.
  intros G Hp Ho Hv. unfold guard_T. rewrite Hp, Ho, Hv. cbn [negb is_some]. destruct G as [-> | ->]; reflexivity.
Qed.

Lemma guard_safeT_of d axes : (guard_read d = GOk \/ guard_read d = GFlagUnsound) ->
  is_perm_axes axes (length (shp (d_ap d))) = true ->
  is_vector (shp (d_ap d)) && negb (allones (str (d_ap d))) = false -> guard_safeT d axes = GOk.
Proof.
  intros G Hp Hv. unfold guard_safeT. rewrite Hp, Hv. cbn [negb]. destruct G as [-> | ->]; reflexivity.
Qed.

(* under its guard SafeT does not fail *)
Lemma safeT_new σ t d axes σ' r : get_t σ t = Some d -> wf_dense σ d -> guard_safeT d axes = GOk ->
  step_model σ (OSafeT Z t axes) = (σ', r) -> r = RNew Z (length (tens σ)).
Proof.
  intros Ht Hwf Hg H. destruct (guard_safeT_ok d axes Hg) as (Hpa & Hvec).
  destruct (perm_axes_cases axes _ Hpa) as [Hp Hax]. destruct Hwf as (_ & Ha & _).
  rewrite (step_model_safeT Z 0 σ t d axes Ht) in H.
  destruct (ap_T_cases (d_ap d) (d_len d) axes Ha Hp Hax Hvec) as [[_ E]|[ax E]];
    rewrite E in H; injection H as _ <-; reflexivity.
Qed.

Lemma sim_ORollAxis σ ς t axis start safe σ' r : R σ ς -> RM σ ->
  guard_op σ (ORollAxis Z t axis start safe) = GOk ->
  step_model σ (ORollAxis Z t axis start safe) = (σ', r) ->
  exists ς', step_spec ς (ORollAxis Z t axis start safe) = Some (ς', r) /\ R σ' ς' /\ RM σ'.
Proof.
  intros HR HRM Hg H. pose proof HR as (φ & Hφ).
  destruct (get_t σ t) as [d|] eqn:Ht; [|unfold Run.guard_op in Hg; rewrite Ht in Hg; discriminate Hg].
  destruct (guard_ORollAxis σ t axis start safe d Ht Hg) as (G1 & G2 & G3).
  destruct (get_sget Z 0 φ σ ς t d Hφ Ht) as [x Hx].
  pose proof Hφ as (_ & _ & _ & Hall). destruct (Hall t d x Ht Hx) as (Hwf & (Hs & _) & _).
  unfold Run.step_model, m_rollaxis in H. rewrite Ht in H.
  unfold Run.step_spec. rewrite Hx, <- Hs.
  set (dims := zlen (shp (d_ap d))) in *.
  destruct (negb ((0 <=? axis) && (axis <? dims))) eqn:E1.
  { cbn [lift_new orb] in H |- *. injection H as <- <-. exists ς. auto. }
  destruct (negb ((0 <=? start) && (start <=? dims))) eqn:E2.
  { cbn [lift_new orb] in H |- *. injection H as <- <-. exists ς. auto. }
  cbn [orb].
  set (start' := if axis <? start then start - 1 else start) in *.
  destruct (axis =? start') eqn:E3.
  { cbn [lift_new] in H. injection H as <- <-. exists ς. auto. }
  assert (Hperm : is_perm_axes (roll_axes dims axis start') (length (shp (d_ap d))) = true).
  { unfold dims, zlen. apply roll_axes_perm; unfold dims, zlen in *; [lia|]. unfold start'. destruct (axis <? start) eqn:E4; lia. }
  fold (roll_axes dims axis start').
  set (axes := roll_axes dims axis start') in *.
  destruct safe.
  - (* a SafeT *)
    change (lift_new Z σ (m_safeT Z σ t axes)) with (step_model σ (OSafeT Z t axes)) in H.
    assert (Hgs : guard_op σ (OSafeT Z t axes) = GOk).
    { unfold Run.guard_op. rewrite Ht. apply guard_safeT_of; assumption. }
    pose proof (safeT_new σ t d axes σ' r Ht Hwf ltac:(apply guard_safeT_of; assumption) H) as Er.
    destruct (sim_OSafeT Z 0 σ ς t axes σ' r HR HRM Hgs H) as (ς' & E & HR' & HRM').
    exists ς'. split; [|split; assumption].
    unfold Run.step_spec in E. destruct (spec_copy_of Z 0 ς t true) as [[ς1 t']|]; [|discriminate E].
    destruct (spec_T Z ς1 t' axes) as [[ς2|]|]; [exact E| |discriminate E].
    rewrite Er in E. discriminate E.
  - (* a T *)
    specialize (G2 eq_refl).
    assert (Hgt : guard_op σ (OT Z t axes) = GOk).
    { unfold Run.guard_op. rewrite Ht. apply guard_T_of; assumption. }
    destruct (perm_axes_cases axes _ Hperm) as [Hp Hax].
    assert (Em : exists σ1, m_T Z σ t axes = Ok σ1).
    { destruct (T_model Z σ t d axes Ht Hwf G2 Hp Hax G3) as [[_ E]|(_ & _ & E)]; rewrite E; eauto. }
    destruct Em as [σ1 Em]. rewrite Em in H. cbn [lift_new] in H. injection H as <- <-.
    assert (HT : step_model σ (OT Z t axes) = (σ1, RUnit Z)) by (unfold Run.step_model; rewrite Em; reflexivity).
    destruct (sim_OT Z 0 σ ς t axes σ1 _ HR Hgt HT) as (ς' & E & HR').
    exists ς'. split; [|split; [exact HR'|apply (RM_OT Z 0 σ ς t axes σ1 _ HR HRM Hgt HT)]].
    unfold Run.step_spec in E. destruct (spec_T Z ς t axes) as [[ς2|]|]; [|discriminate E|discriminate E].
    injection E as ->. reflexivity.
Qed.

(* ---- tensor.Transpose(t, axes) = SafeT, then a physical Transpose of the copy ---- *)
Lemma is_nc_lor_TR o : is_nc (Z.lor o TR) = is_nc o.
Proof. unfold is_nc. rewrite Z.lor_spec. change (Z.testbit TR 1) with false. apply orb_false_r. Qed.

(* the copy made by the SafeT step must satisfy the restriction of RefineProofs.sim_OTranspose_pending
   (transpose_extra: window of exactly size-many cells, shape not scalar): proof restriction *)
Definition apiT_extra (σ : store Z) (t : nat) (axes : list Z) : bool :=
  match step_model σ (OSafeT Z t axes) with
  | (σ1, RNew _ t') => transpose_extra Z σ1 t'
  | _ => true
  end.

Lemma sim_OApiTranspose σ ς t axes σ' r : R σ ς -> RM σ ->
  guard_op σ (OApiTranspose Z t axes) = GOk -> apiT_extra σ t axes = true ->
  step_model σ (OApiTranspose Z t axes) = (σ', r) ->
  exists ς', step_spec ς (OApiTranspose Z t axes) = Some (ς', r) /\ R σ' ς' /\ RM σ'.
Proof.
  intros HR HRM Hg He H. pose proof HR as (φ & Hφ).
  destruct (get_t σ t) as [d|] eqn:Ht; [|unfold Run.guard_op in Hg; rewrite Ht in Hg; discriminate Hg].
  unfold Run.guard_op in Hg. rewrite Ht in Hg.
  destruct (guard_safeT d axes) eqn:Gs; try discriminate Hg.
  destruct (is_cm (ord (d_ap d))) eqn:Gcm; [discriminate Hg|].
  destruct (d_view d || is_nc (ord (d_ap d))) eqn:Gv; [discriminate Hg|]. apply orb_false_iff in Gv as [Gview Gnc].
  destruct (get_sget Z 0 φ σ ς t d Hφ Ht) as [x Hx].
  pose proof Hφ as (_ & _ & _ & Hall). destruct (Hall t d x Ht Hx) as (Hwf & _).
  assert (Hgs : guard_op σ (OSafeT Z t axes) = GOk) by (unfold Run.guard_op; rewrite Ht; exact Gs).
  destruct (step_model σ (OSafeT Z t axes)) as [σ1 r1] eqn:H1.
  pose proof (safeT_new σ t d axes σ1 r1 Ht Hwf Gs H1) as Er1. subst r1.
  set (t' := length (tens σ)) in *.
  destruct (sim_OSafeT Z 0 σ ς t axes σ1 _ HR HRM Hgs H1) as (ς1 & E1 & HR1 & HRM1).
  unfold apiT_extra in He. rewrite H1 in He.
  (* the copy *)
  assert (Hd' : exists tr, (tr = d_ap d \/ exists p, tr = mkAP (permute 0 p (shp (d_ap d))) (permute 0 p (str (d_ap d)))
                                                        (Z.lor (ord (d_ap d)) TR) true) /\
                 σ1 = mkStore Z (bufs σ ++ [window Z σ d])
                        (tens σ ++ [mkDense (length (bufs σ)) 0 (d_len d) tr (Some (d_ap d)) false])).
  { destruct (guard_safeT_ok d axes Gs) as (Hpa & Hvec). destruct (perm_axes_cases axes _ Hpa) as [Hp Hax].
    pose proof Hwf as (_ & Ha & _). rewrite (step_model_safeT Z 0 σ t d axes Ht) in H1.
    destruct (ap_T_cases (d_ap d) (d_len d) axes Ha Hp Hax Hvec) as [[_ E]|[ax E]]; rewrite E in H1;
      injection H1 as <-; eexists; (split; [|reflexivity]); [left; reflexivity|right; eexists; reflexivity]. }
  destruct Hd' as (tr & Htr & Eσ1).
  set (d' := mkDense (length (bufs σ)) 0 (d_len d) tr (Some (d_ap d)) false) in *.
  assert (Ht' : get_t σ1 t' = Some d').
  { rewrite Eσ1. unfold Mem.get_t. cbn [tens]. apply nth_error_app_last. }
  assert (Hnc' : is_nc (ord tr) = false).
  { destruct Htr as [-> | [p ->]]; [exact Gnc|]. cbn [ord]. rewrite is_nc_lor_TR. exact Gnc. }
  assert (Hgt : guard_op σ1 (OTranspose Z t') = GOk).
  { pose proof HR1 as (φ1 & Hφ1). destruct (get_sget Z 0 φ1 σ1 ς1 t' d' Hφ1 Ht') as [x' Hx'].
    pose proof Hφ1 as (_ & _ & _ & Hall1). destruct (Hall1 t' d' x' Ht' Hx') as (Hwf' & _).
    pose proof Hwf' as (_ & Ha' & _). pose proof Ha' as (Hp' & Hl' & _).
    destruct (HRM1 t' d' Ht') as [Hcm' _].
    unfold Run.guard_op. rewrite Ht'. unfold guard_transpose.
    assert (Gr : guard_read d' = GOk \/ guard_read d' = GFlagUnsound).
    { apply guard_read_ok_or_unsound; [exact Hp'|apply (wf_ap_len_pos _ _ Ha')|exact Hl']. }
    assert (Hcount : length (filter (fun x0 => Nat.eqb (d_buf x0) (d_buf d')) (tens σ1)) = 1%nat).
    { rewrite Eσ1. cbn [tens]. rewrite filter_app. cbn [filter]. fold d'. rewrite Nat.eqb_refl.
      rewrite app_length. cbn [length].
      assert (Hnil : filter (fun x0 => Nat.eqb (d_buf x0) (d_buf d')) (tens σ) = []).
      { destruct (filter _ (tens σ)) as [|d0 l0] eqn:Ef; [reflexivity|exfalso].
        assert (Hin : In d0 (filter (fun x0 => Nat.eqb (d_buf x0) (d_buf d')) (tens σ))) by (rewrite Ef; left; reflexivity).
        apply filter_In in Hin as [Hin Hb]. apply Nat.eqb_eq in Hb. cbn [d' d_buf] in Hb.
        apply In_nth_error in Hin as [t0 Hn]. change (get_t σ t0 = Some d0) in Hn.
        destruct (get_sget Z 0 φ σ ς t0 d0 Hφ Hn) as [x0 Hx0]. destruct (Hall t0 d0 x0 Hn Hx0) as (Hwf0 & _).
        pose proof (wf_dense_buf_lt Z σ d0 Hwf0). lia. }
      rewrite Hnil. reflexivity. }
    assert (Hsome : is_some (d_old d') = true) by reflexivity.
    assert (Hview : d_view d' = false) by reflexivity.
    assert (Hnc2 : is_nc (ord (d_ap d')) = false) by exact Hnc'.
    destruct Gr as [Gr|Gr]; rewrite Gr; cbv beta iota; rewrite Hsome, Hcm', Hview, Hnc2, Hcount; reflexivity. }
  destruct (step_model σ1 (OTranspose Z t')) as [σ2 r2] eqn:H2.
  assert (He' : extra_ok Z σ1 (OTranspose Z t') = true) by exact He.
  destruct (step_sim Z 0 σ1 ς1 (OTranspose Z t') σ2 r2 HR1 HRM1 eq_refl Hgt He' H2) as (ς2 & E2 & HR2 & HRM2).
  (* the SPEC side *)
  unfold Run.step_spec in E1, E2 |- *.
  destruct (spec_copy_of Z 0 ς t true) as [[ςc tc]|]; [|discriminate E1].
  destruct (spec_T Z ςc tc axes) as [[ςt|]|]; [|discriminate E1|discriminate E1].
  injection E1 as -> Etc. fold t' in Etc. subst tc.
  destruct (spec_transpose Z ς1 t') as [ς3|]; [|discriminate E2]. injection E2 as -> <-.
  (* the model side *)
  unfold Run.step_model in H, H1, H2. unfold m_api_transpose in H.
  destruct (m_safeT Z σ t axes) as [[σa ta]| |]; cbn [lift_new] in H1; try discriminate H1.
  injection H1 as -> ->.
  destruct (m_transpose Z σ1 t') as [σb| |]; cbn [lift_store] in H2; try discriminate H2.
  injection H2 as ->. cbn [lift_new] in H. injection H as <- <-.
  exists ς2. auto.
Qed.

(* the structural fragment of RefineProofs.v, extended *)
Definition in_fragment2 (o : op Z) : bool :=
  match o with
  | ORollAxis _ _ _ _ _ | OApiTranspose _ _ _ => true
  | _ => in_fragment Z o
  end.

Definition extra_ok2 (σ : store Z) (o : op Z) : bool :=
  match o with
  | OApiTranspose _ t axes => apiT_extra σ t axes       (* proof restriction, see sim_OApiTranspose *)
  | _ => extra_ok Z σ o
  end.

Theorem step_sim2 σ ς o σ' r : R σ ς -> RM σ -> in_fragment2 o = true ->
  guard_op σ o = GOk -> extra_ok2 σ o = true ->
  step_model σ o = (σ', r) ->
  exists ς', step_spec ς o = Some (ς', r) /\ R σ' ς' /\ RM σ'.
Proof.
  intros HR HRM Hf Hg He H.
  destruct o; try (apply (step_sim Z 0 σ ς _ σ' r HR HRM Hf Hg He H)).
  - apply (sim_ORollAxis σ ς t axis start safe σ' r HR HRM Hg H).
  - apply (sim_OApiTranspose σ ς t axes σ' r HR HRM Hg He H).
Qed.

(* ====================================================================================== *)
(*  one step of the value-level fragment; histories                                        *)
(* ====================================================================================== *)
(* the operations covered: the structural fragment of RefineProofs.v extended by RollAxis and
   tensor.Transpose (in_fragment2); tensor-tensor (method and package-function form) and tensor-scalar
   (scalar on either side) arithmetic with the total codes + - * pow, and every unary operation, in ALL
   FOUR option modes; every tensor-tensor comparison (bool or same-type result, both forms) in the
   modes safe, unsafe, reuse; tensor-scalar comparisons in safe mode.
   Outside: / and % (zero-divisor branches CZero / CPanic), min / max (codes 6, 7: another engine),
   ZCmpS unsafe / reuse (no theorem in OpsProofs2.v), Apply, reductions, products, ... *)
Definition zin_fragment (o : zop) : bool :=
  match o with
  | ZBase b => in_fragment2 b
  | ZBin code _ _ _ _ => code_tot code
  | ZBinS code _ _ _ _ => code_tot code
  | ZUn _ _ _ => true
  | ZCmp _ _ _ _ _ _ => true                     (* CSafe, CUnsafe, CReuse; zguard excludes CIncr *)
  | ZCmpS _ _ _ _ _ m => match m with CSafe => true | _ => false end
  | _ => false
  end.

(* the destination of a reuse / incr step:
   - it exists: GAP of zguard (ZUn_reuse_zguard_gap);
   - it has the operands' shape: PROOF restriction (zguard accepts any non-view destination of the
     right size; the engine then reshapes it, which is OReshape's business; both sides agree, see
     zextra_proof_restrictions);
   - [strict] (ZBin, ZUn — the theorems of OpsProofs.v; not needed for ZBinS and ZCmp, whose theorems in
     OpsProofs2.v ask for disjoint windows only, which zguard's GDestAlias test gives): it lives in
     another ALLOCATION than the operands and is contiguous (requires_iterator = false): PROOF
     restrictions (both sides agree, see zextra_proof_restrictions) *)
Definition dest_extra (σ : store Z) (r : nat) (da : dense) (others : list dense) (strict : bool) : bool :=
  match get_t σ r with
  | Some dr =>
    list_eqb (shp (d_ap dr)) (shp (d_ap da)) &&
    (negb strict || (forallb (fun d => negb (Nat.eqb (d_buf dr) (d_buf d))) others && negb (requires_iterator dr)))
  | None => false
  end.

(* what has to be added to zguard for the simulation to hold.  For every clause: a restriction of the
   PROOF (both sides agree without it: zextra_proof_restrictions), or a real GAP of the guard (with a
   vm_compute counterexample <op>_zguard_gap after the theorems):
   - operands / destination exist                        GAP   ZUn_zguard_gap, ZUn_reuse_zguard_gap
   - safe mode: nothing pending on the first operand      PROOF (the result is a Clone() of the operand
       and inherits its thunk; the SPEC then says pending = 2, "UT unspecified", which R cannot express;
       for comparisons the result is a NewDense and has nothing pending while the SPEC says 2)
   - unsafe tensor-tensor: operands do not overlap        GAP   ZBin_unsafe_zguard_gap (partial overlap);
                                                           PROOF for a = b
   - reuse / incr: see dest_extra
   - safe comparisons: 1 < size of the shape               GAP   ZCmp_safe_zguard_gap, ZCmpS_safe_zguard_gap
   - structural operations: extra_ok2 (RefineProofs.extra_ok and apiT_extra) *)
Definition zextra_ok (σ : store Z) (o : zop) : bool :=
  match o with
  | ZBase b => extra_ok2 σ b
  | ZBin _ a b m _ =>
    match get_t σ a, get_t σ b with
    | Some da, Some db =>
      match m with
      | MSafe => negb (is_some (d_old da))
      | MUnsafe => negb (overlaps da db)
      | MReuse r | MIncr r => dest_extra σ r da [da; db] true
      end
    | _, _ => false
    end
  | ZBinS _ t _ _ m =>
    match get_t σ t with
    | Some d =>
      match m with
      | MSafe => negb (is_some (d_old d))
      | MUnsafe => true
      | MReuse r | MIncr r => dest_extra σ r d [d] false
      end
    | None => false
    end
  | ZUn _ a m =>
    match get_t σ a with
    | Some da =>
      match m with
      | MSafe => negb (is_some (d_old da))
      | MUnsafe => true
      | MReuse r | MIncr r => dest_extra σ r da [da] true
      end
    | None => false
    end
  | ZCmp _ a b _ m _ =>
    match get_t σ a, get_t σ b with
    | Some da, Some db =>
      match m with
      | CSafe => negb (is_some (d_old da)) && (1 <? size (shp (d_ap da)))
      | CUnsafe => negb (overlaps da db)
      | CReuse r => dest_extra σ r da [] false
      | CIncr _ => true
      end
    | _, _ => false
    end
  | ZCmpS _ t _ _ _ m =>
    match get_t σ t with
    | Some d => negb (is_some (d_old d)) && (1 <? size (shp (d_ap d)))
    | None => false
    end
  | _ => true
  end.

Lemma dest_extra_ok σ r da others strict : dest_extra σ r da others strict = true ->
  exists dr, get_t σ r = Some dr /\ shp (d_ap dr) = shp (d_ap da) /\
    (strict = true -> (forall d, In d others -> d_buf dr <> d_buf d) /\ requires_iterator dr = false).
Proof.
  unfold dest_extra. destruct (get_t σ r) as [dr|]; [|discriminate]. intro H.
  apply andb_true_iff in H as [H1 H2]. apply list_eqb_true in H1.
  exists dr. split; [reflexivity|]. split; [exact H1|]. intros ->. cbn [negb orb] in H2.
  apply andb_true_iff in H2 as [H2 H3]. split; [|destruct (requires_iterator dr); [discriminate H3|reflexivity]].
  intros d Hd. rewrite forallb_forall in H2. specialize (H2 d Hd).
  destruct (Nat.eqb_spec (d_buf dr) (d_buf d)); [discriminate H2|assumption].
Qed.

Lemma old_none d : negb (is_some (d_old d)) = true -> d_old d = None.
Proof. destruct (d_old d); [discriminate|reflexivity]. Qed.

(* the elementwise steps, for ANY tensor-by-tensor invariant of the model that new row-major tensors
   with nothing pending satisfy *)
Lemma zstep_sim_elem (P : dense -> Prop)
  (HP : forall d, is_cm (ord (d_ap d)) = false -> d_old d = None -> P d) σ ς o σ' r :
  R σ ς -> TInv P σ -> zin_fragment o = true -> match o with ZBase _ => False | _ => True end ->
  zguard σ o = GOk -> zextra_ok σ o = true ->
  zstep_model σ o = (σ', r) ->
  exists ς', zstep_spec ς o = Some (ς', r) /\ R σ' ς' /\ TInv P σ'.
Proof.
  intros HR HRM Hf Hnb Hg He H. destruct o; try discriminate Hf.
  - destruct Hnb.
  - (* ZBin *)
    cbn [zin_fragment] in Hf. cbn [zextra_ok] in He.
    destruct (get_t σ a) as [da|] eqn:Ha; [|discriminate]. destruct (get_t σ b) as [db|] eqn:Hb; [|discriminate].
    destruct m as [| |r0|r0].
    + apply (sim_ZBin_safe P HP σ ς code a b api da db σ' r HR HRM Hf Ha Hb (old_none _ He) Hg H).
    + apply negb_true_iff in He. apply (sim_ZBin_unsafe P HP σ ς code a b api da db σ' r HR HRM Hf Ha Hb He Hg H).
    + destruct (dest_extra_ok _ _ _ _ _ He) as (dr & Hr & Hs & Hstrict). destruct (Hstrict eq_refl) as [Hb' Hri].
      apply (sim_ZBin_dest P HP σ ς code a b _ r0 api da db dr σ' r HR HRM Hf (or_introl eq_refl) Ha Hb Hr Hs); auto.
      * apply Hb'. left. reflexivity.
      * apply Hb'. right. left. reflexivity.
    + destruct (dest_extra_ok _ _ _ _ _ He) as (dr & Hr & Hs & Hstrict). destruct (Hstrict eq_refl) as [Hb' Hri].
      apply (sim_ZBin_dest P HP σ ς code a b _ r0 api da db dr σ' r HR HRM Hf (or_intror eq_refl) Ha Hb Hr Hs); auto.
      * apply Hb'. left. reflexivity.
      * apply Hb'. right. left. reflexivity.
  - (* ZBinS *)
    cbn [zin_fragment] in Hf. cbn [zextra_ok] in He.
    destruct (get_t σ t) as [d|] eqn:Ha; [|discriminate].
    destruct m as [| |r0|r0].
    + apply (sim_ZBinS_safe P HP σ ς code t s lft d σ' r HR HRM Hf Ha (old_none _ He) Hg H).
    + apply (sim_ZBinS_unsafe P HP σ ς code t s lft d σ' r HR HRM Hf Ha Hg H).
    + destruct (dest_extra_ok _ _ _ _ _ He) as (dr & Hr & Hs & _).
      apply (sim_ZBinS_dest P HP σ ς code t s lft _ r0 d dr σ' r HR HRM Hf (or_introl eq_refl) Ha Hr Hs Hg H).
    + destruct (dest_extra_ok _ _ _ _ _ He) as (dr & Hr & Hs & _).
      apply (sim_ZBinS_dest P HP σ ς code t s lft _ r0 d dr σ' r HR HRM Hf (or_intror eq_refl) Ha Hr Hs Hg H).
  - (* ZCmp *)
    cbn [zextra_ok] in He.
    destruct (get_t σ a) as [da|] eqn:Ha; [|discriminate]. destruct (get_t σ b) as [db|] eqn:Hb; [|discriminate].
    destruct m as [| |r0|r0].
    + apply andb_true_iff in He as [He1 He2].
      apply (sim_ZCmp_safe P HP σ ς code a b same api da db σ' r HR HRM Ha Hb (old_none _ He1) ltac:(lia) Hg H).
    + apply negb_true_iff in He. apply (sim_ZCmp_unsafe P HP σ ς code a b same api da db σ' r HR HRM Ha Hb He Hg H).
    + destruct (dest_extra_ok _ _ _ _ _ He) as (dr & Hr & Hs & _).
      apply (sim_ZCmp_reuse P HP σ ς code a b same r0 api da db dr σ' r HR HRM Ha Hb Hr Hs Hg H).
    + exfalso. destruct (zguard_ZCmp σ code a b same (CIncr r0) api da db Ha Hb Hg) as (_ & _ & Hn).
      apply (Hn r0). reflexivity.
  - (* ZCmpS *)
    cbn [zin_fragment] in Hf. cbn [zextra_ok] in He.
    destruct (get_t σ t) as [d|] eqn:Ha; [|discriminate].
    destruct m; try discriminate Hf. apply andb_true_iff in He as [He1 He2].
    apply (sim_ZCmpS_safe P HP σ ς code t s lft same d σ' r HR HRM Ha (old_none _ He1) ltac:(lia) Hg H).
  - (* ZUn *)
    cbn [zextra_ok] in He. destruct (get_t σ a) as [da|] eqn:Ha; [|discriminate].
    destruct m as [| |r0|r0].
    + apply (sim_ZUn_safe P HP σ ς code a da σ' r HR HRM Ha (old_none _ He) Hg H).
    + apply (sim_ZUn_unsafe P HP σ ς code a da σ' r HR HRM Ha Hg H).
    + destruct (dest_extra_ok _ _ _ _ _ He) as (dr & Hr & Hs & Hstrict). destruct (Hstrict eq_refl) as [Hb' Hri].
      apply (sim_ZUn_dest P HP σ ς code a _ r0 da dr σ' r HR HRM (or_introl eq_refl) Ha Hr Hs); auto.
      apply Hb'. left. reflexivity.
    + destruct (dest_extra_ok _ _ _ _ _ He) as (dr & Hr & Hs & Hstrict). destruct (Hstrict eq_refl) as [Hb' Hri].
      apply (sim_ZUn_dest P HP σ ς code a _ r0 da dr σ' r HR HRM (or_intror eq_refl) Ha Hr Hs); auto.
      apply Hb'. left. reflexivity.
Qed.

Theorem zstep_sim σ ς o σ' r : R σ ς -> RM σ -> zin_fragment o = true ->
  zguard σ o = GOk -> zextra_ok σ o = true ->
  zstep_model σ o = (σ', r) ->
  exists ς', zstep_spec ς o = Some (ς', r) /\ R σ' ς' /\ RM σ'.
Proof.
  intros HR HRM Hf Hg He H.
  destruct (match o with ZBase _ => true | _ => false end) eqn:Eb.
  - destruct o; try discriminate Eb. apply (step_sim2 σ ς o σ' r HR HRM Hf Hg He H).
  - apply (zstep_sim_elem rowmajor rowmajor_new σ ς o σ' r HR HRM Hf); [|exact Hg|exact He|exact H].
    destruct o; [discriminate Eb|exact I..].
Qed.

Fixpoint zrun_model (ops : list zop) (σ : store Z) : store Z * list (outcome Z) :=
  match ops with
  | [] => (σ, [])
  | o :: rest =>
    let (σ1, r) := zstep_model σ o in
    let (σ2, rs) := zrun_model rest σ1 in (σ2, r :: rs)
  end.

Fixpoint zrun_spec (ops : list zop) (ς : sstate Z) : option (sstate Z * list (outcome Z)) :=
  match ops with
  | [] => Some (ς, [])
  | o :: rest =>
    match zstep_spec ς o with
    | None => None
    | Some (ς1, r) =>
      match zrun_spec rest ς1 with
      | None => None
      | Some (ς2, rs) => Some (ς2, r :: rs)
      end
    end
  end.

(* every step's guard, evaluated on the model state reached so far *)
Fixpoint zguards_ok (σ : store Z) (ops : list zop) : Prop :=
  match ops with
  | [] => True
  | o :: rest => zguard σ o = GOk /\ zextra_ok σ o = true /\ zguards_ok (fst (zstep_model σ o)) rest
  end.

Fixpoint zguard_trace (σ : store Z) (ops : list zop) : list gclass :=
  match ops with
  | [] => []
  | o :: rest => zguard σ o :: zguard_trace (fst (zstep_model σ o)) rest
  end.

Lemma zguards_ok_firstn k : forall ops σ, zguards_ok σ ops -> zguards_ok σ (firstn k ops).
Proof.
  induction k as [|k IH]; intros [|o ops] σ H; cbn [firstn zguards_ok]; auto.
  destruct H as (H1 & H2 & H3). auto.
Qed.

Lemma zhistory_sim : forall ops σ ς, R σ ς -> RM σ -> forallb zin_fragment ops = true -> zguards_ok σ ops ->
  exists ς', zrun_spec ops ς = Some (ς', snd (zrun_model ops σ)) /\ R (fst (zrun_model ops σ)) ς' /\
             RM (fst (zrun_model ops σ)).
Proof.
  induction ops as [|o ops IH]; intros σ ς HR HRM Hf Hg.
  - exists ς. split; [reflexivity|]. split; [exact HR|exact HRM].
  - cbn [forallb] in Hf. apply andb_true_iff in Hf as [Hf1 Hf2].
    destruct Hg as (Hg1 & Hg2 & Hg3).
    cbn [zrun_model zrun_spec]. destruct (zstep_model σ o) as [σ1 r] eqn:Es.
    destruct (zstep_sim σ ς o σ1 r HR HRM Hf1 Hg1 Hg2 Es) as (ς1 & E1 & HR1 & HRM1).
    rewrite E1. cbn [fst] in Hg3. destruct (IH σ1 ς1 HR1 HRM1 Hf2 Hg3) as (ς2 & E2 & HR2 & HRM2).
    rewrite E2. destruct (zrun_model ops σ1) as [σ2 rs]. cbn [fst snd] in *.
    exists ς2. split; [reflexivity|]. split; [exact HR2|exact HRM2].
Qed.

(* MODEL and SPEC, run side by side from the empty state over a history of the value-level fragment
   whose guards all hold: after EVERY step (= for every prefix) the SPEC is defined, the outcomes
   are the same, and every tensor has the same shape and the same logical contents *)
Theorem zhistory_refines : forall ops,
  forallb zin_fragment ops = true -> zguards_ok (empty_store Z) ops ->
  forall k,
    let pre := firstn k ops in
    let σ := fst (zrun_model pre (empty_store Z)) in
    exists ς, zrun_spec pre (empty_sstate Z) = Some (ς, snd (zrun_model pre (empty_store Z))) /\
      ntens_model Z σ = ntens_spec Z ς /\
      (forall t d x, get_t σ t = Some d -> sget ς t = Some x ->
         shp (d_ap d) = s_shape x /\ logical Z σ t = map Ok (slogical ς x)) /\
      (forall t, fst (fst (fst (fst (fst (fst (obs_model Z σ t))))))
                 = (fst (obs_spec Z 0 ς t), map Ok (snd (obs_spec Z 0 ς t)))).
Proof.
  intros ops Hf Hg k pre σ.
  destruct (zhistory_sim pre (empty_store Z) (empty_sstate Z) (R_empty Z 0) (RM_empty Z)
              (forallb_firstn _ k ops Hf) (zguards_ok_firstn k ops _ Hg)) as (ς & E & HR & _).
  fold σ in HR. exists ς. split; [exact E|]. split; [|split].
  - destruct HR as (φ & Hl & _). exact Hl.
  - intros t d x Ht Hx. apply (R_obs Z 0 σ ς t d x HR Ht Hx).
  - intro t. unfold obs_model, obs_spec.
    destruct (get_t σ t) as [d|] eqn:Ht.
    + destruct HR as (φ & Hφ). destruct (get_sget Z 0 φ σ ς t d Hφ Ht) as [x Hx]. rewrite Hx.
      destruct (R_obs Z 0 σ ς t d x (ex_intro _ φ Hφ) Ht Hx) as [Hs Hlg]. cbn [fst snd]. congruence.
    + destruct (sget ς t) as [x|] eqn:Hx; [|reflexivity].
      destruct HR as (φ & Hl & _). apply nth_error_Some_lt in Hx. apply nth_error_None in Ht. lia.
Qed.

(* ====================================================================================== *)
(*  where zguard = GOk is not enough                                                       *)
(* ====================================================================================== *)
(* the extra hypotheses of every step of a history, as a list (for the counterexamples) *)
Fixpoint zextra_trace (σ : store Z) (ops : list zop) : list bool :=
  match ops with
  | [] => []
  | o :: rest => zextra_ok σ o :: zextra_trace (fst (zstep_model σ o)) rest
  end.

(* A tensor index that does not exist (operand or reuse destination): zguard collects the operands
   that exist (flat_map) and finds nothing to object to; the implementation panics, the SPEC is
   undetermined.  Extra guard: is_some (get_t σ _) (the first clause of zextra_ok / dest_extra). *)
Example ZUn_zguard_gap :
  zguard (empty_store Z) (ZUn 0 0 MSafe) = GOk /\
  zstep_model (empty_store Z) (ZUn 0 0 MSafe) = (empty_store Z, RPanic Z) /\
  zstep_spec (empty_sstate Z) (ZUn 0 0 MSafe) = None.
Proof. vm_compute. repeat split. Qed.

Example ZUn_reuse_zguard_gap :
  let ops := [ZBase (ONew Z 0 [2] [1; 2]); ZUn 0 0 (MReuse 5)] in
  zguard_trace (empty_store Z) ops = [GOk; GOk] /\ zextra_trace (empty_store Z) ops = [true; false] /\
  snd (zrun_model ops (empty_store Z)) = [RNew Z 0; RPanic Z] /\ zrun_spec ops (empty_sstate Z) = None.
Proof. vm_compute. repeat split. Qed.

(* ZBin, unsafe: a REAL gap.  zguard tests a reuse / incr destination against the operands
   (GDestAlias) but not the two operands of an UNSAFE operation against each other, although the
   first operand is the destination.  Two overlapping views of one vector, a = v[1:5], b = v[0:4]:
   a.Sub(b, UseUnsafe()) reads cells of b that the loop has already overwritten.  All guards GOk, all
   outcomes equal; afterwards a holds [1;3;5;11] where the SPEC says [1;2;4;8].  Extra guard:
   negb (overlaps a b) (false here).  (a = b itself, e.g. a.Add(a, UseUnsafe()), is fine on both sides:
   for that case the clause is a restriction of the proof, inherited from OpsProofs.arith_vv_unsafe_post.) *)
Example ZBin_unsafe_zguard_gap :
  let ops := [ZBase (ONew Z 0 [5] [1; 2; 4; 8; 16]); ZBase (OSlice Z 0 [Some (1, 5, 1)] [4]);
              ZBase (OSlice Z 0 [Some (0, 4, 1)] [4]); ZBin 1 1 2 MUnsafe false] in
  let σ := fst (zrun_model ops (empty_store Z)) in
  zguard_trace (empty_store Z) ops = [GOk; GOk; GOk; GOk] /\
  zextra_trace (empty_store Z) ops = [true; true; true; false] /\
  match zrun_spec ops (empty_sstate Z) with
  | Some (ς, outs) =>
    outs = snd (zrun_model ops (empty_store Z)) /\
    logical Z σ 1%nat = map Ok [1; 3; 5; 11] /\ obs_spec Z 0 ς 1%nat = ([4], [1; 2; 4; 8])
  | None => False
  end.
Proof. vm_compute. repeat split. Qed.

(* ZCmp, safe: a REAL gap.  The result of a comparison is allocated by NewDense(shape): for a
   one-element shape its window has length 1 and the dispatch of internal/execution takes the
   "scalar" kernels, which write into the OTHER operand.  zguard excludes operand windows of length
   one (GLenOne) but not a one-element view over a longer window (every second row of a 2x1 column).
   All guards GOk, all outcomes equal; afterwards the PARENT holds [0;2] instead of [1;2] and the
   result of x > x is [1] where the SPEC says [0].  Extra guard: 1 <? size (shape) (false here). *)
Example ZCmp_safe_zguard_gap :
  let ops := [ZBase (ONew Z 0 [2; 1] [1; 2]); ZBase (OSlice Z 0 [Some (0, 2, 2)] [1]);
              ZCmp 0 1 1 true CSafe false] in
  let σ := fst (zrun_model ops (empty_store Z)) in
  zguard_trace (empty_store Z) ops = [GOk; GOk; GOk] /\
  zextra_trace (empty_store Z) ops = [true; true; false] /\
  match zrun_spec ops (empty_sstate Z) with
  | Some (ς, outs) =>
    outs = snd (zrun_model ops (empty_store Z)) /\
    logical Z σ 0%nat = map Ok [0; 2] /\ obs_spec Z 0 ς 0%nat = ([2; 1], [1; 2]) /\
    logical Z σ 2%nat = map Ok [1] /\ obs_spec Z 0 ς 2%nat = ([1], [0])
  | None => False
  end.
Proof. vm_compute. repeat split. Qed.

(* ZCmpS, safe, bool result: the same situation; here the implementation REFUSES ("Cannot
   increment on scalar increment" path of the dispatch) where the SPEC delivers a result *)
Example ZCmpS_safe_zguard_gap :
  let ops := [ZBase (ONew Z 0 [2; 1] [1; 2]); ZBase (OSlice Z 0 [Some (0, 2, 2)] [1]);
              ZCmpS 0 1 5 true false CSafe] in
  zguard_trace (empty_store Z) ops = [GOk; GOk; GOk] /\
  zextra_trace (empty_store Z) ops = [true; true; false] /\
  snd (zrun_model ops (empty_store Z)) = [RNew Z 0; RNew Z 1; RErr Z] /\
  option_map snd (zrun_spec ops (empty_sstate Z)) = Some [RNew Z 0; RNew Z 1; RNew Z 2].
Proof. vm_compute. repeat split. Qed.

(* the remaining clauses of zextra_ok are restrictions of the PROOF: on these histories (operand with
   a pending lazy transpose in safe mode; reuse destination of another shape; of the same allocation
   as the operand; needing an iterator; a = b in unsafe mode) both sides agree although zextra_ok
   is false *)
Example zextra_proof_restrictions :
  let agree ops :=
    let σ := fst (zrun_model ops (empty_store Z)) in
    forallb (fun g => match g with GOk => true | _ => false end) (zguard_trace (empty_store Z) ops) = true /\
    forallb (fun b => b) (zextra_trace (empty_store Z) ops) = false /\
    match zrun_spec ops (empty_sstate Z) with
    | Some (ς, outs) =>
      outs = snd (zrun_model ops (empty_store Z)) /\
      forall t, In t [0; 1; 2]%nat -> logical Z σ t = map Ok (snd (obs_spec Z 0 ς t))
    | None => False
    end in
  agree [ZBase (ONew Z 0 [2; 3] [1; 2; 3; 4; 5; 6]); ZBase (OT Z 0 []); ZUn 0 0 MSafe] /\
  agree [ZBase (ONew Z 0 [2; 3] [1; 2; 3; 4; 5; 6]); ZBase (ONew Z 0 [3; 2] [0; 0; 0; 0; 0; 0]); ZUn 0 0 (MReuse 1)] /\
  agree [ZBase (ONew Z 0 [4; 2] [1; 2; 3; 4; 5; 6; 7; 8]); ZBase (OSlice Z 0 [Some (0, 2, 1)] [2; 2]);
         ZBase (OSlice Z 0 [Some (2, 4, 1)] [2; 2]); ZUn 0 1 (MReuse 2)] /\
  agree [ZBase (ONew Z 0 [2; 3] [1; 2; 3; 4; 5; 6]); ZBase (ONew Z 0 [3; 2] [0; 0; 0; 0; 0; 0]); ZBase (OT Z 1 []);
         ZUn 0 0 (MReuse 1)] /\
  agree [ZBase (ONew Z 0 [2; 3] [1; 2; 3; 4; 5; 6]); ZBin 0 0 0 MUnsafe false].
Proof.
  vm_compute. repeat split; intros t Ht; repeat (destruct Ht as [<-|Ht]; [reflexivity|]); destruct Ht.
Qed.

(* ====================================================================================== *)
(*  OReshape in histories: an invariant of the SPEC alone (no tensor is declared column-   *)
(*  major), which the fragment preserves and the Reshape step needs                        *)
(* ====================================================================================== *)
Definition SRM (ς : sstate Z) : Prop := forall t x, sget ς t = Some x -> s_cm x = false.

Lemma SRM_empty : SRM (empty_sstate Z).
Proof. intros t x H. destruct t; discriminate. Qed.

Lemma SRM_vals ς vals : SRM ς -> SRM (mkSS Z vals (s_tens ς)).
Proof. intros H t x Hx. apply (H t x). exact Hx. Qed.

Lemma SRM_sset ς t x' : SRM ς -> s_cm x' = false -> SRM (sset ς t x').
Proof.
  intros H Hc t0 x0 H0. unfold Spec.sset, Spec.sget in H0. cbn [s_tens] in H0.
  destruct (Nat.eq_dec t0 t) as [->|Hne].
  - apply nth_error_upd_inv in H0. subst. exact Hc.
  - rewrite nth_error_upd_other in H0 by congruence. apply (H t0 x0 H0).
Qed.

Lemma SRM_snoc ς x' : SRM ς -> s_cm x' = false -> SRM (mkSS Z (s_vals ς) (s_tens ς ++ [x'])).
Proof.
  intros H Hc t0 x0 H0. unfold Spec.sget in H0. cbn [s_tens] in H0.
  apply nth_error_app_snoc in H0 as [[_ H0]|[_ ->]]; [apply (H t0 x0 H0)|exact Hc].
Qed.

Lemma SRM_alloc ς vs : SRM ς -> SRM (fst (s_alloc Z ς vs)).
Proof. intro H. unfold s_alloc. cbn [fst]. apply (SRM_vals ς _ H). Qed.

Ltac srm_split H :=
  repeat match type of H with
         | context [match ?x with _ => _ end] => destruct x eqn:?; try discriminate H
         | context [if ?b then _ else _] => destruct b eqn:?; try discriminate H
         end.

Lemma spec_new_SRM ς sh data ς' t : spec_new Z 0 ς 0 sh data = Some (ς', t) -> SRM ς -> SRM ς'.
Proof.
  unfold spec_new. intros H HS. destruct (negb _ || negb _); [discriminate H|].
  change (0 =? 1) with false in H. change (0 =? 0) with true in H. cbv iota in H. cbn [negb] in H.
  destruct (s_alloc Z ς data) as [ς1 cells] eqn:Ea. injection H as <- _.
  apply SRM_snoc; [|reflexivity].
  replace ς1 with (fst (s_alloc Z ς data)) by (rewrite Ea; reflexivity). apply SRM_alloc. exact HS.
Qed.

Lemma spec_slice_SRM ς t sl hint ς' t' : spec_slice Z ς t sl hint = Some (Some (ς', t')) -> SRM ς -> SRM ς'.
Proof.
  unfold spec_slice. intros H HS. destruct (sget ς t) as [x|] eqn:Hx; [|discriminate H].
  destruct (spec_slice_full x sl) as [[[nsh cells] dr]|]; [|discriminate H].
  injection H as <- _. apply SRM_snoc; [exact HS|]. cbn [s_cm]. apply (HS t x Hx).
Qed.

Lemma spec_T_SRM ς t axes ς' : spec_T Z ς t axes = Some (Some ς') -> SRM ς -> SRM ς'.
Proof.
  unfold spec_T. intros H HS. destruct (sget ς t) as [x|] eqn:Hx; [|discriminate H].
  pose proof (HS t x Hx) as Hc.
  destruct (negb (is_permb _ _)); [discriminate H|].
  destruct (spec_permute x _) as [nsh cells].
  srm_split H; injection H as <-; try exact HS; apply SRM_sset; try exact HS; exact Hc.
Qed.

Lemma spec_UT_SRM ς t ς' : spec_UT Z ς t = Some ς' -> SRM ς -> SRM ς'.
Proof.
  unfold spec_UT. intros H HS. destruct (sget ς t) as [x|] eqn:Hx; [|discriminate H].
  pose proof (HS t x Hx) as Hc.
  srm_split H; injection H as <-; try exact HS; apply SRM_sset; try exact HS; exact Hc.
Qed.

Lemma spec_transpose_SRM ς t ς' : spec_transpose Z ς t = Some ς' -> SRM ς -> SRM ς'.
Proof.
  unfold spec_transpose. intros H HS. destruct (sget ς t) as [x|] eqn:Hx; [|discriminate H].
  injection H as <-. apply SRM_sset; [exact HS|apply (HS t x Hx)].
Qed.

Lemma spec_copy_gen_SRM ς t ko kp ς' t' : spec_copy_gen Z 0 ς t ko kp = Some (ς', t') -> SRM ς -> SRM ς'.
Proof.
  unfold spec_copy_gen. intros H HS. destruct (sget ς t) as [x|] eqn:Hx; [|discriminate H].
  destruct (s_alloc Z ς (Spec.slogical Z 0 ς x)) as [ς1 cells] eqn:Ea. injection H as <- _.
  apply SRM_snoc.
  - replace ς1 with (fst (s_alloc Z ς (Spec.slogical Z 0 ς x))) by (rewrite Ea; reflexivity). apply SRM_alloc. exact HS.
  - cbn [s_cm]. rewrite (HS t x Hx). apply andb_false_r.
Qed.

Lemma spec_reshape_SRM ς t dims refused ς' : spec_reshape Z ς t dims refused = Some (Some ς') -> SRM ς -> SRM ς'.
Proof.
  unfold spec_reshape. intros H HS. destruct (sget ς t) as [x|] eqn:Hx; [|discriminate H].
  pose proof (HS t x Hx) as Hc.
  destruct (negb (size (s_shape x) =? size dims)); [discriminate H|].
  destruct (negb (pos_shapeb dims)); [discriminate H|]. destruct refused; [discriminate H|].
  injection H as <-. apply SRM_sset; [exact HS|exact Hc].
Qed.

(* every structural step of the (extended) fragment, OReshape included, preserves SRM *)
Lemma step_spec_SRM ς o ς' r : (in_fragment2 o = true \/ exists t dims refused, o = OReshape Z t dims refused) ->
  step_spec ς o = Some (ς', r) -> SRM ς -> SRM ς'.
Proof.
  intros Hf H HS. unfold Run.step_spec in H.
  destruct o; try (destruct Hf as [Hf|(? & ? & ? & Hf)]; discriminate Hf).
  - (* ONew *)
    assert (order = 0).
    { destruct Hf as [Hf|(? & ? & ? & Hf)]; [cbn [in_fragment2 in_fragment] in Hf; lia|discriminate Hf]. }
    subst order. destruct (spec_new Z 0 ς 0 sh data) as [[ς1 t1]|] eqn:E; [|discriminate H].
    injection H as <- _. apply (spec_new_SRM _ _ _ _ _ E HS).
  - (* OSlice *)
    destruct (spec_slice Z ς t sl hint) as [[[ς1 t1]|]|] eqn:E; try discriminate H.
    + injection H as <- _. apply (spec_slice_SRM _ _ _ _ _ _ E HS).
    + injection H as <- _. exact HS.
  - (* OT *)
    destruct (spec_T Z ς t axes) as [[ς1|]|] eqn:E; try discriminate H.
    + injection H as <- _. apply (spec_T_SRM _ _ _ _ E HS).
    + injection H as <- _. exact HS.
  - (* OUT *)
    destruct (spec_UT Z ς t) as [ς1|] eqn:E; [|discriminate H]. injection H as <- _. apply (spec_UT_SRM _ _ _ E HS).
  - (* OTranspose *)
    destruct (spec_transpose Z ς t) as [ς1|] eqn:E; [|discriminate H]. injection H as <- _.
    apply (spec_transpose_SRM _ _ _ E HS).
  - (* OAt *)
    destruct (spec_at Z 0 ς t c) as [[v| |]|]; try discriminate H; injection H as <- _; exact HS.
  - (* OSetAt *)
    unfold spec_setat in H. destruct (sget ς t) as [x|]; [|discriminate H].
    destruct (inboxb (s_shape x) c); injection H as <- _; [apply SRM_vals|]; exact HS.
  - (* OMemset *)
    unfold spec_fill in H. destruct (sget ς t) as [x|]; [|discriminate H]. injection H as <- _. apply SRM_vals. exact HS.
  - (* OZero *)
    unfold spec_fill in H. destruct (sget ς t) as [x|]; [|discriminate H]. injection H as <- _. apply SRM_vals. exact HS.
  - (* OClone *)
    destruct (spec_copy_gen Z 0 ς t true true) as [[ς1 t1]|] eqn:E; [|discriminate H]. injection H as <- _.
    apply (spec_copy_gen_SRM _ _ _ _ _ _ E HS).
  - (* OMaterialize *)
    destruct (sget ς t) as [x|]; [|discriminate H].
    destruct (s_view x || Nat.eqb (s_pending x) 1 || negb same).
    + unfold spec_copy_of in H. destruct (spec_copy_gen Z 0 ς t false false) as [[ς1 t1]|] eqn:E; [|discriminate H].
      injection H as <- _. apply (spec_copy_gen_SRM _ _ _ _ _ _ E HS).
    + injection H as <- _. exact HS.
  - (* OCopy *)
    unfold spec_copy_into in H. destruct (sget ς dst) as [xd|]; [|discriminate H].
    destruct (sget ς src) as [xs|]; [|discriminate H].
    destruct (negb _); [discriminate H|]. destruct (existsb _ _); [discriminate H|].
    injection H as <- _. apply SRM_vals. exact HS.
  - (* OSafeT *)
    unfold spec_copy_of in H. destruct (spec_copy_gen Z 0 ς t true false) as [[ς1 t1]|] eqn:E; [|discriminate H].
    pose proof (spec_copy_gen_SRM _ _ _ _ _ _ E HS) as HS1.
    destruct (spec_T Z ς1 t1 axes) as [[ς2|]|] eqn:E2; try discriminate H.
    + injection H as <- _. apply (spec_T_SRM _ _ _ _ E2 HS1).
    + injection H as <- _. exact HS.
  - (* ORollAxis *)
    destruct (sget ς t) as [x|]; [|discriminate H].
    destruct (negb _ || negb _); [injection H as <- _; exact HS|].
    destruct (axis =? _); [injection H as <- _; exact HS|].
    destruct safe.
    + unfold spec_copy_of in H. destruct (spec_copy_gen Z 0 ς t true false) as [[ς1 t1]|] eqn:E; [|discriminate H].
      pose proof (spec_copy_gen_SRM _ _ _ _ _ _ E HS) as HS1.
      destruct (spec_T Z ς1 t1 _) as [[ς2|]|] eqn:E2; try discriminate H.
      injection H as <- _. apply (spec_T_SRM _ _ _ _ E2 HS1).
    + destruct (spec_T Z ς t _) as [[ς2|]|] eqn:E2; try discriminate H.
      injection H as <- _. apply (spec_T_SRM _ _ _ _ E2 HS).
  - (* OApiTranspose *)
    unfold spec_copy_of in H. destruct (spec_copy_gen Z 0 ς t true false) as [[ς1 t1]|] eqn:E; [|discriminate H].
    pose proof (spec_copy_gen_SRM _ _ _ _ _ _ E HS) as HS1.
    destruct (spec_T Z ς1 t1 axes) as [[ς2|]|] eqn:E2; try discriminate H.
    + pose proof (spec_T_SRM _ _ _ _ E2 HS1) as HS2.
      destruct (spec_transpose Z ς2 t1) as [ς3|] eqn:E3; [|discriminate H]. injection H as <- _.
      apply (spec_transpose_SRM _ _ _ E3 HS2).
    + injection H as <- _. exact HS.
  - (* OReshape *)
    destruct (spec_reshape Z ς t dims refused) as [[ς1|]|] eqn:E; try discriminate H.
    + injection H as <- _. apply (spec_reshape_SRM _ _ _ _ _ E HS).
    + injection H as <- _. exact HS.
Qed.

Lemma spec_vals_deliver_SRM ς ta sh ovs mc cm ς' r :
  spec_vals_deliver ς ta sh ovs mc cm = Some (ς', r) -> SRM ς -> cm = false -> SRM ς'.
Proof.
  unfold spec_vals_deliver, spec_deliver, spec_deliver_gen. intros H HS ->.
  destruct (all_some ovs) as [l|]; [|discriminate H].
  destruct (fst mc =? 0).
  - unfold s_alloc, s_add in H. cbn [s_vals s_tens] in H. injection H as <- _.
    apply (SRM_snoc (mkSS Z (s_vals ς ++ l) (s_tens ς))); [apply (SRM_vals ς _ HS)|reflexivity].
  - destruct (fst mc =? 1).
    + destruct (sget ς ta) as [a|]; [|discriminate H]. destruct (negb _); [discriminate H|].
      injection H as <- _. apply (SRM_vals ς _ HS).
    + destruct (sget ς (snd mc)) as [x|] eqn:Hx; [|discriminate H]. destruct (negb _); [discriminate H|].
      destruct (s_cm x && _); [discriminate H|]. injection H as <- _.
      apply SRM_sset; [apply (SRM_vals ς _ HS)|]. cbn [s_cm]. apply (HS _ x Hx).
Qed.

(* the value-level fragment with OReshape *)
Definition zin_fragment_r (o : zop) : bool :=
  zin_fragment o || match o with ZBase (OReshape _ _ _ _) => true | _ => false end.

Lemma zstep_spec_SRM ς o ς' r : zin_fragment_r o = true ->
  zstep_spec ς o = Some (ς', r) -> SRM ς -> SRM ς'.
Proof.
  intros Hf H HS. unfold zstep_spec in H. destruct o; try discriminate Hf.
  - apply (step_spec_SRM ς o ς' r); [|exact H|exact HS].
    unfold zin_fragment_r in Hf. cbn [zin_fragment] in Hf. destruct (in_fragment2 o) eqn:E; [left; reflexivity|].
    right. cbn [orb] in Hf. destruct o; try discriminate Hf. eauto.
  - destruct (sget ς a) as [x|] eqn:Hx; [|discriminate H]. destruct (sget ς b) as [y|]; [|discriminate H].
    destruct (negb _); [injection H as <- _; exact HS|].
    apply (spec_vals_deliver_SRM _ _ _ _ _ _ _ _ H HS). rewrite (HS a x Hx). destruct (6 <=? code); reflexivity.
  - destruct (sget ς t) as [x|] eqn:Hx; [|discriminate H].
    apply (spec_vals_deliver_SRM _ _ _ _ _ _ _ _ H HS). apply (HS t x Hx).
  - destruct (sget ς a) as [x|] eqn:Hx; [|discriminate H]. destruct (sget ς b) as [y|]; [|discriminate H].
    destruct (negb _); [injection H as <- _; exact HS|].
    apply (spec_vals_deliver_SRM _ _ _ _ _ _ _ _ H HS). reflexivity.
  - destruct (sget ς t) as [x|] eqn:Hx; [|discriminate H].
    apply (spec_vals_deliver_SRM _ _ _ _ _ _ _ _ H HS). reflexivity.
  - destruct (sget ς a) as [x|] eqn:Hx; [|discriminate H].
    apply (spec_vals_deliver_SRM _ _ _ _ _ _ _ _ H HS). apply (HS a x Hx).
Qed.

(* what zguard lacks for OReshape: RefineProofs.reshape_extra (see there and OReshape_guard_gap) *)
Definition zextra_ok_r (σ : store Z) (o : zop) : bool :=
  match o with
  | ZBase (OReshape _ t dims refused) => reshape_extra Z σ t dims refused
  | _ => zextra_ok σ o
  end.

(* one step, OReshape included: the invariant is now R, RM and SRM *)
Theorem zstep_sim_r σ ς o σ' r : R σ ς -> RM σ -> SRM ς -> zin_fragment_r o = true ->
  zguard σ o = GOk -> zextra_ok_r σ o = true ->
  zstep_model σ o = (σ', r) ->
  exists ς', zstep_spec ς o = Some (ς', r) /\ R σ' ς' /\ RM σ' /\ SRM ς'.
Proof.
  intros HR HRM HS Hf Hg He H.
  assert (Hsim : exists ς', zstep_spec ς o = Some (ς', r) /\ R σ' ς' /\ RM σ').
  { destruct (zin_fragment o) eqn:Ef.
    - apply (zstep_sim σ ς o σ' r HR HRM Ef Hg); [|exact H].
      destruct o; try exact He. match goal with b : op Z |- _ => destruct b; try exact He end.
      cbn [zin_fragment in_fragment2 in_fragment] in Ef. discriminate Ef.
    - unfold zin_fragment_r in Hf. rewrite Ef in Hf. cbn [orb] in Hf.
      destruct o; try discriminate Hf. match goal with b : op Z |- _ => destruct b; try discriminate Hf end.
      apply (sim_OReshape_partial Z 0 σ ς t dims refused σ' r HR HRM Hg He); [|exact H].
      intros x Hx. apply (HS t x Hx). }
  destruct Hsim as (ς' & E & HR' & HRM'). exists ς'. split; [exact E|]. split; [exact HR'|]. split; [exact HRM'|].
  apply (zstep_spec_SRM ς o ς' r Hf E HS).
Qed.

Fixpoint zguards_ok_r (σ : store Z) (ops : list zop) : Prop :=
  match ops with
  | [] => True
  | o :: rest => zguard σ o = GOk /\ zextra_ok_r σ o = true /\ zguards_ok_r (fst (zstep_model σ o)) rest
  end.

Lemma zguards_ok_r_firstn k : forall ops σ, zguards_ok_r σ ops -> zguards_ok_r σ (firstn k ops).
Proof.
  induction k as [|k IH]; intros [|o ops] σ H; cbn [firstn zguards_ok_r]; auto.
  destruct H as (H1 & H2 & H3). auto.
Qed.

Lemma zhistory_sim_r : forall ops σ ς, R σ ς -> RM σ -> SRM ς -> forallb zin_fragment_r ops = true ->
  zguards_ok_r σ ops ->
  exists ς', zrun_spec ops ς = Some (ς', snd (zrun_model ops σ)) /\ R (fst (zrun_model ops σ)) ς'.
Proof.
  induction ops as [|o ops IH]; intros σ ς HR HRM HS Hf Hg.
  - exists ς. split; [reflexivity|exact HR].
  - cbn [forallb] in Hf. apply andb_true_iff in Hf as [Hf1 Hf2].
    destruct Hg as (Hg1 & Hg2 & Hg3).
    cbn [zrun_model zrun_spec]. destruct (zstep_model σ o) as [σ1 r] eqn:Es.
    destruct (zstep_sim_r σ ς o σ1 r HR HRM HS Hf1 Hg1 Hg2 Es) as (ς1 & E1 & HR1 & HRM1 & HS1).
    rewrite E1. cbn [fst] in Hg3. destruct (IH σ1 ς1 HR1 HRM1 HS1 Hf2 Hg3) as (ς2 & E2 & HR2).
    rewrite E2. destruct (zrun_model ops σ1) as [σ2 rs]. cbn [fst snd] in *.
    exists ς2. split; [reflexivity|exact HR2].
Qed.

(* the history theorem over the fragment with OReshape *)
Theorem zhistory_refines_r : forall ops,
  forallb zin_fragment_r ops = true -> zguards_ok_r (empty_store Z) ops ->
  forall k,
    let pre := firstn k ops in
    let σ := fst (zrun_model pre (empty_store Z)) in
    exists ς, zrun_spec pre (empty_sstate Z) = Some (ς, snd (zrun_model pre (empty_store Z))) /\
      ntens_model Z σ = ntens_spec Z ς /\
      (forall t d x, get_t σ t = Some d -> sget ς t = Some x ->
         shp (d_ap d) = s_shape x /\ logical Z σ t = map Ok (slogical ς x)) /\
      (forall t, fst (fst (fst (fst (fst (fst (obs_model Z σ t))))))
                 = (fst (obs_spec Z 0 ς t), map Ok (snd (obs_spec Z 0 ς t)))).
Proof.
  intros ops Hf Hg k pre σ.
  destruct (zhistory_sim_r pre (empty_store Z) (empty_sstate Z) (R_empty Z 0) (RM_empty Z) SRM_empty
              (forallb_firstn _ k ops Hf) (zguards_ok_r_firstn k ops _ Hg)) as (ς & E & HR).
  fold σ in HR. exists ς. split; [exact E|]. split; [|split].
  - destruct HR as (φ & Hl & _). exact Hl.
  - intros t d x Ht Hx. apply (R_obs Z 0 σ ς t d x HR Ht Hx).
  - intro t. unfold obs_model, obs_spec.
    destruct (get_t σ t) as [d|] eqn:Ht.
    + destruct HR as (φ & Hφ). destruct (get_sget Z 0 φ σ ς t d Hφ Ht) as [x Hx]. rewrite Hx.
      destruct (R_obs Z 0 σ ς t d x (ex_intro _ φ Hφ) Ht Hx) as [Hs Hlg]. cbn [fst snd]. congruence.
    + destruct (sget ς t) as [x|] eqn:Hx; [|reflexivity].
      destruct HR as (φ & Hl & _). apply nth_error_Some_lt in Hx. apply nth_error_None in Ht. lia.
Qed.

(* ====================================================================================== *)
(*  column-major ONew (order 1) in histories: row-majorness is no longer an invariant — it  *)
(*  is tested (rm_all) at the steps whose proofs in RefineProofs.v need it                  *)
(* ====================================================================================== *)
Lemma calc_strides_cm_full s : length (calc_strides_cm s) = length s -> calc_strides_cm s = cm_aux 1 s.
Proof.
  unfold calc_strides_cm. destruct (is_scalar_equiv s).
  - destruct s; [reflexivity|discriminate].
  - destruct (is_vector s); [|reflexivity]. destruct s as [|d [|? ?]]; try discriminate. reflexivity.
Qed.

Lemma cm_aux_nonneg' : forall s acc, 0 <= acc -> pos_shape s -> Forall (fun k => 0 <= k) (cm_aux acc s).
Proof.
  induction s as [|x s IH]; intros acc Ha Hp; cbn [cm_aux]; constructor; [exact Ha|].
  inversion Hp as [|? ? Hx Hp']; subst. apply IH; [nia|exact Hp'].
Qed.

Lemma wf_ap_colmajor sh o fl : pos_shape sh -> length (calc_strides_cm sh) = length sh ->
  wf_ap (size sh) (mkAP sh (calc_strides_cm sh) o fl) /\
  forall c, inbox sh c -> dot (calc_strides_cm sh) c = rank_cm sh c.
Proof.
  intros Hp Hl. rewrite (calc_strides_cm_full sh Hl).
  assert (Hdot : forall c, dot (cm_aux 1 sh) c = rank_cm sh c) by (intro c; rewrite dot_cm_aux; lia).
  split; [|intros c _; apply Hdot].
  unfold wf_ap. cbn [shp str]. split; [exact Hp|]. split; [apply cm_aux_length|].
  split; [apply cm_aux_nonneg'; [lia|exact Hp]|]. split.
  - intros c Hc. rewrite Hdot. apply rank_cm_bound; assumption.
  - intros c c' Hc Hc' E. rewrite !Hdot in E. apply (rank_cm_inj sh); assumption.
Qed.

Lemma sim_ONew1 σ ς sh data σ' r : R σ ς ->
  pos_shapeb sh = true -> zlen data = size sh -> length (calc_strides_cm sh) = length sh ->
  step_model σ (ONew Z 1 sh data) = (σ', r) ->
  exists ς', step_spec ς (ONew Z 1 sh data) = Some (ς', r) /\ R σ' ς'.
Proof.
  intros (φ & Hφ) Hpb Hl Hst H. pose proof (pos_shapeb_sound sh Hpb) as Hp. pose proof (size_pos sh Hp) as Hsz.
  destruct (wf_ap_colmajor sh CM true Hp Hst) as [Hap Hdot].
  unfold Run.step_model, new_raw in H. change (1 =? 2) with false in H. change (1 =? 1) with true in H. cbv iota in H.
  replace (zlen data =? size sh) with true in H by lia. cbn [negb andb] in H.
  unfold add_buf, add_t in H. cbn [lift_new bufs tens] in H. injection H as <- <-.
  change (default_strides CM sh) with (calc_strides_cm sh).
  set (d' := mkDense (length (bufs σ)) 0 (zlen data) (mkAP sh (calc_strides_cm sh) CM true) None false).
  set (vs := map (fun c => znth 0 data (rank_cm sh c)) (coords sh)).
  unfold Run.step_spec, spec_new. replace (zlen data =? size sh) with true by lia. rewrite Hpb.
  cbn [negb orb]. change (1 =? 1) with true. change (1 =? 0) with false. cbv iota. fold vs.
  unfold s_alloc, s_add. cbn [s_vals s_tens negb].
  pose proof Hφ as (Hlen & _). rewrite <- Hlen. eexists. split; [reflexivity|].
  assert (Hwf' : wf_dense (mkStore Z (bufs σ ++ [data]) (tens σ ++ [d'])) d').
  { split; [|split; [cbn [d' d_len d_ap]; rewrite Hl; exact Hap|discriminate]].
    unfold wf_win, d'. cbn [d_off d_len d_buf]. rewrite (get_buf_app_new Z). unfold zlen in *. lia. }
  destruct (Rphi_fresh φ σ ς (mkStore Z (bufs σ ++ [data]) (tens σ ++ [d'])) d' vs true Hφ) as (φ' & Hφ').
  - intros k Hk. apply (get_buf_app_old Z). exact Hk.
  - reflexivity.
  - apply le_n.
  - exact Hwf'.
  - reflexivity.
  - reflexivity.
  - unfold vs. rewrite map_length, coords_length. reflexivity.
  - intros c Hc. cbn [d' d_ap shp d_buf] in Hc |- *. unfold pos. cbn [d' d_off d_ap str shp].
    rewrite (Hdot c Hc). unfold vs. rewrite (nth_map_coords _ 0 sh c Hp Hc).
    unfold MemProofs.bget. rewrite (get_buf_app_new Z). pose proof (rank_cm_bound sh c Hp Hc) as Hr.
    replace (0 + rank_cm sh c) with (rank_cm sh c) by lia. apply znth_zget. lia.
  - exists φ'. exact Hφ'.
Qed.

(* decidable row-majorness of the whole tensor table *)
Definition rowmajorb (d : dense) : bool :=
  negb (is_cm (ord (d_ap d))) && match d_old d with Some o => negb (is_cm (ord o)) | None => true end.
Definition rm_all (σ : store Z) : bool := forallb rowmajorb (tens σ).

Lemma rm_all_RM σ : rm_all σ = true -> RM σ.
Proof.
  unfold rm_all. intros H t d Ht. rewrite forallb_forall in H.
  specialize (H d (nth_error_In _ _ Ht)). unfold rowmajorb in H. apply andb_true_iff in H as [H1 H2].
  split; [destruct (is_cm (ord (d_ap d))); [discriminate H1|reflexivity]|].
  intros o Eo. rewrite Eo in H2. destruct (is_cm (ord o)); [discriminate H2|reflexivity].
Qed.

(* the steps whose simulation lemmas (RefineProofs.v) are stated under "every tensor is row-major" *)
Definition needs_rm (o : zop) : bool :=
  match o with
  | ZBase (OMaterialize _ _ _) | ZBase (OCopy _ _ _) | ZBase (OSafeT _ _ _) | ZBase (OTranspose _ _)
  | ZBase (ORollAxis _ _ _ _ _) | ZBase (OApiTranspose _ _ _) => true
  | _ => false
  end.

Definition zin_fragment_cm (o : zop) : bool :=
  zin_fragment o || match o with ZBase (ONew _ order _ _) => order =? 1 | _ => false end.

(* order 1: the backing has the size of the shape (as for order 0) and the shape has full
   column-major strides (vectors of rank 2 and all-ones shapes get shortened strides: GStridesShort
   on every later use; proof restriction) *)
Definition zextra_ok_cm (σ : store Z) (o : zop) : bool :=
  match o with
  | ZBase (ONew _ order sh data) =>
    (zlen data =? size sh) && ((order =? 0) || (length (calc_strides_cm sh) =? length sh)%nat)
  | _ => zextra_ok σ o && (negb (needs_rm o) || rm_all σ)
  end.

(* PARTIAL with respect to the intended statement
     R σ ς -> RMo σ -> zin_fragment' o = true -> zguard σ o = GOk -> zextra_ok σ o = true ->
     zstep_model σ o = (σ', r) -> exists ς', zstep_spec ς o = Some (ς', r) /\ R σ' ς' /\ RMo σ'
   with an order-aware invariant RMo under which Materialize, Copy, SafeT, Transpose, RollAxis and
   tensor.Transpose of ROW-MAJOR operands go through next to column-major tensors, and with ONew of
   order 2 (AsFortran over a row-major backing: New; T; Transpose; strides recomputed) in the
   fragment.  Here: order 1 only; the six structural steps above demand that EVERY tensor of the
   store is row-major at that moment (rm_all, a test on the model state), because their lemmas in
   RefineProofs.v are stated under RM σ; everything else (At, SetAt, Memset, Zero, Slice, T, UT, Clone
   of any tensor; every elementwise step, whose operands zguard wants row-major) needs nothing. *)
Theorem zstep_sim_cm_partial σ ς o σ' r : R σ ς -> zin_fragment_cm o = true ->
  zguard σ o = GOk -> zextra_ok_cm σ o = true ->
  zstep_model σ o = (σ', r) ->
  exists ς', zstep_spec ς o = Some (ς', r) /\ R σ' ς'.
Proof.
  intros HR Hf Hg He H.
  assert (Hrm : needs_rm o = true -> zin_fragment o = true /\ zextra_ok σ o = true /\ RM σ).
  { intro Hn. unfold zin_fragment_cm in Hf. unfold zextra_ok_cm in He.
    destruct o; try discriminate Hn. match goal with b : op Z |- _ => destruct b; try discriminate Hn end;
      (apply andb_true_iff in He as [He1 He2]; cbn [needs_rm negb orb] in He2;
       split; [rewrite orb_false_r in Hf; exact Hf|split; [exact He1|apply rm_all_RM; exact He2]]). }
  destruct (needs_rm o) eqn:En.
  { destruct (Hrm eq_refl) as (Hf' & He' & HRM).
    destruct (zstep_sim σ ς o σ' r HR HRM Hf' Hg He' H) as (ς' & E & HR' & _). exists ς'. auto. }
  clear Hrm.
  destruct (match o with ZBase _ => true | _ => false end) eqn:Eb.
  - destruct o; try discriminate Eb. match goal with b : op Z |- _ => rename b into b0 end.
    unfold zstep_model in H. unfold zstep_spec. unfold zguard in Hg.
    destruct b0; try discriminate En; try discriminate Hf.
    + (* ONew *)
      unfold zin_fragment_cm in Hf. cbn [zin_fragment in_fragment2 in_fragment] in Hf. cbn [zextra_ok_cm] in He.
      apply andb_true_iff in He as [He1 He2]. unfold Run.guard_op in Hg.
      destruct (pos_shapeb sh) eqn:Ep; [|discriminate Hg].
      assert (Ho : order = 0 \/ order = 1) by lia. destruct Ho as [-> | ->].
      * apply (sim_ONew0 Z 0 σ ς sh data σ' r HR Ep ltac:(lia) H).
      * apply (sim_ONew1 σ ς sh data σ' r HR Ep ltac:(lia)); [|exact H].
        change (1 =? 0) with false in He2. cbn [orb] in He2. apply Nat.eqb_eq in He2. exact He2.
    + (* OSlice *)
      cbn [zextra_ok_cm needs_rm negb orb] in He. rewrite andb_true_r in He.
      apply (sim_OSlice Z 0 σ ς t sl hint σ' r HR Hg He H).
    + apply (sim_OT Z 0 σ ς t axes σ' r HR Hg H).
    + cbn [zextra_ok_cm needs_rm negb orb] in He. rewrite andb_true_r in He.
      apply (sim_OUT Z 0 σ ς t σ' r HR He H).
    + apply (sim_OAt Z 0 σ ς t c σ' r HR Hg H).
    + apply (sim_OSetAt Z 0 σ ς t c v σ' r HR Hg H).
    + apply (sim_OMemset Z 0 σ ς t v σ' r HR Hg H).
    + apply (sim_OZero Z 0 σ ς t σ' r HR Hg H).
    + apply (sim_OClone Z 0 σ ς t σ' r HR Hg H).
  - assert (Hf' : zin_fragment o = true).
    { unfold zin_fragment_cm in Hf. destruct o; try discriminate Eb; rewrite orb_false_r in Hf; exact Hf. }
    assert (He' : zextra_ok σ o = true).
    { unfold zextra_ok_cm in He. destruct o; try discriminate Eb; apply andb_true_iff in He as [He _]; exact He. }
    destruct (zstep_sim_elem (fun _ => True) (fun _ _ _ => I) σ ς o σ' r HR (fun _ _ _ => I) Hf') as (ς' & E & HR' & _);
      [destruct o; [discriminate Eb|exact I..]|exact Hg|exact He'|exact H|].
    exists ς'. auto.
Qed.

Fixpoint zguards_ok_cm (σ : store Z) (ops : list zop) : Prop :=
  match ops with
  | [] => True
  | o :: rest => zguard σ o = GOk /\ zextra_ok_cm σ o = true /\ zguards_ok_cm (fst (zstep_model σ o)) rest
  end.

Lemma zguards_ok_cm_firstn k : forall ops σ, zguards_ok_cm σ ops -> zguards_ok_cm σ (firstn k ops).
Proof.
  induction k as [|k IH]; intros [|o ops] σ H; cbn [firstn zguards_ok_cm]; auto.
  destruct H as (H1 & H2 & H3). auto.
Qed.

Lemma zhistory_sim_cm : forall ops σ ς, R σ ς -> forallb zin_fragment_cm ops = true -> zguards_ok_cm σ ops ->
  exists ς', zrun_spec ops ς = Some (ς', snd (zrun_model ops σ)) /\ R (fst (zrun_model ops σ)) ς'.
Proof.
  induction ops as [|o ops IH]; intros σ ς HR Hf Hg.
  - exists ς. split; [reflexivity|exact HR].
  - cbn [forallb] in Hf. apply andb_true_iff in Hf as [Hf1 Hf2].
    destruct Hg as (Hg1 & Hg2 & Hg3).
    cbn [zrun_model zrun_spec]. destruct (zstep_model σ o) as [σ1 r] eqn:Es.
    destruct (zstep_sim_cm_partial σ ς o σ1 r HR Hf1 Hg1 Hg2 Es) as (ς1 & E1 & HR1).
    rewrite E1. cbn [fst] in Hg3. destruct (IH σ1 ς1 HR1 Hf2 Hg3) as (ς2 & E2 & HR2).
    rewrite E2. destruct (zrun_model ops σ1) as [σ2 rs]. cbn [fst snd] in *.
    exists ς2. split; [reflexivity|exact HR2].
Qed.

(* the history theorem with column-major tensors (order 1) in the history *)
Theorem zhistory_refines_cm_partial : forall ops,
  forallb zin_fragment_cm ops = true -> zguards_ok_cm (empty_store Z) ops ->
  forall k,
    let pre := firstn k ops in
    let σ := fst (zrun_model pre (empty_store Z)) in
    exists ς, zrun_spec pre (empty_sstate Z) = Some (ς, snd (zrun_model pre (empty_store Z))) /\
      ntens_model Z σ = ntens_spec Z ς /\
      (forall t d x, get_t σ t = Some d -> sget ς t = Some x ->
         shp (d_ap d) = s_shape x /\ logical Z σ t = map Ok (slogical ς x)) /\
      (forall t, fst (fst (fst (fst (fst (fst (obs_model Z σ t))))))
                 = (fst (obs_spec Z 0 ς t), map Ok (snd (obs_spec Z 0 ς t)))).
Proof.
  intros ops Hf Hg k pre σ.
  destruct (zhistory_sim_cm pre (empty_store Z) (empty_sstate Z) (R_empty Z 0)
              (forallb_firstn _ k ops Hf) (zguards_ok_cm_firstn k ops _ Hg)) as (ς & E & HR).
  fold σ in HR. exists ς. split; [exact E|]. split; [|split].
  - destruct HR as (φ & Hl & _). exact Hl.
  - intros t d x Ht Hx. apply (R_obs Z 0 σ ς t d x HR Ht Hx).
  - intro t. unfold obs_model, obs_spec.
    destruct (get_t σ t) as [d|] eqn:Ht.
    + destruct HR as (φ & Hφ). destruct (get_sget Z 0 φ σ ς t d Hφ Ht) as [x Hx]. rewrite Hx.
      destruct (R_obs Z 0 σ ς t d x (ex_intro _ φ Hφ) Ht Hx) as [Hs Hlg]. cbn [fst snd]. congruence.
    + destruct (sget ς t) as [x|] eqn:Hx; [|reflexivity].
      destruct HR as (φ & Hl & _). apply nth_error_Some_lt in Hx. apply nth_error_None in Ht. lia.
Qed.
