(* PropC09b.v — C09, second part: "... general tensor contraction, the dispatching dot product ... equal
   the defining sums of products over the contracted indices of the operands' logical contents, with the
   documented result shape ... leaves the operands unchanged".
   Only statements; every proof is `exact <lemma of RunZProofs>`.
   MODEL: RunZ.zdot (tensor.Dot on two registered tensors, V := Z) and RunZ.ztensormul
   (Dense.TensorMul: clones, lazy T so that the contracted axes come last / first, physical Transpose,
   Reshape to matrices, MatMul, Reshape of the product, the clones dropped from the tensor table).
   Vocabulary: plain2 / mat_ok / vec_shape / ent / mm_sum / mv_sum (LinalgProofs, see PropC09.v);
   rm_tensor σ d = pos_shape, default row-major strides, d_len = size, nothing pending, row-major bit,
   window inside the allocation; zat σ d c = the logical element at c; free_axes, exts, tm_prep,
   ztensormul_steps (RunZProofs).
   WHAT HOLDS:
   * Dot in its four shape cases (D1);
   * TensorMul for ALL axis choices, ranks and extents >= 1 on contiguous row-major operands (D3; D2 is the
     matrix instance).  The reshaped operands [size ret1; size ka] and [size ka; size ret2] are multiplied by
     MatMul, which only asks for rank 2: contracted extents multiplying to 1 (the outer product with no
     axes, contracted unit axes) and full contractions are covered like every other case — there is NO
     guard on the extents (the former shape-dispatching Dot refused or mis-shaped these; examples below). *)
From TV Require Import Base Index AP Iter Mem Spec Guards Run Ops Reduce Shapeops Linalg RunZ
     IndexProofs IterProofs APProofs MemProofs OpsProofs LinalgProofs ReduceProofs RunZProofs.

(* D1, matrix . matrix.  Operands plain or lazily transposed (mat_ok), not vector-shaped (Dot looks at
   the shapes first: a k x 1 or 1 x k operand takes a vector branch).  The
   product is tensor number |tens σ| in a NEW allocation, shape [m;n] (plain2), entries the textbook
   sums  zmm_sum σ a b k i j = sum_{l<k} a[i,l]*b[l,j]  (ascending l, from 0); the tensor table only
   grows by the result and every old allocation is unchanged (so the operands are). *)
Theorem C09_zdot_matmat :
  forall (σ : store Z) (ta tb : nat) (a b : dense) (m n k : Z),
  get_t Z σ ta = Some a ->
  get_t Z σ tb = Some b ->
  1 <= m ->
  1 <= n ->
  1 <= k ->
  mat_ok a m k ->
  mat_ok b k n ->
  is_vector [m; k] = false ->
  is_vector [k; n] = false ->
  in_buf Z σ a ->
  in_buf Z σ b ->
  exists (σ' : store Z) (p : dense),
    zdot σ ta tb = (σ', RNew Z (length (tens Z σ))) /\
    tens Z σ' = tens Z σ ++ [p] /\
    d_buf p = length (bufs Z σ) /\
    d_off p = 0 /\
    d_view p = false /\
    plain2 p m n /\
    in_buf Z σ' p /\
    (forall i j : Z, 0 <= i < m -> 0 <= j < n -> ent Z σ' p i j = Some (zmm_sum σ a b k i j)) /\
    length (bufs Z σ') = S (length (bufs Z σ)) /\
    (forall q : nat, (q < length (bufs Z σ))%nat -> get_buf Z σ' q = get_buf Z σ q).
Proof. exact zdot_matmat. Qed.
Print Assumptions C09_zdot_matmat.

(* D1, matrix . vector (x of shape [n], [n;1] or [1;n], contiguous): entries
   mv_sum σ a x n i = sum_{j<n} a[i,j]*x[j] *)
Theorem C09_zdot_matvec :
  forall (σ : store Z) (ta tb : nat) (a x : dense) (m n : Z),
  get_t Z σ ta = Some a ->
  get_t Z σ tb = Some x ->
  1 <= m ->
  1 <= n ->
  mat_ok a m n ->
  is_vector [m; n] = false ->
  vec_shape (shp (d_ap x)) n ->
  d_len x = n ->
  in_buf Z σ a ->
  in_buf Z σ x ->
  exists (σ' : store Z) (p : dense),
    zdot σ ta tb = (σ', RNew Z (length (tens Z σ))) /\
    tens Z σ' = tens Z σ ++ [p] /\
    d_buf p = length (bufs Z σ) /\
    d_off p = 0 /\
    d_view p = false /\
    shp (d_ap p) = [m] /\
    str (d_ap p) = [1] /\
    d_len p = m /\
    is_cm (ord (d_ap p)) = false /\
    d_old p = None /\
    in_buf Z σ' p /\
    (forall i : Z, 0 <= i < m -> cell Z σ' p [i] = Some (mv_sum Z 0 Z.add Z.mul σ a x n i)) /\
    length (bufs Z σ') = S (length (bufs Z σ)) /\
    (forall q : nat, (q < length (bufs Z σ))%nat -> get_buf Z σ' q = get_buf Z σ q).
Proof. exact zdot_matvec. Qed.
Print Assumptions C09_zdot_matvec.

(* D1, vector . matrix:  b.T(); b.MatVecMul(a); b.UT().  The conclusion  tens σ' = tens σ ++ [p]  says
   that the operand b is RESTORED EXACTLY (the same dense entry as before, no transpose left pending);
   entries  ztv_sum σ b a k i = sum_{j<k} b[j,i]*a[j] = (b^T . a)_i.
   Guards 2 <= k, 2 <= n: b is a matrix that is not vector-shaped (a 1x1 b makes T() a no-op). *)
Theorem C09_zdot_vecmat :
  forall (σ : store Z) (ta tb : nat) (a b : dense) (k n : Z),
  get_t Z σ ta = Some a ->
  get_t Z σ tb = Some b ->
  2 <= k ->
  2 <= n ->
  vec_shape (shp (d_ap a)) k ->
  d_len a = k ->
  plain2 b k n ->
  in_buf Z σ a ->
  in_buf Z σ b ->
  exists (σ' : store Z) (p : dense),
    zdot σ ta tb = (σ', RNew Z (length (tens Z σ))) /\
    tens Z σ' = tens Z σ ++ [p] /\
    d_buf p = length (bufs Z σ) /\
    d_off p = 0 /\
    d_view p = false /\
    shp (d_ap p) = [n] /\
    str (d_ap p) = [1] /\
    d_len p = n /\
    is_cm (ord (d_ap p)) = false /\
    d_old p = None /\
    in_buf Z σ' p /\
    (forall i : Z, 0 <= i < n -> cell Z σ' p [i] = Some (ztv_sum σ b a k i)) /\
    length (bufs Z σ') = S (length (bufs Z σ)) /\
    (forall q : nat, (q < length (bufs Z σ))%nat -> get_buf Z σ' q = get_buf Z σ q).
Proof. exact zdot_vecmat. Qed.
Print Assumptions C09_zdot_vecmat.

(* D1, vector . vector: the inner product in a fresh SCALAR-shaped tensor (shape [], one cell); the whole
   resulting store is given explicitly: one new allocation [v], one new table entry *)
Theorem C09_zdot_vecvec :
  forall (σ : store Z) (ta tb : nat) (x y : dense) (n : Z),
  get_t Z σ ta = Some x ->
  get_t Z σ tb = Some y ->
  is_vector (shp (d_ap x)) = true ->
  is_vector (shp (d_ap y)) = true ->
  d_len x = n ->
  d_len y = n ->
  0 <= n ->
  in_buf Z σ x ->
  in_buf Z σ y ->
  let v := vsum Z 0 Z.add (map (fun i : Z => velt Z 0 σ x i * velt Z 0 σ y i) (zseq 0 (Z.to_nat n))) in
  zdot σ ta tb =
  ({|
     bufs := bufs Z σ ++ [[v]];
     tens :=
       tens Z σ ++
       [{|
          d_buf := length (bufs Z σ);
          d_off := 0;
          d_len := 1;
          d_ap := {| shp := []; str := []; ord := 0; fin := true |};
          d_old := None;
          d_view := false
        |}]
   |}, RNew Z (length (tens Z σ))).
Proof. exact zdot_vecvec. Qed.
Print Assumptions C09_zdot_vecvec.

(* D3 (iii): row-major enumeration of a concatenated shape *)
Theorem C09_rank_rm_app :
  forall s1 s2 c1 c2 : list Z,
  length c1 = length s1 ->
  length c2 = length s2 -> rank_rm (s1 ++ s2) (c1 ++ c2) = rank_rm s1 c1 * size s2 + rank_rm s2 c2.
Proof. exact rank_rm_app. Qed.
Print Assumptions C09_rank_rm_app.

Theorem C09_unrank_app :
  forall (s1 s2 : list Z) (i l : Z),
  pos_shape s1 ->
  pos_shape s2 ->
  0 <= i < size s1 ->
  0 <= l < size s2 -> unrank (s1 ++ s2) (i * size s2 + l) = unrank s1 i ++ unrank s2 l.
Proof. exact unrank_app. Qed.
Print Assumptions C09_unrank_app.

(* free_axes n axes = the axes of 0..n-1 not in `axes`, ascending (TensorMul's notins);
   free ++ contracted and contracted ++ free are permutations of the axes *)
Theorem C09_free_axes_perm_l :
  forall (n : nat) (axes : list Z),
  NoDup axes ->
  (forall x : Z, In x axes -> 0 <= x < Z.of_nat n) -> is_permb (free_axes n axes ++ axes) n = true.
Proof. exact free_perm_l. Qed.
Print Assumptions C09_free_axes_perm_l.

Theorem C09_free_axes_perm_r :
  forall (n : nat) (axes : list Z),
  NoDup axes ->
  (forall x : Z, In x axes -> 0 <= x < Z.of_nat n) -> is_permb (axes ++ free_axes n axes) n = true.
Proof. exact free_perm_r. Qed.
Print Assumptions C09_free_axes_perm_r.

(* the SPEC's place_go (full coordinate from contracted part kc and free part ca) is exactly the source
   coordinate addressed through the lazy transpose by  free ++ contracted  (resp. contracted ++ free) *)
Theorem C09_place_is_unpermute_A :
  forall (n : nat) (axes kc ca : list Z),
  NoDup axes ->
  (forall x : Z, In x axes -> 0 <= x < Z.of_nat n) ->
  length ca = length (free_axes n axes) ->
  length kc = length axes -> unpermute (free_axes n axes ++ axes) (ca ++ kc) = place_go 0 n axes kc ca.
Proof. exact unpermute_place_A. Qed.
Print Assumptions C09_place_is_unpermute_A.

Theorem C09_place_is_unpermute_B :
  forall (n : nat) (axes kc cb : list Z),
  NoDup axes ->
  (forall x : Z, In x axes -> 0 <= x < Z.of_nat n) ->
  length cb = length (free_axes n axes) ->
  length kc = length axes -> unpermute (axes ++ free_axes n axes) (kc ++ cb) = place_go 0 n axes kc cb.
Proof. exact unpermute_place_B. Qed.
Print Assumptions C09_place_is_unpermute_B.

(* D3 (ii),(iii): one operand's preparation  T(axes); Transpose(); Reshape(sh)  on a contiguous row-major
   tensor with nothing pending, for ANY permutation p of its axes (identity and all-ones shapes, where
   T is a no-op, and the two-dimensional vector shapes included): the tensor becomes contiguous of
   shape sh over the SAME window, cell number k of sh = the source element at
   unpermute p (k-th coordinate of the permuted shape); other tensors, other allocations and all
   allocation sizes are unchanged.  tm_prep is the local function `prep` of ztensormul. *)
Theorem C09_tensormul_prep :
  forall (σ : store Z) (i : nat) (d : dense) (p sh : list Z),
  get_t Z σ i = Some d ->
  MemProofs.wf_dense Z σ d ->
  d_old d = None ->
  d_view d = false ->
  is_cm (ord (d_ap d)) = false ->
  contig d ->
  is_permb p (length (shp (d_ap d))) = true ->
  pos_shape sh ->
  size sh = size (shp (d_ap d)) ->
  exists (σ' : store Z) (d' : dense),
    tm_prep σ i p sh = Ok σ' /\
    get_t Z σ' i = Some d' /\
    d_buf d' = d_buf d /\
    d_off d' = d_off d /\
    d_len d' = d_len d /\
    d_old d' = None /\
    d_view d' = false /\
    shp (d_ap d') = sh /\
    str (d_ap d') = calc_strides sh /\
    is_cm (ord (d_ap d')) = false /\
    MemProofs.wf_dense Z σ' d' /\
    length (tens Z σ') = length (tens Z σ) /\
    length (bufs Z σ') = length (bufs Z σ) /\
    (forall t0 : nat, t0 <> i -> get_t Z σ' t0 = get_t Z σ t0) /\
    (forall b : nat, zlen (get_buf Z σ' b) = zlen (get_buf Z σ b)) /\
    (forall b : nat, b <> d_buf d -> get_buf Z σ' b = get_buf Z σ b) /\
    (forall k : Z,
     0 <= k < size sh ->
     MemProofs.cell Z σ' d' (unrank sh k) =
     MemProofs.cell Z σ d (unpermute p (unrank (permute 0 p (shp (d_ap d))) k))).
Proof. exact tm_prep_spec. Qed.
Print Assumptions C09_tensormul_prep.

(* ztensormul unfolded ONCE: ztensormul_steps is the same text with the named helpers free_axes, exts,
   tm_prep (proof: reflexivity) *)
Theorem C09_ztensormul_unfold :
  forall (σ : store Z) (ta tb : nat) (axesA axesB : list Z),
  ztensormul σ ta tb axesA axesB = ztensormul_steps σ ta tb axesA axesB.
Proof. exact ztensormul_unfold. Qed.
Print Assumptions C09_ztensormul_unfold.

(* the success path as an explicit chain of intermediate stores *)
Theorem C09_ztensormul_chain :
  forall (σ : store Z) (ta tb : nat) (axesA axesB : list Z) (a b : dense) (σ1 σ2 σ3 σ4 σ5 σ6 : store Z)
    (ia ib p : nat) (dp : dense),
  get_t Z σ ta = Some a ->
  get_t Z σ tb = Some b ->
  length axesA = length axesB ->
  (forall x : Z, In x axesA -> 0 <= x < Z.of_nat (length (shp (d_ap a)))) ->
  (forall x : Z, In x axesB -> 0 <= x < Z.of_nat (length (shp (d_ap b)))) ->
  exts (shp (d_ap a)) axesA = exts (shp (d_ap b)) axesB ->
  size (exts (shp (d_ap a)) axesA) <> 0 ->
  m_clone Z σ ta = Ok (σ1, ia) ->
  m_clone Z σ1 tb = Ok (σ2, ib) ->
  tm_prep σ2 ia (free_axes (length (shp (d_ap a))) axesA ++ axesA)
    [size (shp (d_ap a)) ÷ size (exts (shp (d_ap a)) axesA); size (exts (shp (d_ap a)) axesA)] = 
  Ok σ3 ->
  tm_prep σ3 ib (axesB ++ free_axes (length (shp (d_ap b))) axesB)
    [size (exts (shp (d_ap a)) axesA); size (shp (d_ap b)) ÷ size (exts (shp (d_ap a)) axesA)] = 
  Ok σ4 ->
  lres_outcome σ4 (m_matmul Z 0 Z.add Z.mul σ4 ia ib LSafe) = (σ5, RNew Z p) ->
  m_reshape Z σ5 p
    match
      exts (shp (d_ap a)) (free_axes (length (shp (d_ap a))) axesA) ++
      exts (shp (d_ap b)) (free_axes (length (shp (d_ap b))) axesB)
    with
    | [] => [1]
    | z :: l => z :: l
    end = Ok (σ6, false) ->
  get_t Z σ6 p = Some dp ->
  ztensormul σ ta tb axesA axesB =
  ({| bufs := bufs Z σ6; tens := firstn (length (tens Z σ)) (tens Z σ6) ++ [dp] |},
   RNew Z (length (tens Z σ))).
Proof. exact ztensormul_chain. Qed.
Print Assumptions C09_ztensormul_chain.

(* D3 (iv): MatMul on the prepared operands: contiguous fA x n2 and n2 x fB with ANY extents >= 1
   (k x 1, 1 x k and 1 x 1 included: MatMul asks for rank 2 only); the result is a fresh contiguous tensor
   of fA*fB cells whose cell i*fB+j is the (i,j) entry of the product.  lres_outcome registers the fresh
   result in the tensor table. *)
Theorem C09_matmul_prepared :
  forall (σ : store Z) (ta tb : nat) (A B : dense) (fA n2 fB : Z),
  get_t Z σ ta = Some A ->
  get_t Z σ tb = Some B ->
  1 <= fA ->
  1 <= n2 ->
  1 <= fB ->
  plain2 A fA n2 ->
  plain2 B n2 fB ->
  in_buf Z σ A ->
  in_buf Z σ B ->
  exists (σ' : store Z) (P : dense),
    lres_outcome σ (m_matmul Z 0 Z.add Z.mul σ ta tb LSafe) = (σ', RNew Z (length (tens Z σ))) /\
    tens Z σ' = tens Z σ ++ [P] /\
    d_buf P = length (bufs Z σ) /\
    rm_tensor σ' P /\
    d_view P = false /\
    d_len P = fA * fB /\
    (forall i j : Z,
     0 <= i < fA -> 0 <= j < fB -> win_get Z σ' P (i * fB + j) = Some (zmm_sum σ A B n2 i j)) /\
    length (bufs Z σ') = S (length (bufs Z σ)) /\
    (forall q : nat, (q < length (bufs Z σ))%nat -> get_buf Z σ' q = get_buf Z σ q).
Proof. exact matmul_prepared. Qed.
Print Assumptions C09_matmul_prepared.

(* the common first half of TensorMul (clones, lazy T, Transpose, Reshape of both operands) *)
Theorem C09_tensormul_prepared :
  forall (σ : store Z) (ta tb : nat) (a b : dense) (axesA axesB : list Z),
  get_t Z σ ta = Some a ->
  get_t Z σ tb = Some b ->
  rm_tensor σ a ->
  rm_tensor σ b ->
  NoDup axesA ->
  NoDup axesB ->
  (forall x : Z, In x axesA -> 0 <= x < Z.of_nat (length (shp (d_ap a)))) ->
  (forall x : Z, In x axesB -> 0 <= x < Z.of_nat (length (shp (d_ap b)))) ->
  length axesA = length axesB ->
  exts (shp (d_ap a)) axesA = exts (shp (d_ap b)) axesB ->
  let na := length (shp (d_ap a)) in
  let nb := length (shp (d_ap b)) in
  let ka := exts (shp (d_ap a)) axesA in
  let ret1 := exts (shp (d_ap a)) (free_axes na axesA) in
  let ret2 := exts (shp (d_ap b)) (free_axes nb axesB) in
  let fA := size ret1 in
  let n2 := size ka in
  let fB := size ret2 in
  let n := length (tens Z σ) in
  pos_shape ret1 /\
  pos_shape ka /\
  pos_shape ret2 /\
  (exists (σ1 σ2 σ3 σ4 : store Z) (da' db' : dense),
     m_clone Z σ ta = Ok (σ1, n) /\
     m_clone Z σ1 tb = Ok (σ2, S n) /\
     tm_prep σ2 n (free_axes na axesA ++ axesA) [size (shp (d_ap a)) ÷ n2; n2] = Ok σ3 /\
     tm_prep σ3 (S n) (axesB ++ free_axes nb axesB) [n2; size (shp (d_ap b)) ÷ n2] = Ok σ4 /\
     get_t Z σ4 n = Some da' /\
     get_t Z σ4 (S n) = Some db' /\
     plain2 da' fA n2 /\
     plain2 db' n2 fB /\
     in_buf Z σ4 da' /\
     in_buf Z σ4 db' /\
     length (tens Z σ4) = S (S n) /\
     length (bufs Z σ4) = S (S (length (bufs Z σ))) /\
     (forall t : nat, (t < n)%nat -> get_t Z σ4 t = get_t Z σ t) /\
     (forall q : nat, (q < length (bufs Z σ))%nat -> get_buf Z σ4 q = get_buf Z σ q) /\
     (forall ca kc : list Z,
      inbox ret1 ca ->
      inbox ka kc ->
      MemProofs.cell Z σ4 da' [rk ret1 ca; rk ka kc] = MemProofs.cell Z σ a (place_go 0 na axesA kc ca)) /\
     (forall kc cb : list Z,
      inbox ka kc ->
      inbox ret2 cb ->
      MemProofs.cell Z σ4 db' [rk ka kc; rk ret2 cb] = MemProofs.cell Z σ b (place_go 0 nb axesB kc cb))).
Proof. exact tm_prepared. Qed.
Print Assumptions C09_tensormul_prepared.

(* D2: two matrices of ANY extents >= 1 (vector-shaped m x 1, 1 x n, 1 x 1 included), axesA = [1],
   axesB = [0] (T is a no-op): RNew |tens σ|, shape [m;n], matmul entries, the tensor table grows by
   exactly one entry (the two clones are dropped), old allocations unchanged *)
Theorem C09_ztensormul_matrix_case :
  forall (σ : store Z) (ta tb : nat) (a b : dense) (m k n : Z),
  get_t Z σ ta = Some a ->
  get_t Z σ tb = Some b ->
  1 <= m ->
  1 <= k ->
  1 <= n ->
  plain2 a m k ->
  plain2 b k n ->
  in_buf Z σ a ->
  in_buf Z σ b ->
  exists (σ' : store Z) (dp : dense),
    ztensormul σ ta tb [1] [0] = (σ', RNew Z (length (tens Z σ))) /\
    tens Z σ' = tens Z σ ++ [dp] /\
    shp (d_ap dp) = [m; n] /\
    str (d_ap dp) = [n; 1] /\
    d_old dp = None /\
    d_view dp = false /\
    is_cm (ord (d_ap dp)) = false /\
    d_buf dp = S (S (length (bufs Z σ))) /\
    (forall q : nat, (q < length (bufs Z σ))%nat -> get_buf Z σ' q = get_buf Z σ q) /\
    (forall i j : Z, 0 <= i < m -> 0 <= j < n -> ent Z σ' dp i j = Some (zmm_sum σ a b k i j)).
Proof. exact ztensormul_matrix_case. Qed.
Print Assumptions C09_ztensormul_matrix_case.

(* D3, THE GENERAL CONTRACTION.  Operands: registered, contiguous row-major, nothing pending, all extents
   >= 1, window inside its allocation (rm_tensor; views allowed; ta = tb allowed).  Axes: duplicate-free,
   in range, equally many, equal extents.  ka = contracted extents, ret1 / ret2 = free extents of a / b.
   NO GUARD on the extents: size ka = 1 (no contracted axes = the outer product, contracted unit axes) and
   size ret1 = 1 / size ret2 = 1 (full contractions) are covered.
   Result: tensor number |tens σ|, the table grows by exactly this entry, documented shape
   ret1 ++ ret2 ([1] when empty), contiguous; every old allocation unchanged; entry at ca ++ cb =
   fold_left + over coords ka of  a[place axesA kc ca] * b[place axesB kc cb]  starting from 0, i.e. the
   value of Spec.spec_tensormul_vals at that coordinate (zat = the logical element = At, C09_zat_is_at). *)
Theorem C09_ztensormul_spec :
  forall (σ : store Z) (ta tb : nat) (a b : dense) (axesA axesB : list Z),
  get_t Z σ ta = Some a ->
  get_t Z σ tb = Some b ->
  rm_tensor σ a ->
  rm_tensor σ b ->
  NoDup axesA ->
  NoDup axesB ->
  (forall x : Z, In x axesA -> 0 <= x < Z.of_nat (length (shp (d_ap a)))) ->
  (forall x : Z, In x axesB -> 0 <= x < Z.of_nat (length (shp (d_ap b)))) ->
  length axesA = length axesB ->
  exts (shp (d_ap a)) axesA = exts (shp (d_ap b)) axesB ->
  let na := length (shp (d_ap a)) in
  let nb := length (shp (d_ap b)) in
  let ka := exts (shp (d_ap a)) axesA in
  let ret1 := exts (shp (d_ap a)) (free_axes na axesA) in
  let ret2 := exts (shp (d_ap b)) (free_axes nb axesB) in
  exists (σ' : store Z) (dp : dense),
    ztensormul σ ta tb axesA axesB = (σ', RNew Z (length (tens Z σ))) /\
    tens Z σ' = tens Z σ ++ [dp] /\
    shp (d_ap dp) = match ret1 ++ ret2 with
                    | [] => [1]
                    | z :: l => z :: l
                    end /\
    str (d_ap dp) = calc_strides (shp (d_ap dp)) /\
    d_old dp = None /\
    d_view dp = false /\
    is_cm (ord (d_ap dp)) = false /\
    d_buf dp = S (S (length (bufs Z σ))) /\
    (forall q : nat, (q < length (bufs Z σ))%nat -> get_buf Z σ' q = get_buf Z σ q) /\
    (forall ca cb : list Z,
     inbox ret1 ca ->
     inbox ret2 cb ->
     MemProofs.cell Z σ' dp match ret1 ++ ret2 with
                            | [] => [0]
                            | _ :: _ => ca ++ cb
                            end =
     Some
       (fold_left Z.add
          (map
             (fun kc : list Z =>
              zat σ a (place_go 0 na axesA kc ca) * zat σ b (place_go 0 nb axesB kc cb)) 
             (coords ka)) 0)).
Proof. exact ztensormul_spec. Qed.
Print Assumptions C09_ztensormul_spec.

Theorem C09_zat_is_at :
  forall (σ : store Z) (t : nat) (d : dense) (c : list Z),
  get_t Z σ t = Some d -> rm_tensor σ d -> inbox (shp (d_ap d)) c -> m_at Z σ t c = Ok (zat σ d c).
Proof. exact zat_is_at. Qed.
Print Assumptions C09_zat_is_at.

(* CONTRACTED EXTENTS MULTIPLYING TO 1, AND THE FULL CONTRACTION, on concrete operands next to the SPEC's
   answer (Ex.spec_tm = spec_tensormul_vals on the same two tensors; Ex.res_shape / Ex.res_vals = shape and
   logical contents of the returned tensor):  2x1 . 1x3;  outer product of [1 2] and [4 5 6] with no axes;
   1x1 . 1x5;  3x1 . 1x3;  [1 2 3] . [4 5 6] over axes [0],[0] (shape [1], value 32).  (With the former
   shape-dispatching Dot in place of MatMul the first four were refused with an error.) *)
Example C09_tensormul_unit_contraction_examples :
  (let r := ztensormul (Ex.mk2 [2; 1] [1; 2] [1; 3] [4; 5; 6]) 0 1 [1] [0] in
   snd r = RNew Z 2 /\ Ex.res_shape r = [2; 3] /\ Ex.res_vals r = map Ok [4; 5; 6; 8; 10; 12] /\
   Ex.spec_tm (Ex.spec2 [2; 1] [1; 2] [1; 3] [4; 5; 6]) [1] [0] = Some ([2; 3], [4; 5; 6; 8; 10; 12])) /\
  (let r := ztensormul (Ex.mk2 [2] [1; 2] [3] [4; 5; 6]) 0 1 [] [] in
   snd r = RNew Z 2 /\ Ex.res_shape r = [2; 3] /\ Ex.res_vals r = map Ok [4; 5; 6; 8; 10; 12] /\
   Ex.spec_tm (Ex.spec2 [2] [1; 2] [3] [4; 5; 6]) [] [] = Some ([2; 3], [4; 5; 6; 8; 10; 12])) /\
  (let r := ztensormul (Ex.mk2 [1; 1] [3] [1; 5] [1; 2; 3; 4; 5]) 0 1 [1] [0] in
   snd r = RNew Z 2 /\ Ex.res_shape r = [1; 5] /\ Ex.res_vals r = map Ok [3; 6; 9; 12; 15] /\
   Ex.spec_tm (Ex.spec2 [1; 1] [3] [1; 5] [1; 2; 3; 4; 5]) [1] [0] = Some ([1; 5], [3; 6; 9; 12; 15])) /\
  (let r := ztensormul (Ex.mk2 [3; 1] [1; 2; 3] [1; 3] [4; 5; 6]) 0 1 [1] [0] in
   snd r = RNew Z 2 /\ Ex.res_shape r = [3; 3] /\ Ex.res_vals r = map Ok [4; 5; 6; 8; 10; 12; 12; 15; 18] /\
   Ex.spec_tm (Ex.spec2 [3; 1] [1; 2; 3] [1; 3] [4; 5; 6]) [1] [0] =
   Some ([3; 3], [4; 5; 6; 8; 10; 12; 12; 15; 18])) /\
  (let r := ztensormul (Ex.mk2 [3] [1; 2; 3] [3] [4; 5; 6]) 0 1 [0] [0] in
   snd r = RNew Z 2 /\ Ex.res_shape r = [1] /\ Ex.res_vals r = map Ok [32] /\
   Ex.spec_tm (Ex.spec2 [3] [1; 2; 3] [3] [4; 5; 6]) [0] [0] = Some ([1], [32])).
Proof. exact tensormul_unit_contraction_examples. Qed.
Print Assumptions C09_tensormul_unit_contraction_examples.

(* ====================================================================================== *)
(* NON-VACUITY.  (1) The hypotheses of C09_ztensormul_spec hold on a non-trivial store, and the model,
   the theorem's formula and the SPEC agree there: a = the 2x3x4 tensor 1..24, b = the 4x2 tensor 2..9,
   axesA = [2], axesB = [0]; result 2x3x2, e.g. entry (0,0,0) = 1*2+2*4+3*6+4*8 = 60.
   (2) Dot of the vector [1 1 2] with the 3x2 matrix 1..6 = [14 18]; the matrix operand is restored
   exactly (same dense entry: nothing pending) and its data are untouched. *)
(* ====================================================================================== *)
Example C09b_tensormul_example :
  let σ := Ex.mk2 [2; 3; 4] (zseq 1 24) [4; 2] (zseq 2 8) in
  let r := ztensormul σ 0 1 [2] [0] in
  (exists a b,
     get_t Z σ 0 = Some a /\ get_t Z σ 1 = Some b /\ rm_tensor σ a /\ rm_tensor σ b /\
     shp (d_ap a) = [2; 3; 4] /\ shp (d_ap b) = [4; 2] /\
     exts (shp (d_ap a)) [2] = [4] /\ exts (shp (d_ap b)) [0] = [4] /\
     exts (shp (d_ap a)) (free_axes 3 [2]) = [2; 3] /\ exts (shp (d_ap b)) (free_axes 2 [0]) = [2]) /\
  snd r = RNew Z 2 /\
  Ex.res_shape r = [2; 3; 2] /\
  Ex.res_vals r = map Ok [60; 70; 140; 166; 220; 262; 300; 358; 380; 454; 460; 550] /\
  Ex.spec_tm (Ex.spec2 [2; 3; 4] (zseq 1 24) [4; 2] (zseq 2 8)) [2] [0] =
    Some ([2; 3; 2], [60; 70; 140; 166; 220; 262; 300; 358; 380; 454; 460; 550]) /\
  length (tens Z (fst r)) = 3%nat /\
  firstn 2 (tens Z (fst r)) = tens Z σ /\ firstn 2 (bufs Z (fst r)) = bufs Z σ.
Proof.
  split.
  - eexists. eexists. split; [reflexivity|]. split; [reflexivity|].
    split; [unfold rm_tensor; cbn; repeat split; try reflexivity; try lia; repeat constructor; lia|].
    split; [unfold rm_tensor; cbn; repeat split; try reflexivity; try lia; repeat constructor; lia|].
    repeat split.
  - vm_compute. repeat split.
Qed.
Print Assumptions C09b_tensormul_example.

(* (1') the same for a case the theorem did not cover before: the outer product of [1 2] and [4 5 6]
   (no contracted axes: ka = [], size ka = 1, the reshaped operands are 2x1 and 1x3) *)
Example C09b_tensormul_outer_example :
  let σ := Ex.mk2 [2] [1; 2] [3] [4; 5; 6] in
  let r := ztensormul σ 0 1 [] [] in
  (exists a b,
     get_t Z σ 0 = Some a /\ get_t Z σ 1 = Some b /\ rm_tensor σ a /\ rm_tensor σ b /\
     shp (d_ap a) = [2] /\ shp (d_ap b) = [3] /\
     size (exts (shp (d_ap a)) []) = 1 /\
     exts (shp (d_ap a)) (free_axes 1 []) = [2] /\ exts (shp (d_ap b)) (free_axes 1 []) = [3]) /\
  snd r = RNew Z 2 /\
  Ex.res_shape r = [2; 3] /\
  Ex.res_vals r = map Ok [4; 5; 6; 8; 10; 12] /\
  length (tens Z (fst r)) = 3%nat /\
  firstn 2 (tens Z (fst r)) = tens Z σ /\ firstn 2 (bufs Z (fst r)) = bufs Z σ.
Proof.
  split.
  - eexists. eexists. split; [reflexivity|]. split; [reflexivity|].
    split; [unfold rm_tensor; cbn; repeat split; try reflexivity; try lia; repeat constructor; lia|].
    split; [unfold rm_tensor; cbn; repeat split; try reflexivity; try lia; repeat constructor; lia|].
    repeat split.
  - vm_compute. repeat split.
Qed.
Print Assumptions C09b_tensormul_outer_example.

Example C09b_dot_vecmat_example :
  let σ := Ex.mk2 [3] [1; 1; 2] [3; 2] (zseq 1 6) in
  let r := zdot σ 0 1 in
  (exists a b,
     get_t Z σ 0 = Some a /\ get_t Z σ 1 = Some b /\
     vec_shape (shp (d_ap a)) 3 /\ d_len a = 3 /\ plain2 b 3 2 /\ in_buf Z σ a /\ in_buf Z σ b) /\
  snd r = RNew Z 2 /\
  Ex.res_shape r = [2] /\ Ex.res_vals r = [Ok 14; Ok 18] /\
  get_t Z (fst r) 1 = get_t Z σ 1 /\                            (* b restored exactly *)
  firstn 2 (tens Z (fst r)) = tens Z σ /\ length (tens Z (fst r)) = 3%nat /\
  bufs Z (fst r) = bufs Z σ ++ [[14; 18]].
Proof.
  split.
  - eexists. eexists. split; [reflexivity|]. split; [reflexivity|].
    split; [left; reflexivity|]. split; [reflexivity|].
    split; [repeat split|]. split; vm_compute; split; congruence.
  - vm_compute. repeat split.
Qed.
Print Assumptions C09b_dot_vecmat_example.

(* the result, printed *)
Eval vm_compute in
  (let r := ztensormul (Ex.mk2 [2; 3; 4] (zseq 1 24) [4; 2] (zseq 2 8)) 0 1 [2] [0] in
   (snd r, Ex.res_shape r, Ex.res_vals r)).
Eval vm_compute in
  (let r := zdot (Ex.mk2 [3] [1; 1; 2] [3; 2] (zseq 1 6)) 0 1 in
   (snd r, Ex.res_shape r, Ex.res_vals r, get_t Z (fst r) 1)).
