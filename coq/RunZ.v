(* RunZ.v — the executable instantiation V := Z of the program interpreters, extended with the
   elementwise operations (arithmetic, comparison, unary) in all option modes.
   Elements are small integers, on which every modelled scalar operation is exact in every
   numeric element type; element-type specific arithmetic is the subject of C17. *)
From TV Require Import Base Index AP Iter Mem Spec Guards Run Ops Reduce Shapeops Linalg.

(* scalar operations by code *)
Definition zbin (code : Z) (x y : Z) : cres Z :=
  if code =? 0 then CV Z (x + y)
  else if code =? 1 then CV Z (x - y)
  else if code =? 2 then CV Z (x * y)
  else if code =? 3 then (if y =? 0 then CZero Z else CV Z (Z.quot x y))     (* integer / : zero-divisor convention *)
  else if code =? 4 then (if y =? 0 then CPanic Z else CV Z (Z.rem x y))     (* integer % : no check, Go panics *)
  else if code =? 5 then CV Z (if y <? 0 then (if Z.abs x =? 1 then (if Z.even y then 1 else x) else 0) else Z.pow x y)
  else if code =? 6 then CV Z (Z.min x y)
  else CV Z (Z.max x y).

Definition zcmp (code : Z) (x y : Z) : cres Z :=
  let b := if code =? 0 then x >? y
           else if code =? 1 then x >=? y
           else if code =? 2 then x <? y
           else if code =? 3 then x <=? y
           else if code =? 4 then x =? y
           else negb (x =? y) in
  CV Z (if b then 1 else 0).

(* codes >= 100 encode Clamp(lo, hi) with 0 <= lo, hi < 16: 100 + 16*lo + hi *)
Definition zun (code : Z) (x : Z) : Z :=
  if 100 <=? code then Z.min (Z.max x ((code - 100) / 16)) ((code - 100) mod 16)
  else if code =? 0 then - x
  else if code =? 1 then x * x
  else if code =? 2 then x * x * x
  else if code =? 3 then Z.abs x
  else if code =? 5 then Z.sqrt x          (* Sqrt, used on perfect squares only *)
  else Z.sgn x.

Inductive zop :=
| ZBase (o : op Z)
| ZBin (code : Z) (a b : nat) (m : mode) (api : bool)
| ZBinS (code : Z) (t : nat) (s : Z) (lft : bool) (m : mode)
| ZCmp (code : Z) (a b : nat) (same : bool) (m : cmode) (api : bool)
| ZCmpS (code : Z) (t : nat) (s : Z) (lft same : bool) (m : cmode)
| ZUn (code : Z) (a : nat) (m : mode)
| ZApply (code : Z) (a : nat) (m : mode)        (* Dense.Apply(fn, opts...) = StdEng.Map *)
| ZReduce (code : Z) (a : nat) (axes : list Z) (refused : bool)     (* 0 sum, 1 min, 2 max *)
| ZReduceFn (code : Z) (a : nat) (axis : Z) (refused : bool)        (* Dense.Reduce(fn, axis, default): the generic entry point *)
| ZArg (code : Z) (a : nat) (axis : Z) (refused : bool)             (* 0 argmax, 1 argmin; axis -1 = all *)
| ZStack (t : nat) (axis : Z) (others : list nat)
| ZConcat (t : nat) (axis : Z) (others : list nat)
| ZRepeat (t : nat) (axis : Z) (reps : list Z)
| ZLin (code : Z) (a b : nat) (m : lmode) (refused : Z)   (* 0 matmul, 1 matvec, 2 outer; refused: 0 no, 1 err, 2 panic *)
| ZInner (a b : nat) (refused : Z)
| ZTrace (a : nat) (refused : Z)
| ZTensorMul (a b : nat) (axesA axesB : list Z) (refused : Z)
| ZCopyTo (src dst : nat).                    (* src.CopyTo(dst), dense_matop.go *)

Definition zred (code : Z) : Z -> Z -> Z :=
  if code =? 0 then Z.add else if code =? 1 then Z.min else Z.max.
Definition zbetter (code : Z) (v f : Z) : bool := if code =? 0 then v >? f else v <? f.

(* a reduction result becomes a fresh row-major tensor *)
Definition new_result (σ : store Z) (sh : list Z) (data : list Z) : store Z * nat :=
  let '(σ1, b) := add_buf Z σ data in
  add_t Z σ1 (mkDense b 0 (zlen data) (mkAP sh (calc_strides sh) 0 true) None false).

Definition of_oresult (σ0 : store Z) (r : store Z * oresult) : store Z * outcome Z :=
  match r with
  | (σ, OOk t) => (σ, RNew Z t)
  | (σ, OErrR) => (σ, RErr Z)
  | (σ, OPanicR) => (σ, RPanic Z)
  end.

(* ---- tensor.Dot on two registered tensors (defaultengine_linalg.go), safe mode ---- *)
Definition lres_outcome (σ0 : store Z) (r : store Z * lres) : store Z * outcome Z :=
  match r with
  | (σ', LNew d) => let '(σ'', t') := add_t Z σ' d in (σ'', RNew Z t')
  | (σ', LSame t) => (σ', RNew Z t)
  | (σ', LErr) => (σ', RErr Z)
  | (σ', LPanic) => (σ', RPanic Z)
  end.

Definition zdot (σ : store Z) (ta tb : nat) : store Z * outcome Z :=
  match get_t Z σ ta, get_t Z σ tb with
  | Some a, Some b =>
    let sa := shp (d_ap a) in let sb := shp (d_ap b) in
    if is_scalar sa || is_scalar sb then (σ, RPanic Z)          (* scalar forms: not modelled *)
    else if is_vector sa then
      if is_vector sb then
        (* a.len() != b.len() -> error; otherwise Inner and New(FromScalar(ret)) *)
        if negb (d_len a =? d_len b) then (σ, RErr Z) else
        match m_inner Z 0 Z.add Z.mul σ ta tb with
        | Ok v => let '(σ1, t') := new_result σ [] [v] in (σ1, RNew Z t')
        | Err => (σ, RErr Z)
        | Panic => (σ, RPanic Z)
        end
      else if (length sb =? 2)%nat then
        (* b.T(); defer b.UT(); b.MatVecMul(a) *)
        match m_T Z σ tb [] with
        | Ok σ1 =>
          let '(σ2, r) := lres_outcome σ1 (m_matvec Z 0 Z.add Z.mul σ1 tb ta LSafe) in
          match m_UT Z σ2 tb with
          | Ok σ3 => (σ3, r)
          | _ => (σ2, RPanic Z)
          end
        | Err => (σ, RErr Z)
        | Panic => (σ, RPanic Z)
        end
      else (σ, RPanic Z)                                          (* TensorMul dispatch: not modelled *)
    else if (length sa =? 2)%nat then
      if is_vector sb then lres_outcome σ (m_matvec Z 0 Z.add Z.mul σ ta tb LSafe)
      else if (length sb =? 2)%nat then lres_outcome σ (m_matmul Z 0 Z.add Z.mul σ ta tb LSafe)
      else (σ, RPanic Z)
    else (σ, RPanic Z)
  | _, _ => (σ, RPanic Z)
  end.

(* ---- Dense.TensorMul(other, axesA, axesB) (dense_linalg.go): clones of both operands are lazily
   transposed so that the contracted axes come last (resp. first), transposed physically, reshaped
   to matrices, multiplied by MatMul, and the product is reshaped; the clones go back to the pool ---- *)
Definition ztensormul (σ : store Z) (ta tb : nat) (axesA axesB : list Z) : store Z * outcome Z :=
  match get_t Z σ ta, get_t Z σ tb with
  | Some a, Some b =>
    let sa := shp (d_ap a) in let sb := shp (d_ap b) in
    let td := zlen sa in let od := zlen sb in
    if negb (length axesA =? length axesB)%nat then (σ, RErr Z) else
    (* ts[axesA[i]] / os[axesB[i]]: a Go index panic outside the ranks; negatives are shifted only
       AFTER they were used as indices *)
    if negb (forallb (fun i => (0 <=? i) && (i <? td)) axesA) || negb (forallb (fun i => (0 <=? i) && (i <? od)) axesB)
    then (σ, RPanic Z) else
    let ka := map (fun ax => znth 0 sa ax) axesA in
    let kb := map (fun ax => znth 0 sb ax) axesB in
    if negb (list_eqb ka kb) then (σ, RErr Z) else
    let notA := filter (fun i => negb (existsb (Z.eqb i) axesA)) (zseq 0 (Z.to_nat td)) in
    let notB := filter (fun i => negb (existsb (Z.eqb i) axesB)) (zseq 0 (Z.to_nat od)) in
    let n2 := size ka in
    if n2 =? 0 then (σ, RPanic Z) else
    let shT := [Z.quot (size sa) n2; n2] in
    let shO := [n2; Z.quot (size sb) n2] in
    let ret1 := map (fun i => znth 0 sa i) notA in
    let ret2 := map (fun i => znth 0 sb i) notB in
    let retShape := match ret1 ++ ret2 with [] => [1] | s => s end in
    let n := length (tens Z σ) in
    let fail (r : outcome Z) : store Z * outcome Z := (σ, r) in
    match m_clone Z σ ta with
    | Ok (σ1, ia) =>
      match m_clone Z σ1 tb with
      | Ok (σ2, ib) =>
        let prep (σx : store Z) (i : nat) (axes sh : list Z) : res (store Z) :=
          match m_T Z σx i axes with
          | Ok σa =>
            match m_transpose Z σa i with
            | Ok σb => match m_reshape Z σb i sh with
                       | Ok (σc, false) => Ok σc
                       | Ok (_, true) => Err
                       | Err => Err
                       | Panic => Panic
                       end
            | Err => Err
            | Panic => Panic
            end
          | Err => Err
          | Panic => Panic
          end in
        match prep σ2 ia (notA ++ axesA) shT with
        | Ok σ3 =>
          match prep σ3 ib (axesB ++ notB) shO with
          | Ok σ4 =>
            match lres_outcome σ4 (m_matmul Z 0 Z.add Z.mul σ4 ia ib LSafe) with
            | (σ5, RNew _ p) =>
              match m_reshape Z σ5 p retShape with
              | Ok (σ6, false) =>
                (* the clones are handed back to the pool: only the product stays *)
                match get_t Z σ6 p with
                | Some dp => (mkStore Z (bufs Z σ6) (firstn n (tens Z σ6) ++ [dp]), RNew Z n)
                | None => fail (RPanic Z)
                end
              | Ok (_, true) => fail (RErr Z)
              | Err => fail (RErr Z)
              | Panic => fail (RPanic Z)
              end
            | (_, r) => fail r
            end
          | Err => fail (RErr Z)
          | Panic => fail (RPanic Z)
          end
        | Err => fail (RErr Z)
        | Panic => fail (RPanic Z)
        end
      | _ => fail (RPanic Z)
      end
    | _ => fail (RPanic Z)
    end
  | _, _ => (σ, RPanic Z)
  end.

Definition zstep_model (σ : store Z) (o : zop) : store Z * outcome Z :=
  match o with
  | ZBase b => step_model Z 0 σ b
  | ZBin code a b m api =>
    if (6 <=? code) then
      of_oresult σ (eng_minmax_vv Z 0 Z.add (zbin code) σ a b
                      (match m with MUnsafe => CUnsafe | MReuse r => CReuse r | MIncr r => CIncr r | MSafe => CSafe end))
    else if api then
      of_oresult σ (api_arith Z 0 Z.add (zbin code) σ a b m (eng_arith_vv Z 0 Z.add (zbin code)))
    else of_oresult σ (eng_arith_vv Z 0 Z.add (zbin code) σ a b m)
  | ZBinS code t s lft m =>
    if (6 <=? code) then
      of_oresult σ (eng_minmax_scalar Z 0 Z.add (zbin code) σ t s lft
                      (match m with MUnsafe => CUnsafe | MReuse r => CReuse r | MIncr r => CIncr r | MSafe => CSafe end))
    else of_oresult σ (eng_arith_scalar Z 0 Z.add (zbin code) σ t s lft m)
  | ZCmp code a b same m api =>
    if api then of_oresult σ (api_cmp Z 0 Z.add (zcmp code) σ a b same m)
    else of_oresult σ (eng_cmp_vv Z 0 Z.add (zcmp code) σ a b same m)
  | ZCmpS code t s lft same m => of_oresult σ (eng_cmp_scalar Z 0 Z.add (zcmp code) σ t s lft same m)
  | ZUn code a m => of_oresult σ (eng_unary Z 0 Z.add (zun code) σ a m)
  | ZApply code a m =>
    (* StdEng.Map: the function is applied IN PLACE to `used`: the operand itself (unsafe), a
       Materialize()/Clone() of it (safe), or the reuse/incr tensor's OWN contents (the operand is
       never read in those modes); a reuse tensor is then reshaped to the operand's shape *)
    match get_t Z σ a with
    | None => (σ, RPanic Z)
    | Some da =>
      match m with
      | MUnsafe => of_oresult σ (eng_unary Z 0 Z.add (zun code) σ a MUnsafe)
      | MSafe =>
        match (if is_materializable da then m_materialize Z 0 σ a else m_clone Z σ a) with
        | Ok (σ1, t') => of_oresult σ (eng_unary Z 0 Z.add (zun code) σ1 t' MUnsafe)
        | Err => (σ, RErr Z)
        | Panic => (σ, RPanic Z)
        end
      | MReuse r | MIncr r =>
        (* handleFuncOpts: size check, reshape, data-order flag of a plain reuse tensor *)
        match handle_reuse Z σ r (shp (d_ap da)) (ord (d_ap da)) (match m with MIncr _ => true | _ => false end) with
        | Err => (σ, RErr Z)
        | Panic => (σ, RPanic Z)
        | Ok σh =>
          match (match m with MIncr _ => eng_unary Z 0 Z.add (zun code) σh r (MIncr r)
                            | _ => eng_unary Z 0 Z.add (zun code) σh r MUnsafe end) with
          | (σ1, OOk _) =>
            match get_t Z σ1 r with
            | Some dr1 =>
              match reuse_check_shape dr1 (shp (d_ap da)) with
              | Some dr2 => (set_t Z σ1 r dr2, RNew Z r)
              | None => (σ1, RErr Z)
              end
            | None => (σ1, RPanic Z)
            end
          | (σ1, OErrR) => (σ, RErr Z)
          | (σ1, OPanicR) => (σ, RPanic Z)
          end
        end
      end
    end
  | ZReduce code a axes _ =>
    match fst (m_reduce Z 0 (zred code) (code =? 0) σ a axes) with
    | Ok (sh, data) => let '(σ', t) := new_result σ sh data in (σ', RNew Z t)
    | Err => (σ, RErr Z)
    | Panic => (σ, RPanic Z)
    end
  | ZReduceFn code a axis _ =>
    (* StdEng.Reduce: the axis dispatch of OptimizedReduce over the generic kernels, no
       materialisation of views, the last-axis kernel folds from the default value (0 here) *)
    match get_t Z σ a with
    | None => (σ, RPanic Z)
    | Some d =>
      match optimized_reduce Z 0 (zred code) true (window Z σ d) d axis with
      | Ok (sh, data) => let '(σ', t) := new_result σ sh data in (σ', RNew Z t)
      | Err => (σ, RErr Z)
      | Panic => (σ, RPanic Z)
      end
    end
  | ZArg code a axis _ =>
    match m_argbest Z (zbetter code) σ a axis with
    | Ok (sh, data) => let '(σ', t) := new_result σ sh data in (σ', RNew Z t)
    | Err => (σ, RErr Z)
    | Panic => (σ, RPanic Z)
    end
  | ZStack t axis others =>
    match m_stack Z 0 σ t axis others with
    | Ok (σ', d) => let '(σ'', t') := add_t Z σ' d in (σ'', RNew Z t')
    | Err => (σ, RErr Z) | Panic => (σ, RPanic Z)
    end
  | ZConcat t axis others =>
    match m_concat Z 0 σ t axis others with
    | Ok (σ', d) => let '(σ'', t') := add_t Z σ' d in (σ'', RNew Z t')
    | Err => (σ, RErr Z) | Panic => (σ, RPanic Z)
    end
  | ZRepeat t axis reps =>
    match m_repeat Z 0 σ t axis reps with
    | Ok (σ', d) => let '(σ'', t') := add_t Z σ' d in (σ'', RNew Z t')
    | Err => (σ, RErr Z) | Panic => (σ, RPanic Z)
    end
  | ZLin code a b m _ =>
    let r := if code =? 0 then m_matmul Z 0 Z.add Z.mul σ a b m
             else if code =? 1 then m_matvec Z 0 Z.add Z.mul σ a b m
             else m_outer Z 0 Z.add Z.mul σ a b m in
    match r with
    | (σ', LNew d) => let '(σ'', t') := add_t Z σ' d in (σ'', RNew Z t')
    | (σ', LSame t) => (σ', RNew Z t)
    | (σ', LErr) => (σ', RErr Z)
    | (σ', LPanic) => (σ', RPanic Z)
    end
  | ZInner a b _ =>
    match m_inner Z 0 Z.add Z.mul σ a b with
    | Ok v => (σ, RVal Z v) | Err => (σ, RErr Z) | Panic => (σ, RPanic Z)
    end
  | ZTrace a _ =>
    match m_trace Z 0 Z.add σ a with
    | Ok v => (σ, RVal Z v) | Err => (σ, RErr Z) | Panic => (σ, RPanic Z)
    end
  | ZTensorMul a b axesA axesB _ => ztensormul σ a b axesA axesB
  | ZCopyTo s d =>
    (* other == t: nothing; sizes differ: error; otherwise tensor.Copy(other, t) *)
    match get_t Z σ s, get_t Z σ d with
    | Some ds, Some dd =>
      if (s =? d)%nat then (σ, RUnit Z)
      else if negb (size (shp (d_ap ds)) =? size (shp (d_ap dd))) then (σ, RErr Z)
      else step_model Z 0 σ (OCopy Z d s)
    | _, _ => (σ, RPanic Z)
    end
  end.

(* what reduce() leaves in the caller's axes slice *)
Definition zreduce_axes_after (σ : store Z) (code : Z) (a : nat) (axes : list Z) : list Z :=
  snd (m_reduce Z 0 (zred code) (code =? 0) σ a axes).

(* SPEC: coordinate-wise on logical contents, delivered according to the option mode.
   None = not determined by the property (e.g. an integer zero divisor). *)
Definition cres_val (c : cres Z) : option Z := match c with CV _ v => Some v | _ => None end.

Definition all_some {A} (l : list (option A)) : option (list A) :=
  fold_right (fun o acc => match o, acc with Some x, Some r => Some (x :: r) | _, _ => None end) (Some []) l.

Definition mode_code (m : mode) : Z * nat :=
  match m with MSafe => (0, O) | MUnsafe => (1, O) | MReuse r => (2, r) | MIncr r => (3, r) end.
Definition cmode_code (m : cmode) : Z * nat :=
  match m with CSafe => (0, O) | CUnsafe => (1, O) | CReuse r => (2, r) | CIncr r => (3, r) end.

Definition spec_vals_deliver (ς : sstate Z) (ta : nat) (sh : list Z) (vs : list (option Z))
           (mc : Z * nat) (fresh_cm : bool) : option (sstate Z * outcome Z) :=
  match all_some vs with
  | None => None
  | Some l =>
    match spec_deliver Z 0 Z.add ς ta sh l (fst mc) (snd mc) fresh_cm with
    | Some (ς', t) => Some (ς', RNew Z t)
    | None => None
    end
  end.

Definition spec_reduce_step (ς : sstate Z) (code : Z) (a : nat) (axes : list Z) (refused : bool) : option (sstate Z * outcome Z) :=
    match sget Z ς a with
    | None => None
    | Some x =>
      let dims := zlen (s_shape x) in
      let axes' := match axes with [] => zseq 0 (Z.to_nat dims) | _ => axes end in
      (* only genuine sets of axes of the tensor are covered by the property *)
      if negb (forallb (fun i => (0 <=? i) && (i <? dims)) axes') || negb (nodup_z axes') then None
      (* an unsupported layout may be refused (which layouts the library supports is its own
         business; that it refuses the same ones as the MODEL is checked by the correspondence) *)
      else if refused then Some (ς, RErr Z)
      else
        let '(sh, vs) := spec_reduce_vals Z 0 (zred code) (code =? 0) ς x axes' in
        spec_vals_deliver ς a sh vs (0, O) false
    end.

Definition zstep_spec (ς : sstate Z) (o : zop) : option (sstate Z * outcome Z) :=
  match o with
  | ZBase b => step_spec Z 0 ς b
  | ZBin code a b m _ =>
    match sget Z ς a, sget Z ς b with
    | Some x, Some y =>
      if negb (shape_eq (s_shape x) (s_shape y)) then Some (ς, RErr Z)
      else spec_vals_deliver ς a (s_shape x)
             (map2 (fun p q => cres_val (zbin code p q)) (slogical Z 0 ς x) (slogical Z 0 ς y)) (mode_code m)
             (if 6 <=? code then false else s_cm x)
    | _, _ => None
    end
  | ZBinS code t s lft m =>
    match sget Z ς t with
    | Some x =>
      spec_vals_deliver ς t (s_shape x)
        (map (fun v => cres_val (if lft then zbin code v s else zbin code s v)) (slogical Z 0 ς x)) (mode_code m) (s_cm x)
    | None => None
    end
  | ZCmp code a b same m _ =>
    match sget Z ς a, sget Z ς b with
    | Some x, Some y =>
      if negb (shape_eq (s_shape x) (s_shape y)) then Some (ς, RErr Z)
      else spec_vals_deliver ς a (s_shape x)
             (map2 (fun p q => cres_val (zcmp code p q)) (slogical Z 0 ς x) (slogical Z 0 ς y)) (cmode_code m) false
    | _, _ => None
    end
  | ZCmpS code t s lft same m =>
    match sget Z ς t with
    | Some x =>
      spec_vals_deliver ς t (s_shape x)
        (map (fun v => cres_val (if lft then zcmp code v s else zcmp code s v)) (slogical Z 0 ς x)) (cmode_code m) false
    | None => None
    end
  | ZUn code a m | ZApply code a m =>
    match sget Z ς a with
    | Some x =>
      spec_vals_deliver ς a (s_shape x) (map (fun v => Some (zun code v)) (slogical Z 0 ς x)) (mode_code m) (s_cm x)
    | None => None
    end
  | ZReduce code a axes refused => spec_reduce_step ς code a axes refused
  | ZReduceFn code a axis refused => spec_reduce_step ς code a [axis] refused
  | ZArg code a axis refused =>
    match sget Z ς a with
    | None => None
    | Some x =>
      let dims := zlen (s_shape x) in
      if refused then Some (ς, RErr Z)
      else if axis =? -1 then
        let flat := mkSten [size (s_shape x)] (s_cells x) None 0 false false in
        spec_vals_deliver ς a [] [Some (nth 0 (snd (spec_arg_vals Z 0 (zbetter code) ς flat 0)) 0)] (0, O) false
      else if negb ((0 <=? axis) && (axis <? dims)) then None
      else
        let '(sh, vs) := spec_arg_vals Z 0 (zbetter code) ς x axis in
        spec_vals_deliver ς a sh (map (fun v => Some v) vs) (0, O) false
    end
  | ZStack t axis others =>
    let xs := flat_map (fun i => match sget Z ς i with Some x => [x] | None => [] end) (t :: others) in
    if negb (Nat.eqb (length xs) (S (length others))) then None else
    match spec_stack_vals Z 0 ς xs axis with
    | Some (sh, vs) => spec_vals_deliver ς t sh (map (fun v => Some v) vs) (0, O) false
    | None => Some (ς, RErr Z)
    end
  | ZConcat t axis others =>
    let xs := flat_map (fun i => match sget Z ς i with Some x => [x] | None => [] end) (t :: others) in
    if negb (Nat.eqb (length xs) (S (length others))) then None else
    match spec_concat_vals Z 0 ς xs axis with
    | Some (sh, vs) => spec_vals_deliver ς t sh (map (fun v => Some v) vs) (0, O) false
    | None => Some (ς, RErr Z)
    end
  | ZLin code a b m refused =>
    (* "any combination that is not supported is refused loudly": an error or a panic *)
    if refused =? 1 then Some (ς, RErr Z) else if refused =? 2 then Some (ς, RPanic Z) else
    match sget Z ς a, sget Z ς b with
    | Some x, Some y =>
      let r := if code =? 0 then spec_matmul_vals Z 0 Z.add Z.mul ς x y
               else if code =? 1 then spec_matvec_vals Z 0 Z.add Z.mul ς x y
               else spec_outer_vals Z 0 Z.mul ς x y in
      match r with
      | None => Some (ς, RErr Z)
      | Some (sh, vs) =>
        let mc := match m with LSafe => (0, O) | LReuse r => (2, r) | LIncr r => (3, r) end in
        (* a reuse tensor is reshaped to the documented result shape; an incr tensor keeps its own *)
        match spec_deliver_gen Z 0 (match m with LReuse _ => false | _ => true end) Z.add ς a sh vs (fst mc) (snd mc) (s_cm x) with
        | Some (ς', t) => Some (ς', RNew Z t)
        | None => None
        end
      end
    | _, _ => None
    end
  | ZInner a b refused =>
    if refused =? 1 then Some (ς, RErr Z) else if refused =? 2 then Some (ς, RPanic Z) else
    match sget Z ς a, sget Z ς b with
    | Some x, Some y =>
      match spec_inner_val Z 0 Z.add Z.mul ς x y with
      | Some v => Some (ς, RVal Z v)
      | None => Some (ς, RErr Z)
      end
    | _, _ => None
    end
  | ZCopyTo s d =>
    (* different sizes are refused; equal shapes: the destination holds the source's logical
       elements and nothing else changes; equal sizes but different shapes: not specified *)
    match sget Z ς s, sget Z ς d with
    | Some x, Some y =>
      if (s =? d)%nat then Some (ς, RUnit Z)
      else if negb (size (s_shape x) =? size (s_shape y)) then Some (ς, RErr Z)
      else if negb (list_eqb (s_shape x) (s_shape y)) then None
      else step_spec Z 0 ς (OCopy Z d s)
    | _, _ => None
    end
  | ZTensorMul a b axesA axesB refused =>
    (* a combination the library refuses is outside the statement only when the SPEC has no value
       for it either; a refusal of a well-formed contraction is a finding (the hint is not used) *)
    match sget Z ς a, sget Z ς b with
    | Some x, Some y =>
      match spec_tensormul_vals Z 0 Z.add Z.mul ς x y axesA axesB with
      | None => Some (ς, RErr Z)
      | Some (sh, vs) => spec_vals_deliver ς a sh (map (fun v => Some v) vs) (0, O) false
      end
    | _, _ => None
    end
  | ZTrace a refused =>
    if refused =? 1 then Some (ς, RErr Z) else if refused =? 2 then Some (ς, RPanic Z) else
    match sget Z ς a with
    | Some x =>
      match spec_trace_val Z 0 Z.add ς x with
      | Some v => Some (ς, RVal Z v)
      | None => Some (ς, RErr Z)
      end
    | None => None
    end
  | ZRepeat t axis reps =>
    match sget Z ς t with
    | None => None
    | Some x =>
      (* repeating a rank-1 vector (or a scalar) along axis 1 is the library's own documented
         extension; NumPy has no such axis *)
      if ((zlen (s_shape x) <=? 1) && (axis =? 1)) || (zlen (s_shape x) =? 0) then None else
      match spec_repeat_vals Z 0 ς x axis reps with
      | Some (sh, vs) => spec_vals_deliver ς t sh (map (fun v => Some v) vs) (0, O) false
      | None => Some (ς, RErr Z)
      end
    end
  end.

Definition zguard (σ : store Z) (o : zop) : gclass :=
  let tens l := flat_map (fun t => match get_t Z σ t with Some d => [d] | None => [] end) l in
  let dst_of (m : mode) := match m with MReuse r | MIncr r => get_t Z σ r | _ => None end in
  let cdst_of (m : cmode) := match m with CReuse r | CIncr r => get_t Z σ r | _ => None end in
  let rsize l := match tens l with d :: _ => size (shp (d_ap d)) | [] => 0 end in
  let rshape l := match tens l with d :: _ => shp (d_ap d) | [] => [] end in
  let soft a b := match get_t Z σ a, get_t Z σ b with
                  | Some x, Some y => negb (list_eqb (shp (d_ap x)) (shp (d_ap y))) && shape_eq (shp (d_ap x)) (shp (d_ap y))
                  | _, _ => false end in
  match o with
  | ZBase b => guard_op Z σ b
  | ZBin code a b m _ =>
    if (6 <=? code) && match m with MSafe | MReuse _ => false | _ => true end then GModeUnsupported else
    match guard_elementwise (tens [a; b]) (dst_of m) (rsize [a]) (rshape [a]) with
    | GOk => if soft a b then GShapeSoft
             else if (6 <=? code) && match m with MSafe | MReuse _ => false | _ => true end then GModeUnsupported
             else GOk
    | g => g
    end
  | ZBinS code t _ lft m =>
    match guard_elementwise (tens [t]) (dst_of m) (rsize [t]) (rshape [t]) with
    | GOk => if (6 <=? code) && negb lft && existsb (fun d => requires_iterator d) (tens [t]) then GScalarLeftView
             else if (6 <=? code) && match m with MSafe | MReuse _ => false | _ => true end then GModeUnsupported else GOk
    | g => g
    end
  | ZCmp _ a b _ m _ =>
    match guard_elementwise (tens [a; b]) (cdst_of m) (rsize [a]) (rshape [a]) with
    | GOk => if soft a b then GShapeSoft
             else match m with CIncr _ => GModeUnsupported | _ => GOk end
    | g => g
    end
  | ZCmpS _ t _ lft _ m =>
    match guard_elementwise (tens [t]) (cdst_of m) (rsize [t]) (rshape [t]) with
    | GOk => if negb lft && existsb (fun d => requires_iterator d) (tens [t]) then GScalarLeftView
             else match m with CIncr _ => GModeUnsupported | _ => GOk end
    | g => g
    end
  | ZUn _ a m => guard_elementwise (tens [a]) (dst_of m) (rsize [a]) (rshape [a])
  | ZApply _ a m =>
    match m with
    | MReuse _ | MIncr _ => GApplyDest       (* Map never reads the operand in these modes *)
    | _ => guard_elementwise (tens [a]) (dst_of m) (rsize [a]) (rshape [a])
    end
  | ZReduceFn _ a axis _ =>
    match tens [a] with
    | d :: _ =>
      match guard_read d with
      | GOk =>
        if is_cm (ord (d_ap d)) then GOrderMix
        else if negb (is_materializable d) && negb (d_len d =? size (shp (d_ap d))) then GFlagUnsound
        else if uses_bad_default (sort_z [axis]) 0 (shp (d_ap d)) then GReduceDefault
        else GOk
      | g => g
      end
    | [] => GOther
    end
  | ZReduce _ a axes _ =>
    match tens [a] with
    | d :: _ =>
      match guard_read d with
      | GOk =>
        if is_cm (ord (d_ap d)) then GOrderMix
        else if negb (is_materializable d) && negb (d_len d =? size (shp (d_ap d))) then GFlagUnsound
        else if uses_bad_default (sort_z axes) 0 (shp (d_ap d)) then GReduceDefault
        else GOk
      | g => g
      end
    | [] => GOther
    end
  | ZArg _ a _ _ =>
    match tens [a] with
    | d :: _ => match guard_read d with
                | GOk => if is_cm (ord (d_ap d)) then GOrderMix
                         else match o with
                              | ZArg _ _ axis _ =>
                                if (axis =? -1) && (is_materializable d || negb (list_eqb (str (d_ap d)) (calc_strides (shp (d_ap d)))))
                                then GFlatRawWindow else GOk
                              | _ => GOk end
                | g => g end
    | [] => GOther
    end
  | ZStack t _ others | ZConcat t _ others =>
    let ds := tens (t :: others) in
    match filter (fun d => match guard_read d with GOk => false | _ => true end) ds with
    | d :: _ => guard_read d
    | [] => if existsb (fun d => is_cm (ord (d_ap d))) ds then GOrderMix
            (* assignArray's rank-2 vector special case: a (1,n)/(n,1) operand that is a view or carries
               other than unit strides (the guard of C10_concat: F32) *)
            else if match o with ZConcat _ _ _ => true | _ => false end
                    && existsb (fun d => (length (shp (d_ap d)) =? 2)%nat && is_vector (shp (d_ap d))
                                         && (d_view d || negb (allones (str (d_ap d))) || is_some (d_old d))) ds
            then GVectorAxes
            else match o, ds with
                 | ZStack _ _ _, d0 :: _ =>
                   if negb (forallb (fun d => list_eqb (shp (d_ap d)) (shp (d_ap d0))) ds) then GShapeMisfit else GOk
                 | _, _ => GOk
                 end
    end
  | ZLin _ a b m _ =>
    let ds := tens [a; b] in
    let dst := match m with LReuse r | LIncr r => tens [r] | LSafe => [] end in
    match filter (fun d => match guard_read d with GOk => false | _ => true end) (ds ++ dst) with
    | d :: _ => guard_read d
    | [] => if existsb (fun d => d_view d || is_nc (ord (d_ap d))) (ds ++ dst) then GView
            else if existsb (fun d => is_cm (ord (d_ap d))) (ds ++ dst) then GOrderMix
            else GOk
    end
  | ZInner a b _ =>
    match filter (fun d => match guard_read d with GOk => false | _ => true end) (tens [a; b]) with
    | d :: _ => guard_read d
    | [] => if existsb (fun d => d_view d || is_nc (ord (d_ap d)) || is_some (d_old d)) (tens [a; b]) then GView else GOk
    end
  | ZCopyTo s d => guard_op Z σ (OCopy Z d s)
  | ZTensorMul a b _ _ _ =>
    match filter (fun d => match guard_read d with GOk => false | _ => true end) (tens [a; b]) with
    | d :: _ => guard_read d
    | [] => if existsb (fun d => is_cm (ord (d_ap d))) (tens [a; b]) then GOrderMix
            else if existsb (fun d => d_view d || is_some (d_old d)) (tens [a; b]) then GView else GOk
    end
  | ZTrace a _ =>
    match tens [a] with
    | d :: _ => match guard_read d with
                | GOk => if d_view d then GView else GOk
                | g => g end
    | [] => GOther
    end
  | ZRepeat t axis reps =>
    match tens [t] with
    | d :: _ => match guard_read d with
                | GOk => if is_cm (ord (d_ap d)) then GOrderMix
                         else if is_materializable d || negb (list_eqb (str (d_ap d)) (calc_strides (shp (d_ap d)))) then GView
                         else if is_vector (shp (d_ap d)) && (2 <=? zlen (shp (d_ap d))) then GVectorAxes
                         else match shape_repeat (shp (d_ap d)) axis reps with
                              | Ok (ns, _, _, _) =>
                                if negb (pos_shapeb ns) then GEmptyTensor
                                else if is_vector ns && (2 <=? zlen ns) then GVectorAxes else GOk
                              | _ => GOk
                              end
                | g => g end
    | [] => GOther
    end
  end.
