(* PropC20.v — C20, build-tag part: "the in-place transposition (-tags inplacetranspose) is a
   drop-in replacement for the copying one: same resulting storage".
   Only statements; every proof is `exact <lemma of InplaceProofs>` (or a short combination).
   MODEL functions (Inplace.v): transpose_index (Dense.transposeIndex), skip_set / cycle_loop /
   inplace_transpose (denseTranspose<N>, the cycle-following loop with its bitmap),
   scatter_transpose (out[dest i] := data[i] for every i); Mem.m_transpose_d is Dense.Transpose of
   the default build (gather through the flat iterator of the transposed access pattern).
   Vocabulary (InplaceProofs.v):
     perm_dest data dest f := on [0, zlen data): dest i = Some (f i), f maps the interval into
                              itself, f is injective there
     tdest oshape axes i   := rank_rm newshape (permute 0 axes (unrank oshape i)),
                              newshape = permute 0 axes oshape  (result[k] = x[axes[k]])
     gather data idx       := the list of data[idx[j]]  (None = index panic)
   Scope: row-major contiguous source (ostrides = CalcStrides(oshape)), every dimension >= 1,
   axes a permutation of 0..rank-1 (Spec.is_permb). *)
From TV Require Import Base Index AP Iter Mem Spec Inplace IndexProofs IterProofs APProofs MemProofs
     InplaceProofs.

(* ---------- P1: the cycle-following loop, abstract destination map ---------- *)
(* at least 4 elements, dest a bijection of the index interval that fixes both ends: the loop
   terminates within its fuel (2 * size + 2 passes) without an index panic, and position f i of
   the result holds the original element i — no stray vzero is left behind *)
Theorem C20_inplace_transpose_correct : forall (V : Type) (vzero : V) dest (data : list V) f,
  4 <= zlen data -> perm_dest data dest f -> f 0 = 0 -> f (zlen data - 1) = zlen data - 1 ->
  exists out, inplace_transpose V vzero dest data = Some out /\ zlen out = zlen data /\
              forall i, 0 <= i < zlen data -> zget out (f i) = zget data i.
Proof. exact inplace_transpose_correct. Qed.
Print Assumptions C20_inplace_transpose_correct.

(* the inner skip loop, with fuel covering the rest of the bitmap, stops at the first unset
   position at or after i, or at/after the size *)
Theorem C20_skip_set_spec : forall n (track : list bool), zlen track = n ->
  forall fuel i, 0 <= i -> n <= i + Z.of_nat fuel ->
  i <= skip_set fuel track n i /\
  (forall j, i <= j < skip_set fuel track n i -> zget track j = Some true) /\
  (skip_set fuel track n i < n -> zget track (skip_set fuel track n i) = Some false).
Proof. exact skip_set_spec. Qed.
Print Assumptions C20_skip_set_spec.

(* fewer than 4 elements: the in-place build returns the storage untouched *)
Theorem C20_inplace_small : forall (V : Type) (vzero : V) dest (data : list V),
  zlen data < 4 -> inplace_transpose V vzero dest data = Some data.
Proof. exact inplace_small. Qed.
Print Assumptions C20_inplace_small.

(* ---------- P2: the copying reference, and the equality ---------- *)
Theorem C20_scatter_transpose_spec : forall (V : Type) dest (data : list V) f,
  perm_dest data dest f ->
  exists out, scatter_transpose V dest data = Some out /\ zlen out = zlen data /\
              forall i, 0 <= i < zlen data -> zget out (f i) = zget data i.
Proof. exact scatter_transpose_spec. Qed.
Print Assumptions C20_scatter_transpose_spec.

Theorem C20_inplace_eq_scatter : forall (V : Type) (vzero : V) dest (data : list V) f,
  4 <= zlen data -> perm_dest data dest f -> f 0 = 0 -> f (zlen data - 1) = zlen data - 1 ->
  inplace_transpose V vzero dest data = scatter_transpose V dest data.
Proof. exact inplace_eq_scatter. Qed.
Print Assumptions C20_inplace_eq_scatter.

(* ---------- P3: Dense.transposeIndex ---------- *)
Theorem C20_transpose_index_spec : forall oshape axes,
  pos_shape oshape -> is_permb axes (length oshape) = true ->
  let newshape := permute 0 axes oshape in
  forall i, 0 <= i < size oshape ->
    transpose_index oshape (calc_strides oshape) axes (calc_strides newshape) i
    = Some (rank_rm newshape (permute 0 axes (unrank oshape i))).
Proof. exact transpose_index_spec. Qed.
Print Assumptions C20_transpose_index_spec.

(* it is a bijection of [0, size) that fixes the first and the last position *)
Theorem C20_transpose_index_bijection : forall oshape axes,
  pos_shape oshape -> is_permb axes (length oshape) = true ->
  (forall i, 0 <= i < size oshape -> 0 <= tdest oshape axes i < size oshape) /\
  (forall i j, 0 <= i < size oshape -> 0 <= j < size oshape ->
               tdest oshape axes i = tdest oshape axes j -> i = j) /\
  tdest oshape axes 0 = 0 /\ tdest oshape axes (size oshape - 1) = size oshape - 1.
Proof.
  intros oshape axes Hp Hperm.
  exact (conj (tdest_range oshape axes Hp Hperm) (conj (tdest_inj oshape axes Hp Hperm)
        (conj (tdest_first oshape axes Hp Hperm) (tdest_last oshape axes Hp Hperm)))).
Qed.
Print Assumptions C20_transpose_index_bijection.

(* fewer than 4 elements: every transposition leaves the storage order as it is, so the early
   return of the in-place build is harmless *)
Theorem C20_small_transpose_identity : forall oshape axes,
  pos_shape oshape -> is_permb axes (length oshape) = true ->
  forall i, size oshape < 4 -> 0 <= i < size oshape -> tdest oshape axes i = i.
Proof. exact small_transpose_identity. Qed.
Print Assumptions C20_small_transpose_identity.

(* the in-place build, any size: the element of coordinate c of the old layout ends up at the
   row-major rank, in the new shape, of the permuted coordinate *)
Theorem C20_inplace_transpose_is_permuted : forall oshape axes,
  pos_shape oshape -> is_permb axes (length oshape) = true ->
  forall (V : Type) (vzero : V) (data : list V), zlen data = size oshape ->
  let newshape := permute 0 axes oshape in
  exists out,
    inplace_transpose V vzero
      (transpose_index oshape (calc_strides oshape) axes (calc_strides newshape)) data = Some out /\
    zlen out = size oshape /\
    forall c, inbox oshape c ->
      zget out (rank_rm newshape (permute 0 axes c)) = zget data (rank_rm oshape c).
Proof. exact inplace_transpose_is_permuted. Qed.
Print Assumptions C20_inplace_transpose_is_permuted.

(* in-place = "out[transposeIndex i] := data[i]", any size *)
Theorem C20_inplace_eq_scatter_transpose : forall oshape axes,
  pos_shape oshape -> is_permb axes (length oshape) = true ->
  forall (V : Type) (vzero : V) (data : list V), zlen data = size oshape ->
  let tix := transpose_index oshape (calc_strides oshape) axes
                             (calc_strides (permute 0 axes oshape)) in
  inplace_transpose V vzero tix data = scatter_transpose V tix data.
Proof. exact inplace_eq_scatter_transpose. Qed.
Print Assumptions C20_inplace_eq_scatter_transpose.

(* ---------- P4: the default build ---------- *)
(* list level: the gather through the flat iterator of the transposed access pattern (shape
   newshape, strides = the old strides permuted) produces the list of the in-place build *)
Theorem C20_inplace_eq_copying : forall oshape axes,
  pos_shape oshape -> is_permb axes (length oshape) = true ->
  forall (V : Type) (vzero : V) (data : list V) o fn idx, zlen data = size oshape ->
  let newshape := permute 0 axes oshape in
  iter_all (mkAP newshape (permute 0 axes (calc_strides oshape)) o fn) = Some idx ->
  gather data idx
  = inplace_transpose V vzero
      (transpose_index oshape (calc_strides oshape) axes (calc_strides newshape)) data.
Proof. exact inplace_eq_copying. Qed.
Print Assumptions C20_inplace_eq_copying.

(* store level: Dense.Transpose of the default build on a lazily transposed, contiguous,
   row-major tensor: the window afterwards is the in-place transposition of the window before *)
Theorem C20_inplace_eq_copying_store : forall oshape axes,
  pos_shape oshape -> is_permb axes (length oshape) = true ->
  forall (V : Type) (vzero : V) (σ : store V) (d : dense) old o fn,
  let newshape := permute 0 axes oshape in
  wf_dense V σ d -> d_old d = Some old ->
  d_ap d = mkAP newshape (permute 0 axes (calc_strides oshape)) o fn ->
  is_cm o = false -> oshape <> [] -> d_len d = size oshape ->
  exists σ' d', m_transpose_d V σ d = Ok (σ', d') /\
    d_buf d' = d_buf d /\ d_off d' = d_off d /\ d_len d' = d_len d /\
    inplace_transpose V vzero
      (transpose_index oshape (calc_strides oshape) axes (calc_strides newshape)) (window V σ d)
    = Some (window V σ' d').
Proof. exact inplace_eq_copying_store. Qed.
Print Assumptions C20_inplace_eq_copying_store.

(* ---------- examples ---------- *)
(* 2x3x4 tensor 0..23, axes [2;0;1]: new shape 4x2x3 *)
Example C20_example :
  let tix := transpose_index [2; 3; 4] [12; 4; 1] [2; 0; 1] [6; 3; 1] in
  let out := [0; 4; 8; 12; 16; 20; 1; 5; 9; 13; 17; 21; 2; 6; 10; 14; 18; 22; 3; 7; 11; 15; 19; 23] in
  inplace_transpose Z 0 tix (zseq 0 24) = Some out /\
  scatter_transpose Z tix (zseq 0 24) = Some out.
Proof. vm_compute. split; reflexivity. Qed.
Print Assumptions C20_example.

(* fewer than 4 elements (1x3 -> 3x1): the early return and the copying build agree *)
Example C20_small :
  let tix := transpose_index [1; 3] [3; 1] [1; 0] [1; 1] in
  inplace_transpose Z 0 tix [7; 8; 9] = Some [7; 8; 9] /\
  scatter_transpose Z tix [7; 8; 9] = Some [7; 8; 9].
Proof. vm_compute. split; reflexivity. Qed.
Print Assumptions C20_small.

(* the hypotheses "f 0 = 0, f (n-1) = n-1" of P1 are necessary: the bitmap is created with the
   first and the last bit set, so on a destination map that moves them (here a rotation — never
   the case for a transposition, see C20_transpose_index_bijection) the loop stops early and leaves
   a stray vzero *)
Example C20_fixed_ends_needed :
  inplace_transpose Z 0 (fun i => Some ((i + 1) mod 4)) [10; 11; 12; 13] = Some [10; 0; 11; 12] /\
  scatter_transpose Z (fun i => Some ((i + 1) mod 4)) [10; 11; 12; 13] = Some [13; 10; 11; 12].
Proof. vm_compute. split; reflexivity. Qed.
Print Assumptions C20_fixed_ends_needed.
