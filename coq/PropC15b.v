(* PropC15b.v — C15 "Masks are set, counted, iterated and respected consistently", second part:
   filling, masked iteration, physical transposition, masked elementwise operations, the edge
   finders.  Statements only; the proofs are in MaskedProofs2.v.  MODEL = Masked.v k_* ; SPEC =
   Masked.v ks_* on the row-major lists of the logical array.
   Vocabulary (MaskedProofs2.v):
     wf_mt V t      positive shape, as many strides as axes, every offset of the box inside the
                    data window (any layout: lazily transposed, sliced, ...)
     emask V t      the mask the iterators and MaskAt consult: t's mask when IsMasked, [] otherwise
     bit m o        nth o m false
     offsets a      the offsets of the box in logical (row-major coordinate) order *)
From TV Require Import Base Index AP Iter Mem Spec Serial Masked IndexProofs IterProofs APProofs
  MaskedProofs MaskedProofs2.
Local Open Scope Z_scope.

Ltac solve_wf :=
  split; [apply Forall_forall; intros d Hd; vm_compute in Hd; intuition lia|];
  split; [reflexivity|];
  apply Forall_forall; intros o Ho; vm_compute in Ho;
  match goal with |- context [mt_len Z ?t] =>
    let n := eval vm_compute in (mt_len Z t) in change (mt_len Z t) with n end;
  intuition lia.

(* ================= M1  filling ================= *)
(* Filled, any layout: a clone with the pattern and the mask of t; at every coordinate the fill
   value where the mask bit is set, the old value elsewhere (ks_fill on the logical lists) *)
Theorem C15_filled_spec : forall (V : Type) (t : mten V) (fv : V),
  k_is_masked V t = true -> wf_mt V t ->
  exists t', k_filled V t fv = Ok t' /\
    mt_ap V t' = mt_ap V t /\ mt_old V t' = mt_old V t /\ mt_mask V t' = mt_mask V t /\
    k_is_masked V t' = true /\
    k_logical_mask V t' = k_logical_mask V t /\
    forall vals bits, k_logical V t = map Ok vals -> k_logical_mask V t = map Ok bits ->
      k_logical V t' = map Ok (ks_fill V fv vals bits).
Proof. exact filled_spec_thm. Qed.
Print Assumptions C15_filled_spec.

(* FilledInplace: the same on t itself (view flag, soft flag, pending transpose untouched) *)
Theorem C15_filled_inplace_spec : forall (V : Type) (t : mten V) (fv : V),
  k_is_masked V t = true -> wf_mt V t ->
  exists t', k_filled_inplace V t fv = Ok t' /\
    mt_ap V t' = mt_ap V t /\ mt_old V t' = mt_old V t /\ mt_view V t' = mt_view V t /\
    mt_mask V t' = mt_mask V t /\ mt_soft V t' = mt_soft V t /\
    k_is_masked V t' = true /\
    k_logical_mask V t' = k_logical_mask V t /\
    forall vals bits, k_logical V t = map Ok vals -> k_logical_mask V t = map Ok bits ->
      k_logical V t' = map Ok (ks_fill V fv vals bits).
Proof. exact filled_inplace_spec_thm. Qed.
Print Assumptions C15_filled_inplace_spec.

(* the logical lists quantified over above exist for every well-formed tensor *)
Theorem C15_logical_total : forall (V : Type) (t : mten V), wf_mt V t ->
  exists vals bits, k_logical V t = map Ok vals /\ k_logical_mask V t = map Ok bits.
Proof. exact logical_total. Qed.
Print Assumptions C15_logical_total.

Theorem C15_filled_unmasked : forall (V : Type) (t : mten V) (fv : V),
  k_is_masked V t = false ->
  k_filled V t fv = Ok (k_clone V t) /\ k_filled_inplace V t fv = Ok t.
Proof. exact filled_unmasked_thm. Qed.
Print Assumptions C15_filled_unmasked.

(* ================= M2  masked iteration ================= *)
(* NextValidity until exhaustion: the offsets in logical order, each with valid = not masked,
   and MaskAt reads that same bit *)
Theorem C15_validity_spec : forall (V : Type) (t : mten V), wf_mt V t ->
  k_validity V t = Ok (map (fun c => (dot (str (mt_ap V t)) c,
                                      negb (bit (emask V t) (dot (str (mt_ap V t)) c))))
                           (coords (shp (mt_ap V t)))) /\
  forall c, inbox (shp (mt_ap V t)) c ->
    k_maskat V t c = Ok (bit (emask V t) (dot (str (mt_ap V t)) c)).
Proof. exact validity_spec_thm. Qed.
Print Assumptions C15_validity_spec.

(* the same without helpers: validity is the negation of the logical mask, entry by entry *)
Theorem C15_validity_agrees : forall (V : Type) (t : mten V), wf_mt V t ->
  exists vl, k_validity V t = Ok vl /\
    map fst vl = map (fun c => dot (str (mt_ap V t)) c) (coords (shp (mt_ap V t))) /\
    map (fun p => Ok (negb (snd p))) vl = k_logical_mask V t.
Proof. exact validity_agrees_thm. Qed.
Print Assumptions C15_validity_agrees.

(* ================= M3  physical transposition ================= *)
(* Transpose() of a lazily transposed tensor, EVERY rank (transposeMask and the data kernels
   gather through the same flat iterator): the result is physically row-major and both the
   logical values and the logical mask are what they were.
   Guards: not a vector (the vector branch only rewrites the strides), row-major data order
   (see the two refutations below), window at least as long as the element count. *)
Theorem C15_mask_follows_transpose : forall (V : Type) (is_string : bool) (t : mten V) (o : ap),
  mt_old V t = Some o -> wf_mt V t ->
  shp (mt_ap V t) <> [] -> is_vector (shp (mt_ap V t)) = false ->
  is_cm (ord (mt_ap V t)) = false ->
  mt_size V t <= mt_len V t ->
  exists t', k_transpose V is_string t = Ok t' /\
    mt_old V t' = None /\ shp (mt_ap V t') = shp (mt_ap V t) /\
    str (mt_ap V t') = calc_strides (shp (mt_ap V t)) /\
    k_is_masked V t' = k_is_masked V t /\
    k_logical V t' = k_logical V t /\ k_logical_mask V t' = k_logical_mask V t.
Proof. exact transpose_keeps_logical_thm. Qed.
Print Assumptions C15_mask_follows_transpose.

(* guard 1: column-major data order.  The kernels lay the elements out in ROW-major order of the
   transposed shape and then install COLUMN-major strides: values and mask move together but
   both end up at the wrong coordinates *)
Theorem C15_transpose_colmajor_refuted :
  let t := mkMT Z (mkAP [3; 2] [2; 1] 5 true) (Some (mkAP [2; 3] [1; 2] 1 true)) false
                [0; 1; 2; 3; 4; 5] [false; true; false; false; false; true] false in
  wf_mt Z t /\ is_cm (ord (mt_ap Z t)) = true /\
  k_logical Z t = map Ok [0; 1; 2; 3; 4; 5] /\
  res_map (k_logical Z) (k_transpose Z false t) = Ok (map Ok [0; 3; 1; 4; 2; 5]) /\
  k_logical_mask Z t = map Ok [false; true; false; false; false; true] /\
  res_map (k_logical_mask Z) (k_transpose Z false t) = Ok (map Ok [false; false; true; false; false; true]).
Proof.
  cbn zeta. split.
  - solve_wf.
  - vm_compute. repeat split; reflexivity.
Qed.
Print Assumptions C15_transpose_colmajor_refuted.

(* guard 2: a strided vector view with a pending transpose: only the strides are rewritten *)
Theorem C15_transpose_strided_vector_refuted :
  let t := mkMT Z (mkAP [1; 3] [1; 2] 4 true) (Some (mkAP [3; 1] [2; 1] 0 true)) true
                [0; 1; 2; 3; 4; 5] [false; true; false; false; false; true] false in
  wf_mt Z t /\ is_vector (shp (mt_ap Z t)) = true /\
  k_logical Z t = map Ok [0; 2; 4] /\
  res_map (k_logical Z) (k_transpose Z false t) = Ok (map Ok [0; 1; 2]) /\
  k_logical_mask Z t = map Ok [false; false; false] /\
  res_map (k_logical_mask Z) (k_transpose Z false t) = Ok (map Ok [false; true; false]).
Proof.
  cbn zeta. split.
  - solve_wf.
  - vm_compute. repeat split; reflexivity.
Qed.
Print Assumptions C15_transpose_strided_vector_refuted.

(* ================= M4  masked elementwise operations ================= *)
(* a.Op(b), iterator path, operands of any layout (a's offsets distinct since a's clone is
   written while it is read): the result is a clone of a with a's pattern; ITS MASK IS THE FIRST
   OPERAND'S (b's mask is not merged: [] when a is not masked); at every coordinate valid in both
   operands it holds vop x y; at a coordinate masked in either operand the iterator path leaves
   the first operand's element x (the property does not specify those positions) *)
Theorem C15_binop_valid_positions : forall (V : Type) (vop : V -> V -> V) (a b : mten V),
  wf_mt V a -> wf_mt V b -> shp (mt_ap V a) = shp (mt_ap V b) -> NoDup (offsets (mt_ap V a)) ->
  mt_len V a <> 1 -> mt_len V b <> 1 -> use_iter V a b None = true ->
  exists r, k_binop V vop a b = Ok r /\
    mt_ap V r = mt_ap V a /\ mt_old V r = mt_old V a /\ mt_mask V r = emask V a /\
    forall c, inbox (shp (mt_ap V a)) c ->
      exists x y ma mb,
        window_at (mt_data V a) (shp (mt_ap V a)) (str (mt_ap V a)) c = Ok x /\
        window_at (mt_data V b) (shp (mt_ap V b)) (str (mt_ap V b)) c = Ok y /\
        k_maskat V a c = Ok ma /\ k_maskat V b c = Ok mb /\
        k_maskat V r c = Ok ma /\
        window_at (mt_data V r) (shp (mt_ap V r)) (str (mt_ap V r)) c
        = Ok (if ma || mb then x else vop x y).
Proof. exact binop_valid_positions_thm. Qed.
Print Assumptions C15_binop_valid_positions.

(* UseUnsafe(): the same values written into a itself (flags, mask, pending transpose kept) *)
Theorem C15_binop_unsafe_valid_positions : forall (V : Type) (vop : V -> V -> V) (a b : mten V),
  wf_mt V a -> wf_mt V b -> shp (mt_ap V a) = shp (mt_ap V b) -> NoDup (offsets (mt_ap V a)) ->
  mt_len V a <> 1 -> mt_len V b <> 1 -> use_iter V a b None = true ->
  exists r, k_binop_unsafe V vop a b = Ok r /\
    mt_ap V r = mt_ap V a /\ mt_old V r = mt_old V a /\ mt_view V r = mt_view V a /\
    mt_mask V r = mt_mask V a /\ mt_soft V r = mt_soft V a /\
    forall c, inbox (shp (mt_ap V a)) c ->
      exists x y ma mb,
        window_at (mt_data V a) (shp (mt_ap V a)) (str (mt_ap V a)) c = Ok x /\
        window_at (mt_data V b) (shp (mt_ap V b)) (str (mt_ap V b)) c = Ok y /\
        k_maskat V a c = Ok ma /\ k_maskat V b c = Ok mb /\
        k_maskat V r c = Ok ma /\
        window_at (mt_data V r) (shp (mt_ap V r)) (str (mt_ap V r)) c
        = Ok (if ma || mb then x else vop x y).
Proof. exact binop_unsafe_valid_positions_thm. Qed.
Print Assumptions C15_binop_unsafe_valid_positions.

(* the hypothesis [use_iter = true] holds as soon as one operand is masked *)
Theorem C15_masked_operands_use_iterator : forall (V : Type) (a b : mten V) (r : option (mten V)),
  k_is_masked V a = true \/ k_is_masked V b = true ->
  mt_len V a <> 1 -> mt_len V b <> 1 -> use_iter V a b r = true.
Proof. exact masked_operands_use_iterator_thm. Qed.
Print Assumptions C15_masked_operands_use_iterator.

(* where the paths DIFFER: one-cell operands (the length-one dispatch of OpIter, and the
   contiguous kernel, which a masked operand reaches only with one cell) apply the operation
   whatever the masks say, instead of keeping the first operand's element *)
Theorem C15_binop_one_cell : forall (V : Type) (vop : V -> V -> V) (a b : mten V) (x y : V),
  mt_data V a = [x] -> mt_data V b = [y] ->
  k_binop V vop a b = Ok (with_data V (k_clone V a) [vop x y]) /\
  k_binop_unsafe V vop a b = Ok (with_data V a [vop x y]).
Proof. exact binop_one_cell_thm. Qed.
Print Assumptions C15_binop_one_cell.

(* WithIncr(r): z + (x op y) at every coordinate valid in all three tensors, z elsewhere *)
Theorem C15_binop_incr_valid_positions :
  forall (V : Type) (vop vadd : V -> V -> V) (a b r : mten V),
  wf_mt V a -> wf_mt V b -> wf_mt V r ->
  shp (mt_ap V a) = shp (mt_ap V b) -> shp (mt_ap V a) = shp (mt_ap V r) ->
  NoDup (offsets (mt_ap V r)) -> use_iter V a b (Some r) = true ->
  exists r', k_binop_incr V vop vadd a b r = Ok r' /\
    mt_ap V r' = mt_ap V r /\ mt_old V r' = mt_old V r /\ mt_view V r' = mt_view V r /\
    mt_mask V r' = mt_mask V r /\ mt_soft V r' = mt_soft V r /\
    forall c, inbox (shp (mt_ap V a)) c ->
      exists x y z ma mb mr,
        window_at (mt_data V a) (shp (mt_ap V a)) (str (mt_ap V a)) c = Ok x /\
        window_at (mt_data V b) (shp (mt_ap V b)) (str (mt_ap V b)) c = Ok y /\
        window_at (mt_data V r) (shp (mt_ap V r)) (str (mt_ap V r)) c = Ok z /\
        k_maskat V a c = Ok ma /\ k_maskat V b c = Ok mb /\ k_maskat V r c = Ok mr /\
        window_at (mt_data V r') (shp (mt_ap V r')) (str (mt_ap V r')) c
        = Ok (if ma || mb || mr then z else vadd z (vop x y)).
Proof. exact binop_incr_valid_positions_thm. Qed.
Print Assumptions C15_binop_incr_valid_positions.

(* WithReuse(r): r is first overwritten with EVERY element of a, then the kernel consults the
   masks of r and b only (a's own mask plays no part): x op y where r and b are valid, a's
   element x elsewhere.  In particular x op y at every coordinate valid in all operands *)
Theorem C15_binop_reuse_valid_positions :
  forall (V : Type) (vop : V -> V -> V) (a b r : mten V),
  wf_mt V a -> wf_mt V b -> wf_mt V r ->
  shp (mt_ap V a) = shp (mt_ap V b) -> shp (mt_ap V a) = shp (mt_ap V r) ->
  NoDup (offsets (mt_ap V r)) -> mt_len V r <> 1 -> mt_len V b <> 1 ->
  use_iter V a b (Some r) = true ->
  exists r', k_binop_reuse V vop a b r = Ok r' /\
    mt_ap V r' = mt_ap V r /\ mt_old V r' = mt_old V r /\ mt_view V r' = mt_view V r /\
    mt_mask V r' = mt_mask V r /\ mt_soft V r' = mt_soft V r /\
    forall c, inbox (shp (mt_ap V a)) c ->
      exists x y mb mr,
        window_at (mt_data V a) (shp (mt_ap V a)) (str (mt_ap V a)) c = Ok x /\
        window_at (mt_data V b) (shp (mt_ap V b)) (str (mt_ap V b)) c = Ok y /\
        k_maskat V b c = Ok mb /\ k_maskat V r c = Ok mr /\
        window_at (mt_data V r') (shp (mt_ap V r')) (str (mt_ap V r')) c
        = Ok (if mr || mb then x else vop x y).
Proof. exact binop_reuse_valid_positions_thm. Qed.
Print Assumptions C15_binop_reuse_valid_positions.

(* ================= M5a  the edge finders ================= *)
(* any layout: the first wanted offset met by the forward iterator and the first one met by the
   reversed iterator *)
Theorem C15_edges_follow_iterator : forall (V : Type) (t : mten V) (want : bool),
  k_is_masked V t = true -> wf_mt V t ->
  k_edges V want t
  = Ok (first_offs want (mt_mask V t) (offsets (mt_ap V t)),
        first_offs want (mt_mask V t) (rev (offsets (mt_ap V t)))).
Proof. exact edges_follow_iterator_thm. Qed.
Print Assumptions C15_edges_follow_iterator.

(* whole-window row-major: first and last flat index of the wanted kind, (-1, -1) when none *)
Theorem C15_edges_spec : forall (V : Type) (t : mten V) (want : bool),
  plain_masked V t -> k_edges V want t = Ok (ks_edges want (mt_mask V t)).
Proof. exact edges_spec_thm. Qed.
Print Assumptions C15_edges_spec.

(* ================= M5b  counts / any / all of views, MaskedReduce per axis ================= *)
(* count, non-masked count, any, all of a masked tensor of ANY layout (the views MaskedReduce
   cuts are strided): the bits at the offsets of the box, folded by the SPEC functions.
   [red_of f] is ks_count / ks_noncount / ks_any / ks_all wrapped in the result type.
   The third hypothesis covers the shortcut taken when the mask is as long as the element
   count: it then must be the box itself (true for contiguous views) *)
Theorem C15_counts_any_all_any_layout : forall (V : Type) (ts : mten V) (f : redfn),
  k_is_masked V ts = true -> wf_mt V ts ->
  (zlen (mt_mask V ts) = mt_size V ts -> offsets (mt_ap V ts) = zseq 0 (length (mt_mask V ts))) ->
  do_red V f ts = Ok (red_of f (map (bit (mt_mask V ts)) (offsets (mt_ap V ts)))).
Proof. exact do_red_bits_thm. Qed.
Print Assumptions C15_counts_any_all_any_layout.

(* MaskedReduce(axis) on EXACTLY the domain where the model does not panic (whole-window
   row-major masked tensors, axis in range):
     (H1) the result pattern — shape without the axis, default strides — is NOT vector-like
          (so: rank >= 3; e.g. every 2-D tensor is outside, every tensor of rank >= 3 whose
          extents are all >= 2 is inside), and
     (H2) the probe view (the axis sliced to [0,0)) is not a one-cell window.
   There the result is the SPEC: shape without the axis, entry c' = f of the lane through c'.
   Outside (see the refutations below): a vector operand answers the whole-tensor scalar, every
   other operand PANICS. *)
Theorem C15_reduce_axis_spec : forall (V : Type) (t : mten V) (f : redfn) (ax : nat),
  plain_masked V t -> (ax < length (shp (mt_ap V t)))%nat ->
  ap_is_vectorlike (mkAP (ks_remove_at ax (shp (mt_ap V t)))
                         (calc_strides (ks_remove_at ax (shp (mt_ap V t)))) 0 true) = false ->
  size (shp (mt_ap V t)) - nth ax (shp (mt_ap V t)) 0 * nth ax (calc_strides (shp (mt_ap V t))) 0 <> 1 ->
  k_reduce V f t (Some (Z.of_nat ax))
  = Ok (RTensor (fst (ks_reduce_axis (red_of f) (shp (mt_ap V t)) ax (mt_mask V t)))
                (snd (ks_reduce_axis (red_of f) (shp (mt_ap V t)) ax (mt_mask V t)))).
Proof. exact reduce_axis_spec_thm. Qed.
Print Assumptions C15_reduce_axis_spec.

Definition rmm (sh : list Z) (mask : list bool) : mten Z :=
  mkMT Z (mkAP sh (calc_strides sh) 0 true) None false (zseq 0 (length mask)) mask false.

(* outside the domain.  (a) H1 fails, result vector-like: every matrix, and rank 3 with a
   result like (3,1); (b) H1 holds, H2 fails: shape (1,2,1), last axis; (c) a vector operand
   does not panic but answers the scalar of the whole tensor instead of the per-lane tensor *)
Theorem C15_reduce_axis_outside_domain :
  k_reduce Z RCount (rmm [2; 3] [false; true; false; false; false; true]) (Some 0) = Panic /\
  k_reduce Z RCount (rmm [2; 3] [false; true; false; false; false; true]) (Some 1) = Panic /\
  k_reduce Z RCount (rmm [2; 3; 1] [false; true; false; false; false; true]) (Some 0) = Panic /\
  (ap_is_vectorlike (mkAP (ks_remove_at 2 [1; 2; 1]) (calc_strides (ks_remove_at 2 [1; 2; 1])) 0 true) = false /\
   size [1; 2; 1] - nth 2 [1; 2; 1] 0 * nth 2 (calc_strides [1; 2; 1]) 0 = 1 /\
   k_reduce Z RCount (rmm [1; 2; 1] [false; true]) (Some 2) = Panic) /\
  (k_reduce Z RCount (rmm [1; 5] [true; false; false; true; false]) (Some 0) = Ok (RScalar (RVInt 2)) /\
   ks_reduce_axis (red_of RCount) [1; 5] 0 [true; false; false; true; false]
   = ([5], [RVInt 1; RVInt 0; RVInt 0; RVInt 1; RVInt 0])).
Proof. vm_compute. repeat split; reflexivity. Qed.
Print Assumptions C15_reduce_axis_outside_domain.

(* ================= non-vacuity: a masked 2x3 tensor and its lazily transposed form ========= *)
Definition t23 : mten Z :=
  mkMT Z (mkAP [2; 3] [3; 1] 0 true) None false [10; 11; 12; 13; 14; 15]
       [false; true; false; false; false; true] false.
(* t23.T(): shape (3,2), strides (1,3), the old pattern backed up *)
Definition t32 : mten Z :=
  mkMT Z (mkAP [3; 2] [1; 3] 4 true) (Some (mkAP [2; 3] [3; 1] 0 true)) false
       [10; 11; 12; 13; 14; 15] [false; true; false; false; false; true] false.
(* second operands of the two shapes, masked elsewhere; u32 is physically (3,2) row-major *)
Definition u23 : mten Z :=
  mkMT Z (mkAP [2; 3] [3; 1] 0 true) None false [100; 200; 300; 400; 500; 600]
       [true; true; false; false; false; false] false.
Definition u32 : mten Z :=
  mkMT Z (mkAP [3; 2] [2; 1] 0 true) None false [100; 200; 300; 400; 500; 600]
       [true; false; false; false; true; false] false.

Example C15b_tensors_wf :
  k_T Z false t23 [] = Ok t32 /\
  wf_mt Z t23 /\ wf_mt Z t32 /\ wf_mt Z u23 /\ wf_mt Z u32 /\
  k_is_masked Z t23 = true /\ k_is_masked Z t32 = true /\ plain_masked Z t23 /\
  k_logical Z t23 = map Ok [10; 11; 12; 13; 14; 15] /\
  k_logical_mask Z t23 = map Ok [false; true; false; false; false; true] /\
  k_logical Z t32 = map Ok [10; 13; 11; 14; 12; 15] /\
  k_logical_mask Z t32 = map Ok [false; false; true; false; false; true].
Proof.
  split; [reflexivity|]. split; [solve_wf|]. split; [solve_wf|]. split; [solve_wf|].
  split; [solve_wf|]. split; [reflexivity|]. split; [reflexivity|]. split.
  - split; [reflexivity|]. split; [apply Forall_forall; intros d Hd; vm_compute in Hd; intuition lia|]. split; reflexivity.
  - vm_compute. repeat split; reflexivity.
Qed.

(* M1 *)
Example C15b_filled_example :
  res_map (k_logical Z) (k_filled Z t23 99) = Ok (map Ok (ks_fill Z 99 [10; 11; 12; 13; 14; 15] [false; true; false; false; false; true])) /\
  res_map (k_logical Z) (k_filled Z t32 99) = Ok (map Ok (ks_fill Z 99 [10; 13; 11; 14; 12; 15] [false; false; true; false; false; true])) /\
  res_map (k_logical Z) (k_filled_inplace Z t32 99) = Ok (map Ok [10; 13; 99; 14; 12; 99]) /\
  res_map (mt_data Z) (k_filled Z t32 99) = Ok [10; 99; 12; 13; 14; 99].
Proof. vm_compute. repeat split; reflexivity. Qed.

(* M2 *)
Example C15b_validity_example :
  k_validity Z t23 = Ok [(0, true); (1, false); (2, true); (3, true); (4, true); (5, false)] /\
  k_validity Z t32 = Ok [(0, true); (3, true); (1, false); (4, true); (2, true); (5, false)].
Proof. vm_compute. split; reflexivity. Qed.

(* M3, rank 2 and rank 3 *)
Example C15b_transpose_example :
  (exists t', k_transpose Z false t32 = Ok t' /\
     mt_data Z t' = [10; 13; 11; 14; 12; 15] /\
     mt_mask Z t' = [false; false; true; false; false; true] /\
     k_logical Z t' = k_logical Z t32 /\ k_logical_mask Z t' = k_logical_mask Z t32) /\
  (let t3 := mkMT Z (mkAP [4; 3; 2] [1; 4; 12] 4 true) (Some (mkAP [2; 3; 4] [12; 4; 1] 0 true)) false
                  (zseq 0 24) (map (fun k => k mod 5 =? 0) (zseq 0 24)) false in
   wf_mt Z t3 /\
   exists t', k_transpose Z false t3 = Ok t' /\ str (mt_ap Z t') = [6; 2; 1] /\
     k_logical Z t' = k_logical Z t3 /\ k_logical_mask Z t' = k_logical_mask Z t3).
Proof.
  split.
  - eexists. split; [vm_compute; reflexivity|]. vm_compute. repeat split; reflexivity.
  - cbn zeta. split; [solve_wf|].
    eexists. split; [vm_compute; reflexivity|]. vm_compute. repeat split; reflexivity.
Qed.

(* M4: the masked position of either operand keeps the first operand's element *)
Example C15b_binop_example :
  NoDup (offsets (mt_ap Z t32)) /\ use_iter Z t32 u32 None = true /\
  res_map (fun r => (k_logical Z r, k_logical_mask Z r)) (k_binop Z Z.add t23 u23)
  = Ok (map Ok [10; 11; 312; 413; 514; 15], map Ok [false; true; false; false; false; true]) /\
  res_map (fun r => (k_logical Z r, k_logical_mask Z r)) (k_binop Z Z.add t32 u32)
  = Ok (map Ok [10; 213; 11; 414; 12; 15], map Ok [false; false; true; false; false; true]) /\
  res_map (k_logical Z) (k_binop_unsafe Z Z.add t32 u32) = Ok (map Ok [10; 213; 11; 414; 12; 15]).
Proof.
  split; [vm_compute; repeat constructor; cbn; intuition lia|].
  vm_compute. repeat split; reflexivity.
Qed.

(* M5a *)
Example C15b_edges_example :
  k_edges Z true t23 = Ok (1, 5) /\ k_edges Z false t23 = Ok (0, 4) /\
  ks_edges true (mt_mask Z t23) = (1, 5) /\ ks_edges false (mt_mask Z t23) = (0, 4) /\
  k_edges Z true t32 = Ok (1, 5) /\ k_edges Z false t32 = Ok (0, 2).
Proof. vm_compute. repeat split; reflexivity. Qed.

Definition r32 : mten Z :=
  mkMT Z (mkAP [3; 2] [2; 1] 0 true) None false [1000; 2000; 3000; 4000; 5000; 6000]
       [false; false; false; false; false; true] false.

(* M4, WithIncr / WithReuse on the lazily transposed operand (t32's mask bit at (1,0) is ignored
   by WithReuse: 311 = 11 + 300) *)
Example C15b_incr_reuse_example :
  wf_mt Z r32 /\ NoDup (offsets (mt_ap Z r32)) /\ use_iter Z t32 u32 (Some r32) = true /\
  res_map (k_logical Z) (k_binop_incr Z Z.add Z.add t32 u32 r32)
  = Ok (map Ok [1000; 2213; 3000; 4414; 5000; 6000]) /\
  res_map (k_logical Z) (k_binop_reuse Z Z.add t32 u32 r32)
  = Ok (map Ok [10; 213; 311; 414; 12; 15]).
Proof.
  split; [solve_wf|]. split; [vm_compute; repeat constructor; cbn; intuition lia|].
  vm_compute. repeat split; reflexivity.
Qed.

(* M5b: counts through the iterator on the lazily transposed tensor and on a strided view;
   the per-axis reduction PANICS on the 2x3 tensor and on its transposed form (outside the
   domain), and agrees with the SPEC on a 2x3x2 tensor along every axis *)
Example C15b_reduce_example :
  do_red Z RCount t32 = Ok (RVInt 2) /\ do_red Z RAll t32 = Ok (RVBool false) /\
  (let v3 := mkMT Z (mkAP [3] [2] 2 true) None true [0; 1; 2; 3; 4] [true; true; false; false; true] false in
   wf_mt Z v3 /\ do_red Z RCount v3 = Ok (RVInt 2) /\ do_red Z RNonCount v3 = Ok (RVInt 1) /\
   do_red Z RAny v3 = Ok (RVBool true) /\ do_red Z RAll v3 = Ok (RVBool false)) /\
  k_reduce Z RCount t23 (Some 1) = Panic /\ k_reduce Z RCount t32 (Some 0) = Panic /\
  (let t232 := rmm [2; 3; 2] [false; true; false; false; false; true; true; true; false; false; true; false] in
   plain_masked Z t232 /\
   ap_is_vectorlike (mkAP (ks_remove_at 1 [2; 3; 2]) (calc_strides (ks_remove_at 1 [2; 3; 2])) 0 true) = false /\
   k_reduce Z RCount t232 (Some 0) = Ok (RTensor [3; 2] [RVInt 1; RVInt 2; RVInt 0; RVInt 0; RVInt 1; RVInt 1]) /\
   k_reduce Z RNonCount t232 (Some 1) = Ok (RTensor [2; 2] [RVInt 3; RVInt 1; RVInt 1; RVInt 2]) /\
   k_reduce Z RAny t232 (Some 2)
   = Ok (RTensor [2; 3] [RVBool true; RVBool false; RVBool true; RVBool true; RVBool false; RVBool true]) /\
   ks_reduce_axis (red_of RAny) [2; 3; 2] 2 (mt_mask Z t232)
   = ([2; 3], [RVBool true; RVBool false; RVBool true; RVBool true; RVBool false; RVBool true])).
Proof.
  split; [reflexivity|]. split; [reflexivity|]. split.
  - cbn zeta. split; [solve_wf|]. vm_compute. repeat split; reflexivity.
  - split; [reflexivity|]. split; [reflexivity|]. cbn zeta. split.
    + split; [reflexivity|]. split; [apply Forall_forall; intros d Hd; vm_compute in Hd; intuition lia|].
      split; reflexivity.
    + vm_compute. repeat split; reflexivity.
Qed.
